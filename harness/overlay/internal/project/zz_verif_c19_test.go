package project

// Correspondence harness for C19 (added to the package through `go test -overlay`; never committed to /repo).
// Generates configurations, writes them with WriteConfigFile, loads the file back with LoadConfigFile, writes
// the loaded configuration again; evaluates the direct oracle (loaded == original up to nil/empty, second
// bytes == first bytes) for the VALID ones and emits everything for the model to reproduce.
// One JSON object per line in $VERIF_OUT:
//   {"t":"cfg","kind":..,"cfg":C,"valid":bool,"werr":bool,"bytes":hex,"lerr":bool,"loaded":C|null,"bytes2":hex}
//   {"t":"semver","s":hex,"ok":bool}        semver.IsValid(s) && semver.Canonical(s) == s
//   {"t":"clean","s":hex,"out":hex,"ref":hex}   CleanPath(s); ref = the harness's own definition of the clean form
//   {"t":"ORACLE","name":..,"cfg":C,"bytes":hex,"detail":..,"from":kind,"orig":C}   (cfg = the shrunk failing configuration)
//
// "Valid" (the property's quantifier) is decided WITHOUT the code under test: valid UTF-8, canonical semver by
// x/mod/semver, and a path in clean form by c19refClean below (path.Clean of the part before the last '@' of the
// final segment; the suffixes "", v0, v1 are not part of a clean path).  The check ties c19refClean to the Coq
// model's clean_path on every string it is applied to, so the three definitions (model, reference, CleanPath) agree
// on the unchanged tree, and a CleanPath that drifts shows up as a valid configuration that does not round-trip.
//
// Every string on which a function-level case (semver / clean) is emitted and that lies inside the quantifier is
// ALSO put into a whole configuration (packed several to a configuration) and goes through the direct oracle; a
// failing configuration is shrunk (keep-one-item, then remove-one-item) before it is reported.
//
// REWRITING IN PLACE (dawn get / dawn tidy load dawn.toml, change the configuration and write it to the SAME path):
// the destination's previous state is an input of WriteConfigFile.  Every configuration is therefore also written
// over a destination that is not fresh, and the oracle is: the bytes at the path afterwards are the bytes of a write
// to a fresh path, and LoadConfigFile(path) gives the configuration written.  Families: (A) every generated
// configuration over the serialisation of the previous one; (B) base configurations x explicit previous states
// (absent, empty, identical, own bytes + a tail, a truncated earlier write, the serialisation of a superset / subset
// configuration, a hand-written layout with comments, random bytes shorter/equal/longer, 64 KiB, a symbolic link);
// (C) get/tidy histories: a hand-written or canonical file, then load-modify-write steps on the one path;
// (D) a hand-written layout (comments, alignment, basic strings, multi-line arrays, sub-tables, CRLF, compact) of
// every valid configuration, loaded and written back in place ("loses nothing but comments and layout").
//   {"t":"rw","prior":kind,"cfg":C,"valid":bool,"old":hex|null,"bytes":hex}   file at the path after the rewrite (family B)
//   ORACLE records of these families also carry "old" (hex|null), "prior", "fresh" (hex) and "history" ([C..]).
// C = {"name":hex,"version":hex,"ignore":[hex..],"reqs":[[namehex,pathhex,versionhex]..]} (reqs sorted by name)
//
// FREE-FORM FIELDS: see c19crossStrings.  Kinds free-all / free-name / free-version / free-ignore / free-key (one string of
// a foreign domain in the positions the quantifier does not restrict), free-ignore-sequence (order, repetition, empty
// patterns), free-near-keys / free-near-ignore (two strings that a normalisation would identify, side by side).

import (
	"bufio"
	"encoding/hex"
	"encoding/json"
	"fmt"
	"math/rand"
	"os"
	"path/filepath"
	"reflect"
	"sort"
	"path"
	"strconv"
	"strings"
	"testing"
	"unicode/utf8"

	"golang.org/x/mod/semver"
)

type c19cfg struct {
	Name    string      `json:"name"`
	Version string      `json:"version"`
	Ignore  []string    `json:"ignore"`
	Reqs    [][3]string `json:"reqs"`
}

func c19hx(s string) string { return hex.EncodeToString([]byte(s)) }

func c19export(c *Config) *c19cfg {
	if c == nil {
		return nil
	}
	o := &c19cfg{Name: c19hx(c.Name), Version: c19hx(c.Version), Ignore: []string{}, Reqs: [][3]string{}}
	for _, g := range c.Ignore {
		o.Ignore = append(o.Ignore, c19hx(g))
	}
	names := make([]string, 0, len(c.Requirements))
	for k := range c.Requirements {
		names = append(names, k)
	}
	sort.Strings(names)
	for _, k := range names {
		r := c.Requirements[k]
		o.Reqs = append(o.Reqs, [3]string{c19hx(k), c19hx(r.Path), c19hx(r.Version)})
	}
	return o
}

// c19refClean: the clean form of a requirement path, written from the documentation of the format and not from
// version.go: the major-version suffix is what follows the LAST '@' of the FINAL '/'-separated segment; the part
// before it is cleaned with path.Clean; an empty suffix, "v0" and "v1" are dropped.
func c19refClean(p string) string {
	seg := p[strings.LastIndexByte(p, '/')+1:]
	at := strings.LastIndexByte(seg, '@')
	if at < 0 {
		return path.Clean(p)
	}
	prefix, major := p[:len(p)-len(seg)+at], seg[at+1:]
	switch major {
	case "", "v0", "v1":
		return path.Clean(prefix)
	}
	return path.Clean(prefix) + "@" + major
}

func c19canonical(v string) bool { return semver.IsValid(v) && semver.Canonical(v) == v }

func c19valid(c *Config) bool {
	ok := utf8.ValidString(c.Name) && utf8.ValidString(c.Version)
	for _, g := range c.Ignore {
		ok = ok && utf8.ValidString(g)
	}
	for k, r := range c.Requirements {
		ok = ok && utf8.ValidString(k) && utf8.ValidString(r.Path) && utf8.ValidString(r.Version)
		ok = ok && c19canonical(r.Version)
		ok = ok && c19refClean(r.Path) == r.Path
	}
	return ok
}

// equality up to nil/empty slices and maps
func c19same(a, b *Config) bool {
	return reflect.DeepEqual(c19export(a), c19export(b))
}

func c19write(path string, c *Config) (err error, panicked bool) {
	defer func() {
		if x := recover(); x != nil {
			panicked = true
		}
	}()
	err = WriteConfigFile(path, c)
	return
}

func c19load(path string) (c *Config, err error, panicked bool) {
	defer func() {
		if x := recover(); x != nil {
			panicked = true
		}
	}()
	c, err = LoadConfigFile(path)
	return
}

// FREE-FORM FIELDS.  The quantifier restricts two fields only: a requirement's version (canonical semver) and a
// requirement's path (clean form).  The project's name, the project's version, the ignore patterns and the
// requirement names are arbitrary text, and "loading it back yields the same configuration" says that text comes
// back verbatim.  The character classes above exercise the string ENCODER in those positions; c19crossStrings is
// the other half: text that MEANS something to a validator or normaliser of some other field (or to one a
// maintainer might plausibly add), so that a loader or writer that canonicalises, cleans, trims, case-folds,
// re-types, sorts or de-duplicates a free-form field changes some configuration of the family.  Domains:
//   semver:*    the semantic-version grammar enumerated: (MAJOR | MAJOR.MINOR | MAJOR.MINOR.PATCH) x prerelease x
//               build metadata, plus what is nearly a version (no "v", leading zeros, ranges, padding); classified
//               canonical / valid-not-canonical / not-semver by x/mod/semver, never by the code under test
//   path:*      requirement-path shapes, clean and unclean (classified by c19refClean), globs, other path syntaxes
//   text:*      padding and inner white space; letter case incl. characters whose case mapping changes the length;
//               canonically / compatibly equivalent Unicode spellings; text that reads as another TOML type;
//               the format's own key words; references (environment, URL, scp-like)
type c19cross struct{ dom, s string }

func c19crossStrings() []c19cross {
	var out []c19cross
	seen := map[string]bool{}
	add := func(dom string, ss ...string) {
		for _, s := range ss {
			if !seen[s] && utf8.ValidString(s) {
				seen[s] = true
				out = append(out, c19cross{dom, s})
			}
		}
	}
	ver := func(s string) {
		switch {
		case !semver.IsValid(s):
			add("semver:not-semver", s)
		case semver.Canonical(s) == s:
			add("semver:canonical", s)
		default:
			add("semver:valid-not-canonical", s)
		}
	}
	builds := []string{"", "+build", "+build.20240131", "+exp.sha.5114f85", "+001", "+-", "+vendor.2"}
	for _, core := range []string{"v0.0.0", "v1.2.3", "v3.1.0", "v10.20.30"} {
		for _, pre := range []string{"", "-rc.1", "-0", "-alpha.1.beta", "-x-y-z.--"} {
			for _, build := range builds {
				ver(core + pre + build)
			}
		}
	}
	for _, core := range []string{"v0", "v1", "v2", "v10", "v0.0", "v1.4", "v10.20"} { // the shorthands: no prerelease in the grammar
		for _, build := range builds {
			ver(core + build)
		}
		ver(core + "-rc.1")
		ver(core + "-rc.1+build")
	}
	for _, s := range []string{"1.2.3", "1.2", "1", "1.2.3+build", "V1.2.3", "v01.2.3", "v1.02.3", "v1.2.03", "v1.2.3-01", " v1.2.3", "v1.2.3 ", "v1.2.3\n", "\tv1.2.3",
		"=v1.2.3", "^1.2.3", "~1.2", ">=1.0", "<v2", "1.2.x", "*", "latest", "v1.2.3.4", "1.0.0-SNAPSHOT", "2024.01.31", "r123", "v", "v.", "v1.", "v1.2.", "v1.2.3-", "v1.2.3+",
		"v1.2.3-rc.1+", "v1.2.3+a+b", "v1.2.3-a..b", "v1.2.3+a..b", "vv1.2.3", "v1.2.3v", "v1_2_3", "v1,2,3", "v\u0661.\u0662.\u0663", "v1.2.3-é", "v1.2.3+é", "v0.0.0-20240101000000-abcdef123456",
		"v0.0.0-20240101000000-abcdef123456+incompatible", "v2.0.0+incompatible", "v1.2.3+dirty", "HEAD", "main", "abcdef1", "0.1", "0.1.0-dev"} {
		ver(s)
	}
	pth := func(s string) {
		if c19refClean(s) == s {
			add("path:clean", s)
		} else {
			add("path:unclean", s)
		}
	}
	for _, s := range []string{"github.com/a/b", "a/b@v2", "a@v10", ".", "/", "/a", "../a", "..", "a@v2/b", "@v2", "a/", "a//b", "./a", "a/../b", "a/./b", "a/b/..", "//", "//a", "/..", "./", "../",
		"a@v1", "a@v0", "a@", "a/b@v1", "a/b@v0", "a/b@", "a@v1/b", "a/.@v2", "a/b/..@v2", "@v1", "@", "./a@v2", "a//b@v3", "dir/", "./build/**", "build/**/", "**/testdata/", "**/", "a/b/../c/*.o",
		"*.o", "!keep", "[a-z]*", "[]", "[!a]", "{a,b}", "a?b", "**", "a\\b", "C:\\x\\y", "\\\\host\\share", "/abs//path/", "~/.cache", "file.go", ".hidden", "a/.", "a/..", ".../x", "a/b/", "a/b//",
		"github.com/A/B", "GitHub.com/a/b", "github.com/a/b.git", "github.com/a/b/", "example.com:8080/x", "a b/c d", " a/b", "a/b "} {
		pth(s)
	}
	add("text:whitespace", " x", "x ", " x ", "\tx", "x\t", "x\n", "\nx", "x\r\n", "x\r", " ", "  ", "\t", "\n", "\r\n", "x  y", "x \t y", "x\ny", "\u00a0x", "x\u00a0", "x\u3000", "\u2003x", "\ufeffx", "x\u200b",
		"\u0085x", "x\u2028", "\vx", "x\f")
	add("text:case", "Dawn", "DAWN", "dAwN", "dawn", "\u01c5", "\u00df", "\u1e9e", "\u0130", "\u0131", "\u017f", "\u03a3\u03c3\u03c2", "\u00c9COLE", "\u00e9cole", "STRASSE", "stra\u00dfe", "\ufb03", "\u0149")
	add("text:unicode-forms", "\u00e9", "e\u0301", "\u00c5", "\u212b", "A\u030a", "\u1e69", "s\u0323\u0307", "s\u0307\u0323", "\ufb01", "fi", "\u2460", "\uff46\uff55\uff4c\uff4c", "\ud55c", "\u1112\u1161\u11ab", "\u2126", "\u03a9",
		"\u00b5", "\u03bc", "\u00bd", "1\u20442", "\u2026", "...", "\u2010", "\u2013", "\u2018x\u2019", "\u201cx\u201d", "a\u0300\u0301", "a\u0301\u0300")
	add("text:typed-literal", "true", "false", "True", "TRUE", "0", "1", "-1", "+1", "-0", "007", "1.0", "1.50", "0.10", "1.", ".5", "1e3", "1E3", "6.02e23", "0x10", "0o7", "0b1", "1_000", "inf", "+inf", "-inf", "nan", "NaN",
		"1979-05-27", "1979-05-27T07:32:00Z", "1979-05-27 07:32:00", "07:32:00", "1979-05-27T00:32:00.999999-07:00", "null", "nil", "None", "{}", "[]", "[ ]", "\"\"", "''", "\"x\"", "'x'", "'''x'''", "\"\"\"x\"\"\"",
		"[\"a\"]", "{a = 1}", "x = 1", "# x", "x # y", "x, y")
	add("text:keyword", "name", "version", "ignore", "requirements", "path", "[requirements]", "requirements.x", "a.b.c", "x.path", "x.version", "name = 'x'", "requirements]", "[[requirements]]", "path,inline")
	add("text:reference", "$HOME", "${HOME}", "$(pwd)", "`pwd`", "%USERPROFILE%", "%s", "%!v(MISSING)", "~", "~user", "https://github.com/a/b.git", "http://example.com/x?y=z&w#frag", "git@github.com:a/b", "ssh://git@host/a/b",
		"file:///x", "a%20b", "a+b", "a&b", "a;b", "a|b", "a<b>", "\\n", "\\t", "\\x00", "\\u00e9", "&amp;", "<x>")
	return out
}

func TestVerifC19(t *testing.T) {
	out := os.Getenv("VERIF_OUT")
	if out == "" {
		t.Skip("VERIF_OUT not set")
	}
	f, err := os.Create(out)
	if err != nil {
		t.Fatal(err)
	}
	defer f.Close()
	w := bufio.NewWriterSize(f, 1<<20)
	defer w.Flush()
	emit := func(v any) {
		b, _ := json.Marshal(v)
		w.Write(b)
		w.WriteByte('\n')
	}
	seed, _ := strconv.Atoi(os.Getenv("VERIF_SEED"))
	nrand, _ := strconv.Atoi(os.Getenv("VERIF_NRAND"))
	if nrand == 0 {
		nrand = 300
	}
	rng := rand.New(rand.NewSource(int64(seed)*104729 + 19))
	// tens of thousands of small create/remove operations: a memory file system when there is one (7 s -> 0.5 s)
	dir := t.TempDir()
	if d, err := os.MkdirTemp("/dev/shm", "verif-c19-"); err == nil {
		dir = d
		defer os.RemoveAll(d)
	}
	p1, p2 := filepath.Join(dir, "dawn.toml"), filepath.Join(dir, "dawn2.toml")

	// one write -> load -> write pass over the implementation
	type pass struct {
		panic      string
		werr, lerr error
		b1, b2     []byte
		loaded     *Config
	}
	run := func(c *Config) (r pass) {
		os.Remove(p1)
		os.Remove(p2)
		var wp, lp bool
		if r.werr, wp = c19write(p1, c); wp {
			r.panic = "write"
			return
		}
		r.b1, _ = os.ReadFile(p1)
		if r.loaded, r.lerr, lp = c19load(p1); lp {
			r.panic = "load"
			return
		}
		if r.lerr == nil {
			if err, p := c19write(p2, r.loaded); err == nil && !p {
				r.b2, _ = os.ReadFile(p2)
			}
		}
		return
	}
	// the direct oracle of C19; "" = holds (or the configuration is outside the quantifier)
	verdict := func(c *Config, r pass) (name, detail string) {
		switch {
		case r.panic != "":
			return r.panic + "-panics", ""
		case !c19valid(c):
			return "", ""
		case r.werr != nil:
			return "valid-config-write-fails", r.werr.Error()
		case r.lerr != nil:
			return "valid-config-does-not-load-back", r.lerr.Error()
		case !c19same(r.loaded, c):
			lj, _ := json.Marshal(c19export(r.loaded))
			return "loaded-differs-from-written", string(lj)
		case string(r.b2) != string(r.b1):
			return "second-write-differs", hex.EncodeToString(r.b2)
		}
		return "", ""
	}
	fails := func(c *Config) bool {
		n, _ := verdict(c, run(c))
		return n != ""
	}
	// shrink a failing configuration: first try to keep a single item, then remove items one at a time while the
	// oracle keeps failing, then replace the surviving requirement's name/version by plain ones
	type item struct {
		kind int // 0 name, 1 version, 2 ignore, 3 requirement
		s    string
		r    RequirementConfig
	}
	items := func(c *Config) (its []item) {
		if c.Name != "" {
			its = append(its, item{kind: 0, s: c.Name})
		}
		if c.Version != "" {
			its = append(its, item{kind: 1, s: c.Version})
		}
		for _, g := range c.Ignore {
			its = append(its, item{kind: 2, s: g})
		}
		names := make([]string, 0, len(c.Requirements))
		for k := range c.Requirements {
			names = append(names, k)
		}
		sort.Strings(names)
		for _, k := range names {
			its = append(its, item{kind: 3, s: k, r: c.Requirements[k]})
		}
		return
	}
	build := func(its []item) *Config {
		c := &Config{}
		for _, it := range its {
			switch it.kind {
			case 0:
				c.Name = it.s
			case 1:
				c.Version = it.s
			case 2:
				c.Ignore = append(c.Ignore, it.s)
			case 3:
				if c.Requirements == nil {
					c.Requirements = map[string]RequirementConfig{}
				}
				c.Requirements[it.s] = it.r
			}
		}
		return c
	}
	shrinkBy := func(c *Config, fails func(*Config) bool) *Config {
		its := items(c)
		if len(its) > 1 {
			for _, it := range its {
				if one := []item{it}; fails(build(one)) {
					its = one
					break
				}
			}
		}
		for again := len(its) > 1; again; {
			again = false
			for i := range its {
				rest := append(append([]item{}, its[:i]...), its[i+1:]...)
				if fails(build(rest)) {
					its, again = rest, len(rest) > 1
					break
				}
			}
		}
		if len(its) == 1 && its[0].kind == 3 { // a single requirement: plain name, path, version where the failure survives
			for _, alt := range []func(it item) item{
				func(it item) item { it.s = "dep"; return it },
				func(it item) item { it.r.Path = "a"; return it },
				func(it item) item { it.r.Version = "v1.2.3"; return it }} {
				if cand := alt(its[0]); fails(build([]item{cand})) {
					its[0] = cand
				}
			}
		}
		return build(its)
	}
	shrink := func(c *Config) *Config { return shrinkBy(c, fails) }

	// ---------------- rewriting in place: the destination's previous state ----------------
	p3 := filepath.Join(dir, "dawn-in-place.toml")
	type prior struct {
		kind   string
		absent bool   // no such file
		data   []byte // the bytes the file holds
		link   bool   // the path is a symbolic link to a file holding data
	}
	setPrior := func(pr prior) {
		os.Remove(p3)
		os.Remove(p3 + ".real")
		switch {
		case pr.absent:
		case pr.link:
			os.WriteFile(p3+".real", pr.data, 0o644)
			os.Symlink(p3+".real", p3)
		default:
			os.WriteFile(p3, pr.data, 0o644)
		}
	}
	type rwpass struct {
		panic            string
		ferr, werr, lerr error
		want, got        []byte // a write to a fresh path; the destination after the rewrite
		loaded           *Config
	}
	rewrite := func(pr prior, c *Config) (r rwpass) {
		os.Remove(p1)
		var p bool
		if r.ferr, p = c19write(p1, c); p {
			r.panic = "write"
			return
		}
		r.want, _ = os.ReadFile(p1)
		setPrior(pr)
		if r.werr, p = c19write(p3, c); p {
			r.panic = "rewrite"
			return
		}
		r.got, _ = os.ReadFile(p3)
		if r.loaded, r.lerr, p = c19load(p3); p {
			r.panic = "load"
		}
		return
	}
	rwVerdict := func(c *Config, r rwpass) (name, detail string) {
		switch {
		case r.panic != "":
			return r.panic + "-panics", ""
		case !c19valid(c) || r.ferr != nil: // outside the quantifier / already reported by the fresh-path oracle
			return "", ""
		case r.werr != nil:
			return "rewrite-in-place-fails", r.werr.Error()
		case r.lerr != nil:
			return "rewritten-file-does-not-load-back", r.lerr.Error()
		case !c19same(r.loaded, c):
			lj, _ := json.Marshal(c19export(r.loaded))
			return "rewritten-file-loads-a-different-configuration", string(lj)
		case string(r.got) != string(r.want):
			return "rewrite-in-place-differs-from-fresh-write", hex.EncodeToString(r.got)
		}
		return "", ""
	}
	rwStats := map[string]int{}
	nRw := 0
	rwDo := func(fam string, pr prior, c *Config, history []*Config, emitCase bool) {
		r := rewrite(pr, c)
		rwStats["family:"+fam]++
		if r.panic == "" && r.ferr == nil {
			switch {
			case pr.absent:
				rwStats["onto:absent"]++
			case len(pr.data) > len(r.want):
				rwStats["onto:longer"]++
			case len(pr.data) < len(r.want):
				rwStats["onto:shorter"]++
			default:
				rwStats["onto:same-length"]++
			}
		}
		oldHex := func(q prior) any {
			if q.absent {
				return nil
			}
			return hex.EncodeToString(q.data)
		}
		if emitCase && r.panic == "" && r.ferr == nil && r.werr == nil && len(pr.data) <= 4096 {
			emit(map[string]any{"t": "rw", "prior": pr.kind, "cfg": c19export(c), "valid": c19valid(c), "old": oldHex(pr),
				"bytes": hex.EncodeToString(r.got)})
		}
		name, detail := rwVerdict(c, r)
		if name == "" || nRw >= 100 {
			return
		}
		nRw++
		small, sp := c, pr
		if nRw <= 20 {
			// shrink the configuration with the previous state held fixed ...
			s := shrinkBy(c, func(x *Config) bool { n, _ := rwVerdict(x, rewrite(pr, x)); return n != "" })
			if n, _ := rwVerdict(s, rewrite(pr, s)); n != "" {
				small = s
			}
			// ... then the previous state: no symbolic link, and the shortest failing prefix found by bisection
			if !sp.absent {
				bad := func(q prior) bool { n, _ := rwVerdict(small, rewrite(q, small)); return n != "" }
				if q := sp; q.link {
					if q.link = false; bad(q) {
						sp = q
					}
				}
				lo, hi := 0, len(sp.data)
				for lo < hi {
					mid := (lo + hi) / 2
					q := sp
					if q.data = sp.data[:mid]; bad(q) {
						hi = mid
					} else {
						lo = mid + 1
					}
				}
				q := sp
				if q.data = sp.data[:hi]; bad(q) {
					sp = q
				}
			}
		}
		sr := rewrite(sp, small)
		n2, d2 := rwVerdict(small, sr)
		if n2 == "" {
			small, sp, sr, n2, d2 = c, pr, r, name, detail
		}
		var hist []*c19cfg
		for _, h := range history {
			hist = append(hist, c19export(h))
		}
		emit(map[string]any{"t": "ORACLE", "name": n2, "cfg": c19export(small), "bytes": hex.EncodeToString(sr.got),
			"fresh": hex.EncodeToString(sr.want), "old": oldHex(sp), "prior": pr.kind, "link": sp.link, "detail": d2,
			"from": "rewrite-in-place:" + fam + ":" + pr.kind, "orig": c19export(c), "history": hist})
	}

	// a hand-written layout of a (valid UTF-8) configuration: TOML written from the language's specification and not
	// with the code under test.  Basic strings ("..", \" \\ \uXXXX), bare or quoted keys.
	c19basic := func(s string) string {
		var b strings.Builder
		b.WriteByte('"')
		for _, r := range s {
			switch {
			case r == '"':
				b.WriteString(`\"`)
			case r == '\\':
				b.WriteString(`\\`)
			case r < 0x20 || r == 0x7f:
				fmt.Fprintf(&b, `\u%04X`, r)
			default:
				b.WriteRune(r)
			}
		}
		b.WriteByte('"')
		return b.String()
	}
	c19key := func(k string) string {
		bare := k != ""
		for i := 0; i < len(k); i++ {
			ch := k[i]
			if !(ch >= 'A' && ch <= 'Z' || ch >= 'a' && ch <= 'z' || ch >= '0' && ch <= '9' || ch == '_' || ch == '-') {
				bare = false
			}
		}
		if bare {
			return k
		}
		return c19basic(k)
	}
	decorate := func(c *Config, style int) []byte {
		names := make([]string, 0, len(c.Requirements))
		for k := range c.Requirements {
			names = append(names, k)
		}
		sort.Strings(names)
		var b strings.Builder
		switch style % 3 {
		case 0: // comments, blank lines, aligned values, multi-line array with a trailing comma
			b.WriteString("# Project file.\n#\n# Keep the requirements sorted, please.\n\n")
			if c.Name != "" {
				b.WriteString("name    = " + c19basic(c.Name) + "     # the project name\n")
			}
			if c.Version != "" {
				b.WriteString("version = " + c19basic(c.Version) + "\n")
			}
			if len(c.Ignore) != 0 {
				b.WriteString("\n# Nothing under these is a package.\nignore = [\n")
				for i, g := range c.Ignore {
					fmt.Fprintf(&b, "    %s,   # pattern %d\n", c19basic(g), i)
				}
				b.WriteString("]\n")
			}
			if len(names) != 0 {
				b.WriteString("\n[requirements]\n# Core libraries.\n")
				for i, k := range names {
					r := c.Requirements[k]
					if i%3 == 2 {
						b.WriteString("\n# Pinned until the migration is done.\n")
					}
					fmt.Fprintf(&b, "%-12s = { path = %s,  version = %s }   # checked\n", c19key(k), c19basic(r.Path), c19basic(r.Version))
				}
			}
			b.WriteString("\n# end of file\n")
		case 1: // CRLF line ends, version before name, one sub-table per requirement with version before path
			if c.Version != "" {
				b.WriteString("version = " + c19basic(c.Version) + "\r\n")
			}
			if c.Name != "" {
				b.WriteString("name = " + c19basic(c.Name) + "\r\n")
			}
			b.WriteString("ignore = [")
			for i, g := range c.Ignore {
				if i > 0 {
					b.WriteString(" ,")
				}
				b.WriteString(" " + c19basic(g))
			}
			b.WriteString(" ]\r\n")
			for _, k := range names {
				r := c.Requirements[k]
				b.WriteString("\r\n[requirements." + c19key(k) + "]\r\n")
				b.WriteString("version = " + c19basic(r.Version) + "\r\n")
				b.WriteString("path = " + c19basic(r.Path) + "   # where it lives\r\n")
			}
		default: // compact: no spaces, no final newline (shorter than the canonical form)
			var lines []string
			if c.Name != "" {
				lines = append(lines, "name="+c19basic(c.Name))
			}
			if c.Version != "" {
				lines = append(lines, "version="+c19basic(c.Version))
			}
			if len(c.Ignore) != 0 {
				var gs []string
				for _, g := range c.Ignore {
					gs = append(gs, c19basic(g))
				}
				lines = append(lines, "ignore=["+strings.Join(gs, ",")+"]")
			}
			if len(names) != 0 {
				lines = append(lines, "[requirements]")
				for _, k := range names {
					r := c.Requirements[k]
					lines = append(lines, c19key(k)+"={version="+c19basic(r.Version)+",path="+c19basic(r.Path)+"}")
				}
			}
			b.WriteString(strings.Join(lines, "\n"))
		}
		return []byte(b.String())
	}
	// family D: the hand-written file is loaded and the loaded configuration written back over it
	nDecor := 0
	handWritten := func(c *Config) {
		style := nDecor
		nDecor++
		pr := prior{kind: fmt.Sprintf("hand-written:style%d", style%3), data: decorate(c, style)}
		setPrior(pr)
		before, err, p := c19load(p3)
		switch {
		case p:
			rwStats["hand-written:load-panics"]++
			return
		case err != nil || !c19valid(before):
			rwStats["hand-written:not-loadable"]++
			emit(map[string]any{"t": "NOTE", "name": "hand-written-not-loadable", "cfg": c19export(c), "old": hex.EncodeToString(pr.data)})
			return
		case !c19same(before, c):
			rwStats["hand-written:loads-differently"]++
			emit(map[string]any{"t": "NOTE", "name": "hand-written-loads-differently", "cfg": c19export(c), "old": hex.EncodeToString(pr.data)})
		}
		rwDo("hand-written-layout", pr, before, nil, false)
	}
	var lastW []byte
	firstW := true

	nOracle := 0
	do := func(kind string, c *Config) {
		r := run(c)
		rec := map[string]any{"t": "cfg", "kind": kind, "cfg": c19export(c), "valid": c19valid(c)}
		if r.panic == "" {
			rec["werr"] = r.werr != nil
			rec["bytes"] = hex.EncodeToString(r.b1)
			rec["lerr"] = r.lerr != nil
			rec["loaded"] = c19export(r.loaded)
			if r.lerr == nil {
				rec["bytes2"] = hex.EncodeToString(r.b2)
			}
		} else {
			rec["panic"] = r.panic
		}
		emit(rec)
		if r.panic == "" && r.werr == nil {
			// family A: the same configuration over what the previous one left at the path; family D: over a hand-written layout
			rwDo("previous-configuration", prior{kind: "previous-configuration", absent: firstW, data: lastW}, c, nil, false)
			firstW, lastW = false, r.b1
			if c19valid(c) {
				handWritten(c)
			}
		}
		name, detail := verdict(c, r)
		if name == "" || nOracle >= 300 {
			return
		}
		nOracle++
		small, b1 := c, r.b1
		if nOracle <= 60 { // shrinking costs up to (items^2) passes: only for the first failures
			if s := shrink(c); !c19same(s, c) {
				sr := run(s)
				if n2, d2 := verdict(s, sr); n2 != "" {
					small, b1, name, detail = s, sr.b1, n2, d2
				}
			}
		}
		emit(map[string]any{"t": "ORACLE", "name": name, "cfg": c19export(small), "bytes": hex.EncodeToString(b1), "detail": detail,
			"from": kind, "orig": c19export(c)})
	}

	// every string that gets a function-level case is remembered, to be put into whole configurations below
	var pathStrs, verStrs []string
	seenPath, seenVer := map[string]bool{}, map[string]bool{}
	emitClean := func(s string) {
		if seenPath[s] {
			return
		}
		seenPath[s] = true
		pathStrs = append(pathStrs, s)
		emit(map[string]any{"t": "clean", "s": c19hx(s), "out": c19hx(CleanPath(s)), "ref": c19hx(c19refClean(s))})
	}
	emitSemver := func(s string) {
		if seenVer[s] {
			return
		}
		seenVer[s] = true
		verStrs = append(verStrs, s)
		emit(map[string]any{"t": "semver", "s": c19hx(s), "ok": c19canonical(s)})
	}

	// ---- string classes (DESIGN section 6, C19) ----
	type cls struct{ name, s string }
	var classes []cls
	add := func(name string, ss ...string) {
		for _, s := range ss {
			classes = append(classes, cls{name, s})
		}
	}
	add("plain", "dawn", "a-b_c9", "A", "0")
	add("ascii-quoting", "a b", "a.b", "a=b", "a#b", "[x]", "{y}", "a,b", " lead", "trail ", "a/b", "*.go", "**/x?", "a:b", "~", "@")
	for c := 0; c < 0x20; c++ {
		add(fmt.Sprintf("ctl-%02x", c), string(rune(c)), "a"+string(rune(c))+"b")
	}
	add("quotes", "'", "\"", "\\", "'''", "\"\"\"", "\\\"", "\\\\", "it's", "say \"hi\"", "\\u0041", "\\n", "'\"\\", "a'b\"c\\d\ne")
	add("percent", "%", "%20", "my%20lib", "100%", "%d", "%!s", "%%", "a%sb", "%v%v")
	add("del", "\x7f", "a\x7fb")
	add("latin1", "\u0080", "\u0085", "\u009f", "\u00a0", "\u00e9", "\u00ff", "na\u00efve caf\u00e9")
	add("bmp", "\u0100", "\u07ff", "\u0800", "\u65e5\u672c\u8a9e", "\ufffd", "\uffff", "\ufffe", "\ud7ff", "\ue000", "\u2028", "\ufeff", "\u200b")
	add("astral", "\U00010000", "😀", "\U0010ffff", "a😀'b")
	add("empty", "")
	add("invalid-utf8", "\xff", "a\xc3", "\xed\xa0\x80", "\xc0\x80", "\xf4\x90\x80\x80", "ok\x80")

	goodV := []string{"v0.0.0", "v1.2.3", "v10.20.30", "v1.2.3-pre", "v1.2.3-alpha.1", "v1.0.0-0.3.7", "v1.0.0-x-y-z.--", "v2.0.0-rc.1", "v0.0.0-20240101000000-abcdef123456"}
	badV := []string{"1.2.3", "v1", "v1.2", "v1.2.3+build", "v1.2.3-pre+build", "v01.2.3", "v1.02.3", "v1.2.03", "v1.2.3-01", "", "v1.2.3-", "v1.2.3-a..b", "v1.2.3-é", "v", "va.b.c", "v1.2.3.4", " v1.2.3", "v1.2.3 ", "v1.2.3-0", "v1.2.3-00", "v1.2.3-0a", "v-1.2.3", "V1.2.3", "v1.2.3-a_b", "v1.2.3+", "v1.2.3-a+b.c"}
	goodP := []string{"github.com/a/b", "a", "a/b@v2", "a@v10", ".", "/", "/a", "../a", "a@v2/b", "a@b@v3", "..", "a@v1x", "../../x@v3", "a.b/c-d_e", "@v2", "a/@v2"}
	badP := []string{"a/", "a//b", "./a", "a/../b", "a@v1", "a@v0", "", "a/.@v2", "a@", "a/b@", "a/./b", "/..", "//a", "a/b/..@v2", "@v1", "@"}

	// the sub-models, one by one
	for _, v := range append(append([]string{}, goodV...), badV...) {
		emitSemver(v)
	}
	for _, c := range classes {
		emitSemver(c.s)
		emitSemver("v1.2.3-" + c.s)
		emitClean(c.s)
	}
	for _, p := range append(append([]string{}, goodP...), badP...) {
		emitClean(p)
	}
	// the strings of the free-form family also go through the sub-models of the domain they come from (and from there,
	// when inside the quantifier, into the requirements of the packed configurations)
	cross := c19crossStrings()
	crossCount := map[string]int{}
	for _, x := range cross {
		crossCount[x.dom]++
		switch {
		case strings.HasPrefix(x.dom, "semver:"):
			emitSemver(x.s)
		case strings.HasPrefix(x.dom, "path:"), x.dom == "text:whitespace":
			emitClean(x.s)
		}
	}
	pathAlpha := []string{"a", "/", ".", "@", "v", "2", "1"}
	var enum func(prefix string, n int)
	enum = func(prefix string, n int) {
		emitClean(prefix)
		if n == 0 {
			return
		}
		for _, a := range pathAlpha {
			enum(prefix+a, n-1)
		}
	}
	maxp, _ := strconv.Atoi(os.Getenv("VERIF_MAXPATH"))
	if maxp == 0 {
		maxp = 4
	}
	enum("", maxp)

	// major-version suffixes of every length and digit pattern: all one- and two-digit numbers, the three-digit
	// ones over {0,1,2,9}, longer runs (10..0, 20..0, 9..9, 0..0, 1..1), and suffixes that are not a "v<number>"
	var majors []string
	for i := 0; i < 10; i++ {
		majors = append(majors, fmt.Sprintf("v%d", i))
		for j := 0; j < 10; j++ {
			majors = append(majors, fmt.Sprintf("v%d%d", i, j))
		}
	}
	dig := []string{"0", "1", "2", "9"}
	for _, a := range dig {
		for _, b := range dig {
			for _, c := range dig {
				majors = append(majors, "v"+a+b+c)
			}
		}
	}
	for n := 3; n <= 8; n++ {
		z := strings.Repeat("0", n)
		majors = append(majors, "v1"+z, "v2"+z, "v"+strings.Repeat("9", n+1), "v"+z+"0", "v"+strings.Repeat("1", n+1), "v"+z+"2")
	}
	majors = append(majors, "", "v", "V2", "V1", "v2x", "v1x", "v0x", "vx", "x", "latest", "main", "2", "1", "0", "10", "v-1", "v+2", "v1.0", "v2.0.0",
		"v1.2.3", "v 2", "v2 ", " v2", "w2", "u9", "w", "~", "v\u0662", "\u00e9", "v2\u00e9", "v2'", "v\"2", "v2\n", "v2\x00", "1v", "vv2", "v2v", "v.", ".", "..", "v2.", "-", "v1-", "v0-")
	for _, m := range majors {
		emitClean("a@" + m)
		emitClean("x.y/z-w@" + m)
	}
	for _, m := range []string{"v0", "v1", "v2", "v10", "v19", "v20", "v100", "", "v", "b", "latest"} {
		for _, pre := range []string{"", ".", "..", "/", "/a", "../a", "a/..", "a@b", "a@v2", "a@v1", "a@", "@", "a/@", "@/a", "a@b/c", "a/b/c/d", "\u00e9/\U0001F600", "a b/'c'"} {
			emitClean(pre + "@" + m)
		}
	}
	// '@' anywhere: every path of one or two segments over these segments, under three kinds of root; a seeded
	// sample of the three- and four-segment ones
	segs := []string{"a", "@", "@a", "a@", "a@b", "@v2", "a@v2", "a@v1", "@v1", "@@", "a@@v2", "@a@v3", ".@a", "@.", "..@v2", "v2", "@v10"}
	roots := []string{"", "/", "../"}
	for _, root := range roots {
		for _, s1 := range segs {
			emitClean(root + s1)
			for _, s2 := range segs {
				emitClean(root + s1 + "/" + s2)
			}
		}
	}
	nseg, _ := strconv.Atoi(os.Getenv("VERIF_NSEG"))
	if nseg == 0 {
		nseg = 150
	}
	for i := 0; i < nseg; i++ {
		p := roots[rng.Intn(len(roots))]
		for k, n := 0, 3+rng.Intn(2); k < n; k++ {
			if k > 0 {
				p += "/"
			}
			p += segs[rng.Intn(len(segs))]
		}
		emitClean(p)
	}

	// ---- configurations: every class in every position ----
	req := func(p, v string) RequirementConfig { return RequirementConfig{Path: p, Version: v} }
	do("empty", &Config{})
	do("empty", &Config{Ignore: []string{}, Requirements: map[string]RequirementConfig{}})
	for _, c := range classes {
		s := c.s
		do("name:"+c.name, &Config{Name: s})
		do("version:"+c.name, &Config{Version: s})
		do("ignore1:"+c.name, &Config{Ignore: []string{s}})
		do("ignore3:"+c.name, &Config{Name: "n", Ignore: []string{s, "x", s}})
		do("key:"+c.name, &Config{Requirements: map[string]RequirementConfig{s: req("github.com/a/b", "v1.2.3")}})
		do("key2:"+c.name, &Config{Version: "1", Requirements: map[string]RequirementConfig{s: req("a", "v0.0.0"), "z" + s: req("b@v2", "v2.0.0-rc.1")}})
		do("path:"+c.name, &Config{Requirements: map[string]RequirementConfig{"k": req(s, "v1.2.3")}})
		do("reqversion:"+c.name, &Config{Requirements: map[string]RequirementConfig{"k": req("a", s)}})
		do("all:"+c.name, &Config{Name: s, Version: s, Ignore: []string{s}, Requirements: map[string]RequirementConfig{s: req("a/b@v2", "v1.0.0-x-y-z.--")}})
	}
	for _, v := range append(append([]string{}, goodV...), badV...) {
		do("semver", &Config{Name: "p", Requirements: map[string]RequirementConfig{"dep": req("github.com/a/b", v)}})
	}
	for _, p := range append(append([]string{}, goodP...), badP...) {
		do("cleanpath", &Config{Requirements: map[string]RequirementConfig{"dep": req(p, "v1.2.3")}})
	}
	// the layout: every subset of the four top-level items
	for m := 0; m < 16; m++ {
		c := &Config{}
		if m&1 != 0 {
			c.Name = "n"
		}
		if m&2 != 0 {
			c.Version = "0.1"
		}
		if m&4 != 0 {
			c.Ignore = []string{"*.o", "build/**"}
		}
		if m&8 != 0 {
			c.Requirements = map[string]RequirementConfig{"b": req("b", "v1.0.0"), "a": req("a@v3", "v3.1.4")}
		}
		do("layout", c)
	}
	// many requirements (map iteration order), keys whose byte order differs from other orders
	for i := 0; i < 6; i++ {
		c := &Config{Name: "many", Requirements: map[string]RequirementConfig{}}
		keys := []string{"b", "a", "B", "_", "-", "10", "9", "é", "z", "a.b", "a b", "", "ab", "😀", "￿", "a'", "\n"}
		rng.Shuffle(len(keys), func(i, j int) { keys[i], keys[j] = keys[j], keys[i] })
		for _, k := range keys[:8+rng.Intn(len(keys)-8)] {
			c.Requirements[k] = req(goodP[rng.Intn(len(goodP))], goodV[rng.Intn(len(goodV))])
		}
		do("many-reqs", c)
	}
	// ---- free-form fields: text of every domain in every position the quantifier leaves unrestricted ----
	// (a) one string in all four free positions at once; (b) the string alone in one position (all four positions for
	// version- and path-shaped text, one position in rotation for the rest): nothing else in the configuration that a
	// change could be conditional on; the requirements around it are plain and inside the quantifier
	for i, x := range cross {
		s := x.s
		do("free-all:"+x.dom, &Config{Name: s, Version: s, Ignore: []string{s}, Requirements: map[string]RequirementConfig{s: req("a/b@v2", "v1.2.3")}})
		alone := []*Config{{Name: s}, {Version: s}, {Ignore: []string{s}}, {Requirements: map[string]RequirementConfig{s: req("github.com/a/b", "v1.2.3")}}}
		for pos, c := range alone {
			if strings.HasPrefix(x.dom, "text:") && pos != i%4 {
				continue
			}
			do([]string{"free-name:", "free-version:", "free-ignore:", "free-key:"}[pos]+x.dom, c)
		}
	}
	// (c) the ignore patterns are a SEQUENCE: order, repetitions and empty patterns are part of the configuration.
	// Every sequence of up to three patterns over {a, b, ""}, orders of patterns that a sort would move (byte order
	// against case-insensitive, numeric, length order), long lists
	var seqs [][]string
	var seqEnum func(prefix []string, n int)
	seqEnum = func(prefix []string, n int) {
		if len(prefix) > 0 {
			seqs = append(seqs, append([]string{}, prefix...))
		}
		if n == 0 {
			return
		}
		for _, a := range []string{"a", "b", ""} {
			seqEnum(append(prefix, a), n-1)
		}
	}
	seqEnum(nil, 3)
	seqs = append(seqs, []string{"b", "B", "a"}, []string{"B", "a", "b"}, []string{"a", "B", "b"}, []string{"10", "9", "1"}, []string{"9", "10"}, []string{"bb", "a", "ccc"}, []string{"z/**", "*.o", "a/*"},
		[]string{"é", "z", "e"}, []string{" a", "a", "a "}, []string{"a/", "a", "./a"}, []string{"*.o", "*.O"}, []string{"!a", "a"}, []string{"a", "!a"})
	long := []string{}
	for i := 0; i < 120; i++ {
		long = append(long, fmt.Sprintf("p%d/**", (i*37)%120))
	}
	seqs = append(seqs, long, append(append([]string{}, long[:40]...), long[:40]...))
	for _, q := range seqs {
		do("free-ignore-sequence", &Config{Ignore: q})
		do("free-ignore-sequence", &Config{Name: "n", Version: "v1", Ignore: q, Requirements: map[string]RequirementConfig{"dep": req("a", "v1.2.3")}})
	}
	// (d) two requirement names (and two ignore patterns, in both orders) that some normalisation would identify:
	// both must survive, each with its own path and version
	near := [][2]string{{"a", "A"}, {"\u00e9", "e\u0301"}, {"\u00c5", "\u212b"}, {"a", " a"}, {"a", "a "}, {"a", "a\n"}, {"a", "\ta"}, {"a b", "a  b"}, {"a/b", "a//b"}, {"a", "./a"}, {"a", "a/"}, {"a", "a/."},
		{"v1", "v1.0.0"}, {"v1.0", "v1.0.0"}, {"v1.0.0", "v1.0.0+build"}, {"v1.0.0+a", "v1.0.0+b"}, {"v1.2.3", "1.2.3"}, {"v1.2.3", "V1.2.3"}, {"x", "x@v2"}, {"x", "x@v1"}, {"x@v0", "x@v1"}, {"x@v2", "x@v3"},
		{"a.b", "\"a.b\""}, {"a", "'a'"}, {"a", "\"a\""}, {"1", "01"}, {"1", "1.0"}, {"1", "+1"}, {"true", "True"}, {"\ufb01", "fi"}, {"\u00df", "ss"}, {"\u0130", "i"}, {"K", "\u212a"}, {"", " "}, {"", "\"\""},
		{"github.com/a/b", "github.com/A/B"}, {"github.com/a/b", "github.com/a/b.git"}, {"a-b", "a_b"}, {"a\u200bb", "ab"}, {"\ufeffa", "a"}}
	for _, pr := range near {
		do("free-near-keys", &Config{Requirements: map[string]RequirementConfig{pr[0]: req("x/first", "v1.0.0"), pr[1]: req("y/second@v2", "v2.0.0-rc.1")}})
		do("free-near-ignore", &Config{Ignore: []string{pr[0], pr[1]}})
		do("free-near-ignore", &Config{Ignore: []string{pr[1], pr[0], pr[1]}})
	}
	// ---- every function-level string inside the quantifier, in a whole configuration (packed) ----
	per, _ := strconv.Atoi(os.Getenv("VERIF_PACK"))
	if per == 0 {
		per = 16
	}
	var okPaths, okVers []string
	for _, p := range pathStrs {
		if utf8.ValidString(p) && c19refClean(p) == p {
			okPaths = append(okPaths, p)
		}
	}
	for _, v := range verStrs {
		if utf8.ValidString(v) && c19canonical(v) {
			okVers = append(okVers, v)
		}
	}
	for i := 0; i < len(okPaths); i += per {
		c := &Config{Requirements: map[string]RequirementConfig{}}
		for j := i; j < i+per && j < len(okPaths); j++ {
			c.Requirements[fmt.Sprintf("p%02d", j-i)] = req(okPaths[j], goodV[j%len(goodV)])
		}
		do("packed-paths", c)
	}
	for i := 0; i < len(okVers); i += per {
		c := &Config{Requirements: map[string]RequirementConfig{}}
		for j := i; j < i+per && j < len(okVers); j++ {
			c.Requirements[fmt.Sprintf("v%02d", j-i)] = req(okPaths[(7*j)%len(okPaths)], okVers[j])
		}
		do("packed-versions", c)
	}
	emit(map[string]any{"t": "stats", "path_strings": len(pathStrs), "paths_in_configs": len(okPaths),
		"version_strings": len(verStrs), "versions_in_configs": len(okVers), "free_form_strings": crossCount,
		"ignore_sequences": len(seqs), "near_pairs": len(near)})
	// ---- random configurations ----
	pool := []string{"a", "b", "Z", "0", "-", "_", ".", " ", "=", "#", "'", "\"", "\\", "\n", "\t", "\r", "\x00", "\x1f", "\x7f", "é", "日", "😀", "/", "*", "[", "]", "{", "}", ",", "\u0085", "�", "u", "n"}
	rs := func() string {
		switch rng.Intn(5) {
		case 0:
			return classes[rng.Intn(len(classes)-6)].s // not the invalid-UTF-8 ones
		case 1:
			return ""
		case 2:
			return cross[rng.Intn(len(cross))].s // version-, path-, typed-looking text in the free-form fields
		}
		n := 1 + rng.Intn(6)
		s := ""
		for i := 0; i < n; i++ {
			s += pool[rng.Intn(len(pool))]
		}
		return s
	}
	for i := 0; i < nrand; i++ {
		c := &Config{}
		if rng.Intn(3) != 0 {
			c.Name = rs()
		}
		if rng.Intn(3) != 0 {
			c.Version = rs()
		}
		for n := rng.Intn(4); n > 0; n-- {
			c.Ignore = append(c.Ignore, rs())
		}
		if rng.Intn(4) != 0 {
			c.Requirements = map[string]RequirementConfig{}
			for n := rng.Intn(9); n > 0; n-- {
				p, v := goodP[rng.Intn(len(goodP))], goodV[rng.Intn(len(goodV))]
				if rng.Intn(3) == 0 {
					p = okPaths[rng.Intn(len(okPaths))]
				}
				if rng.Intn(12) == 0 {
					p = badP[rng.Intn(len(badP))]
				}
				if rng.Intn(12) == 0 {
					v = badV[rng.Intn(len(badV))]
				}
				c.Requirements[rs()] = req(p, v)
			}
		}
		do("random", c)
	}

	// ---- rewriting in place, families B and C ----
	fresh := func(c *Config) []byte {
		os.Remove(p2)
		c19write(p2, c)
		b, _ := os.ReadFile(p2)
		return b
	}
	clone := func(c *Config) *Config {
		n := &Config{Name: c.Name, Version: c.Version, Ignore: append([]string{}, c.Ignore...), Requirements: map[string]RequirementConfig{}}
		for k, r := range c.Requirements {
			n.Requirements[k] = r
		}
		return n
	}
	rvalid := func(minReqs int) *Config { // a random configuration inside the quantifier
		c := &Config{Requirements: map[string]RequirementConfig{}}
		if rng.Intn(4) != 0 {
			c.Name = rs()
		}
		if rng.Intn(3) != 0 {
			c.Version = rs()
		}
		for n := rng.Intn(4); n > 0; n-- {
			c.Ignore = append(c.Ignore, rs())
		}
		for n := minReqs + rng.Intn(6); n > 0; n-- {
			c.Requirements[rs()] = req(okPaths[rng.Intn(len(okPaths))], okVers[rng.Intn(len(okVers))])
		}
		return c
	}
	randBytes := func(n int) []byte {
		b := make([]byte, n)
		rng.Read(b)
		return b
	}
	// family B: explicit previous states of the destination
	priorsFor := func(c *Config) []prior {
		w := fresh(c)
		ps := []prior{{kind: "absent", absent: true}, {kind: "empty-file"}, {kind: "identical", data: w}}
		add := func(kind string, data []byte) { ps = append(ps, prior{kind: kind, data: data}) }
		tail := func(kind, t string) { add(kind, append(append([]byte{}, w...), t...)) }
		tail("own+newline", "\n")
		tail("own+byte", "x")
		tail("own+comment", "# trailing comment\n")
		tail("own+requirement-line", "zz = {path = 'z', version = 'v9.9.9'}\n")
		tail("own+section", "\n[requirements]\nzz = {path = 'z', version = 'v9.9.9'}\n")
		if len(w) > 1 {
			add("own-truncated", w[:len(w)/2])
			add("own-minus-last-byte", w[:len(w)-1])
		}
		// the serialisation of a larger configuration (what tidy finds) and of a smaller one (what get finds)
		sup := clone(c)
		sup.Requirements["zz-extra"] = req("example.com/extra@v2", "v2.3.4")
		add("superset:last-requirement", fresh(sup))
		sup = clone(c)
		sup.Requirements["-first"] = req("example.com/first", "v0.1.0")
		add("superset:first-requirement", fresh(sup))
		sup = clone(c)
		sup.Name, sup.Version, sup.Ignore = c.Name+"-with-a-longer-name", c.Version+".1", append(sup.Ignore, "more/**")
		add("superset:longer-head", fresh(sup))
		if len(c.Requirements) != 0 {
			sub, last := clone(c), ""
			for k := range sub.Requirements {
				if k >= last {
					last = k
				}
			}
			delete(sub.Requirements, last)
			add("subset:without-last-requirement", fresh(sub))
			sub = clone(c)
			sub.Requirements = nil
			add("subset:no-requirements", fresh(sub))
		}
		if len(c.Ignore) != 0 || c.Name != "" || c.Version != "" {
			sub := clone(c)
			sub.Name, sub.Version, sub.Ignore = "", "", nil
			add("subset:no-head", fresh(sub))
		}
		for st := 0; st < 3; st++ {
			add(fmt.Sprintf("hand-written:style%d", st), decorate(c, st))
		}
		add("random-bytes:one", randBytes(1))
		if len(w) > 1 {
			add("random-bytes:one-shorter", randBytes(len(w)-1))
		}
		add("random-bytes:same-length", randBytes(len(w)))
		add("random-bytes:one-longer", randBytes(len(w)+1))
		add("random-bytes:longer", randBytes(2*len(w)+7))
		add("random-bytes:64KiB", randBytes(1<<16))
		add("zero-bytes", make([]byte, 1000))
		add("other-configuration", fresh(rvalid(0)))
		ps = append(ps, prior{kind: "symbolic-link:own+requirement-line", link: true, data: append(append([]byte{}, w...), "zz = {path = 'z', version = 'v9.9.9'}\n"...)},
			prior{kind: "symbolic-link:hand-written", link: true, data: decorate(c, 0)})
		return ps
	}
	bases := []*Config{
		{},
		{Name: "n"},
		{Requirements: map[string]RequirementConfig{"dep": req("github.com/a/b", "v1.2.3")}},
		{Name: "n", Version: "0.1", Ignore: []string{"*.o", "build/**"}, Requirements: map[string]RequirementConfig{"b": req("b", "v1.0.0"), "a": req("a@v3", "v3.1.4")}},
		{Name: "it's", Version: "say \"hi\"", Ignore: []string{"a'b\"c\\d\ne", ""}, Requirements: map[string]RequirementConfig{"a b": req("a/b@v2", "v2.0.0-rc.1"), "": req(".", "v0.0.0")}},
		{Name: "日本語", Ignore: []string{"é/**"}, Requirements: map[string]RequirementConfig{"é": req("é/\U0001F600@v2", "v2.0.0"), "\U0001F600": req("a", "v1.0.0-x-y-z.--")}},
		{Ignore: []string{"only", "ignore"}},
		// free-form fields holding text of the restricted fields' domains
		{Name: "v1.2.3+build.7", Version: "v2", Ignore: []string{"a//b/", " x ", "./a", "a"}, Requirements: map[string]RequirementConfig{"v1.0": req("a@v2", "v2.0.0"), "a/../b": req("b", "v1.0.0"), "1.0": req(".", "v0.0.0-0")}},
	}
	many := &Config{Name: "many", Requirements: map[string]RequirementConfig{}}
	for i := 0; i < 12; i++ {
		many.Requirements[fmt.Sprintf("dep%02d", i)] = req(goodP[i%len(goodP)], goodV[i%len(goodV)])
	}
	bases = append(bases, many)
	nbase, _ := strconv.Atoi(os.Getenv("VERIF_NBASE"))
	if nbase == 0 {
		nbase = 8
	}
	for i := 0; i < nbase; i++ {
		bases = append(bases, rvalid(0))
	}
	for _, c := range bases {
		if !c19valid(c) {
			continue
		}
		for _, pr := range priorsFor(c) {
			rwDo("previous-state", pr, c, nil, true)
		}
	}
	// family C: get / tidy histories on one path: a hand-written or canonical dawn.toml, then load - modify - write steps
	nchain, _ := strconv.Atoi(os.Getenv("VERIF_NCHAIN"))
	if nchain == 0 {
		nchain = 40
	}
	for ch := 0; ch < nchain; ch++ {
		c := rvalid(2)
		start := fresh(c)
		if st := rng.Intn(4); st < 3 {
			start = decorate(c, st)
		}
		setPrior(prior{data: start})
		cur, err, p := c19load(p3)
		if p || err != nil || !c19valid(cur) {
			rwStats["history:start-not-loadable"]++
			continue
		}
		history := []*Config{cur}
		at := start
		for step := 0; step < 6; step++ {
			next := clone(cur)
			names := make([]string, 0, len(next.Requirements))
			for k := range next.Requirements {
				names = append(names, k)
			}
			sort.Strings(names)
			op := "rewrite-unchanged"
			switch o := rng.Intn(7); {
			case o <= 1 && len(names) > 0: // tidy: requirements that are no longer needed go away
				op = "tidy-drop"
				for n := 1 + rng.Intn(len(names)); n > 0; n-- {
					delete(next.Requirements, names[rng.Intn(len(names))])
				}
			case o == 2: // get: a new requirement
				op = "get-add"
				next.Requirements[rs()] = req(okPaths[rng.Intn(len(okPaths))], okVers[rng.Intn(len(okVers))])
			case o == 3 && len(names) > 0: // get: another version (and possibly another major) of an existing one
				op = "get-version"
				k := names[rng.Intn(len(names))]
				next.Requirements[k] = req(okPaths[rng.Intn(len(okPaths))], okVers[rng.Intn(len(okVers))])
			case o == 4:
				op = "rename"
				next.Name, next.Version = rs(), rs()
			case o == 5:
				op = "ignore"
				next.Ignore = nil
				for n := rng.Intn(3); n > 0; n-- {
					next.Ignore = append(next.Ignore, rs())
				}
			}
			if !c19valid(next) {
				continue
			}
			rwStats["history-step:"+op]++
			rwDo("history", prior{kind: fmt.Sprintf("history-step-%d:%s", step, op), data: at}, next, history, false)
			at, _ = os.ReadFile(p3) // what the implementation left: the next step starts from it
			history = append(history, next)
			cur = next
		}
	}
	// ---------------- sessions: one process, several files, several spellings of their paths ----------------
	// "Writing a configuration and loading it back" names the file twice, and nothing says both times with the same
	// string: get/tidy build the path from the workspace root, resolution loads dawn.toml of cached projects, a root
	// may be reached through a symbolic link, a path may be relative.  What a load returns must be a function of the
	// FILE the path names at that moment (the last configuration written to it, through any spelling) and not of the
	// spelling or of what this process loaded or wrote earlier.  A session is a sequence of WriteConfigFile /
	// LoadConfigFile calls over three files and 16 spellings, with changes of the working directory and a symbolic link
	// that is re-pointed in between (one spelling, different files).  The harness keeps its own account of which file
	// each spelling names; oracle at every load of a file that was written in the session: the loaded configuration is
	// the last one written to that file, the bytes of the file are those of a write to a fresh path and writing what
	// was loaded reproduces them.  Every session is replayed in a directory of its own (fresh path strings).
	//   {"t":"session","kind":..,"init":[present0,present1,present2],"ops":[{"op":"write","sp":k,"spelling":..,"file":f,"cfg":C} |
	//      {"op":"load","sp":k,"spelling":..,"file":f,"err":bool,"loaded":C|null} | {"op":"chdir","to":..} | {"op":"retarget","to":..}],
	//      "final":[hex|null x3]}
	type sop struct {
		kind string // write, load, chdir, retarget
		sp   int
		cfg  *Config
		to   int // chdir: 0 real, 1 other, 2 real/sub; retarget: 0 real, 1 other
	}
	type session struct {
		init [3]bool // the file exists (empty) before the session
		ops  []sop
	}
	spNames := []string{"$W/real/dawn.toml", "$W/real/./dawn.toml", "$W/real//dawn.toml", "$W/real/sub/../dawn.toml",
		"$W/other/../real/dawn.toml", "$W/link/dawn.toml (link -> real)", "$W/real/alias.toml (-> dawn.toml)",
		"$W/real/hard.toml (hard link)", "dawn.toml (relative)", "./dawn.toml (relative)", "relative path from the working directory to $W/real/dawn.toml",
		"$W/cur/dawn.toml (cur -> real | other)", "$W/other/dawn.toml", "$W/real/sub/dawn.toml", "$W/link/../other/dawn.toml", "$W/link/sub/dawn.toml"}
	const nSp = 16
	origWd, _ := os.Getwd()
	defer os.Chdir(origWd)
	nWorld := 0
	type sessRes struct {
		rec      []map[string]any
		final    []any
		fail     string // first oracle failure ("" = none)
		failAt   int
		detail   string
		panicked bool
	}
	playSession := func(se session) (res sessRes) {
		nWorld++
		W := filepath.Join(dir, fmt.Sprintf("w%06d", nWorld))
		defer func() { os.Chdir(origWd); os.RemoveAll(W) }()
		dirs := []string{filepath.Join(W, "real"), filepath.Join(W, "other"), filepath.Join(W, "real", "sub")}
		os.MkdirAll(dirs[2], 0o755)
		os.MkdirAll(dirs[1], 0o755)
		canon := []string{filepath.Join(dirs[0], "dawn.toml"), filepath.Join(dirs[1], "dawn.toml"), filepath.Join(dirs[2], "dawn.toml")}
		os.Symlink("real", filepath.Join(W, "link"))
		os.Symlink("real", filepath.Join(W, "cur"))
		os.Symlink("dawn.toml", filepath.Join(dirs[0], "alias.toml"))
		for f, present := range se.init {
			if present {
				os.WriteFile(canon[f], nil, 0o644)
			}
		}
		hard := se.init[0]
		if hard {
			os.Link(canon[0], filepath.Join(dirs[0], "hard.toml"))
		}
		cwd, cur := 0, 0
		os.Chdir(dirs[0])
		sep := string(filepath.Separator)
		// the path string of spelling k and the file it names now (-1 = not available in this state)
		spell := func(k int) (string, int) {
			switch k {
			case 0:
				return canon[0], 0
			case 1:
				return dirs[0] + sep + "." + sep + "dawn.toml", 0
			case 2:
				return dirs[0] + sep + sep + "dawn.toml", 0
			case 3:
				return dirs[2] + sep + ".." + sep + "dawn.toml", 0
			case 4:
				return dirs[1] + sep + ".." + sep + "real" + sep + "dawn.toml", 0
			case 5:
				return filepath.Join(W, "link") + sep + "dawn.toml", 0
			case 6:
				return filepath.Join(dirs[0], "alias.toml"), 0
			case 7:
				if !hard {
					return "", -1
				}
				return filepath.Join(dirs[0], "hard.toml"), 0
			case 8:
				return "dawn.toml", cwd
			case 9:
				return "." + sep + "dawn.toml", cwd
			case 10:
				rel, err := filepath.Rel(dirs[cwd], canon[0])
				if err != nil {
					return "", -1
				}
				return rel, 0
			case 11:
				return filepath.Join(W, "cur") + sep + "dawn.toml", cur
			case 12:
				return canon[1], 1
			case 13:
				return canon[2], 2
			case 14:
				return filepath.Join(W, "link") + sep + ".." + sep + "other" + sep + "dawn.toml", 1
			case 15:
				return filepath.Join(W, "link") + sep + "sub" + sep + "dawn.toml", 2
			}
			return "", -1
		}
		last := [3]*Config{}
		scratch := filepath.Join(W, "scratch.toml")
		note := func(i int, name, detail string) {
			if res.fail == "" {
				res.fail, res.failAt, res.detail = name, i, detail
			}
		}
		for i, o := range se.ops {
			switch o.kind {
			case "chdir":
				cwd = o.to
				os.Chdir(dirs[cwd])
				res.rec = append(res.rec, map[string]any{"op": "chdir", "to": []string{"$W/real", "$W/other", "$W/real/sub"}[cwd]})
			case "retarget":
				cur = o.to
				os.Remove(filepath.Join(W, "cur"))
				os.Symlink([]string{"real", "other"}[cur], filepath.Join(W, "cur"))
				res.rec = append(res.rec, map[string]any{"op": "retarget", "to": []string{"$W/cur -> real", "$W/cur -> other"}[cur]})
			case "write":
				pth, f := spell(o.sp)
				if f < 0 {
					continue
				}
				err, p := c19write(pth, o.cfg)
				if p {
					res.panicked = true
					note(i, "write-panics", "")
					return
				}
				res.rec = append(res.rec, map[string]any{"op": "write", "sp": o.sp, "spelling": spNames[o.sp], "file": f, "cfg": c19export(o.cfg)})
				if err != nil {
					note(i, "session-write-fails", err.Error())
					return
				}
				last[f] = o.cfg
				if b, _ := os.ReadFile(canon[f]); string(b) != string(fresh(o.cfg)) {
					note(i, "session-write-leaves-other-bytes-than-a-fresh-write", hex.EncodeToString(b))
				}
			case "load":
				pth, f := spell(o.sp)
				if f < 0 {
					continue
				}
				got, err, p := c19load(pth)
				if p {
					res.panicked = true
					note(i, "load-panics", "")
					return
				}
				res.rec = append(res.rec, map[string]any{"op": "load", "sp": o.sp, "spelling": spNames[o.sp], "file": f, "err": err != nil, "loaded": c19export(got)})
				if last[f] == nil {
					continue // never written in this session: nothing to round-trip
				}
				switch {
				case err != nil:
					note(i, "session-load-of-written-file-fails", err.Error())
				case !c19same(got, last[f]):
					lj, _ := json.Marshal(c19export(got))
					note(i, "session-load-differs-from-last-write-to-the-file", string(lj))
				default:
					os.Remove(scratch)
					c19write(scratch, got)
					b2, _ := os.ReadFile(scratch)
					if b, _ := os.ReadFile(canon[f]); string(b) != string(b2) {
						note(i, "session-write-of-loaded-differs-from-file", hex.EncodeToString(b2))
					}
				}
			}
		}
		for f := range canon {
			if b, err := os.ReadFile(canon[f]); err == nil {
				res.final = append(res.final, hex.EncodeToString(b))
			} else {
				res.final = append(res.final, nil)
			}
		}
		return
	}
	nSess, nSessFail := 0, 0
	doSession := func(kind string, se session) {
		res := playSession(se)
		nSess++
		rwStats["session:"+kind]++
		for _, o := range res.rec {
			rwStats["session-op:"+o["op"].(string)]++
		}
		if !res.panicked {
			emit(map[string]any{"t": "session", "kind": kind, "init": se.init, "ops": res.rec, "final": res.final})
		}
		if res.fail == "" || nSessFail >= 40 {
			return
		}
		nSessFail++
		small := se
		if nSessFail <= 10 { // drop operations (from the end first) while the same oracle keeps failing; each replay is in a fresh directory
			for again := true; again; {
				again = false
				for i := len(small.ops) - 1; i >= 0; i-- {
					cand := session{init: small.init, ops: append(append([]sop{}, small.ops[:i]...), small.ops[i+1:]...)}
					if r := playSession(cand); r.fail == res.fail {
						small, again = cand, true
						break
					}
				}
			}
			for f := range small.init {
				cand := small
				cand.init[f] = false
				if r := playSession(cand); r.fail == res.fail {
					small = cand
				}
			}
		}
		sr := playSession(small)
		if sr.fail == "" {
			small, sr = se, res
		}
		var cfg *c19cfg
		for _, o := range sr.rec {
			if o["op"] == "write" {
				cfg = o["cfg"].(*c19cfg) // the last configuration written: what the failing load should have seen
			}
		}
		emit(map[string]any{"t": "ORACLE", "name": sr.fail, "cfg": cfg, "bytes": "", "detail": sr.detail, "from": "session:" + kind,
			"session": map[string]any{"init": small.init, "ops": sr.rec, "failing_op": len(sr.rec) - 1, "final": sr.final}})
	}
	tiny := func() *Config { // small valid configurations: the sessions are about paths, the strings are exercised above
		c := &Config{}
		if rng.Intn(2) == 0 {
			c.Name = rs()
		}
		if rng.Intn(3) == 0 {
			c.Ignore = []string{rs()}
		}
		for n := rng.Intn(3); n > 0; n-- {
			if c.Requirements == nil {
				c.Requirements = map[string]RequirementConfig{}
			}
			c.Requirements[rs()] = req(goodP[rng.Intn(len(goodP))], goodV[rng.Intn(len(goodV))])
		}
		if !c19valid(c) {
			return &Config{Name: "n", Requirements: map[string]RequirementConfig{"dep": req("a/b@v2", "v2.0.0-rc.1")}}
		}
		return c
	}
	cfgA := &Config{Name: "project", Version: "v1.2.3", Ignore: []string{"**/testdata"}, Requirements: map[string]RequirementConfig{"alpha": req("reqs/alpha", "v1.2.3")}}
	cfgB := &Config{Name: "project", Version: "v1.2.3", Ignore: []string{"**/testdata"}, Requirements: map[string]RequirementConfig{
		"alpha": req("reqs/alpha", "v1.2.4"), "a b": req("reqs/beta@v2", "v2.0.0")}}
	// (1) every ordered pair of spellings of ONE file: write, load through L, rewrite through W (what get/tidy do), load through L
	same0 := []int{0, 1, 2, 3, 4, 5, 6, 7, 8, 9, 10, 11}
	for _, l := range same0 {
		for _, wsp := range same0 {
			doSession("spelling-pair", session{init: [3]bool{true, false, false}, ops: []sop{{kind: "write", sp: 0, cfg: cfgA}, {kind: "load", sp: l},
				{kind: "write", sp: wsp, cfg: cfgB}, {kind: "load", sp: l}, {kind: "load", sp: wsp}}})
		}
	}
	// (2) a load BEFORE the first write (an absent or empty file), then the write through another spelling
	for _, l := range same0 {
		for _, present := range []bool{false, true} {
			doSession("load-before-first-write", session{init: [3]bool{present, false, false}, ops: []sop{{kind: "load", sp: l},
				{kind: "write", sp: same0[(l+5)%len(same0)], cfg: tiny()}, {kind: "load", sp: l}, {kind: "write", sp: l, cfg: tiny()}, {kind: "load", sp: 0}}})
		}
	}
	// (3) one spelling, different files: a relative path across a change of directory, a symbolic link that is re-pointed
	for _, rel := range []int{8, 9} {
		for to := 1; to <= 2; to++ {
			doSession("one-spelling-two-files", session{ops: []sop{{kind: "write", sp: rel, cfg: cfgA}, {kind: "load", sp: rel}, {kind: "chdir", to: to},
				{kind: "write", sp: 12 + to - 1, cfg: cfgB}, {kind: "load", sp: rel}, {kind: "write", sp: rel, cfg: tiny()}, {kind: "chdir", to: 0}, {kind: "load", sp: rel}, {kind: "load", sp: 12 + to - 1}}})
		}
	}
	doSession("one-spelling-two-files", session{ops: []sop{{kind: "write", sp: 11, cfg: cfgA}, {kind: "load", sp: 11}, {kind: "write", sp: 12, cfg: cfgB}, {kind: "retarget", to: 1},
		{kind: "load", sp: 11}, {kind: "write", sp: 11, cfg: tiny()}, {kind: "retarget", to: 0}, {kind: "load", sp: 11}, {kind: "load", sp: 14}}})
	// (4) random sessions over everything
	nrs, _ := strconv.Atoi(os.Getenv("VERIF_NSESSION"))
	if nrs == 0 {
		nrs = 60
	}
	for i := 0; i < nrs; i++ {
		se := session{init: [3]bool{rng.Intn(2) == 0, rng.Intn(2) == 0, rng.Intn(2) == 0}}
		for n := 5 + rng.Intn(10); n > 0; n-- {
			switch o := rng.Intn(10); {
			case o < 4:
				se.ops = append(se.ops, sop{kind: "write", sp: rng.Intn(nSp), cfg: tiny()})
			case o < 8:
				se.ops = append(se.ops, sop{kind: "load", sp: rng.Intn(nSp)})
			case o == 8:
				se.ops = append(se.ops, sop{kind: "chdir", to: rng.Intn(3)})
			default:
				se.ops = append(se.ops, sop{kind: "retarget", to: rng.Intn(2)})
			}
		}
		doSession("random", se)
	}
	rwStats["sessions"] = nSess
	emit(map[string]any{"t": "rwstats", "counts": rwStats})
}
