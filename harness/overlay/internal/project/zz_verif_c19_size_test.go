package project

// C19, the SIZE of a configuration (added to the package through `go test -overlay` next to zz_verif_c19_test.go, whose
// helpers it uses; never committed to /repo).
//
// "Writing a project configuration and loading it back yields the same configuration for EVERY valid one": nothing in the
// statement bounds how many requirements or ignore patterns a project has, how long a name, a pattern, a requirement name, a
// path or a version is, or how many bytes dawn.toml takes.  The other families of the C19 harness vary WHAT the strings are;
// their largest file is about 1.5 KB.  Everything that depends on how MUCH there is - a read limit or a fixed buffer in the
// loader, a line-length limit of a scanner, a chunked copy that mishandles the boundary between two chunks (or a multi-byte
// character or an escape sequence that straddles it), a buffered writer that is not flushed, a counter that wraps, a cap on
// the number of entries or on the length of a string - is invisible to them.  This family makes size the input:
//
//   shapes    what makes the configuration large: many requirements (bare keys / quoted multi-byte keys), many ignore
//             patterns (ONE long line in the file), one long string in each string position (name: ASCII, two-byte
//             characters, characters that need escapes; an ignore pattern; a requirement name; a path; a version), and a mixed
//             project with seeded lengths.  Every shape is a function (n, pad) -> configuration; pad lengthens the project's
//             version byte by byte, so the serialised size can be set exactly.
//   targets   every power of two 2^8 .. 2^20 (2^22 in the thorough tier) and every power of ten 10^3 .. 10^6: for each target
//             T and each shape, configurations whose FILE is exactly T-1, T and T+1 bytes long; also n = T-1, T, T+1 for the
//             shape's own parameter (255/256/257 requirements, a 65536-byte name, ...; entry counts up to 2^12, 2^13 thorough).
//             Above 64 KiB (256 KiB thorough): four shapes, one file size (T+1) per target except for long-name.  go-toml's
//             decoder takes time quadratic in the number of keys of a table (15 000 requirements: 2 s), so files made of
//             requirement lines stop at 256 KiB (1 MiB thorough) and the larger files are made of patterns and long strings.
//   alignment for T in {512, 4096} and the multi-line shapes, and T = 65536 for the quoted-keys shape (every 2^9..2^17 and all
//             three shapes in the thorough tier), a file of about 1.5 T bytes shifted one byte at a time over more than a
//             line's length: byte T of the file is, in turn, every position of a requirement line, the line's first byte and
//             both bytes of a two-byte character included.  (A cut at a line boundary leaves a well-formed shorter document:
//             the loader reports nothing and the tail of [requirements] is gone.)  From 32 KiB on without the rewrite steps.
//   random    seeded sizes between the targets.
//
// Oracle (the property's own, on every case; every generated configuration is inside the quantifier, which is asserted with
// c19valid and not assumed): WriteConfigFile(fresh path) succeeds; LoadConfigFile gives the configuration written;
// writing what was loaded gives the same bytes; then the step dawn get / dawn tidy perform on a file of this size: the loaded
// configuration with one requirement more is written over the file, loaded, compared; then the configuration with half of its
// requirements and patterns (tidy) written over that, loaded, compared.
// A failing case is shrunk along its own parameter (bisection for the smallest failing n, then pad 0) and reported with its
// generator, its size and the file dawn wrote.
//
// Output, one JSON object per line in $VERIF_OUT_SIZE:
//   {"t":"cfg", ...}          as in zz_verif_c19_test.go: the cases of at most $VERIF_SIZE_MODEL bytes around T = 4096 go to the model
//   {"t":"ORACLE","name":..,"size":{shape,n,pad,unit,target,serialised_bytes,requirements,ignore_patterns,longest_string,
//                 generated_n,generated_pad},"text":..,"text_truncated":bool,"detail":..,"from":"size:<shape>"}
//   {"t":"sizestats","counts":{..},"max_bytes":..,"bytes_total":..,"targets":[..]}

import (
	"bufio"
	"encoding/hex"
	"encoding/json"
	"fmt"
	"math/rand"
	"os"
	"path/filepath"
	"sort"
	"strconv"
	"strings"
	"testing"
)

type c19shape struct {
	name  string
	unit  string // what n counts
	kind  int    // 0 = n is a number of entries, 1 = n is the length of one string
	lines bool   // the file has about n lines (a byte offset can fall on a line boundary inside [requirements])
	build func(n, pad int) *Config
}

func c19sizeShapes(seed int64) []c19shape {
	ver := func(pad int) string { return "v1" + strings.Repeat("x", pad) } // free text: the project's version
	rq := func(p, v string) RequirementConfig { return RequirementConfig{Path: p, Version: v} }
	long := func(unit string, n int) string { // n bytes made of repetitions of unit, cut at a unit boundary and filled with 'x'
		s := strings.Repeat(unit, n/len(unit))
		return s + strings.Repeat("x", n-len(s))
	}
	one := func(name, unit string, put func(c *Config, s string)) c19shape {
		return c19shape{name: name, unit: "bytes in one string", kind: 1, build: func(n, pad int) *Config {
			c := &Config{Name: "big", Version: ver(pad), Ignore: []string{"a/**", "z/**"},
				Requirements: map[string]RequirementConfig{"alpha": rq("example.com/org/alpha", "v1.2.3"), "omega": rq("example.com/org/omega@v2", "v2.0.0-rc.1")}}
			put(c, long(unit, n))
			return c
		}}
	}
	return []c19shape{
		{name: "requirements", unit: "requirements", lines: true, build: func(n, pad int) *Config {
			c := &Config{Name: "big", Version: ver(pad), Requirements: map[string]RequirementConfig{}}
			for i := 0; i < n; i++ {
				c.Requirements[fmt.Sprintf("dep%06d", i)] = rq(fmt.Sprintf("example.com/org/dep%06d", i), "v1.2.3")
			}
			return c
		}},
		{name: "requirements-quoted-keys", unit: "requirements", lines: true, build: func(n, pad int) *Config {
			c := &Config{Name: "big", Version: ver(pad), Ignore: []string{"build/**"}, Requirements: map[string]RequirementConfig{}}
			for i := 0; i < n; i++ {
				c.Requirements[fmt.Sprintf("dép %06d's", i)] = rq(fmt.Sprintf("é/lib%06d@v2", i), "v2.0.0-rc.1")
			}
			return c
		}},
		{name: "ignore-patterns", unit: "ignore patterns", build: func(n, pad int) *Config {
			c := &Config{Name: "big", Version: ver(pad), Requirements: map[string]RequirementConfig{"omega": rq("example.com/org/omega", "v1.2.3")}}
			for i := 0; i < n; i++ {
				c.Ignore = append(c.Ignore, fmt.Sprintf("dir%06d/**", (i*7919)%1000003))
			}
			return c
		}},
		{name: "mixed", unit: "requirements (and n/4 ignore patterns)", lines: true, build: func(n, pad int) *Config {
			r := rand.New(rand.NewSource(seed)) // the same prefix for every n: the shape is monotone in n
			c := &Config{Name: "mixed project", Version: ver(pad), Requirements: map[string]RequirementConfig{}}
			word := func() string { return strings.Repeat("w", 1+r.Intn(24)) }
			for i := 0; i < n; i++ {
				k, p, v := fmt.Sprintf("%s-%d", word(), i), "github.com/"+word()+"/"+word(), fmt.Sprintf("v%d.%d.%d", r.Intn(3), r.Intn(40), r.Intn(200))
				switch r.Intn(4) {
				case 0:
					k = k + " (fork)"
				case 1:
					p += "@v" + strconv.Itoa(2+r.Intn(9))
				case 2:
					v += "-rc." + strconv.Itoa(1+r.Intn(9))
				}
				c.Requirements[k] = rq(p, v)
				if i%4 == 0 {
					c.Ignore = append(c.Ignore, word()+"/**")
				}
			}
			return c
		}},
		one("long-name", "x", func(c *Config, s string) { c.Name = s }),
		one("long-name-two-byte-characters", "é", func(c *Config, s string) { c.Name = s }),
		one("long-name-escapes", "line\n'q\"\t\\", func(c *Config, s string) { c.Name = s }),
		one("long-ignore-pattern", "dir/", func(c *Config, s string) { c.Ignore = []string{"a/**", s, "z/**"} }),
		one("long-requirement-name", "k", func(c *Config, s string) { c.Requirements["b"+s] = rq("example.com/org/long", "v1.0.0") }),
		one("long-quoted-requirement-name", "k 日", func(c *Config, s string) { c.Requirements["b"+s] = rq("example.com/org/long", "v1.0.0") }),
		one("long-path", "seg/", func(c *Config, s string) { c.Requirements["beta"] = rq("example.com/"+s+"x@v3", "v3.0.0") }),
		one("long-version", "a", func(c *Config, s string) { c.Requirements["beta"] = rq("example.com/org/beta", "v1.2.3-"+s+"a") }),
	}
}

func TestVerifC19Size(t *testing.T) {
	out := os.Getenv("VERIF_OUT_SIZE")
	if out == "" {
		t.Skip("VERIF_OUT_SIZE not set")
	}
	f, err := os.Create(out)
	if err != nil {
		t.Fatal(err)
	}
	defer f.Close()
	w := bufio.NewWriterSize(f, 1<<20)
	defer w.Flush()
	emit := func(v any) {
		b, _ := json.Marshal(v)
		w.Write(b)
		w.WriteByte('\n')
	}
	geti := func(k string, d int) int {
		if v, err := strconv.Atoi(os.Getenv(k)); err == nil && v > 0 {
			return v
		}
		return d
	}
	seed := geti("VERIF_SEED", 0)
	maxPow := geti("VERIF_SIZE_MAXPOW", 20)   // file sizes up to 2^maxPow
	widePow := geti("VERIF_SIZE_WIDEPOW", 16) // above 2^widePow: four shapes only, and one file size per target (T+1) except for long-name
	cntPow := geti("VERIF_SIZE_CNTPOW", 12)   // n = T-1, T, T+1 ENTRIES for T up to 2^cntPow
	reqPow := geti("VERIF_SIZE_REQPOW", 18)   // files of requirement lines up to 2^reqPow bytes (go-toml's decoder takes time
	// quadratic in the number of keys of a table: 15 000 requirements load in 2 s, 65 000 in 13 s); larger files: other shapes
	modelMax := geti("VERIF_SIZE_MODEL", 4200) // cases of at most this many bytes around T=4096 also go to the Coq model
	nRandom := geti("VERIF_SIZE_NRANDOM", 40)
	alignTs := []int{1 << 9, 1 << 12, 1 << 16} // 2^16: one shape only (see below)
	if os.Getenv("VERIF_SIZE_ALIGN_ALL") != "" {
		alignTs = nil
		for k := 9; k <= 17; k++ {
			alignTs = append(alignTs, 1<<k)
		}
	}
	rng := rand.New(rand.NewSource(int64(seed)*7919 + 1919))
	dir := t.TempDir()
	if d, err := os.MkdirTemp("/dev/shm", "verif-c19-size-"); err == nil {
		dir = d
		defer os.RemoveAll(d)
	}
	p1, p2 := filepath.Join(dir, "dawn.toml"), filepath.Join(dir, "dawn2.toml")
	shapes := c19sizeShapes(int64(seed) + 77)
	stats := map[string]int{}
	maxBytes, bytesTotal := 0, 0

	sizeOf := func(c *Config) int {
		os.Remove(p2)
		if err, p := c19write(p2, c); err != nil || p {
			return -1
		}
		st, err := os.Stat(p2)
		if err != nil {
			return -1
		}
		return int(st.Size())
	}
	clone := func(c *Config) *Config {
		n := &Config{Name: c.Name, Version: c.Version, Ignore: append([]string{}, c.Ignore...), Requirements: map[string]RequirementConfig{}}
		for k, r := range c.Requirements {
			n.Requirements[k] = r
		}
		return n
	}
	describe := func(want, got *Config) string {
		if got == nil {
			return "nothing loaded"
		}
		var d []string
		if got.Name != want.Name {
			d = append(d, fmt.Sprintf("name: %d bytes loaded, %d written", len(got.Name), len(want.Name)))
		}
		if got.Version != want.Version {
			d = append(d, fmt.Sprintf("version: %d bytes loaded, %d written", len(got.Version), len(want.Version)))
		}
		if len(got.Ignore) != len(want.Ignore) {
			d = append(d, fmt.Sprintf("ignore: %d patterns loaded, %d written", len(got.Ignore), len(want.Ignore)))
		} else {
			for i := range want.Ignore {
				if got.Ignore[i] != want.Ignore[i] {
					d = append(d, fmt.Sprintf("ignore[%d]: %d bytes loaded, %d written", i, len(got.Ignore[i]), len(want.Ignore[i])))
					break
				}
			}
		}
		if len(got.Requirements) != len(want.Requirements) {
			d = append(d, fmt.Sprintf("requirements: %d loaded, %d written", len(got.Requirements), len(want.Requirements)))
		}
		names := make([]string, 0, len(want.Requirements))
		for k := range want.Requirements {
			names = append(names, k)
		}
		sort.Strings(names)
		for _, k := range names {
			if r, ok := got.Requirements[k]; !ok {
				d = append(d, fmt.Sprintf("first requirement missing: %.60q", k))
				break
			} else if r != want.Requirements[k] {
				d = append(d, fmt.Sprintf("requirement %.60q: path/version differ", k))
				break
			}
		}
		return strings.Join(d, "; ")
	}
	// the direct oracle; "" = holds.  b1 = the file of the first write
	light := false // true: without the two rewrite steps (the large members of the alignment sweep)
	check := func(c *Config) (name, detail string, b1 []byte) {
		if !c19valid(c) {
			return "harness:generated-configuration-not-valid", "", nil
		}
		os.Remove(p1)
		os.Remove(p2)
		if err, p := c19write(p1, c); p {
			return "write-panics", "", nil
		} else if err != nil {
			return "valid-config-write-fails", err.Error(), nil
		}
		b1, _ = os.ReadFile(p1)
		got, err, p := c19load(p1)
		switch {
		case p:
			return "load-panics", "", b1
		case err != nil:
			return "valid-config-does-not-load-back", err.Error(), b1
		case !c19same(got, c):
			return "loaded-differs-from-written", describe(c, got), b1
		}
		if err, p := c19write(p2, got); err != nil || p {
			return "second-write-differs", "writing the loaded configuration fails", b1
		}
		if b2, _ := os.ReadFile(p2); string(b2) != string(b1) {
			return "second-write-differs", fmt.Sprintf("%d bytes, the first write gave %d", len(b2), len(b1)), b1
		}
		if light {
			return "", "", b1
		}
		// dawn get: what was loaded, one requirement more, written over the file; dawn tidy: half of it, over that
		more := clone(got)
		more.Requirements["zzzz-added"] = RequirementConfig{Path: "example.com/org/added@v2", Version: "v2.3.4"}
		less := &Config{Name: c.Name, Version: c.Version, Ignore: append([]string{}, c.Ignore[:len(c.Ignore)/2]...), Requirements: map[string]RequirementConfig{}}
		i := 0
		names := make([]string, 0, len(c.Requirements))
		for k := range c.Requirements {
			names = append(names, k)
		}
		sort.Strings(names)
		for _, k := range names {
			if i%2 == 0 {
				less.Requirements[k] = c.Requirements[k]
			}
			i++
		}
		for _, step := range []struct {
			what string
			cfg  *Config
		}{{"one requirement added", more}, {"every second requirement and half of the patterns removed", less}} {
			if err, p := c19write(p1, step.cfg); err != nil || p {
				return "rewrite-in-place-fails", step.what, b1
			}
			got, err, p := c19load(p1)
			switch {
			case p:
				return "load-panics", step.what, b1
			case err != nil:
				return "rewritten-file-does-not-load-back", step.what + ": " + err.Error(), b1
			case !c19same(got, step.cfg):
				return "rewritten-file-loads-a-different-configuration", step.what + ": " + describe(step.cfg, got), b1
			}
		}
		return "", "", b1
	}

	nFail := map[string]int{}
	longest := func(c *Config) int {
		m := len(c.Name)
		for _, s := range c.Ignore {
			if len(s) > m {
				m = len(s)
			}
		}
		for k, r := range c.Requirements {
			for _, s := range []string{k, r.Path, r.Version} {
				if len(s) > m {
					m = len(s)
				}
			}
		}
		return m
	}
	do := func(sh c19shape, n, pad int, target string, model bool) {
		c := sh.build(n, pad)
		name, detail, b1 := check(c)
		stats["cases"]++
		stats["shape:"+sh.name]++
		stats["family:"+strings.SplitN(target, ":", 2)[0]]++
		bytesTotal += len(b1)
		if len(b1) > maxBytes {
			maxBytes = len(b1)
		}
		for _, lim := range []int{1 << 12, 1 << 16, 1 << 20} {
			if len(b1) > lim {
				stats[fmt.Sprintf("file-larger-than-%d", lim)]++
			}
		}
		if model && name == "" && len(b1) <= modelMax {
			h := hex.EncodeToString(b1)
			emit(map[string]any{"t": "cfg", "kind": "size:" + sh.name, "cfg": c19export(c), "valid": true, "werr": false, "bytes": h,
				"lerr": false, "loaded": c19export(c), "bytes2": h})
			stats["to-model"]++
		}
		if name == "" {
			return
		}
		stats["failures"]++
		if nFail[name]++; nFail[name] > 6 { // per oracle: a silent loss is not crowded out by the (more frequent) load errors
			return
		}
		// shrink along the shape's own parameter: the smallest failing n (bisection; failure need not be monotone, so the
		// result is verified), then without padding
		sn, sp, sname, sdetail, sb := n, pad, name, detail, b1
		if nFail[name] <= 2 {
			bad := func(n, pad int) bool { nm, _, _ := check(sh.build(n, pad)); return nm != "" }
			lo, hi := 0, n
			for lo < hi {
				mid := (lo + hi) / 2
				if bad(mid, pad) {
					hi = mid
				} else {
					lo = mid + 1
				}
			}
			if hi < n && bad(hi, pad) {
				sn = hi
			}
			if sp != 0 && bad(sn, 0) {
				sp = 0
			}
			if nm, dt, bb := check(sh.build(sn, sp)); nm != "" {
				sname, sdetail, sb = nm, dt, bb
			} else {
				sn, sp = n, pad
			}
		}
		sc := sh.build(sn, sp)
		text, cut := string(sb), false
		if len(text) > 300000 {
			text, cut = text[:2000]+"\n...\n"+text[len(text)-2000:], true
		}
		emit(map[string]any{"t": "ORACLE", "name": sname, "detail": sdetail, "from": "size:" + sh.name, "text": text, "text_truncated": cut,
			"size": map[string]any{"shape": sh.name, "n": sn, "pad": sp, "unit": sh.unit, "target": target, "serialised_bytes": len(sb),
				"requirements": len(sc.Requirements), "ignore_patterns": len(sc.Ignore), "longest_string": longest(sc),
				"generated_n": n, "generated_pad": pad}})
	}
	// the configuration of shape sh whose file is exactly T bytes long (false when the shape cannot be that small)
	exact := func(sh c19shape, T int) (n, pad int, ok bool) {
		s0, sA, sB := sizeOf(sh.build(0, 0)), sizeOf(sh.build(8, 0)), sizeOf(sh.build(24, 0))
		if s0 < 0 || sB <= sA || T < s0 {
			return 0, 0, false
		}
		slope := float64(sB-sA) / 16 // bytes of file per unit of n, measured; then corrected on the real size (Newton steps)
		s := s0
		for it := 0; it < 30; it++ {
			step := int(float64(T-s) / slope)
			if step == 0 || n+step < 0 {
				break
			}
			n += step
			if s = sizeOf(sh.build(n, 0)); s < 0 {
				return 0, 0, false
			}
		}
		for s > T && n > 0 {
			n--
			s = sizeOf(sh.build(n, 0))
		}
		for it := 0; it < 64; it++ {
			if s2 := sizeOf(sh.build(n+1, 0)); s2 >= 0 && s2 <= T {
				n, s = n+1, s2
			} else {
				break
			}
		}
		if s < 0 || s > T {
			return 0, 0, false
		}
		return n, T - s, true
	}

	var targets []int
	for k := 8; k <= maxPow; k++ {
		targets = append(targets, 1<<k)
	}
	for T := 1000; T <= 1000000 && T <= 1<<maxPow; T *= 10 {
		targets = append(targets, T)
	}
	sort.Ints(targets)
	wideShapes := map[string]bool{"requirements": true, "ignore-patterns": true, "long-name": true, "long-name-two-byte-characters": true}
	all3, just1 := []int{-1, 0, 1}, []int{1}
	for _, T := range targets {
		wide := T > 1<<widePow
		for _, sh := range shapes {
			if wide && !wideShapes[sh.name] || sh.name == "requirements" && T > 1<<reqPow {
				continue
			}
			deltas := all3
			if wide && sh.name != "long-name" {
				deltas = just1
			}
			// (a) the FILE is T-1, T, T+1 bytes long
			for _, d := range deltas {
				if n, pad, ok := exact(sh, T+d); ok {
					if sz := sizeOf(sh.build(n, pad)); sz == T+d {
						stats["exact-file-size"]++
					} else {
						stats["inexact-file-size"]++
					}
					do(sh, n, pad, fmt.Sprintf("file-size:%d%+d", T, d), T == 4096)
				} else {
					stats["shape-cannot-be-that-small"]++
				}
			}
			// (b) the PARAMETER is T-1, T, T+1: that many entries, a string of that many bytes
			if sh.kind == 0 && T > 1<<cntPow || sh.kind == 1 && wide && sh.name != "long-name" {
				continue
			}
			for _, d := range all3 {
				do(sh, T+d, 0, fmt.Sprintf("parameter:%d%+d", T, d), false)
			}
		}
	}
	// alignment: byte T of the file at every position of a line
	for _, T := range alignTs {
		for _, sh := range shapes {
			if !sh.lines || T >= 1<<16 && os.Getenv("VERIF_SIZE_ALIGN_ALL") == "" && sh.name != "requirements-quoted-keys" {
				continue
			}
			light = T >= 1<<15
			n, _, ok := exact(sh, T+T/2)
			if !ok {
				continue
			}
			width := 0 // the longest line of [requirements], measured on the file itself
			os.Remove(p2)
			c19write(p2, sh.build(n, 0))
			b, _ := os.ReadFile(p2)
			if i := strings.Index(string(b), "[requirements]\n"); i >= 0 {
				b = b[i:]
			}
			for _, ln := range strings.SplitAfter(string(b), "\n") {
				if len(ln) > width && len(ln) <= 160 {
					width = len(ln)
				}
			}
			for pad := 0; pad <= width+2; pad++ {
				do(sh, n, pad, fmt.Sprintf("alignment:%d", T), false)
			}
			light = false
		}
	}
	// seeded sizes between the targets
	for i := 0; i < nRandom; i++ {
		sh := shapes[rng.Intn(len(shapes))]
		top := widePow
		if sh.name == "long-name" {
			top = maxPow
		}
		k := 8 + rng.Intn(top-8)
		T := 1<<k + rng.Intn(1<<k)
		if n, pad, ok := exact(sh, T); ok {
			do(sh, n, pad, "random:file-size", false)
		}
	}
	emit(map[string]any{"t": "sizestats", "counts": stats, "max_bytes": maxBytes, "bytes_total": bytesTotal, "targets": targets})
}
