package mvs

// C10 harness: BuildList on generated universes, cold cache / warm resolver / warm disk cache / shuffled
// declaration order, compared with an independent reachability/max reference (direct oracle) and emitted for the
// Coq model.

import (
	"context"
	"math/rand"
	"strconv"
	"testing"

	"github.com/pgavlin/dawn/internal/project"
)

type c10Result struct {
	St string      `json:"st"`
	M  [][2]string `json:"m"`
}

func c10Run(root *project.Config, resolver *Resolver) (c10Result, map[string]string) {
	r := vuCall(func() (map[string]string, error) { return BuildList(context.Background(), root, resolver) })
	if r.st != "ok" {
		return c10Result{St: r.st, M: [][2]string{}}, nil
	}
	return c10Result{St: "ok", M: vuSortedMap(r.val)}, r.val
}

func TestVerifC10(t *testing.T) {
	out, err := vuOpen()
	if err != nil {
		t.Fatal(err)
	}
	defer out.close()
	seed := int64(vuEnvInt("VERIF_SEED", 1))
	nuniv := vuEnvInt("VERIF_NUNIV", 200)
	nroots := vuEnvInt("VERIF_NROOTS", 3)
	malformedMajor := vuEnvInt("VERIF_MALFORMED_MAJOR", 0) != 0
	rng := rand.New(rand.NewSource(seed*7919 + 10))

	caseID := 0
	for ui := 0; ui < nuniv; ui++ {
		u := vuGen(rng, ui, malformedMajor)
		out.emit(u.describe())
		diskDir := t.TempDir() // shared by the roots of this universe: the second and later roots start warm
		for ri := 0; ri < nroots; ri++ {
			root := &project.Config{Requirements: vuGenRoot(rng, u, true)}
			caseID++
			out.emit(map[string]any{"t": "START", "case": caseID})

			ref, refOK := u.refBuildList(vuRootReqs(root))
			refRes := c10Result{St: "err", M: [][2]string{}}
			if refOK {
				refRes = c10Result{St: "ok", M: vuSortedMap(ref)}
			}

			res := map[string]c10Result{}
			// cold: fresh cache directory, fresh resolver
			coldDir := t.TempDir()
			coldResolver := NewResolver(coldDir, u.dialer, nil)
			res["cold"], _ = c10Run(root, coldResolver)
			// warm: the same resolver again (in-memory summaries) ...
			res["warm"], _ = c10Run(root, coldResolver)
			// ... and a new resolver over the now populated disk cache
			res["disk"], _ = c10Run(root, NewResolver(coldDir, u.dialer, nil))
			// a cache directory populated by other roots of the same universe
			res["shared"], _ = c10Run(root, NewResolver(diskDir, u.dialer, nil))
			// the same graph with every requirement list declared in another order, and other root names
			su := u.shuffled(rng)
			sroot := &project.Config{Requirements: map[string]project.RequirementConfig{}}
			i := 0
			for _, k := range vuSortedCfg(root.Requirements) {
				sroot.Requirements["z"+strconv.Itoa(len(root.Requirements)-i)] = project.RequirementConfig{Path: k[1], Version: k[2]}
				i++
			}
			res["shuf"], _ = c10Run(sroot, NewResolver(t.TempDir(), su.dialer, nil))

			for _, k := range []string{"cold", "warm", "disk", "shared", "shuf"} {
				r := res[k]
				same := r.St == refRes.St
				if same && r.St == "ok" {
					same = len(r.M) == len(refRes.M)
					for j := 0; same && j < len(r.M); j++ {
						same = r.M[j] == refRes.M[j]
					}
				}
				if !same {
					out.emit(map[string]any{"t": "ORACLE", "name": "buildlist-vs-reference:" + k, "case": caseID, "u": u.id,
						"root": vuSortedCfg(root.Requirements), "got": r, "want": refRes})
				}
			}
			out.emit(map[string]any{"t": "C10", "case": caseID, "u": u.id, "root": vuSortedCfg(root.Requirements),
				"res": res, "ref": refRes})
		}
	}
	out.emit(map[string]any{"t": "END", "cases": caseID})
}
