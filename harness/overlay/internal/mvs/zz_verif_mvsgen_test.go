package mvs

// Shared machinery of the C10/C11 correspondence harnesses (added to the package through `go test -overlay`;
// never committed to /repo).  It builds random universes on top of the package's own fake
// repository (testDialer / testRepository / testRevisions of repo_test.go and reqs_test.go), provides an
// independent reachability/max reference, a watchdog for every call, and the JSON-lines writer.

import (
	"bufio"
	"context"
	"encoding/json"
	"fmt"
	"math/rand"
	"os"
	"path"
	"sort"
	"strconv"
	"strings"
	"time"

	"github.com/pgavlin/dawn/internal/project"
	"golang.org/x/mod/module"
	"golang.org/x/mod/semver"
)

const vuRepo = "github.com/verif/u"

type vuTag struct {
	dir string
	ver string
	rev int
}

type vuUniverse struct {
	id     int
	nrevs  int
	dirs   []string
	tags   []vuTag
	sums   map[string][]*mvsProject // dir -> summary at revision i+1
	refs   map[string]string        // branch refs only
	repo   *testRepository
	dialer testDialer
}

func vuEnvInt(name string, def int) int {
	if s := os.Getenv(name); s != "" {
		if n, err := strconv.Atoi(s); err == nil {
			return n
		}
	}
	return def
}

func vuTagPath(dir, ver string) string {
	return project.JoinPathVersion(path.Join(vuRepo, dir), semver.Major(ver))
}

func (t vuTag) node() module.Version {
	return module.Version{Path: vuTagPath(t.dir, t.ver), Version: t.ver}
}

var vuDirPool = []string{"a", "b", "c", "d", "e", "f", "g", "h", "x/a", "y/a", "x/b", "y/lib"}
var vuNamePool = []string{"", "", "", "", "", "lib", "lib", "a", "core", "x-1"}
var vuPrePool = []string{"", "", "", "", "", "", "-rc.1", "-alpha", "-beta.2", "-rc.1.x", "-rc.10", "-rc.2"}

// vuGen builds one universe. shuffle != nil permutes the declaration order of every project's requirements
// (same graph, different order); flags select optional input classes.
func vuGen(rng *rand.Rand, id int, malformedMajor bool) *vuUniverse {
	u := &vuUniverse{id: id, sums: map[string][]*mvsProject{}, refs: map[string]string{}}
	u.nrevs = 1 + rng.Intn(6)
	nproj := 2 + rng.Intn(7)
	perm := rng.Perm(len(vuDirPool))
	for i := 0; i < nproj; i++ {
		u.dirs = append(u.dirs, vuDirPool[perm[i]])
	}
	sort.Strings(u.dirs)

	// versions and tags
	for _, d := range u.dirs {
		var majors []int
		switch r := rng.Intn(20); {
		case r < 2:
			majors = []int{0}
		case r < 5:
			majors = []int{0, 1}
		case r < 13:
			majors = []int{1}
		case r < 18:
			majors = []int{1, 2}
		case r < 19:
			majors = []int{2}
		default:
			majors = []int{1, 2, 3}
		}
		budget := 5
		seen := map[string]bool{}
		var vers []string
		for _, mj := range majors {
			n := 1 + rng.Intn(3)
			if n > budget {
				n = budget
			}
			if n == 0 {
				break
			}
			budget -= n
			for k := 0; k < n; k++ {
				// small numbers mostly; now and then two-digit components (numeric, not lexicographic, order)
				minor, patch := rng.Intn(4), rng.Intn(3)
				if rng.Intn(8) == 0 {
					minor = 9 + rng.Intn(4)
				}
				if rng.Intn(12) == 0 {
					patch = 10 + rng.Intn(3)
				}
				v := fmt.Sprintf("v%d.%d.%d%s", mj, minor, patch, vuPrePool[rng.Intn(len(vuPrePool))])
				if !seen[v] {
					seen[v] = true
					vers = append(vers, v)
				}
			}
		}
		sort.Slice(vers, func(i, j int) bool { return semver.Compare(vers[i], vers[j]) < 0 })
		rev := 1
		for _, v := range vers {
			if rng.Intn(100) < 15 {
				rev = 1 + rng.Intn(u.nrevs)
			} else if rng.Intn(100) < 60 && rev < u.nrevs {
				rev += 1 + rng.Intn(u.nrevs-rev)
			}
			u.tags = append(u.tags, vuTag{dir: d, ver: v, rev: rev})
		}
	}

	// summaries: every directory exists at every revision
	genReqs := func(self string) []module.Version {
		n := 0
		switch r := rng.Intn(10); {
		case r < 2:
			n = 0
		case r < 6:
			n = 1
		case r < 9:
			n = 2
		default:
			n = 3
		}
		var reqs []module.Version
		have := map[string]bool{}
		for k := 0; k < n; k++ {
			t := u.tags[rng.Intn(len(u.tags))]
			if t.dir == self && rng.Intn(4) != 0 {
				continue
			}
			m := t.node()
			switch r := rng.Intn(100); {
			case r < 2:
				// malformed: a version that is not tagged
				m.Version = fmt.Sprintf("v%s.9.9", semver.Major(t.ver)[1:])
			case r < 4 && malformedMajor:
				// malformed: the path lacks / carries the wrong major suffix
				m.Path = path.Join(vuRepo, t.dir)
			}
			if have[m.Path] {
				continue
			}
			have[m.Path] = true
			reqs = append(reqs, m)
		}
		return reqs
	}
	for _, d := range u.dirs {
		name := vuNamePool[rng.Intn(len(vuNamePool))]
		var prev *mvsProject
		for r := 1; r <= u.nrevs; r++ {
			if prev == nil || rng.Intn(10) < 6 {
				prev = &mvsProject{Name: name, Requirements: genReqs(d)}
			}
			u.sums[d] = append(u.sums[d], prev)
		}
	}
	// force a cycle now and then
	if rng.Intn(3) == 0 && len(u.tags) >= 2 {
		a, b := u.tags[rng.Intn(len(u.tags))], u.tags[rng.Intn(len(u.tags))]
		if a.dir != b.dir {
			sa, sb := u.sums[a.dir][a.rev-1], u.sums[b.dir][b.rev-1]
			sa.Requirements = vuAddReq(sa.Requirements, b.node())
			sb.Requirements = vuAddReq(sb.Requirements, a.node())
		}
	}

	u.refs["main"] = strconv.Itoa(u.nrevs)
	if rng.Intn(2) == 0 {
		u.refs["dev"] = strconv.Itoa(1 + rng.Intn(u.nrevs))
	}
	u.build(nil)
	return u
}

func vuAddReq(l []module.Version, m module.Version) []module.Version {
	for _, x := range l {
		if x.Path == m.Path {
			return l
		}
	}
	if len(l) >= 9 {
		return l
	}
	return append(l, m)
}

// build (re)creates the fake repository; perm, when not nil, permutes every requirement list.
func (u *vuUniverse) build(rng *rand.Rand) {
	revs := make([]map[string]*mvsProject, u.nrevs)
	for r := 0; r < u.nrevs; r++ {
		revs[r] = map[string]*mvsProject{}
		for _, d := range u.dirs {
			s := u.sums[d][r]
			reqs := append([]module.Version(nil), s.Requirements...)
			if rng != nil {
				rng.Shuffle(len(reqs), func(i, j int) { reqs[i], reqs[j] = reqs[j], reqs[i] })
			}
			revs[r][d] = &mvsProject{Name: s.Name, Requirements: reqs}
		}
	}
	refs := map[string]string{}
	for k, v := range u.refs {
		refs[k] = v
	}
	for _, t := range u.tags {
		refs[t.dir+"/"+t.ver] = strconv.Itoa(t.rev)
	}
	u.repo = &testRepository{path: vuRepo, defaultRef: "main", refs: refs, head: testRevisions(revs)}
	u.dialer = testDialer{repos: map[string]*testRepository{vuRepo: u.repo}}
}

// shuffled returns a universe with the same graph whose requirement lists are declared in another order.
func (u *vuUniverse) shuffled(rng *rand.Rand) *vuUniverse {
	c := *u
	c.build(rng)
	return &c
}

func vuSeg(rev int) string {
	return time.Unix(100*int64(rev), 0).UTC().Format("20060102150405") + "-" + strconv.Itoa(rev)
}

func vuNodes(l []module.Version) [][2]string {
	out := make([][2]string, 0, len(l))
	for _, m := range l {
		out = append(out, [2]string{m.Path, m.Version})
	}
	return out
}

// describe renders the universe for the Coq model (tags in the repository's own order).
func (u *vuUniverse) describe() map[string]any {
	vs, _ := u.repo.Versions(context.Background())
	tags := [][3]string{}
	for _, v := range vs {
		tags = append(tags, [3]string{v.Version.Path, v.Version.Version, v.RevisionID})
	}
	sums := []any{}
	for _, d := range u.dirs {
		for r := 1; r <= u.nrevs; r++ {
			s := u.sums[d][r-1]
			sums = append(sums, []any{path.Join(vuRepo, d), r, s.Name, vuNodes(s.Requirements)})
		}
	}
	refs := [][2]string{}
	var names []string
	for k := range u.refs {
		names = append(names, k)
	}
	sort.Strings(names)
	for _, k := range names {
		refs = append(refs, [2]string{k, u.refs[k]})
	}
	segs := []any{}
	for r := 1; r <= u.nrevs; r++ {
		segs = append(segs, []any{r, vuSeg(r)})
	}
	return map[string]any{"t": "U", "id": u.id, "repo": vuRepo, "tags": tags, "sums": sums, "refs": refs,
		"default": "main", "segs": segs}
}

// --- independent reference: reachability + maximum ---------------------------------------------------------

func vuCmp(a, b string) int {
	// "" (the root) above everything
	if a == "" || b == "" {
		switch {
		case a == b:
			return 0
		case a == "":
			return 1
		default:
			return -1
		}
	}
	return semver.Compare(a, b)
}

// refRequired looks the requirements of a node up in the generated tables (never through the resolver).
func (u *vuUniverse) refRequired(rootReqs []module.Version, m module.Version) ([]module.Version, bool) {
	if m.Path == "" {
		return rootReqs, true
	}
	trimmed := project.TrimPathVersion(m.Path)
	if !strings.HasPrefix(trimmed, vuRepo+"/") {
		return nil, false
	}
	dir := strings.TrimPrefix(trimmed, vuRepo+"/")
	sums, ok := u.sums[dir]
	if !ok {
		return nil, false
	}
	if module.IsPseudoVersion(m.Version) {
		rev, err := module.PseudoVersionRev(m.Version)
		if err != nil {
			return nil, false
		}
		r, err := strconv.Atoi(rev)
		if err != nil || r < 1 || r > u.nrevs {
			return nil, false
		}
		return sums[r-1].Requirements, true
	}
	for _, t := range u.tags {
		if t.dir == dir && t.ver == m.Version && vuTagPath(t.dir, t.ver) == m.Path {
			return sums[t.rev-1].Requirements, true
		}
	}
	return nil, false
}

// refBuildList: every reachable path once, at the maximum version over the reachable requirements.
func (u *vuUniverse) refBuildList(rootReqs []module.Version) (map[string]string, bool) {
	sel := map[string]string{"": ""}
	seen := map[module.Version]bool{{}: true}
	queue := []module.Version{{}}
	ok := true
	for len(queue) > 0 {
		m := queue[0]
		queue = queue[1:]
		reqs, found := u.refRequired(rootReqs, m)
		if !found {
			ok = false
			continue
		}
		for _, r := range reqs {
			if cur, have := sel[r.Path]; !have || vuCmp(cur, r.Version) < 0 {
				sel[r.Path] = r.Version
			}
			if !seen[r] {
				seen[r] = true
				queue = append(queue, r)
			}
		}
	}
	return sel, ok
}

// --- calls with a watchdog ---------------------------------------------------------------------------------

type vuRes[T any] struct {
	st  string // ok | err | panic | hang
	val T
	msg string
}

func vuCall[T any](f func() (T, error)) vuRes[T] {
	ch := make(chan vuRes[T], 1)
	go func() {
		defer func() {
			if x := recover(); x != nil {
				ch <- vuRes[T]{st: "panic", msg: fmt.Sprint(x)}
			}
		}()
		v, err := f()
		if err != nil {
			ch <- vuRes[T]{st: "err", msg: err.Error()}
			return
		}
		ch <- vuRes[T]{st: "ok", val: v}
	}()
	select {
	case r := <-ch:
		return r
	case <-time.After(time.Duration(vuEnvInt("VERIF_WATCHDOG_S", 20)) * time.Second):
		return vuRes[T]{st: "hang"}
	}
}

func vuSortedMap(m map[string]string) [][2]string {
	keys := make([]string, 0, len(m))
	for k := range m {
		keys = append(keys, k)
	}
	sort.Strings(keys)
	out := make([][2]string, 0, len(m))
	for _, k := range keys {
		out = append(out, [2]string{k, m[k]})
	}
	return out
}

func vuSortedCfg(m map[string]project.RequirementConfig) [][3]string {
	keys := make([]string, 0, len(m))
	for k := range m {
		keys = append(keys, k)
	}
	sort.Strings(keys)
	out := make([][3]string, 0, len(m))
	for _, k := range keys {
		out = append(out, [3]string{k, m[k].Path, m[k].Version})
	}
	return out
}

func vuMapEq(a, b map[string]string) bool {
	if len(a) != len(b) {
		return false
	}
	for k, v := range a {
		if w, ok := b[k]; !ok || w != v {
			return false
		}
	}
	return true
}

func vuCfgEq(a, b map[string]project.RequirementConfig) bool {
	if len(a) != len(b) {
		return false
	}
	for k, v := range a {
		if w, ok := b[k]; !ok || w != v {
			return false
		}
	}
	return true
}

func vuRootReqs(c *project.Config) []module.Version {
	var out []module.Version
	for _, k := range vuSortedCfg(c.Requirements) {
		out = append(out, module.Version{Path: k[1], Version: k[2]})
	}
	return out
}

// vuGenRoot draws a root requirement set: 1-4 requirements on tagged versions, distinct paths (a second name
// for the same path only at the same version), now and then a requirement on the root's own empty path.
func vuGenRoot(rng *rand.Rand, u *vuUniverse, dupPaths bool) map[string]project.RequirementConfig {
	reqs := map[string]project.RequirementConfig{}
	paths := map[string]string{}
	n := 1 + rng.Intn(4)
	for k := 0; k < n; k++ {
		t := u.tags[rng.Intn(len(u.tags))]
		m := t.node()
		if v, ok := paths[m.Path]; ok {
			if !(dupPaths && rng.Intn(2) == 0) {
				m.Version = v
			}
		} else {
			paths[m.Path] = m.Version
		}
		name := path.Base(m.Path)
		switch r := rng.Intn(10); {
		case r < 2:
			name = "dep" + strconv.Itoa(k)
		case r < 3:
			name = "lib"
		}
		for i := 1; ; i++ {
			if _, ok := reqs[name]; !ok {
				break
			}
			name = name + "_" + strconv.Itoa(i)
		}
		reqs[name] = project.RequirementConfig{Path: m.Path, Version: m.Version}
	}
	if rng.Intn(40) == 0 {
		reqs["self"] = project.RequirementConfig{Path: "", Version: "v1.0.0"}
	}
	return reqs
}

// --- output ------------------------------------------------------------------------------------------------

type vuOut struct {
	f *os.File
	w *bufio.Writer
}

func vuOpen() (*vuOut, error) {
	f, err := os.Create(os.Getenv("VERIF_OUT"))
	if err != nil {
		return nil, err
	}
	return &vuOut{f: f, w: bufio.NewWriter(f)}, nil
}

func (o *vuOut) emit(v any) {
	b, err := json.Marshal(v)
	if err != nil {
		panic(err)
	}
	o.w.Write(b)
	o.w.WriteByte('\n')
	o.w.Flush()
}

func (o *vuOut) close() {
	o.w.Flush()
	o.f.Close()
}
