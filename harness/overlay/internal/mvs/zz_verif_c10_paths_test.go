package mvs

// C10 harness, sixth family: "exactly the projects reachable through requirements, EACH ONCE, at the highest version
// demanded ... does not depend on the state of the download cache" for requirement PATHS that are written in more than
// one way.
//
// The vertices of the requirement graph are (path, version) pairs compared as strings; the repository lists a project
// under one path string (JoinPathVersion(path.Join(repository, directory), major): no suffix for v0 and v1, "@vN"
// above), the download cache is keyed on the path without its suffix.  A configuration file may write the same project
// as "lib", "lib@v1", "lib@v0", "lib@", "./lib", "lib/", "x/../lib", "lib/.@v2", ...; what makes these one vertex is
// the normalisation internal/project/config.go LoadConfigBytes applies to every requirement path of every
// configuration (CleanPath: path.Clean of the slash path, a redundant major suffix folded away).  The other families
// only ever write the one string the repository lists, so they never ask the normalisation anything.
//
// (A) the normalisation itself on a family of spellings: canonical project paths (the form the repository lists) and
//     their derivations by the inverse operations -- "./", trailing "/", "/.", doubled "/", "zz/../", "sub/..", a
//     redundant major suffix "@", "@v0", "@v1", the suffix after "/", "/." or ".." -- each as the path of a requirement
//     through WriteConfigFile + LoadConfigFile, and through CleanPath; direct oracle: a derivation of a project's path
//     loads as that path.  Plus strings that are nobody's derivation (rooted, "..", several '@', majors v2..v25);
//     all are also evaluated by the model (Mvs/Paths.v).
// (B) generated universes in which EVERY requirement -- the root's and every project's -- is written in a drawn
//     spelling of its path, and one project is demanded at two versions under two different spellings (by the root, by
//     the root and a project, by two projects).  The root reaches BuildList the way dawn's does (written by the
//     project's own writer, read back by LoadConfigFile).  BuildList with a cold cache, the same resolver again, a
//     fresh resolver on that cache, a fresh resolver on a cache filled by a build of the SAME graph written plainly,
//     and with every requirement list in another order: every answer must be the reference of the plainly written
//     universe (independent reachability/max).  The written universe and the cold answer go to the model.

import (
	"bufio"
	"context"
	"encoding/hex"
	"math/rand"
	"os"
	"path"
	"path/filepath"
	"sort"
	"strconv"
	"strings"
	"testing"

	"github.com/pelletier/go-toml/v2"
	"github.com/pgavlin/dawn/internal/project"
	"golang.org/x/mod/module"
)

// ppSplitCanon: a path in the form the repository lists -> slash path, major suffix ("" or "vN", N >= 2).
func ppSplitCanon(canon string) (string, string) {
	if i := strings.LastIndexByte(canon, '@'); i > strings.LastIndexByte(canon, '/') {
		return canon[:i], canon[i+1:]
	}
	return canon, ""
}

// ppSlashSpellings: slash paths that denote base (base is clean and not rooted), base first.
func ppSlashSpellings(base string) []string {
	elems := strings.Split(base, "/")
	out := []string{base, "./" + base, base + "/", base + "/.", base + "//", base + "/sub/..", "x/../" + base,
		"./x/.././" + base, base + "/../" + elems[len(elems)-1], base + "/./", ".//" + base}
	if len(elems) > 1 {
		k := len(elems) / 2
		left, right := strings.Join(elems[:k], "/"), strings.Join(elems[k:], "/")
		out = append(out, left+"/./"+right, left+"//"+right, left+"/zz/../"+right, left+"/zz/yy/../../"+right)
	}
	return out
}

// ppSuffixSpellings: the ways to write the major suffix of a path the repository lists with suffix major.
func ppSuffixSpellings(major string) []string {
	if major == "" {
		return []string{"", "@v1", "@v0", "@"}
	}
	return []string{"@" + major}
}

// ppSpellings: every derivation of canon, canon itself first.
func ppSpellings(canon string) []string {
	base, major := ppSplitCanon(canon)
	var out []string
	for _, s := range ppSlashSpellings(base) {
		for _, x := range ppSuffixSpellings(major) {
			out = append(out, s+x)
		}
	}
	return out
}

// ppDenotes: the harness's own reading of a written path (used ONLY to check the generator: a derivation it built must
// denote the path it was derived from; never as the expected value of a run).
func ppDenotes(s string) string {
	head, major := s, ""
	i := strings.LastIndexByte(s, '/')
	if j := strings.LastIndexByte(s[i+1:], '@'); j >= 0 {
		head, major = s[:i+1+j], s[i+1+j+1:]
	}
	head = path.Clean(head)
	if major == "" || major == "v0" || major == "v1" {
		return head
	}
	return head + "@" + major
}

// ppNobodys: written paths that are not derivations of a listed path (model vs implementation only).
var ppNobodys = []string{"", ".", "/", "..", "../a", "../../a/../b/..", "/a/../..", "/..", "/../a", "a/../..", "a/b/../../..", "...", "a/..b/..",
	"/a", "//a//", "a@v1@v1", "a@v2@v1", "a@v1@v2", "@v1", "@v2", "@", "a@v1/b", "a@v2/b", "a@v2/b@v3", "a/@", "a@@v1", "a@v1/", "a@v2/", "a@v2/.",
	"a@v01", "a@V1", "a@v1.0", "a@v1.2.3", "a@latest", "a@v", "a @v1", "a@v1 ", "x@y/lib", "x@y/lib@v1", "x@v1/lib@v2", "x@y/../lib@v0",
	"a@v10", "a@v11", "a@v12", "a@v19", "a@v2", "a@v3", "a@v9", "a@v20", "a@v25", "a@v100", "a@v00", "a@v0.0", "é/../a@v1", "a/./@v3", "a/..@v1"}

// ppLoad: the path a configuration whose requirement is written with path p loads with.  ok = false when the file
// format does not carry p through (checked with the TOML decoder alone).
func ppLoad(scratch, p string) (loaded string, loads bool, ok bool) {
	cfg := &project.Config{Name: "paths", Requirements: map[string]project.RequirementConfig{"r": {Path: p, Version: "v1.0.0"}}}
	if err := project.WriteConfigFile(scratch, cfg); err != nil {
		return "", false, false
	}
	b, err := os.ReadFile(scratch)
	if err != nil {
		return "", false, false
	}
	var raw project.Config
	if err := toml.Unmarshal(b, &raw); err != nil || raw.Requirements["r"].Path != p {
		return "", false, false
	}
	back, err := project.LoadConfigFile(scratch)
	if err != nil {
		return "", false, true
	}
	return back.Requirements["r"].Path, true, true
}

func TestVerifC10Paths(t *testing.T) {
	outPath := os.Getenv("VERIF_OUT_PATHS")
	if outPath == "" {
		t.Skip("VERIF_OUT_PATHS not set")
	}
	f, err := os.Create(outPath)
	if err != nil {
		t.Fatal(err)
	}
	out := &vuOut{f: f, w: bufio.NewWriter(f)}
	defer out.close()
	seed := int64(vuEnvInt("VERIF_SEED", 1))
	nuniv := vuEnvInt("VERIF_NUNIV_PATHS", 60)
	rng := rand.New(rand.NewSource(seed*7919 + 1060))
	base := t.TempDir()
	scratch := filepath.Join(base, "paths.toml")
	hx := func(s string) string { return hex.EncodeToString([]byte(s)) }

	// --- (A) the normalisation on spellings --------------------------------------------------------------------
	canons := []string{vuRepo + "/a", vuRepo + "/y/lib@v2", "example.com/lib", "lib", "lib@v3", "example.com/x@y/lib", "example.com/x@v1/lib@v12"}
	for k := 0; k < 2; k++ {
		d := vuDirPool[rng.Intn(len(vuDirPool))]
		canons = append(canons, vuRepo+"/"+d, vuRepo+"/"+d+"@v"+strconv.Itoa(2+rng.Intn(30)))
	}
	nclean, nderiv := 0, 0
	seenA := map[string]bool{}
	cleanCase := func(s, denotes string) {
		if seenA[s] {
			return
		}
		seenA[s] = true
		loaded, loads, ok := ppLoad(scratch, s)
		if !ok {
			return
		}
		nclean++
		rec := map[string]any{"t": "PCLEAN", "s": hx(s), "text": s, "loads": loads, "loaded": hx(loaded), "loaded_text": loaded,
			"clean_path": hx(project.CleanPath(s)), "clean_path_text": project.CleanPath(s)}
		if denotes != "" {
			nderiv++
			rec["project"] = denotes
			if !loads || loaded != denotes {
				got := "a path that does not load"
				if loads {
					got = loaded
				}
				out.emit(map[string]any{"t": "ORACLE", "name": "paths:written-path-loads-as-another-project", "case": 0,
					"what": "a requirement written with path " + strconv.Quote(s) + " (the project " + denotes + ") loads from the configuration file as " + strconv.Quote(got),
					"input": map[string]any{"requirement_path_as_written": s, "project": denotes, "loads_as": got}})
			}
		}
		out.emit(rec)
	}
	for _, c := range canons {
		for _, s := range ppSpellings(c) {
			if ppDenotes(s) != c {
				t.Fatalf("harness defect: the derivation %q of %q denotes %q", s, c, ppDenotes(s))
			}
			cleanCase(s, c)
		}
	}
	for _, s := range ppNobodys {
		cleanCase(s, "")
	}

	// --- (B) universes written in spellings ----------------------------------------------------------------------
	caseID, nruns, nspelledTotal := 0, 0, 0
	loadRoot := func(reqs map[string]project.RequirementConfig) (*project.Config, error) {
		p := filepath.Join(base, "root.toml")
		if err := project.WriteConfigFile(p, &project.Config{Name: "root", Requirements: reqs}); err != nil {
			t.Fatal(err)
		}
		return project.LoadConfigFile(p)
	}
	spell := func(p string, plainPercent int) string {
		if p == "" || rng.Intn(100) < plainPercent {
			return p
		}
		l := ppSpellings(p)
		return l[1+rng.Intn(len(l)-1)]
	}
	strip := func(l []module.Version, p string) []module.Version {
		var o []module.Version
		for _, m := range l {
			if m.Path != p {
				o = append(o, m)
			}
		}
		return o
	}
	for ui := 0; ui < nuniv; ui++ {
		u := vuGen(rng, ui, false)
		rootPlain := vuGenRoot(rng, u, true)
		delete(rootPlain, "self") // path "": the root itself, not a project path

		// one project demanded at two versions: under two spellings below
		byPath := map[string][]vuTag{}
		var paths []string
		for _, tg := range u.tags {
			p := tg.node().Path
			if len(byPath[p]) == 0 {
				paths = append(paths, p)
			}
			byPath[p] = append(byPath[p], tg)
		}
		sort.Strings(paths)
		var multi []string
		for _, p := range paths {
			if len(byPath[p]) >= 2 {
				multi = append(multi, p)
			}
		}
		forced := map[string]any{}
		type override struct {
			owner   *mvsProject // nil: the root
			name    string      // root requirement name
			path    string      // plain path
			written string
		}
		var overrides []override
		if len(multi) > 0 {
			fp := multi[rng.Intn(len(multi))]
			tags := byPath[fp]
			i1 := rng.Intn(len(tags))
			i2 := (i1 + 1 + rng.Intn(len(tags)-1)) % len(tags)
			t1, t2 := tags[i1], tags[i2]
			sp := ppSpellings(fp)
			s1 := sp[rng.Intn(len(sp))] // now and then the plain one
			s2 := sp[1+rng.Intn(len(sp)-1)]
			for s2 == s1 {
				s2 = sp[1+rng.Intn(len(sp)-1)]
			}
			var others []vuTag
			for _, tg := range u.tags {
				if tg.dir != t1.dir {
					others = append(others, tg)
				}
			}
			rng.Shuffle(len(others), func(i, j int) { others[i], others[j] = others[j], others[i] })
			where := []string{"the root requires both", "the root requires one, a project it requires the other", "two projects require one each"}[rng.Intn(3)]
			if len(others) == 0 || (where == "two projects require one each" && len(others) < 2) {
				where = "the root requires both"
			}
			for n, r := range rootPlain { // demanded through the forced requirements (and the projects' own) only
				if r.Path == fp {
					delete(rootPlain, n)
				}
			}
			switch where {
			case "the root requires both":
				rootPlain["fx-1"] = project.RequirementConfig{Path: fp, Version: t1.ver}
				rootPlain["fx-2"] = project.RequirementConfig{Path: fp, Version: t2.ver}
				overrides = append(overrides, override{nil, "fx-1", fp, s1}, override{nil, "fx-2", fp, s2})
			case "the root requires one, a project it requires the other":
				m := others[0]
				s := u.sums[m.dir][m.rev-1]
				s.Requirements = append(strip(s.Requirements, fp), t2.node())
				rootPlain["fx-1"] = project.RequirementConfig{Path: fp, Version: t1.ver}
				rootPlain["fx-m"] = project.RequirementConfig{Path: m.node().Path, Version: m.ver}
				overrides = append(overrides, override{nil, "fx-1", fp, s1}, override{s, "", fp, s2})
			default:
				m1, m2 := others[0], others[1]
				for k := 1; k < len(others) && u.sums[m2.dir][m2.rev-1] == u.sums[m1.dir][m1.rev-1]; k++ {
					m2 = others[k]
				}
				sa, sb := u.sums[m1.dir][m1.rev-1], u.sums[m2.dir][m2.rev-1]
				sa.Requirements = append(strip(sa.Requirements, fp), t1.node())
				rootPlain["fx-m1"] = project.RequirementConfig{Path: m1.node().Path, Version: m1.ver}
				overrides = append(overrides, override{sa, "", fp, s1})
				if sb != sa {
					sb.Requirements = append(strip(sb.Requirements, fp), t2.node())
					rootPlain["fx-m2"] = project.RequirementConfig{Path: m2.node().Path, Version: m2.ver}
					overrides = append(overrides, override{sb, "", fp, s2})
				}
			}
			u.build(nil)
			forced = map[string]any{"project": fp, "demanded_at": []string{t1.ver, t2.ver}, "written_as": []string{s1, s2}, "demanded_by": where}
		}

		// the same universe, every requirement written in a drawn spelling (two thirds of them not the plain one)
		nspelled := 0
		w := *u
		w.sums = map[string][]*mvsProject{}
		copies := map[*mvsProject]*mvsProject{}
		for _, d := range u.dirs {
			for _, s := range u.sums[d] {
				c, ok := copies[s]
				if !ok {
					c = &mvsProject{Name: s.Name}
					for _, m := range s.Requirements {
						wp := spell(m.Path, 34)
						for _, o := range overrides {
							if o.owner == s && o.path == m.Path {
								wp = o.written
							}
						}
						if wp != m.Path {
							nspelled++
						}
						if ppDenotes(wp) != m.Path {
							t.Fatalf("harness defect: %q written for %q denotes %q", wp, m.Path, ppDenotes(wp))
						}
						c.Requirements = append(c.Requirements, module.Version{Path: wp, Version: m.Version})
					}
					copies[s] = c
				}
				w.sums[d] = append(w.sums[d], c)
			}
		}
		w.build(nil)
		rootWritten := map[string]project.RequirementConfig{}
		for _, e := range vuSortedCfg(rootPlain) {
			wp := spell(e[1], 34)
			for _, o := range overrides {
				if o.owner == nil && o.name == e[0] {
					wp = o.written
				}
			}
			if wp != e[1] {
				nspelled++
			}
			if ppDenotes(wp) != e[1] {
				t.Fatalf("harness defect: %q written for %q denotes %q", wp, e[1], ppDenotes(wp))
			}
			rootWritten[e[0]] = project.RequirementConfig{Path: wp, Version: e[2]}
		}
		nspelledTotal += nspelled

		caseID++
		out.emit(map[string]any{"t": "START", "case": caseID})
		wd := w.describe()
		wd["t"] = "PU"
		out.emit(wd)

		ref, refOK := u.refBuildList(vuRootReqs(&project.Config{Requirements: rootPlain}))
		refRes := c10Result{St: "err", M: [][2]string{}}
		if refOK {
			refRes = c10Result{St: "ok", M: vuSortedMap(ref)}
		}

		res := map[string]c10Result{}
		msgs := map[string]string{}
		var states []string
		run := func(state string, reqs map[string]project.RequirementConfig, resolver *Resolver) {
			states = append(states, state)
			root, err := loadRoot(reqs)
			if err != nil {
				res[state], msgs[state] = c10Result{St: "err", M: [][2]string{}}, "the root configuration does not load: "+err.Error()
				return
			}
			r := vuCall(func() (map[string]string, error) { return BuildList(context.Background(), root, resolver) })
			nruns++
			rr := c10Result{St: r.st, M: [][2]string{}}
			if r.st == "ok" {
				rr.M = vuSortedMap(r.val)
			}
			msg := r.msg
			if len(msg) > 300 {
				msg = msg[:300]
			}
			res[state], msgs[state] = rr, msg
		}
		dir := func(n string) string { return filepath.Join(base, "p"+strconv.Itoa(caseID)+"-"+n) }
		cold := NewResolver(dir("a"), w.dialer, nil)
		run("cold cache", rootWritten, cold)
		run("the same resolver again", rootWritten, cold)
		run("a fresh resolver on the warm cache", rootWritten, NewResolver(dir("a"), w.dialer, nil))
		run("the same graph written plainly (cold cache)", rootPlain, NewResolver(dir("b"), u.dialer, nil))
		run("a fresh resolver on the cache the plainly written build filled", rootWritten, NewResolver(dir("b"), w.dialer, nil))
		run("every requirement list declared in another order (cold cache)", rootWritten, NewResolver(dir("c"), w.shuffled(rng).dialer, nil))
		for _, n := range []string{"a", "b", "c"} {
			os.RemoveAll(dir(n))
		}

		for _, k := range states {
			if !vcSame(res[k], refRes) {
				out.emit(map[string]any{"t": "ORACLE", "name": "paths:buildlist-vs-reference", "case": caseID, "state": k,
					"got": res[k], "want": refRes, "error_text": msgs[k],
					"input": map[string]any{"universe_as_written": wd, "root_requirements_as_written": vuSortedCfg(rootWritten),
						"root_requirements_written_plainly": vuSortedCfg(rootPlain), "one_project_under_two_spellings": forced},
					"all_answers": res})
				break
			}
		}
		out.emit(map[string]any{"t": "PC", "case": caseID, "root": vuSortedCfg(rootWritten), "root_plain": vuSortedCfg(rootPlain),
			"res": res, "ref": refRes, "forced": forced, "requirements_not_written_plainly": nspelled})
	}
	out.emit(map[string]any{"t": "END", "cases": caseID, "runs": nruns, "clean": nclean, "derivations": nderiv,
		"requirements_not_written_plainly": nspelledTotal})
}
