package mvs

// C10 harness, fifth family: "each once, at THE highest version demanded ... does not depend on declaration order or
// map iteration order" for version strings that the version order cannot tell apart.
//
// reqs.go orders versions with semver.Compare, which is a total order on PRECEDENCE, not on strings: two different
// strings can compare equal (build metadata "v1.2.0+a" / "v1.2.0+b", the short forms "v1.2" / "v1.2.0", "v2" /
// "v2.0" / "v2.0.0"; every pair of invalid strings).  Reqs.Max keeps its first argument on a tie, so a graph that
// demands one path at two such versions has no highest one and the selection follows the order of the walk.  What
// keeps such graphs out is the gate of internal/project/config.go (LoadConfigBytes: a requirement version must be
// valid and equal to its canonical form), through which every configuration -- the root's and every dependency's --
// passes.  The other families only ever write canonical versions, so they never ask the gate anything.
//
// (A) the gate and the order themselves, on a family of version spellings (canonical versions and their
//     derivations: build metadata, short forms, leading zeros, empty identifiers, other prefixes, ...): which of them
//     LoadConfigBytes admits as a requirement version, and cmpVersion on pairs of them -- both also evaluated by the
//     model (Mvs/Gate.v).
// (B) generated universes in which one project is tagged at two versions of equal precedence ("twins", on different
//     revisions, so with different requirements) and both are demanded: by the root, by one project, or by two
//     different projects.  The root's requirements reach BuildList the way dawn's do (written by the project's own
//     writer, read back by LoadConfigFile).  The build list is computed under both declaration orders of the twins,
//     several times each on fresh resolvers and cold caches.  Every run must give the SAME answer (an error counts as
//     an answer: a graph that is rejected is rejected in every order), and an answer that is a list must select, for
//     every reachable path, a version demanded by a reachable requirement that no other demanded version exceeds.

import (
	"bufio"
	"context"
	"encoding/hex"
	"fmt"
	"math/rand"
	"os"
	"path/filepath"
	"sort"
	"strconv"
	"testing"

	"github.com/pelletier/go-toml/v2"
	"github.com/pgavlin/dawn/internal/project"
	"golang.org/x/mod/module"
	"golang.org/x/mod/semver"
)

// vsSpellings: the derivations of one canonical version vMAJOR.MINOR.PATCH[-pre].
func vsSpellings(mj, mn, pt int, pre string) []string {
	core := fmt.Sprintf("v%d.%d.%d", mj, mn, pt)
	c := core + pre
	out := []string{c,
		// build metadata
		c + "+a", c + "+b", c + "+linux.amd64", c + "+0", c + "+001", c + "+a-b", c + "+", c + "+a..b", c + "+a+b", c + "+a_b", c + "+.a",
		// short forms
		fmt.Sprintf("v%d.%d", mj, mn), fmt.Sprintf("v%d", mj), fmt.Sprintf("v%d.%d%s", mj, mn, pre) + "-x", fmt.Sprintf("v%d+a", mj),
		fmt.Sprintf("v%d.%d+a", mj, mn), fmt.Sprintf("v%d.", mj), fmt.Sprintf("v%d.%d.", mj, mn),
		// leading zeros, other prefixes, more components, blanks
		fmt.Sprintf("v0%d.%d.%d%s", mj, mn, pt, pre), fmt.Sprintf("v%d.0%d.%d%s", mj, mn, pt, pre), fmt.Sprintf("v%d.%d.0%d%s", mj, mn, pt, pre),
		c[1:], "V" + c[1:], "=" + c, c + ".1", c + " ", " " + c, core + "-", core + "-rc..1", core + "-rc.01", core + "-01", core + "-0",
		core + "-rc.1.", core + "-rc_1", core + "-rc.1+a", core + "-0a.1", core + "--", core + "-+a",
		// pseudo-versions are canonical versions
		fmt.Sprintf("v%d.%d.%d-0.19700101000140-1", mj, mn, pt+1), fmt.Sprintf("v%d.0.0-19700101000140-1", mj),
	}
	return out
}

var vsFixedSpellings = []string{"", "none", "latest", "v", "vv1.0.0", "v1.0.0\n", "main", "v1.x.0", "v-1.0.0", "v1.0.0-é", "v1..0", "v.1.0"}

// vsGate: does a configuration with this requirement version load?  The configuration is written by the project's own
// writer and read back by LoadConfigFile; spellings the file format cannot carry through (checked with the TOML
// decoder alone) are no spellings of a requirement version and are skipped (ok = false).
func vsGate(scratch, ver string) (admitted bool, ok bool) {
	cfg := &project.Config{Name: "gate", Requirements: map[string]project.RequirementConfig{"r": {Path: vuRepo + "/x", Version: ver}}}
	if err := project.WriteConfigFile(scratch, cfg); err != nil {
		return false, false
	}
	b, err := os.ReadFile(scratch)
	if err != nil {
		return false, false
	}
	var raw project.Config
	if err := toml.Unmarshal(b, &raw); err != nil || raw.Requirements["r"].Version != ver {
		return false, false
	}
	back, err := project.LoadConfigFile(scratch)
	if err != nil {
		return false, true
	}
	return back.Requirements["r"].Version == ver, true
}

type vsTwin struct {
	kind string
	a, b string
}

// vsTwins: pairs of distinct valid version strings of equal precedence for major mj (minor/patch drawn).
func vsTwins(rng *rand.Rand, mj int) []vsTwin {
	mn, pt := rng.Intn(4), rng.Intn(3)
	full := fmt.Sprintf("v%d.%d.%d", mj, mn, pt)
	pre := []string{"-rc.1", "-alpha", "-beta.2"}[rng.Intn(3)]
	return []vsTwin{
		{"build metadata / other build metadata", full + "+a", full + "+b"},
		{"canonical / build metadata", full, full + "+linux.amd64"},
		{"prerelease with build metadata / other build metadata", full + pre + "+a", full + pre + "+0"},
		{"canonical / minor short form", fmt.Sprintf("v%d.%d.0", mj, mn), fmt.Sprintf("v%d.%d", mj, mn)},
		{"canonical / major short form", fmt.Sprintf("v%d.0.0", mj), fmt.Sprintf("v%d", mj)},
		{"minor short form / major short form", fmt.Sprintf("v%d.0", mj), fmt.Sprintf("v%d", mj)},
		{"minor short form / build metadata", fmt.Sprintf("v%d.%d", mj, mn), fmt.Sprintf("v%d.%d.0+a", mj, mn)},
	}
}

// vsRef: reachability over the generated tables (every demanded (path, version), not only the selected ones) and,
// per path, the demanded versions.
func vsRef(u *vuUniverse, rootReqs []module.Version) (map[string][]string, bool) {
	demanded := map[string][]string{"": {""}}
	seen := map[module.Version]bool{{}: true}
	queue := []module.Version{{}}
	ok := true
	for len(queue) > 0 {
		m := queue[0]
		queue = queue[1:]
		reqs, found := u.refRequired(rootReqs, m)
		if !found {
			ok = false
			continue
		}
		for _, r := range reqs {
			if !seen[r] {
				seen[r] = true
				queue = append(queue, r)
				demanded[r.Path] = append(demanded[r.Path], r.Version)
			}
		}
	}
	return demanded, ok
}

// vsHighest: "" when list selects for every demanded path a demanded version that no demanded version exceeds, and
// nothing else; a description of the first difference otherwise.
func vsHighest(list map[string]string, demanded map[string][]string) string {
	var paths []string
	for p := range demanded {
		paths = append(paths, p)
	}
	sort.Strings(paths)
	for _, p := range paths {
		got, ok := list[p]
		if !ok {
			return "the reachable project " + p + " is missing"
		}
		is := false
		for _, v := range demanded[p] {
			is = is || v == got
			if vuCmp(got, v) < 0 {
				return p + " is selected at " + got + " although " + v + " is demanded"
			}
		}
		if !is {
			return p + " is selected at " + got + ", which no reachable requirement demands"
		}
	}
	for p := range list {
		if _, ok := demanded[p]; !ok {
			return p + " is in the list although no reachable requirement demands it"
		}
	}
	return ""
}

func TestVerifC10Spell(t *testing.T) {
	outPath := os.Getenv("VERIF_OUT_SPELL")
	if outPath == "" {
		t.Skip("VERIF_OUT_SPELL not set")
	}
	f, err := os.Create(outPath)
	if err != nil {
		t.Fatal(err)
	}
	out := &vuOut{f: f, w: bufio.NewWriter(f)}
	defer out.close()
	seed := int64(vuEnvInt("VERIF_SEED", 1))
	nuniv := vuEnvInt("VERIF_NUNIV_SPELL", 30)
	repeats := vuEnvInt("VERIF_SPELL_REPEATS", 3)
	rng := rand.New(rand.NewSource(seed*7919 + 1040))
	base := t.TempDir()
	scratch := filepath.Join(base, "gate.toml")
	hx := func(s string) string { return hex.EncodeToString([]byte(s)) }

	// --- (A) the gate and the order on spellings ---------------------------------------------------------------
	var spellings []string
	have := map[string]bool{}
	add := func(l []string) {
		for _, s := range l {
			if !have[s] {
				have[s] = true
				spellings = append(spellings, s)
			}
		}
	}
	add(vsFixedSpellings)
	add(vsSpellings(1, 2, 0, ""))
	add(vsSpellings(0, 0, 0, "-rc.1"))
	add(vsSpellings(2, 0, 0, ""))
	add(vsSpellings(10, 9, 11, "-alpha"))
	for k := 0; k < 3; k++ {
		add(vsSpellings(rng.Intn(4), rng.Intn(13), rng.Intn(13), vuPrePool[rng.Intn(len(vuPrePool))]))
	}
	ngate, nadmitted := 0, 0
	var valid, tested []string
	for _, s := range spellings {
		admitted, ok := vsGate(scratch, s)
		if !ok {
			continue
		}
		ngate++
		tested = append(tested, s)
		if admitted {
			nadmitted++
		}
		if semver.IsValid(s) {
			valid = append(valid, s)
		}
		out.emit(map[string]any{"t": "GATE", "s": hx(s), "text": s, "admitted": admitted})
		// the property's own reading of the gate: an admitted version is the only string of its precedence
		if admitted && (!semver.IsValid(s) || semver.Canonical(s) != s) {
			out.emit(map[string]any{"t": "NOTE", "name": "gate-admits-a-version-that-is-not-canonical", "text": s})
		}
	}
	// cmpVersion on pairs: every pair of a spelling with the derivations of the same version, and drawn pairs
	ncmp := 0
	cmp := func(a, b string) {
		ncmp++
		out.emit(map[string]any{"t": "CMP", "a": hx(a), "b": hx(b), "ta": a, "tb": b, "c": cmpVersion(a, b)})
	}
	for i := 0; i < len(tested) && ncmp < 900; i += 1 + rng.Intn(3) {
		for k := 0; k < 4; k++ {
			cmp(tested[i], tested[rng.Intn(len(tested))])
		}
	}
	for k := 0; k < 600 && len(valid) > 1; k++ {
		cmp(valid[rng.Intn(len(valid))], valid[rng.Intn(len(valid))])
	}

	// --- (B) universes with twins -------------------------------------------------------------------------------
	caseID, nruns := 0, 0
	loadRoot := func(reqs map[string]project.RequirementConfig) (*project.Config, error) {
		p := filepath.Join(base, "root.toml")
		if err := project.WriteConfigFile(p, &project.Config{Name: "root", Requirements: reqs}); err != nil {
			t.Fatal(err)
		}
		return project.LoadConfigFile(p)
	}
	for ui := 0; ui < nuniv; ui++ {
		u := vuGen(rng, ui, false)
		// the project that gets the twins, one of its majors, the twins themselves
		d := u.dirs[rng.Intn(len(u.dirs))]
		mj := 1
		for _, tg := range u.tags {
			if tg.dir == d {
				mj, _ = strconv.Atoi(semver.Major(tg.ver)[1:])
				if rng.Intn(2) == 0 {
					break
				}
			}
		}
		rootBase := vuGenRoot(rng, u, false)
		delete(rootBase, "self")
		twins := vsTwins(rng, mj)
		tw := twins[(ui+int(seed))%len(twins)]
		if rng.Intn(2) == 0 {
			tw.a, tw.b = tw.b, tw.a
		}
		ra, rb := 1+rng.Intn(u.nrevs), 1+rng.Intn(u.nrevs)
		if u.nrevs > 1 && ra == rb {
			rb = ra%u.nrevs + 1
		}
		addTag := func(ver string, rev int) {
			for _, tg := range u.tags {
				if tg.dir == d && tg.ver == ver {
					return
				}
			}
			u.tags = append(u.tags, vuTag{dir: d, ver: ver, rev: rev})
		}
		addTag(tw.a, ra)
		addTag(tw.b, rb)
		na := module.Version{Path: vuTagPath(d, tw.a), Version: tw.a}
		nb := module.Version{Path: vuTagPath(d, tw.b), Version: tw.b}
		// who demands them
		var others []vuTag
		for _, tg := range u.tags {
			if tg.dir != d {
				others = append(others, tg)
			}
		}
		where := []string{"the root requires both", "one project requires both", "two projects require one each"}[rng.Intn(3)]
		if len(others) == 0 || (where == "two projects require one each" && len(others) < 2) {
			where = "the root requires both"
		}
		// the two declaration orders: X first, then Y; and Y first, then X
		type order struct {
			name string
			u    *vuUniverse
			root map[string]project.RequirementConfig
		}
		for n, r := range rootBase { // the twins' path is demanded through the twins only (keeps "who demands" readable)
			if r.Path == na.Path {
				delete(rootBase, n)
			}
		}
		mk := func(first, second module.Version, tagName string) order {
			c := *u
			c.sums = map[string][]*mvsProject{}
			for k, l := range u.sums {
				for _, s := range l {
					c.sums[k] = append(c.sums[k], &mvsProject{Name: s.Name, Requirements: append([]module.Version(nil), s.Requirements...)})
				}
			}
			root := map[string]project.RequirementConfig{}
			for n, r := range rootBase {
				root[n] = r
			}
			strip := func(l []module.Version) []module.Version {
				var o []module.Version
				for _, m := range l {
					if m.Path != na.Path {
						o = append(o, m)
					}
				}
				return o
			}
			switch where {
			case "the root requires both":
				// the resolver walks the root's requirements in the iteration order of a Go map; the names decide nothing
				root["twin-1"] = project.RequirementConfig{Path: first.Path, Version: first.Version}
				root["twin-2"] = project.RequirementConfig{Path: second.Path, Version: second.Version}
			case "one project requires both":
				m := others[0]
				s := c.sums[m.dir][m.rev-1]
				s.Requirements = append(strip(s.Requirements), first, second)
				root["m"] = project.RequirementConfig{Path: m.node().Path, Version: m.ver}
			default:
				m1, m2 := others[0], others[1]
				for k := 1; k < len(others) && (m2.dir == m1.dir && m2.rev == m1.rev); k++ {
					m2 = others[k]
				}
				s1, s2 := c.sums[m1.dir][m1.rev-1], c.sums[m2.dir][m2.rev-1]
				s1.Requirements = append(strip(s1.Requirements), first)
				if s2 != s1 {
					s2.Requirements = append(strip(s2.Requirements), second)
				} else {
					s1.Requirements = append(s1.Requirements, second)
				}
				// the names decide the order in which BuildList's callers see them; the workers decide the rest
				root["m-1"] = project.RequirementConfig{Path: m1.node().Path, Version: m1.ver}
				root["m-2"] = project.RequirementConfig{Path: m2.node().Path, Version: m2.ver}
			}
			c.build(nil)
			return order{name: tagName, u: &c, root: root}
		}
		rng.Shuffle(len(others), func(i, j int) { others[i], others[j] = others[j], others[i] })
		orders := []order{mk(na, nb, tw.a+" declared before "+tw.b), mk(nb, na, tw.b+" declared before "+tw.a)}

		caseID++
		out.emit(map[string]any{"t": "START", "case": caseID})
		type run struct {
			Order string    `json:"declaration_order"`
			Res   c10Result `json:"res"`
			Msg   string    `json:"error_text"`
		}
		var runs []run
		rejectedAtRoot := false
		differs, wrong := "", ""
		for _, o := range orders {
			for k := 0; k < repeats; k++ {
				var res c10Result
				msg := ""
				var val map[string]string
				root, err := loadRoot(o.root)
				if err != nil {
					res, msg, rejectedAtRoot = c10Result{St: "err", M: [][2]string{}}, "the root configuration does not load: "+err.Error(), true
				} else {
					r := vuCall(func() (map[string]string, error) {
						return BuildList(context.Background(), root, NewResolver(filepath.Join(base, "c"+strconv.Itoa(caseID)+"-"+strconv.Itoa(len(runs))), o.u.dialer, nil))
					})
					nruns++
					res, msg, val = c10Result{St: r.st, M: [][2]string{}}, r.msg, r.val
					if r.st == "ok" {
						res.M = vuSortedMap(r.val)
					}
				}
				if len(msg) > 300 {
					msg = msg[:300]
				}
				runs = append(runs, run{o.name, res, msg})
				if differs == "" && !vcSame(res, runs[0].Res) {
					differs = fmt.Sprintf("run %d (%s) answers %v, run 1 (%s) answered %v", len(runs), o.name, res, runs[0].Order, runs[0].Res)
				}
				if wrong == "" && res.St == "ok" {
					demanded, ok := vsRef(o.u, vuRootReqs(root))
					if !ok {
						wrong = "a list although a reachable requirement cannot be resolved"
					} else {
						wrong = vsHighest(val, demanded)
					}
					if wrong != "" {
						wrong = fmt.Sprintf("run %d (%s): %s", len(runs), o.name, wrong)
					}
				}
			}
		}
		for k := 0; k < len(runs); k++ {
			os.RemoveAll(filepath.Join(base, "c"+strconv.Itoa(caseID)+"-"+strconv.Itoa(k)))
		}
		desc := map[string]any{"universe": u.describeLoose(), "project_with_twins": vuRepo + "/" + d,
			"twins": map[string]any{"kind": tw.kind, tw.a: "tagged on revision " + strconv.Itoa(ra), tw.b: "tagged on revision " + strconv.Itoa(rb)},
			"demanded_by": where, "root_requirements_first_order": vuSortedCfg(orders[0].root),
			"requirements_of_the_projects_first_order": orders[0].u.reqTable()}
		if differs != "" {
			out.emit(map[string]any{"t": "ORACLE", "name": "spelling:build-list-depends-on-declaration-order-or-iteration-order", "case": caseID,
				"what": differs, "input": desc, "runs": runs})
		}
		if wrong != "" {
			out.emit(map[string]any{"t": "ORACLE", "name": "spelling:selected-version-is-not-the-highest-demanded", "case": caseID,
				"what": wrong, "input": desc, "runs": runs})
		}
		out.emit(map[string]any{"t": "SC", "case": caseID, "kind": tw.kind, "where": where, "a": hx(tw.a), "b": hx(tw.b), "ta": tw.a, "tb": tw.b,
			"first": runs[0].Res, "rejected_at_root": rejectedAtRoot, "input": desc,
			"all_same": differs == "", "runs": len(runs)})
	}
	out.emit(map[string]any{"t": "END", "cases": caseID, "runs": nruns, "gate": ngate, "admitted": nadmitted, "cmp": ncmp})
}

// describeLoose: the universe for a replay (tags with their revisions; version strings as they are).
func (u *vuUniverse) describeLoose() map[string]any {
	tags := [][3]string{}
	for _, t := range u.tags {
		tags = append(tags, [3]string{vuRepo + "/" + t.dir, t.ver, strconv.Itoa(t.rev)})
	}
	return map[string]any{"repository": vuRepo, "revisions": u.nrevs, "tags_project_version_revision": tags}
}

// reqTable: project@revision -> requirements, for a replay.
func (u *vuUniverse) reqTable() map[string][][2]string {
	out := map[string][][2]string{}
	for _, d := range u.dirs {
		for r := 1; r <= u.nrevs; r++ {
			if l := u.sums[d][r-1].Requirements; len(l) > 0 {
				out[vuRepo+"/"+d+" at revision "+strconv.Itoa(r)] = vuNodes(l)
			}
		}
	}
	return out
}

