package mvs

// C11 harness: sequences of Get / Tidy / UpgradeAll on generated universes.  Every application is emitted for
// the Coq model (configuration before, operation, configuration after) and the statement's inequalities are
// checked directly against an independent build-list reference.

import (
	"context"
	"fmt"
	"math/rand"
	"path"
	"sort"
	"strconv"
	"strings"
	"testing"
	"time"

	"github.com/pgavlin/dawn/internal/project"
	"github.com/pgavlin/mvs"
	"golang.org/x/mod/module"
	"golang.org/x/mod/semver"
)

type c11Op struct {
	Op string `json:"op"` // get | tidy | upgradeall
	Q  string `json:"q"`  // the argument of get
}

type c11Res struct {
	St  string      `json:"st"`
	Cfg [][3]string `json:"cfg"`
}

func c11Apply(u *vuUniverse, resolver *Resolver, cfg map[string]project.RequirementConfig, op c11Op) (c11Res, map[string]project.RequirementConfig, string) {
	root := &project.Config{Requirements: map[string]project.RequirementConfig{}}
	for k, v := range cfg {
		root.Requirements[k] = v
	}
	r := vuCall(func() (map[string]project.RequirementConfig, error) {
		switch op.Op {
		case "get":
			return Get(context.Background(), root, resolver, op.Q)
		case "tidy":
			return Tidy(context.Background(), root, resolver)
		default:
			return UpgradeAll(context.Background(), root, resolver)
		}
	})
	if r.st != "ok" {
		return c11Res{St: r.st, Cfg: [][3]string{}}, nil, r.msg
	}
	return c11Res{St: "ok", Cfg: vuSortedCfg(r.val)}, r.val, ""
}

func c11GenQuery(rng *rand.Rand, u *vuUniverse) string {
	t := u.tags[rng.Intn(len(u.tags))]
	p := vuTagPath(t.dir, t.ver)
	switch r := rng.Intn(100); {
	case r < 3:
		p = path.Join(vuRepo, "nosuch")
	case r < 5:
		p = "example.com/elsewhere/x"
	case r < 9 && !strings.Contains(p, "@"):
		p = p + "@v1" // explicit v1 suffix: normalised away by CleanPath
	case r < 11:
		p = path.Join(vuRepo, t.dir) + "@v7" // a major without tags
	}
	other := u.tags[rng.Intn(len(u.tags))]
	if rng.Intn(3) != 0 {
		// a version of the same project: the interesting case for ranges
		var same []vuTag
		for _, x := range u.tags {
			if x.dir == t.dir {
				same = append(same, x)
			}
		}
		other = same[rng.Intn(len(same))]
	}
	mm := semver.MajorMinor(other.ver)
	switch r := rng.Intn(22); r {
	case 0, 1:
		return p
	case 2:
		return p + "@latest"
	case 3, 4:
		return p + "@upgrade"
	case 5, 6:
		return p + "@patch"
	case 7, 8, 9:
		return p + "@" + other.ver
	case 10:
		return p + "@" + mm
	case 11:
		return p + "@" + semver.Major(other.ver) + ".9.9"
	case 12:
		return p + "@>" + other.ver
	case 13:
		return p + "@>=" + mm
	case 14, 15:
		return p + "@<" + other.ver
	case 16, 17:
		return p + "@<=" + other.ver
	case 18:
		return p + "@main"
	case 19:
		return p + "@dev"
	case 20:
		return p + "@>=bogus"
	default:
		return p + "@nosuchref"
	}
}

// --- selections that are not tags ---------------------------------------------------------------------------
//
// A project can be selected at a version that is no tag of the repository: the pseudo-version of an untagged
// commit (written by an earlier `get p@branch`, or required by a dependency).  Such a selection is typically
// AHEAD of every tag of its major.minor series, which is the state in which the queries that are defined
// relative to the current selection (patch, upgrade) and the comparison "current vs resolved" in get have to
// get the direction right.  The family below puts such selections into root requirement sets, into the
// requirement lists of the universe and behind directed get sequences.

// c11TagsOf: the tags of one project path (major suffix included).
func (u *vuUniverse) c11TagsOf(p string) []vuTag {
	var out []vuTag
	for _, t := range u.tags {
		if vuTagPath(t.dir, t.ver) == p {
			out = append(out, t)
		}
	}
	return out
}

// c11Pseudo draws the pseudo-version of an untagged commit of project path p: a revision (preferably one that
// carries no tag of p) and, as base, a tag of p on an older revision (the major itself when there is none, as
// resolveRefQuery does).  ok is false for a path that is not a project of the universe.
func c11Pseudo(rng *rand.Rand, u *vuUniverse, p string) (string, bool) {
	trimmed, major := project.SplitPathVersion(p)
	if !strings.HasPrefix(trimmed, vuRepo+"/") {
		return "", false
	}
	if _, ok := u.sums[strings.TrimPrefix(trimmed, vuRepo+"/")]; !ok {
		return "", false
	}
	tags := u.c11TagsOf(p)
	tagged := map[int]bool{}
	for _, t := range tags {
		tagged[t.rev] = true
	}
	var free []int
	for r := 1; r <= u.nrevs; r++ {
		if !tagged[r] {
			free = append(free, r)
		}
	}
	rev := 1 + rng.Intn(u.nrevs)
	if len(free) > 0 && rng.Intn(8) != 0 {
		rev = free[rng.Intn(len(free))]
	}
	base := major
	var older []vuTag
	for _, t := range tags {
		if t.rev < rev {
			older = append(older, t)
		}
	}
	if len(older) > 0 {
		base = older[rng.Intn(len(older))].ver
	}
	return module.PseudoVersion(major, base, time.Unix(100*int64(rev), 0), strconv.Itoa(rev)), true
}

// c11UntagUniverse rewrites some requirements of the universe's projects to pseudo-versions (a dependency that
// requires an untagged commit of another project).
func c11UntagUniverse(rng *rand.Rand, u *vuUniverse) int {
	n := 0
	done := map[*mvsProject]bool{}
	for _, d := range u.dirs {
		for _, s := range u.sums[d] {
			if done[s] {
				continue
			}
			done[s] = true
			for i := range s.Requirements {
				if rng.Intn(5) != 0 {
					continue
				}
				if pv, ok := c11Pseudo(rng, u, s.Requirements[i].Path); ok {
					s.Requirements[i].Version = pv
					n++
				}
			}
		}
	}
	u.build(nil)
	return n
}

// c11UntagRoot moves one or two root requirements to a pseudo-version of their project (every name of the
// path moves together: one version per path).
func c11UntagRoot(rng *rand.Rand, u *vuUniverse, cfg map[string]project.RequirementConfig) {
	names := vuSortedCfg(cfg)
	k := 1 + rng.Intn(2)
	for ; k > 0; k-- {
		p := names[rng.Intn(len(names))][1]
		pv, ok := c11Pseudo(rng, u, p)
		if !ok {
			continue
		}
		for n, r := range cfg {
			if r.Path == p {
				cfg[n] = project.RequirementConfig{Path: p, Version: pv}
			}
		}
	}
}

// c11UntaggedPaths: the projects the build list selects at a pseudo-version (sorted).
func c11UntaggedPaths(bl map[string]string) []string {
	var out []string
	for _, kv := range vuSortedMap(bl) {
		if kv[0] != "" && module.IsPseudoVersion(kv[1]) {
			out = append(out, kv[0])
		}
	}
	return out
}

// c11GenQueryOn: a query on the given project path, weighted towards the queries whose answer depends on the
// current selection or whose target lies on either side of it.
func c11GenQueryOn(rng *rand.Rand, u *vuUniverse, p string) string {
	tags := u.c11TagsOf(p)
	if len(tags) == 0 {
		return p + "@patch"
	}
	other := tags[rng.Intn(len(tags))]
	switch r := rng.Intn(20); {
	case r < 5:
		return p + "@patch"
	case r < 9:
		return p + "@upgrade"
	case r < 10:
		return p
	case r < 11:
		return p + "@latest"
	case r < 13:
		return p + "@" + other.ver
	case r < 14:
		return p + "@" + semver.MajorMinor(other.ver)
	case r < 15:
		return p + "@>=" + other.ver
	case r < 16:
		return p + "@>" + other.ver
	case r < 17:
		return p + "@<=" + other.ver
	case r < 18:
		return p + "@<" + other.ver
	case r < 19:
		return p + "@main"
	default:
		return p + "@dev"
	}
}

// c11RefRelative: what a patch / upgrade query has to resolve to, from the statement of the two queries and
// the generated tag table only: the selected version, unless a tag of the project is newer (patch: within the
// selected version's major.minor series, pre-releases count; upgrade: the newest release, the newest
// pre-release when there is no release).  ok is false when the query is not relative to a selection (the
// project is not selected) or when the project has no tag at all (upgrade then goes to the default branch).
func (u *vuUniverse) c11RefRelative(bl map[string]string, vq versionQuery) (module.Version, bool) {
	p := project.CleanPath(vq.path)
	cur, present := bl[p]
	if !present || p == "" || !semver.IsValid(cur) {
		return module.Version{}, false
	}
	tags := u.c11TagsOf(p)
	best := cur
	switch vq.query {
	case "patch":
		for _, t := range tags {
			if semver.MajorMinor(t.ver) == semver.MajorMinor(cur) && semver.Compare(t.ver, best) > 0 {
				best = t.ver
			}
		}
	case "upgrade":
		if len(tags) == 0 {
			return module.Version{}, false
		}
		release, pre := "", ""
		for _, t := range tags {
			if semver.Prerelease(t.ver) == "" {
				if release == "" || semver.Compare(t.ver, release) > 0 {
					release = t.ver
				}
			} else if pre == "" || semver.Compare(t.ver, pre) > 0 {
				pre = t.ver
			}
		}
		latest := release
		if latest == "" {
			latest = pre
		}
		if semver.Compare(latest, best) > 0 {
			best = latest
		}
	default:
		return module.Version{}, false
	}
	return module.Version{Path: p, Version: best}, true
}

// --- aliased roots ---------------------------------------------------------------------------------------------
//
// dawn.toml may name one project path under several requirement names, and the entries may carry different
// versions (a merged or hand-edited file).  The build list takes the highest.  Every operation reads the root
// through a Go map (iteration order differs from run to run), re-attaches the old names to whatever the edit
// computed, and get's two early returns hand the old entries back unmerged - so this is the class of roots on which
// "lowers no other project", "tidy keeps the build list", "names are preserved" and "repeating changes nothing"
// depend on how the names of one path are treated, and on which the result must not depend on the iteration order.

// c11AliasModes: how the versions are spread over the names of the aliased path.
var c11AliasModes = []string{"equal", "low-first", "low-last", "mixed"}

// c11AliasRoot adds 2-3 names for one project path to a generated root.  The path is one with at least two tagged
// versions when the universe has one (mode "equal" does not need it).  Names are chosen so that they sort before,
// between and after the other names.  It returns the aliased path ("" when the universe offers none).
func c11AliasRoot(rng *rand.Rand, u *vuUniverse, cfg map[string]project.RequirementConfig, mode string) string {
	byPath := map[string][]string{}
	var paths []string
	for _, t := range u.tags {
		p := vuTagPath(t.dir, t.ver)
		if _, ok := byPath[p]; !ok {
			paths = append(paths, p)
		}
		byPath[p] = append(byPath[p], t.ver)
	}
	var multi []string
	for _, p := range paths {
		if len(byPath[p]) >= 2 {
			multi = append(multi, p)
		}
	}
	var p string
	switch {
	case len(multi) > 0 && (mode != "equal" || rng.Intn(2) == 0):
		p = multi[rng.Intn(len(multi))]
	case mode == "equal":
		p = paths[rng.Intn(len(paths))]
	default:
		return ""
	}
	vers := append([]string(nil), byPath[p]...)
	sort.Slice(vers, func(i, j int) bool { return semver.Compare(vers[i], vers[j]) < 0 })
	// drop what the root already says about the path: the aliases below are all of it
	for n, r := range cfg {
		if r.Path == p {
			delete(cfg, n)
		}
	}
	k := 2 + rng.Intn(2)
	namePool := []string{"0first", "a_" + path.Base(p), path.Base(p), "core", "lib", "m_" + path.Base(p), "zz_last", "~tilde"}
	rng.Shuffle(len(namePool), func(i, j int) { namePool[i], namePool[j] = namePool[j], namePool[i] })
	var names []string
	for _, n := range namePool {
		if _, taken := cfg[n]; !taken && len(names) < k {
			names = append(names, n)
		}
	}
	sort.Strings(names)
	lo := rng.Intn(len(vers))
	hi := lo
	if len(vers) > 1 {
		lo = rng.Intn(len(vers) - 1)
		hi = lo + 1 + rng.Intn(len(vers)-lo-1)
	}
	for i, n := range names {
		v := vers[hi]
		switch mode {
		case "equal":
			v = vers[lo]
		case "low-first":
			if i == 0 {
				v = vers[lo]
			}
		case "low-last":
			if i == len(names)-1 {
				v = vers[lo]
			}
		default: // mixed: any version of the path under any name
			v = vers[rng.Intn(len(vers))]
		}
		cfg[n] = project.RequirementConfig{Path: p, Version: v}
	}
	return p
}

// c11AliasOp draws the next operation of an aliased sequence: get of a project that is absent from the build list
// (the early return that prepends), get of a present project at the version it is selected at (the early return
// that hands the root back), a query on the aliased path itself (each of its versions, ranges, patch, upgrade),
// tidy, upgrade-all.
func c11AliasOp(rng *rand.Rand, u *vuUniverse, bl map[string]string, aliased string) c11Op {
	switch r := rng.Intn(20); {
	case r < 5:
		var absent []vuTag
		for _, t := range u.tags {
			if _, ok := bl[vuTagPath(t.dir, t.ver)]; !ok {
				absent = append(absent, t)
			}
		}
		if len(absent) == 0 {
			return c11Op{Op: "tidy"}
		}
		t := absent[rng.Intn(len(absent))]
		q := vuTagPath(t.dir, t.ver)
		switch rng.Intn(3) {
		case 0:
			q += "@" + t.ver
		case 1:
			q += "@latest"
		}
		return c11Op{Op: "get", Q: q}
	case r < 8:
		var present []string
		for _, kv := range vuSortedMap(bl) {
			if kv[0] != "" {
				present = append(present, kv[0])
			}
		}
		if len(present) == 0 {
			return c11Op{Op: "tidy"}
		}
		p := present[rng.Intn(len(present))]
		if rng.Intn(2) == 0 {
			p = aliased
		}
		if v, ok := bl[p]; ok {
			return c11Op{Op: "get", Q: p + "@" + v}
		}
		return c11Op{Op: "get", Q: p}
	case r < 12:
		return c11Op{Op: "get", Q: c11GenQueryOn(rng, u, aliased)}
	case r < 16:
		return c11Op{Op: "tidy"}
	default:
		return c11Op{Op: "upgradeall"}
	}
}

// c11NodeSet: the (path, version) pairs of a configuration.
func c11NodeSet(cfg map[string]project.RequirementConfig) map[[2]string]bool {
	out := map[[2]string]bool{}
	for _, r := range cfg {
		out[[2]string{r.Path, r.Version}] = true
	}
	return out
}

func c11SortedNodes(m map[[2]string]bool) [][2]string {
	out := make([][2]string, 0, len(m))
	for k := range m {
		out = append(out, k)
	}
	sort.Slice(out, func(i, j int) bool { return out[i][0] < out[j][0] || (out[i][0] == out[j][0] && out[i][1] < out[j][1]) })
	return out
}

func c11Paths(cfg map[string]project.RequirementConfig) map[string]bool {
	out := map[string]bool{}
	for _, v := range cfg {
		out[v.Path] = true
	}
	return out
}

func c11BLList(bl map[string]string) []module.Version {
	var out []module.Version
	for _, kv := range vuSortedMap(bl) {
		out = append(out, module.Version{Path: kv[0], Version: kv[1]})
	}
	return out
}

func c11CfgReqs(cfg map[string]project.RequirementConfig) []module.Version {
	return vuRootReqs(&project.Config{Requirements: cfg})
}

// latestSameMajor: the highest tagged version of the path with the major of v (independent of Reqs.Upgrade).
func (u *vuUniverse) latestSameMajor(p, v string) string {
	best := v
	for _, t := range u.tags {
		if vuTagPath(t.dir, t.ver) == p && semver.Major(t.ver) == semver.Major(v) && semver.Compare(t.ver, best) > 0 {
			best = t.ver
		}
	}
	return best
}

// c11TxVersions: the requirement list the operation computes before names are attached (the tx callback of
// transformReqs), obtained from the same internal entry points.
func c11TxVersions(resolver *Resolver, cfg map[string]project.RequirementConfig, op c11Op) ([]module.Version, bool) {
	root := &mvsProject{Version: module.Version{}, Requirements: c11CfgReqs(cfg)}
	r := vuCall(func() ([]module.Version, error) {
		ctx := context.Background()
		switch op.Op {
		case "get":
			return get(ctx, root, resolver, parseVersionQuery(op.Q))
		case "tidy":
			return mvs.Req(ctx, root.Version, nil, newReqs(root, resolver))
		default:
			reqs := newReqs(root, resolver)
			bl, err := mvs.UpgradeAll(ctx, root.Version, reqs)
			if err != nil {
				return nil, err
			}
			return mvs.ReqList(ctx, root.Version, bl, nil, reqs)
		}
	})
	return r.val, r.st == "ok"
}

func TestVerifC11(t *testing.T) {
	out, err := vuOpen()
	if err != nil {
		t.Fatal(err)
	}
	defer out.close()
	seed := int64(vuEnvInt("VERIF_SEED", 1))
	nuniv := vuEnvInt("VERIF_NUNIV", 100)
	nseq := vuEnvInt("VERIF_NSEQ", 3)
	dupPaths := vuEnvInt("VERIF_DUP_PATHS", 0) != 0
	rng := rand.New(rand.NewSource(seed*104729 + 11))

	caseID := 0
	oracle := func(name string, u *vuUniverse, cfg map[string]project.RequirementConfig, op c11Op, detail map[string]any) {
		rec := map[string]any{"t": "ORACLE", "name": name, "u": u.id, "cfg": vuSortedCfg(cfg), "op": op}
		for k, v := range detail {
			rec[k] = v
		}
		out.emit(rec)
	}

	nuntag := vuEnvInt("VERIF_NSEQ_UNTAGGED", 1)
	nalias := vuEnvInt("VERIF_NSEQ_ALIASED", 1)
	// every application is run this many times on a freshly built root map (Go randomises the iteration order of
	// every map range): the runs have to agree
	runs := vuEnvInt("VERIF_RUNS", 3)
	runsAliased := vuEnvInt("VERIF_RUNS_ALIASED", 8)
	for ui := 0; ui < nuniv; ui++ {
		u := vuGen(rng, ui, false)
		// every fourth universe: some projects require an untagged commit of another project
		if ui%4 == 3 {
			c11UntagUniverse(rng, u)
		}
		out.emit(u.describe())
		resolver := NewResolver(t.TempDir(), u.dialer, nil)
		querier := newQuerier(resolver)

		// evalApp: one observed application cfg --op--> (res1, cfg1): emitted for the model, the statement's clauses
		// checked directly.  It returns the project a ref query has just moved to an untagged commit.
		evalApp := func(cfg map[string]project.RequirementConfig, op c11Op, fam string,
			res1 c11Res, cfg1 map[string]project.RequirementConfig, msg string) string {
			bl0, ok0 := u.refBuildList(c11CfgReqs(cfg))
			caseID++

			// what the query resolves to, from the implementation's own resolver
			var rv module.Version
			haveRv := false
			vq := parseVersionQuery(op.Q)
			if op.Op == "get" && ok0 {
				r := vuCall(func() (module.Version, error) {
					return querier.resolveVersionQuery(context.Background(), c11BLList(bl0), vq)
				})
				if r.st == "ok" {
					rv, haveRv = r.val, true
				}
				// patch / upgrade are defined relative to the selection: the selected version unless a tag is newer
				if want, ok := u.c11RefRelative(bl0, vq); ok && r.st != "hang" && r.st != "panic" && (r.st != "ok" || r.val != want) {
					oracle("resolves-relative-to-selection", u, cfg, op, map[string]any{"selected": bl0[want.Path],
						"want": want.Version, "resolved": r.val.Version, "outcome": r.st, "msg": r.msg})
				}
			}

			rec := map[string]any{"t": "C11", "case": caseID, "u": u.id, "cfg": vuSortedCfg(cfg), "op": op,
				"qp": [2]string{vq.path, vq.query}, "res": res1}
			if haveRv {
				rec["rv"] = [2]string{rv.Path, rv.Version}
			}
			if sel, ok := bl0[project.CleanPath(vq.path)]; ok && op.Op == "get" && ok0 {
				rec["sel"] = sel // the selection the query looks at
			}
			if fam != "" {
				rec["fam"] = fam
			}
			out.emit(rec)

			if res1.St == "panic" || res1.St == "hang" {
				oracle("no-panic-no-hang", u, cfg, op, map[string]any{"outcome": res1.St, "msg": msg})
				return ""
			}
			if res1.St != "ok" {
				if ok0 && op.Op == "tidy" {
					// tidy of a resolvable configuration only visits resolvable projects: it must not fail
					oracle("tidy-succeeds", u, cfg, op, map[string]any{"msg": msg})
				}
				return ""
			}
			if !ok0 {
				return ""
			}
			bl1, ok1 := u.refBuildList(c11CfgReqs(cfg1))
			if !ok1 {
				// the operation pulled in a tagged version one of whose requirements is not tagged (a malformed
				// universe entry): nothing to compare
				return ""
			}
			noLower := func() {
				for _, kv := range vuSortedMap(bl0) {
					p, v := kv[0], kv[1]
					if w, ok := bl1[p]; !ok || vuCmp(w, v) < 0 {
						oracle("lowers-no-project", u, cfg, op, map[string]any{"path": p, "before": v, "after": w,
							"result": res1.Cfg})
						return
					}
				}
			}
			overshoot1 := false
			switch op.Op {
			case "tidy":
				if !vuMapEq(bl0, bl1) {
					oracle("tidy-preserves-build-list", u, cfg, op, map[string]any{"before": vuSortedMap(bl0),
						"after": vuSortedMap(bl1), "result": res1.Cfg})
				}
			case "upgradeall":
				noLower()
				for _, kv := range vuSortedMap(bl0) {
					p, v := kv[0], kv[1]
					if p == "" {
						continue
					}
					if want := u.latestSameMajor(p, v); vuCmp(bl1[p], want) < 0 {
						oracle("upgrade-all-reaches-latest", u, cfg, op, map[string]any{"path": p, "want": want,
							"after": bl1[p], "result": res1.Cfg})
						break
					}
				}
			case "get":
				if !haveRv {
					break
				}
				cur, present := bl0[rv.Path]
				if vq.query == "patch" || vq.query == "upgrade" {
					// an upgrade-type query by definition (the selection or something newer): whatever the
					// resolver answered, the edit lowers nothing and keeps the project at or above its selection
					noLower()
				}
				if present && semver.Compare(cur, rv.Version) > 0 {
					// downgrade: at or below the request, absent counts as below
					if w, ok := bl1[rv.Path]; ok && semver.Compare(w, rv.Version) > 0 {
						oracle("downgrade-at-or-below", u, cfg, op, map[string]any{"resolved": rv.Version, "after": w,
							"result": res1.Cfg})
					}
					if w, ok := bl1[rv.Path]; !ok || w != rv.Version {
						overshoot1 = true
					}
				} else {
					// add / upgrade / already there: contains the resolved version, lowers nothing
					w, ok := bl1[rv.Path]
					if !ok || semver.Compare(w, rv.Version) < 0 {
						oracle("upgrade-contains-resolved", u, cfg, op, map[string]any{"resolved": rv.Version, "after": w,
							"result": res1.Cfg})
					} else if w != rv.Version {
						// higher only when the resolved version's own requirements demand it
						want, _ := u.refBuildList(append(c11CfgReqs(cfg), rv))
						if want[rv.Path] != w {
							oracle("upgrade-contains-resolved", u, cfg, op, map[string]any{"resolved": rv.Version,
								"after": w, "demanded": want[rv.Path], "result": res1.Cfg})
						}
					}
					noLower()
				}
			}

			// names: the result holds exactly the requirements computed by the operation (none lost to a name
			// collision, none invented; a path may carry several versions when the root named it several times and the
			// edit handed the entries back), and a path that remains keeps every name it had
			if nv, ok := c11TxVersions(resolver, cfg, op); ok {
				want := map[[2]string]bool{}
				remains := map[string]bool{}
				for _, v := range nv {
					if v.Path != "" {
						want[[2]string{v.Path, v.Version}] = true
						remains[v.Path] = true
					}
				}
				got := c11NodeSet(cfg1)
				same := len(want) == len(got)
				for k := range want {
					same = same && got[k]
				}
				if !same {
					oracle("new-names-unique", u, cfg, op, map[string]any{"requirements": c11SortedNodes(want),
						"result": res1.Cfg})
				}
				for _, e := range vuSortedCfg(cfg) {
					n, p := e[0], e[1]
					if !remains[p] || p == "" {
						continue
					}
					if r1, ok := cfg1[n]; !ok || r1.Path != p {
						oracle("names-preserved", u, cfg, op, map[string]any{"reqname": n, "path": p, "result": res1.Cfg})
						break
					}
				}
			}

			// idempotence: the same operation on the result changes nothing
			res2, cfg2, msg2 := c11Apply(u, resolver, cfg1, op)
			caseID++
			out.emit(map[string]any{"t": "C11", "case": caseID, "u": u.id, "cfg": vuSortedCfg(cfg1), "op": op,
				"qp": [2]string{vq.path, vq.query}, "res": res2, "repeat": true})
			if res2.St != "ok" || !vuCfgEq(cfg1, cfg2) {
				overshoot2 := false
				if op.Op == "get" && res2.St == "ok" {
					r := vuCall(func() (module.Version, error) {
						return querier.resolveVersionQuery(context.Background(), c11BLList(bl1), vq)
					})
					bl2, ok2 := u.refBuildList(c11CfgReqs(cfg2))
					if r.st == "ok" && ok2 {
						cur1, present := bl1[r.val.Path]
						if w, ok := bl2[r.val.Path]; present && semver.Compare(cur1, r.val.Version) > 0 && (!ok || w != r.val.Version) {
							overshoot2 = true
						}
					}
				}
				name := "idempotent"
				if overshoot1 || overshoot2 {
					name = "idempotent:get-downgrade-overshoot"
				} else if _, present := bl0[rv.Path]; op.Op == "get" && haveRv && vq.query == "patch" && !present {
					// @patch of a project that is not in the build list resolves as @latest (releases preferred);
					// the repeat resolves as a patch query (prereleases count)
					name = "idempotent:get-patch-absent"
				}
				oracle(name, u, cfg, op, map[string]any{"first": res1.Cfg, "second": res2, "msg": msg2,
					"resolved": fmt.Sprint(rv)})
			}
			if op.Op == "get" && haveRv && module.IsPseudoVersion(rv.Version) {
				return rv.Path
			}
			return ""
		}

		// applyAll: the operation, [n] times; the distinct outcomes in order of first appearance
		type variant struct {
			res  c11Res
			cfg  map[string]project.RequirementConfig
			msg  string
			runs int
		}
		applyAll := func(cfg map[string]project.RequirementConfig, op c11Op, n int) []*variant {
			var vs []*variant
			for i := 0; i < n; i++ {
				res, cfg1, msg := c11Apply(u, resolver, cfg, op)
				var hit *variant
				for _, v := range vs {
					if v.res.St == res.St && (res.St != "ok" || vuCfgEq(v.cfg, cfg1)) {
						hit = v
					}
				}
				if hit != nil {
					hit.runs++
					continue
				}
				vs = append(vs, &variant{res: res, cfg: cfg1, msg: msg, runs: 1})
				if res.St == "hang" {
					break
				}
			}
			return vs
		}

		for si := 0; si < nseq+nuntag+nalias; si++ {
			cfg := vuGenRoot(rng, u, dupPaths)
			// the last sequences of every universe start from special roots: one that requires untagged commits (the
			// queries are then aimed at the projects selected at one), one that names a path under several names
			fam, aliased, mode := "", "", ""
			switch {
			case si >= nseq+nuntag:
				mode = c11AliasModes[(ui+si)%len(c11AliasModes)]
				if aliased = c11AliasRoot(rng, u, cfg, mode); aliased != "" {
					fam = "aliased:" + mode
				}
			case si >= nseq:
				fam = "untagged"
				c11UntagRoot(rng, u, cfg)
			}
			nops := 1 + rng.Intn(4)
			if aliased != "" {
				nops = 1 + rng.Intn(3)
			}
			follow := "" // the project a ref query has just moved: the next get looks at it again
			for oi := 0; oi < nops; oi++ {
				bl0, _ := u.refBuildList(c11CfgReqs(cfg))

				var op c11Op
				ups := c11UntaggedPaths(bl0)
				switch r := rng.Intn(10); {
				case aliased != "":
					op = c11AliasOp(rng, u, bl0, aliased)
				case follow != "" && r < 5:
					op = c11Op{Op: "get", Q: c11GenQueryOn(rng, u, follow)}
				case fam == "untagged" && len(ups) > 0 && r < 7:
					op = c11Op{Op: "get", Q: c11GenQueryOn(rng, u, ups[rng.Intn(len(ups))])}
				case r < 6:
					op = c11Op{Op: "get", Q: c11GenQuery(rng, u)}
				case r < 8:
					op = c11Op{Op: "tidy"}
				default:
					op = c11Op{Op: "upgradeall"}
				}

				n := runs
				if aliased != "" {
					n = runsAliased
				}
				// (a process that dies inside the call leaves this as its last record)
				out.emit(map[string]any{"t": "START", "case": caseID + 1, "cfg": vuSortedCfg(cfg), "op": op})
				vs := applyAll(cfg, op, n)
				if len(vs) > 1 {
					var outcomes []any
					for _, v := range vs {
						outcomes = append(outcomes, map[string]any{"runs": v.runs, "st": v.res.St, "cfg": v.res.Cfg})
					}
					oracle("result-depends-on-map-order", u, cfg, op, map[string]any{"runs": n, "outcomes": outcomes})
				}
				// every distinct outcome is an observed behaviour: each is compared with the model and checked
				follow = ""
				for _, v := range vs {
					if f := evalApp(cfg, op, fam, v.res, v.cfg, v.msg); f != "" {
						follow = f
					}
				}
				if vs[0].res.St == "ok" {
					cfg = vs[0].cfg
				}
			}
		}
	}
	out.emit(map[string]any{"t": "END", "cases": caseID})
}
