package mvs

// C11 harness: sequences of Get / Tidy / UpgradeAll on generated universes.  Every application is emitted for
// the Coq model (configuration before, operation, configuration after) and the statement's inequalities are
// checked directly against an independent build-list reference.

import (
	"context"
	"fmt"
	"math/rand"
	"path"
	"sort"
	"strings"
	"testing"

	"github.com/pgavlin/dawn/internal/project"
	"github.com/pgavlin/mvs"
	"golang.org/x/mod/module"
	"golang.org/x/mod/semver"
)

type c11Op struct {
	Op string `json:"op"` // get | tidy | upgradeall
	Q  string `json:"q"`  // the argument of get
}

type c11Res struct {
	St  string      `json:"st"`
	Cfg [][3]string `json:"cfg"`
}

func c11Apply(u *vuUniverse, resolver *Resolver, cfg map[string]project.RequirementConfig, op c11Op) (c11Res, map[string]project.RequirementConfig, string) {
	root := &project.Config{Requirements: map[string]project.RequirementConfig{}}
	for k, v := range cfg {
		root.Requirements[k] = v
	}
	r := vuCall(func() (map[string]project.RequirementConfig, error) {
		switch op.Op {
		case "get":
			return Get(context.Background(), root, resolver, op.Q)
		case "tidy":
			return Tidy(context.Background(), root, resolver)
		default:
			return UpgradeAll(context.Background(), root, resolver)
		}
	})
	if r.st != "ok" {
		return c11Res{St: r.st, Cfg: [][3]string{}}, nil, r.msg
	}
	return c11Res{St: "ok", Cfg: vuSortedCfg(r.val)}, r.val, ""
}

func c11GenQuery(rng *rand.Rand, u *vuUniverse) string {
	t := u.tags[rng.Intn(len(u.tags))]
	p := vuTagPath(t.dir, t.ver)
	switch r := rng.Intn(100); {
	case r < 3:
		p = path.Join(vuRepo, "nosuch")
	case r < 5:
		p = "example.com/elsewhere/x"
	case r < 9 && !strings.Contains(p, "@"):
		p = p + "@v1" // explicit v1 suffix: normalised away by CleanPath
	case r < 11:
		p = path.Join(vuRepo, t.dir) + "@v7" // a major without tags
	}
	other := u.tags[rng.Intn(len(u.tags))]
	if rng.Intn(3) != 0 {
		// a version of the same project: the interesting case for ranges
		var same []vuTag
		for _, x := range u.tags {
			if x.dir == t.dir {
				same = append(same, x)
			}
		}
		other = same[rng.Intn(len(same))]
	}
	mm := semver.MajorMinor(other.ver)
	switch r := rng.Intn(22); r {
	case 0, 1:
		return p
	case 2:
		return p + "@latest"
	case 3, 4:
		return p + "@upgrade"
	case 5, 6:
		return p + "@patch"
	case 7, 8, 9:
		return p + "@" + other.ver
	case 10:
		return p + "@" + mm
	case 11:
		return p + "@" + semver.Major(other.ver) + ".9.9"
	case 12:
		return p + "@>" + other.ver
	case 13:
		return p + "@>=" + mm
	case 14, 15:
		return p + "@<" + other.ver
	case 16, 17:
		return p + "@<=" + other.ver
	case 18:
		return p + "@main"
	case 19:
		return p + "@dev"
	case 20:
		return p + "@>=bogus"
	default:
		return p + "@nosuchref"
	}
}

func c11Paths(cfg map[string]project.RequirementConfig) map[string]bool {
	out := map[string]bool{}
	for _, v := range cfg {
		out[v.Path] = true
	}
	return out
}

func c11BLList(bl map[string]string) []module.Version {
	var out []module.Version
	for _, kv := range vuSortedMap(bl) {
		out = append(out, module.Version{Path: kv[0], Version: kv[1]})
	}
	return out
}

func c11CfgReqs(cfg map[string]project.RequirementConfig) []module.Version {
	return vuRootReqs(&project.Config{Requirements: cfg})
}

// latestSameMajor: the highest tagged version of the path with the major of v (independent of Reqs.Upgrade).
func (u *vuUniverse) latestSameMajor(p, v string) string {
	best := v
	for _, t := range u.tags {
		if vuTagPath(t.dir, t.ver) == p && semver.Major(t.ver) == semver.Major(v) && semver.Compare(t.ver, best) > 0 {
			best = t.ver
		}
	}
	return best
}

// c11TxVersions: the requirement list the operation computes before names are attached (the tx callback of
// transformReqs), obtained from the same internal entry points.
func c11TxVersions(resolver *Resolver, cfg map[string]project.RequirementConfig, op c11Op) ([]module.Version, bool) {
	root := &mvsProject{Version: module.Version{}, Requirements: c11CfgReqs(cfg)}
	r := vuCall(func() ([]module.Version, error) {
		ctx := context.Background()
		switch op.Op {
		case "get":
			return get(ctx, root, resolver, parseVersionQuery(op.Q))
		case "tidy":
			return mvs.Req(ctx, root.Version, nil, newReqs(root, resolver))
		default:
			reqs := newReqs(root, resolver)
			bl, err := mvs.UpgradeAll(ctx, root.Version, reqs)
			if err != nil {
				return nil, err
			}
			return mvs.ReqList(ctx, root.Version, bl, nil, reqs)
		}
	})
	return r.val, r.st == "ok"
}

func TestVerifC11(t *testing.T) {
	out, err := vuOpen()
	if err != nil {
		t.Fatal(err)
	}
	defer out.close()
	seed := int64(vuEnvInt("VERIF_SEED", 1))
	nuniv := vuEnvInt("VERIF_NUNIV", 100)
	nseq := vuEnvInt("VERIF_NSEQ", 3)
	dupPaths := vuEnvInt("VERIF_DUP_PATHS", 0) != 0
	rng := rand.New(rand.NewSource(seed*104729 + 11))

	caseID := 0
	oracle := func(name string, u *vuUniverse, cfg map[string]project.RequirementConfig, op c11Op, detail map[string]any) {
		rec := map[string]any{"t": "ORACLE", "name": name, "u": u.id, "cfg": vuSortedCfg(cfg), "op": op}
		for k, v := range detail {
			rec[k] = v
		}
		out.emit(rec)
	}

	for ui := 0; ui < nuniv; ui++ {
		u := vuGen(rng, ui, false)
		out.emit(u.describe())
		resolver := NewResolver(t.TempDir(), u.dialer, nil)
		querier := newQuerier(resolver)

		for si := 0; si < nseq; si++ {
			cfg := vuGenRoot(rng, u, dupPaths)
			nops := 1 + rng.Intn(4)
			for oi := 0; oi < nops; oi++ {
				var op c11Op
				switch r := rng.Intn(10); {
				case r < 6:
					op = c11Op{Op: "get", Q: c11GenQuery(rng, u)}
				case r < 8:
					op = c11Op{Op: "tidy"}
				default:
					op = c11Op{Op: "upgradeall"}
				}
				caseID++
				out.emit(map[string]any{"t": "START", "case": caseID})

				bl0, ok0 := u.refBuildList(c11CfgReqs(cfg))

				// what the query resolves to, from the implementation's own resolver
				var rv module.Version
				haveRv := false
				vq := parseVersionQuery(op.Q)
				if op.Op == "get" && ok0 {
					r := vuCall(func() (module.Version, error) {
						return querier.resolveVersionQuery(context.Background(), c11BLList(bl0), vq)
					})
					if r.st == "ok" {
						rv, haveRv = r.val, true
					}
				}

				res1, cfg1, msg := c11Apply(u, resolver, cfg, op)
				rec := map[string]any{"t": "C11", "case": caseID, "u": u.id, "cfg": vuSortedCfg(cfg), "op": op,
					"qp": [2]string{vq.path, vq.query}, "res": res1}
				if haveRv {
					rec["rv"] = [2]string{rv.Path, rv.Version}
				}
				out.emit(rec)

				if res1.St == "panic" || res1.St == "hang" {
					oracle("no-panic-no-hang", u, cfg, op, map[string]any{"outcome": res1.St, "msg": msg})
					continue
				}
				if res1.St != "ok" {
					if ok0 && op.Op == "tidy" {
						// tidy of a resolvable configuration only visits resolvable projects: it must not fail
						oracle("tidy-succeeds", u, cfg, op, map[string]any{"msg": msg})
					}
					continue
				}
				if !ok0 {
					cfg = cfg1
					continue
				}
				bl1, ok1 := u.refBuildList(c11CfgReqs(cfg1))
				if !ok1 {
					// the operation pulled in a tagged version one of whose requirements is not tagged (a malformed
					// universe entry): nothing to compare
					cfg = cfg1
					continue
				}
				noLower := func() {
					for p, v := range bl0 {
						if w, ok := bl1[p]; !ok || vuCmp(w, v) < 0 {
							oracle("lowers-no-project", u, cfg, op, map[string]any{"path": p, "before": v, "after": w,
								"result": res1.Cfg})
							return
						}
					}
				}
				overshoot1 := false
				switch op.Op {
				case "tidy":
					if !vuMapEq(bl0, bl1) {
						oracle("tidy-preserves-build-list", u, cfg, op, map[string]any{"before": vuSortedMap(bl0),
							"after": vuSortedMap(bl1), "result": res1.Cfg})
					}
				case "upgradeall":
					noLower()
					for p, v := range bl0 {
						if p == "" {
							continue
						}
						if want := u.latestSameMajor(p, v); vuCmp(bl1[p], want) < 0 {
							oracle("upgrade-all-reaches-latest", u, cfg, op, map[string]any{"path": p, "want": want,
								"after": bl1[p], "result": res1.Cfg})
							break
						}
					}
				case "get":
					if !haveRv {
						break
					}
					cur, present := bl0[rv.Path]
					if present && semver.Compare(cur, rv.Version) > 0 {
						// downgrade: at or below the request, absent counts as below
						if w, ok := bl1[rv.Path]; ok && semver.Compare(w, rv.Version) > 0 {
							oracle("downgrade-at-or-below", u, cfg, op, map[string]any{"resolved": rv.Version, "after": w,
								"result": res1.Cfg})
						}
						if w, ok := bl1[rv.Path]; !ok || w != rv.Version {
							overshoot1 = true
						}
					} else {
						// add / upgrade / already there: contains the resolved version, lowers nothing
						w, ok := bl1[rv.Path]
						if !ok || semver.Compare(w, rv.Version) < 0 {
							oracle("upgrade-contains-resolved", u, cfg, op, map[string]any{"resolved": rv.Version, "after": w,
								"result": res1.Cfg})
						} else if w != rv.Version {
							// higher only when the resolved version's own requirements demand it
							want, _ := u.refBuildList(append(c11CfgReqs(cfg), rv))
							if want[rv.Path] != w {
								oracle("upgrade-contains-resolved", u, cfg, op, map[string]any{"resolved": rv.Version,
									"after": w, "demanded": want[rv.Path], "result": res1.Cfg})
							}
						}
						noLower()
					}
				}

				// names: the result holds exactly the requirement list computed by the operation (no requirement lost
				// to a name collision, none invented), and a path that remains keeps every name it had
				if nv, ok := c11TxVersions(resolver, cfg, op); ok {
					want := map[string]string{}
					for _, v := range nv {
						if v.Path != "" {
							want[v.Path] = v.Version
						}
					}
					got := map[string]string{}
					for _, r := range cfg1 {
						got[r.Path] = r.Version
					}
					if !vuMapEq(want, got) {
						oracle("new-names-unique", u, cfg, op, map[string]any{"requirements": vuSortedMap(want),
							"result": res1.Cfg})
					}
					for n, r := range cfg {
						if _, remains := want[r.Path]; !remains || r.Path == "" {
							continue
						}
						if r1, ok := cfg1[n]; !ok || r1.Path != r.Path {
							oracle("names-preserved", u, cfg, op, map[string]any{"reqname": n, "path": r.Path, "result": res1.Cfg})
							break
						}
					}
				}

				// idempotence: the same operation on the result changes nothing
				res2, cfg2, msg2 := c11Apply(u, resolver, cfg1, op)
				caseID++
				out.emit(map[string]any{"t": "C11", "case": caseID, "u": u.id, "cfg": vuSortedCfg(cfg1), "op": op,
					"qp": [2]string{vq.path, vq.query}, "res": res2, "repeat": true})
				if res2.St != "ok" || !vuCfgEq(cfg1, cfg2) {
					overshoot2 := false
					if op.Op == "get" && res2.St == "ok" {
						r := vuCall(func() (module.Version, error) {
							return querier.resolveVersionQuery(context.Background(), c11BLList(bl1), vq)
						})
						bl2, ok2 := u.refBuildList(c11CfgReqs(cfg2))
						if r.st == "ok" && ok2 {
							cur1, present := bl1[r.val.Path]
							if w, ok := bl2[r.val.Path]; present && semver.Compare(cur1, r.val.Version) > 0 && (!ok || w != r.val.Version) {
								overshoot2 = true
							}
						}
					}
					name := "idempotent"
					if overshoot1 || overshoot2 {
						name = "idempotent:get-downgrade-overshoot"
					} else if _, present := bl0[rv.Path]; op.Op == "get" && haveRv && vq.query == "patch" && !present {
						// @patch of a project that is not in the build list resolves as @latest (releases preferred);
						// the repeat resolves as a patch query (prereleases count)
						name = "idempotent:get-patch-absent"
					}
					oracle(name, u, cfg, op, map[string]any{"first": res1.Cfg, "second": res2, "msg": msg2,
						"resolved": fmt.Sprint(rv)})
				}
				cfg = cfg1
			}
		}
	}
	out.emit(map[string]any{"t": "END", "cases": caseID})
	_ = sort.Strings
}
