package mvs

// C10 harness, second family: "the answer does not depend on the state of the download cache", for the cache
// states that faults, crashes and concurrent resolvers can produce, over repository layouts the first family does
// not have.
//
// A generated universe (zz_verif_mvsgen_test.go) is laid out over SEVERAL repositories: every project lives either
// at the root of a repository of its own, in a subdirectory of a repository of its own, in the shared repository,
// or NESTED in the tree of another project (a repository that hosts a project at its root and further projects
// below it; a project below another project's subdirectory); repositories live on the well-known host
// (github.com/<org>/<repo>, located without dialing anything else) or on other hosts, where the resolver finds the
// repository by dialing ever shorter prefixes of the project path; a repository reports the project path of a root-level tag as "" or "." (the real git repository says
// "."; findProjectRepository says "" for pseudo-versions); its projects carry their configuration as dawn.toml or
// as .dawnconfig, next to other files -- or as dawn.toml NEXT TO a left-over .dawnconfig that is not the project's
// configuration (its own at another revision, a neighbour's, one without requirements, no configuration at all):
// a project that has a dawn.toml is configured by it (project_config.go loadConfig, module_fetch.go,
// resolver.go resolveProject all read it first), so the reference takes the requirements from the tables.  FetchRevision delivers a project the way os.CopyFS does for the real git
// repository: directory first, then file by file in lexical order, the configuration file in three writes (created
// empty, a valid prefix, the rest).  Every delivery point can be made to FAIL once (transient network / disk
// fault) or to BLOCK (a slow download observed by a second resolver, or a process killed at that point: the cache
// directory is copied while the download is parked there).  So can dialing, listing versions and looking up a
// revision.  After each fault the build list is computed again (same resolver; fresh resolver on the cache the
// failed run left; fresh resolver on the copy of the cache taken mid-download; second resolver while the first is
// parked) and must be the reference answer (reachability/max on the generated tables).

import (
	"bufio"
	"context"
	"encoding/json"
	"errors"
	"fmt"
	"iter"
	"math/rand"
	"os"
	"path"
	"path/filepath"
	"slices"
	"sort"
	"strconv"
	"strings"
	"sync"
	"testing"
	"time"

	"github.com/pgavlin/dawn/internal/project"
	"github.com/pgavlin/dawn/internal/vcs"
	"golang.org/x/mod/module"
	"golang.org/x/mod/semver"
)

const vcOrg = "github.com/verif"

type vcProj struct {
	dir  string // directory of the project in the generated universe
	repo string // address of the repository it is laid out in
	sub  string // its path inside that repository; "" = the repository root
}

type vcUniverse struct {
	u     *vuUniverse
	projs map[string]*vcProj // by dir
	repos map[string]*vcRepo // by address
	tmp   string

	mu   sync.Mutex
	plan *vcPlan
}

type vcRepo struct {
	vc        *vcUniverse
	addr      string
	rootStyle string   // ProjectPath reported for a tag of a project at the repository root: "" or "."
	cfgName   string   // dawn.toml | .dawnconfig
	extra     []string // the other files of every project of this repository
	bySub     map[string]*vcProj
	cfg       map[string][]byte // dir|rev -> configuration file contents
	// stale: the projects of this repository carry BOTH configuration files: dawn.toml (cfgName) is the project's
	// configuration, .dawnconfig is a left-over whose contents are of the given kind ("" = there is none)
	stale string
	decoy map[string][]byte // dir|rev -> contents of that .dawnconfig
}

const vcDecoyName = ".dawnconfig"

// vcStaleKinds: what the left-over .dawnconfig of a project that moved to dawn.toml holds.
var vcStaleKinds = []string{"configuration of another revision", "configuration of another project", "configuration without requirements",
	"not a configuration"}

type vcRev struct {
	id int
}

func (r vcRev) ID() string       { return strconv.Itoa(r.id) }
func (r vcRev) PseudoID() string { return strconv.Itoa(r.id) }
func (r vcRev) When() time.Time  { return time.Unix(100*int64(r.id), 0) }
func (r vcRev) History() iter.Seq[vcs.Revision] {
	return func(yield func(vcs.Revision) bool) {
		for i := r.id; i >= 1; i-- {
			if !yield(vcRev{i}) {
				return
			}
		}
	}
}

// --- fault plan ----------------------------------------------------------------------------------------------

// vcPlan: at most one fault per run.  loc: dial | versions | getrevision | fetch; key: repository address
// (dial, versions), address|revision (getrevision), address|sub|revision (fetch); step: the delivery point of a
// fetch (before step i; len(steps) = after the last write).  The fault fires on the first matching call only.
type vcPlan struct {
	loc, key string
	step     int
	mode     string // fail | block

	mu      sync.Mutex
	fired   bool
	entered chan struct{}
	release chan struct{}
	fetched map[string]int // fetch key -> number of delivery steps
}

func vcNewPlan(loc, key string, step int, mode string) *vcPlan {
	return &vcPlan{loc: loc, key: key, step: step, mode: mode, entered: make(chan struct{}), release: make(chan struct{}),
		fetched: map[string]int{}}
}

func (p *vcPlan) at(loc, key string, step int) error {
	if p == nil || p.loc != loc || p.key != key || (loc == "fetch" && p.step != step) {
		return nil
	}
	p.mu.Lock()
	if p.fired {
		p.mu.Unlock()
		return nil
	}
	p.fired = true
	p.mu.Unlock()
	if p.mode == "fail" {
		return errors.New("verif: injected fault: connection reset by peer")
	}
	close(p.entered)
	select {
	case <-p.release:
		return nil
	case <-time.After(30 * time.Second):
		return errors.New("verif: parked download never released")
	}
}

func (p *vcPlan) logFetch(key string, nsteps int) {
	if p == nil {
		return
	}
	p.mu.Lock()
	p.fetched[key] = nsteps
	p.mu.Unlock()
}

func (vc *vcUniverse) setPlan(p *vcPlan) {
	vc.mu.Lock()
	vc.plan = p
	vc.mu.Unlock()
}

func (vc *vcUniverse) getPlan() *vcPlan {
	vc.mu.Lock()
	defer vc.mu.Unlock()
	return vc.plan
}

// --- the repositories ----------------------------------------------------------------------------------------

func (vc *vcUniverse) dialRepository(ctx context.Context, kind, address string) (vcs.Repository, error) {
	r, ok := vc.repos[address]
	if !ok {
		return nil, errors.New("unreachable")
	}
	if err := vc.getPlan().at("dial", address, 0); err != nil {
		return nil, err
	}
	return r, nil
}

func (r *vcRepo) Path() string { return r.addr }

func (r *vcRepo) DefaultRef(ctx context.Context) (string, error) { return "main", nil }

func (r *vcRepo) ResolveRef(ctx context.Context, ref string) (string, error) {
	if rev, ok := r.vc.u.refs[ref]; ok {
		return rev, nil
	}
	return "", errors.New("no such reference")
}

func (r *vcRepo) Versions(ctx context.Context) ([]*vcs.Version, error) {
	if err := r.vc.getPlan().at("versions", r.addr, 0); err != nil {
		return nil, err
	}
	out := make([]*vcs.Version, 0)
	for _, t := range r.vc.u.tags {
		p := r.vc.projs[t.dir]
		if p.repo != r.addr {
			continue
		}
		pp := p.sub
		if pp == "" {
			pp = r.rootStyle
		}
		out = append(out, &vcs.Version{
			Version:     module.Version{Path: project.JoinPathVersion(path.Join(r.addr, p.sub), semver.Major(t.ver)), Version: t.ver},
			ProjectPath: pp,
			RevisionID:  strconv.Itoa(t.rev),
		})
	}
	sort.SliceStable(out, func(i, j int) bool { return semver.Compare(out[i].Version.Version, out[j].Version.Version) < 0 })
	return out, nil
}

func (r *vcRepo) GetRevision(ctx context.Context, id string) (vcs.Revision, error) {
	if err := r.vc.getPlan().at("getrevision", r.addr+"|"+id, 0); err != nil {
		return nil, err
	}
	n, err := strconv.Atoi(id)
	if err != nil || n < 1 || n > r.vc.u.nrevs || strconv.Itoa(n) != id {
		return nil, errors.New("no such revision")
	}
	return vcRev{n}, nil
}

type vcStep struct {
	kind string // mkdir | file | create | append
	name string
	data []byte
}

func (s vcStep) String() string {
	switch s.kind {
	case "mkdir":
		return "create the project directory"
	case "file":
		return "copy " + s.name
	case "create":
		return "create " + s.name + " (empty)"
	}
	return fmt.Sprintf("write %d more bytes of %s", len(s.data), s.name)
}

// nested: the projects of the repository that live below project p's directory (sorted by path).
func (r *vcRepo) nested(p *vcProj) []*vcProj {
	var out []*vcProj
	for sub, q := range r.bySub {
		if q != p && (p.sub == "" || strings.HasPrefix(sub, p.sub+"/")) {
			out = append(out, q)
		}
	}
	sort.Slice(out, func(i, j int) bool { return out[i].sub < out[j].sub })
	return out
}

// steps: the delivery of one project at one revision, in os.CopyFS order.  The tree of a project includes the
// projects nested below it (their files at the same revision), as a checkout of its directory does.
func (r *vcRepo) steps(p *vcProj, rev int) []vcStep {
	names := append([]string{r.cfgName}, r.extra...)
	data := map[string][]byte{}
	for _, n := range r.extra {
		data[n] = []byte("# " + n + " of " + p.dir + "\n")
	}
	if r.stale != "" {
		names = append(names, vcDecoyName)
		data[vcDecoyName] = r.decoy[p.dir+"|"+strconv.Itoa(rev)]
	}
	for _, q := range r.nested(p) {
		rel := strings.TrimPrefix(strings.TrimPrefix(q.sub, p.sub), "/")
		names = append(names, path.Join(rel, r.cfgName))
		data[path.Join(rel, r.cfgName)] = r.cfg[q.dir+"|"+strconv.Itoa(rev)]
		for _, n := range r.extra {
			names = append(names, path.Join(rel, n))
			data[path.Join(rel, n)] = []byte("# " + n + " of " + q.dir + "\n")
		}
		if r.stale != "" {
			names = append(names, path.Join(rel, vcDecoyName))
			data[path.Join(rel, vcDecoyName)] = r.decoy[q.dir+"|"+strconv.Itoa(rev)]
		}
	}
	sort.Strings(names)
	out := []vcStep{{kind: "mkdir"}}
	for _, n := range names {
		if n != r.cfgName {
			out = append(out, vcStep{kind: "file", name: n, data: data[n]})
			continue
		}
		cfg := r.cfg[p.dir+"|"+strconv.Itoa(rev)]
		// a prefix that ends at a line boundary half-way through the requirement lines: a well-formed file
		lines := strings.SplitAfter(string(cfg), "\n")
		first := strings.Join(lines[:len(lines)/2], "")
		out = append(out, vcStep{kind: "create", name: n},
			vcStep{kind: "append", name: n, data: []byte(first)},
			vcStep{kind: "append", name: n, data: cfg[len(first):]})
	}
	return out
}

func (r *vcRepo) FetchRevision(ctx context.Context, projectPath string, revision vcs.Revision, destDir string) error {
	sub := projectPath
	if sub == "." {
		sub = ""
	}
	p, ok := r.bySub[sub]
	if !ok {
		return errors.New("no such project")
	}
	rev, err := strconv.Atoi(revision.ID())
	if err != nil {
		return err
	}
	key := r.addr + "|" + sub + "|" + revision.ID()
	steps := r.steps(p, rev)
	plan := r.vc.getPlan()
	plan.logFetch(key, len(steps))
	dir := filepath.Join(destDir, filepath.FromSlash(sub))
	for i := 0; ; i++ {
		if err := plan.at("fetch", key, i); err != nil {
			return err
		}
		if i == len(steps) {
			return nil
		}
		s := steps[i]
		file := filepath.Join(dir, filepath.FromSlash(s.name))
		switch s.kind {
		case "mkdir":
			err = os.MkdirAll(dir, 0o700)
		case "file":
			if err = os.MkdirAll(filepath.Dir(file), 0o700); err == nil {
				err = os.WriteFile(file, s.data, 0o600)
			}
		case "create":
			err = os.WriteFile(file, nil, 0o600)
		case "append":
			var f *os.File
			if f, err = os.OpenFile(file, os.O_WRONLY|os.O_APPEND, 0o600); err == nil {
				_, err = f.Write(s.data)
				f.Close()
			}
		}
		if err != nil {
			return err
		}
	}
}

// --- layout --------------------------------------------------------------------------------------------------

func (vc *vcUniverse) rename(m module.Version) module.Version {
	trimmed, major := project.SplitPathVersion(m.Path)
	if !strings.HasPrefix(trimmed, vuRepo+"/") {
		return m
	}
	p, ok := vc.projs[strings.TrimPrefix(trimmed, vuRepo+"/")]
	if !ok {
		return m
	}
	return module.Version{Path: project.JoinPathVersion(path.Join(p.repo, p.sub), major), Version: m.Version}
}

var vcExtraPool = [][]string{
	{"BUILD.dawn"},
	{"BUILD.dawn", "src/main.dawn"},
	{"BUILD.dawn", "README.md", "zz.txt"},
	{".gitignore", "BUILD.dawn", "e.txt"},
	{},
}

// vcHosts: where the repositories of a universe live.  The first is the well-known host (vcs.IsWellKnown: the
// repository is the first three path components); for the others findProjectRepository dials the project path
// and then ever shorter prefixes of it until a repository answers.
var vcHosts = []string{vcOrg, "git.verif.test/team/infra", "verif.test"}

// vcBuild lays the universe out over repositories.  At least one project is at the root of a repository.
func vcBuild(rng *rand.Rand, u *vuUniverse, tmp string) (*vcUniverse, error) {
	vc := &vcUniverse{u: u, projs: map[string]*vcProj{}, repos: map[string]*vcRepo{}, tmp: tmp}
	forced := rng.Intn(len(u.dirs))
	host := vcOrg
	if rng.Intn(3) == 0 {
		host = vcHosts[1+rng.Intn(len(vcHosts)-1)]
	}
	var placed []*vcProj
	for i, d := range u.dirs {
		flat := strings.ReplaceAll(d, "/", "-")
		p := &vcProj{dir: d}
		switch k := rng.Intn(10); {
		case k < 3 || i == forced:
			p.repo, p.sub = host+"/r-"+flat, ""
		case k < 5:
			p.repo, p.sub = host+"/m-"+flat, []string{"pkg", "tools/dawn"}[rng.Intn(2)]
		case k < 7 || len(placed) == 0:
			p.repo, p.sub = vuRepo, d
		default:
			// nested in the tree of an earlier project: its repository, a directory below its own
			parent := placed[rng.Intn(len(placed))]
			p.repo, p.sub = parent.repo, path.Join(parent.sub, []string{"n-" + flat, "tools/n-" + flat}[rng.Intn(2)])
		}
		placed = append(placed, p)
		vc.projs[d] = p
		r, ok := vc.repos[p.repo]
		if !ok {
			r = &vcRepo{vc: vc, addr: p.repo, bySub: map[string]*vcProj{}, cfg: map[string][]byte{}, decoy: map[string][]byte{}}
			r.rootStyle = []string{"", "."}[rng.Intn(2)]
			r.cfgName = "dawn.toml"
			if rng.Intn(5) == 0 {
				r.cfgName = ".dawnconfig"
			} else if rng.Intn(3) == 0 {
				r.stale = vcStaleKinds[rng.Intn(len(vcStaleKinds))]
			}
			r.extra = vcExtraPool[rng.Intn(len(vcExtraPool))]
			vc.repos[p.repo] = r
		}
		r.bySub[p.sub] = p
	}
	// configuration files, written by the project's own writer
	scratch := filepath.Join(tmp, "cfg.toml")
	for _, d := range u.dirs {
		r := vc.repos[vc.projs[d].repo]
		for rev := 1; rev <= u.nrevs; rev++ {
			s := u.sums[d][rev-1]
			reqs := map[string]project.RequirementConfig{}
			for i, m := range s.Requirements {
				rm := vc.rename(m)
				reqs[strconv.Itoa(i)] = project.RequirementConfig{Path: rm.Path, Version: rm.Version}
			}
			if err := project.WriteConfigFile(scratch, &project.Config{Name: s.Name, Requirements: reqs}); err != nil {
				return nil, err
			}
			b, err := os.ReadFile(scratch)
			if err != nil {
				return nil, err
			}
			r.cfg[d+"|"+strconv.Itoa(rev)] = b
		}
	}
	// the left-over .dawnconfig files: well-formed configurations that are NOT the project's (its own at another
	// revision, a neighbour's, one without requirements) or bytes that are no configuration at all
	for di, d := range u.dirs {
		r := vc.repos[vc.projs[d].repo]
		if r.stale == "" {
			continue
		}
		for rev := 1; rev <= u.nrevs; rev++ {
			key := d + "|" + strconv.Itoa(rev)
			own := r.cfg[key]
			var b []byte
			switch r.stale {
			case "configuration of another revision":
				for k := 1; k < u.nrevs && b == nil; k++ {
					if o := r.cfg[d+"|"+strconv.Itoa((rev-1+k)%u.nrevs+1)]; string(o) != string(own) {
						b = o
					}
				}
			case "configuration of another project":
				for k := 1; k < len(u.dirs) && b == nil; k++ {
					od := u.dirs[(di+k)%len(u.dirs)]
					if o := vc.repos[vc.projs[od].repo].cfg[od+"|"+strconv.Itoa(rev)]; string(o) != string(own) {
						b = o
					}
				}
			case "not a configuration":
				b = []byte("\x00\x01 = = [not toml\n")
			}
			if b == nil { // "configuration without requirements", or nothing else differs from the project's own
				if err := project.WriteConfigFile(scratch, &project.Config{Name: "left-over"}); err != nil {
					return nil, err
				}
				var err error
				if b, err = os.ReadFile(scratch); err != nil {
					return nil, err
				}
			}
			r.decoy[key] = b
		}
	}
	return vc, nil
}

func (vc *vcUniverse) describe() map[string]any {
	layout := map[string]any{}
	for d, p := range vc.projs {
		nestedIn, depth := "", -1
		for _, q := range vc.projs {
			if q != p && q.repo == p.repo && (q.sub == "" || strings.HasPrefix(p.sub, q.sub+"/")) && len(q.sub) > depth {
				nestedIn, depth = path.Join(q.repo, q.sub), len(q.sub)
			}
		}
		layout[d] = map[string]string{"repository": p.repo, "path_in_repository": p.sub, "nested_in_project": nestedIn}
	}
	repos := map[string]any{}
	for a, r := range vc.repos {
		repos[a] = map[string]any{"root_project_path_reported_as": r.rootStyle, "config_file": r.cfgName, "other_files": r.extra,
			"left_over_dawnconfig_next_to_dawn_toml": r.stale}
	}
	return map[string]any{"t": "CU", "id": vc.u.id, "base": vc.u.describe(), "layout": layout, "repositories": repos}
}

// --- runs ----------------------------------------------------------------------------------------------------

// vcRun: BuildList with the watchdog; the error text is kept for the replay only (never compared).
func vcRun(root *project.Config, resolver *Resolver) (c10Result, string) {
	r := vuCall(func() (map[string]string, error) { return BuildList(context.Background(), root, resolver) })
	if r.st != "ok" {
		return c10Result{St: r.st, M: [][2]string{}}, r.msg
	}
	return c10Result{St: "ok", M: vuSortedMap(r.val)}, ""
}

func vcSame(a, b c10Result) bool {
	if a.St != b.St || len(a.M) != len(b.M) {
		return false
	}
	for i := range a.M {
		if a.M[i] != b.M[i] {
			return false
		}
	}
	return true
}

// vcCopyTree copies a cache directory as it is right now (what a process killed at this instant leaves behind).
func vcCopyTree(src, dst string) error {
	ents, err := os.ReadDir(src)
	if err != nil {
		return err
	}
	if err := os.MkdirAll(dst, 0o700); err != nil {
		return err
	}
	for _, e := range ents {
		s, d := filepath.Join(src, e.Name()), filepath.Join(dst, e.Name())
		if e.IsDir() {
			if err := vcCopyTree(s, d); err != nil {
				return err
			}
			continue
		}
		b, err := os.ReadFile(s)
		if err != nil {
			return err
		}
		if err := os.WriteFile(d, b, 0o600); err != nil {
			return err
		}
	}
	return nil
}

// vcEntries lists the cache entries below dir (relative paths): the directories named <path>@<version>.
func vcEntries(dir, rel string) []string {
	ents, err := os.ReadDir(filepath.Join(dir, rel))
	if err != nil {
		return nil
	}
	var out []string
	for _, e := range ents {
		if !e.IsDir() {
			continue
		}
		r := filepath.Join(rel, e.Name())
		if strings.Contains(e.Name(), "@") {
			out = append(out, r)
		} else {
			out = append(out, vcEntries(dir, r)...)
		}
	}
	return out
}

// vcDirDiff: "" when directory a holds exactly the files of the complete download b (which must exist).
func vcDirDiff(a, b string) string {
	if _, err := os.Stat(b); err != nil {
		return "" // the fault-free run did not download this project version: nothing to compare with
	}
	var walk func(rel string) string
	walk = func(rel string) string {
		be, err := os.ReadDir(filepath.Join(b, rel))
		if err != nil {
			return "cannot read " + rel
		}
		ae, _ := os.ReadDir(filepath.Join(a, rel))
		have := map[string]bool{}
		for _, e := range ae {
			have[e.Name()] = true
		}
		if len(ae) > len(be) {
			return "extra files in " + filepath.Join("/", rel)
		}
		for _, e := range be {
			r := filepath.Join(rel, e.Name())
			if !have[e.Name()] {
				return "missing " + r
			}
			if e.IsDir() {
				if d := walk(r); d != "" {
					return d
				}
				continue
			}
			x, _ := os.ReadFile(filepath.Join(a, r))
			y, _ := os.ReadFile(filepath.Join(b, r))
			if string(x) != string(y) {
				return fmt.Sprintf("%s holds %d of %d bytes", r, len(x), len(y))
			}
		}
		return ""
	}
	return walk("")
}

// vcUntag moves num/den of the requirements between the universe's projects to pseudo-versions (untagged commits).
func vcUntag(rng *rand.Rand, u *vuUniverse, num, den int) {
	done := map[*mvsProject]bool{}
	for _, d := range u.dirs {
		for _, s := range u.sums[d] {
			if done[s] {
				continue
			}
			done[s] = true
			for i := range s.Requirements {
				if rng.Intn(den) >= num {
					continue
				}
				if pv, ok := c11Pseudo(rng, u, s.Requirements[i].Path); ok {
					s.Requirements[i].Version = pv
				}
			}
		}
	}
	u.build(nil)
}

// vcReachable: the project versions reachable from the root requirements (generated tables, universe paths), in
// breadth-first order, the root itself excluded.
func vcReachable(u *vuUniverse, rootReqs []module.Version) []module.Version {
	seen := map[module.Version]bool{{}: true}
	queue := []module.Version{{}}
	var out []module.Version
	for len(queue) > 0 {
		m := queue[0]
		queue = queue[1:]
		reqs, _ := u.refRequired(rootReqs, m)
		for _, r := range reqs {
			if !seen[r] {
				seen[r] = true
				queue = append(queue, r)
				out = append(out, r)
			}
		}
	}
	return out
}

// want: the reference build list of a root requirement list (universe paths), in the layout's paths.
func (vc *vcUniverse) want(rootReqs []module.Version) c10Result {
	ref, ok := vc.u.refBuildList(rootReqs)
	if !ok {
		return c10Result{St: "err", M: [][2]string{}}
	}
	rm := map[string]string{}
	for p, v := range ref {
		rm[vc.rename(module.Version{Path: p, Version: v}).Path] = v
	}
	return c10Result{St: "ok", M: vuSortedMap(rm)}
}

// entryDiff: the direct oracle on the contents of the cache.  The directory <project path>@<version> must hold the
// tree of THAT project at the revision of THAT version (generated tables): its own configuration file and its own
// other files.  "" when it does; entries whose version the tables do not know are skipped.
func (vc *vcUniverse) entryDiff(cache, entry string) string {
	at := strings.LastIndex(entry, "@")
	if at < 0 {
		return ""
	}
	pp, ver := filepath.ToSlash(entry[:at]), entry[at+1:]
	var p *vcProj
	for _, q := range vc.projs {
		if path.Join(q.repo, q.sub) == pp {
			p = q
		}
	}
	if p == nil {
		return "no project of the universe has the path " + pp
	}
	rev := 0
	if module.IsPseudoVersion(ver) {
		id, err := module.PseudoVersionRev(ver)
		if err != nil {
			return ""
		}
		rev, _ = strconv.Atoi(id)
	} else {
		for _, t := range vc.u.tags {
			if t.dir == p.dir && t.ver == ver {
				rev = t.rev
			}
		}
	}
	if rev < 1 || rev > vc.u.nrevs {
		return ""
	}
	r := vc.repos[p.repo]
	for _, s := range r.steps(p, rev) {
		if s.kind != "file" && s.kind != "create" {
			continue
		}
		want := s.data
		if s.kind == "create" {
			want = r.cfg[p.dir+"|"+strconv.Itoa(rev)]
		}
		got, err := os.ReadFile(filepath.Join(cache, entry, filepath.FromSlash(s.name)))
		if err != nil {
			return "the tree of " + pp + " at revision " + strconv.Itoa(rev) + " has a file " + s.name + ", the cache entry has not"
		}
		if string(got) != string(want) {
			return fmt.Sprintf("%s is not the %s of %s at revision %d (the entry holds %q)", s.name, s.name, pp, rev, vcHead(got))
		}
	}
	return ""
}

// vcNodes: the single-requirement roots a resolver answered (in that order) before position upto (-1: all).
func vcNodes(vc *vcUniverse, reach []module.Version, order []int, upto int) [][2]string {
	out := [][2]string{}
	for _, i := range order {
		if i == upto {
			break
		}
		m := vc.rename(reach[i])
		out = append(out, [2]string{m.Path, m.Version})
	}
	return out
}

func vcHead(b []byte) string {
	if len(b) > 120 {
		b = b[:120]
	}
	return string(b)
}

type vcTarget struct {
	loc, key string
	step     int
	nsteps   int
	desc     string
}

func TestVerifC10Cache(t *testing.T) {
	outPath := os.Getenv("VERIF_OUT_CACHE")
	if outPath == "" {
		t.Skip("VERIF_OUT_CACHE not set")
	}
	f, err := os.Create(outPath)
	if err != nil {
		t.Fatal(err)
	}
	out := &vuOut{f: f, w: bufio.NewWriter(f)}
	defer out.close()
	seed := int64(vuEnvInt("VERIF_SEED", 1))
	nuniv := vuEnvInt("VERIF_NUNIV_CACHE", 40)
	nroots := vuEnvInt("VERIF_NROOTS_CACHE", 2)
	ntargets := vuEnvInt("VERIF_CACHE_TARGETS", 3)
	rng := rand.New(rand.NewSource(seed*7919 + 1010))
	base := t.TempDir()
	ndir := 0
	newDir := func() string {
		ndir++
		d := filepath.Join(base, "c"+strconv.Itoa(ndir))
		if err := os.MkdirAll(d, 0o700); err != nil {
			t.Fatal(err)
		}
		return d
	}

	exportDir := os.Getenv("VERIF_C10_EXPORT")
	maxExport := vuEnvInt("VERIF_C10_EXPORT_MAX", 1<<30)
	caseID, nscen, nruns, ncontent, nexport, nprobes := 0, 0, 0, 0, 0, 0
	for ui := 0; ui < nuniv; ui++ {
		u := vuGen(rng, ui, false)
		switch rng.Intn(3) { // requirements on untagged commits (pseudo-versions): none, a fifth, half of them
		case 0:
			vcUntag(rng, u, 1, 5)
		case 1:
			vcUntag(rng, u, 1, 2)
		}
		vc, err := vcBuild(rng, u, base)
		if err != nil {
			t.Fatal(err)
		}
		out.emit(vc.describe())
		// the repository lookup, observed on resolvers with different histories (model: Mvs/Locate.v): every project
		// path with and without a major suffix, a directory below a project, paths that no repository hosts
		var probePaths []string
		for _, d := range u.dirs {
			p := vc.projs[d]
			pp := path.Join(p.repo, p.sub)
			probePaths = append(probePaths, pp, pp+"@v2", pp+"/internal/x")
		}
		sort.Strings(probePaths)
		probePaths = append(probePaths, vcOrg+"/nowhere", vcOrg+"/nowhere/pkg@v3", "git.verif.test/team/infra/nowhere/pkg", "verif.test", "nohost")
		locs := map[string][3]string{}
		locDiffers := false
		probe := func(res *Resolver, history string) {
			for _, pp := range probePaths {
				ans := [3]string{"err", "", ""}
				if repo, rel, err := res.findProjectRepository(context.Background(), pp); err == nil {
					ans = [3]string{"ok", repo.Path(), rel}
				}
				nprobes++
				if old, ok := locs[pp]; ok && old != ans && !locDiffers {
					locDiffers = true
					out.emit(map[string]any{"t": "ORACLE", "name": "lookup:repository-of-a-project-depends-on-what-the-resolver-looked-up-before",
						"case": caseID, "u": u.id, "root": [][3]string{}, "got": c10Result{St: "lookup", M: [][2]string{{pp, strings.Join(ans[:], " | ")}}},
						"want": c10Result{St: "lookup", M: [][2]string{{pp, strings.Join(old[:], " | ")}}}, "error_text": history})
				}
				if _, ok := locs[pp]; !ok {
					locs[pp] = ans
				}
			}
		}
		vc.setPlan(nil)
		probe(NewResolver(newDir(), vc, nil), "a fresh resolver")
		for ri := 0; ri < nroots; ri++ {
			ucfg := vuGenRoot(rng, u, true)
			delete(ucfg, "self")
			if rng.Intn(4) == 0 {
				c11UntagRoot(rng, u, ucfg)
			}
			urootReqs := vuRootReqs(&project.Config{Requirements: ucfg})
			want := vc.want(urootReqs)
			root := &project.Config{Requirements: map[string]project.RequirementConfig{}}
			for n, r := range ucfg {
				m := vc.rename(module.Version{Path: r.Path, Version: r.Version})
				root.Requirements[n] = project.RequirementConfig{Path: m.Path, Version: m.Version}
			}
			caseID++
			out.emit(map[string]any{"t": "START", "case": caseID})
			oracle := func(name string, tg *vcTarget, got c10Result, msg string) {
				rec := map[string]any{"t": "ORACLE", "name": name, "case": caseID, "u": u.id,
					"root": vuSortedCfg(root.Requirements), "got": got, "want": want, "error_text": msg}
				if tg != nil {
					rec["fault"] = map[string]any{"at": tg.loc, "target": tg.key, "point": tg.step, "of": tg.nsteps, "meaning": tg.desc}
				}
				out.emit(rec)
			}

			// the cache model's invariant (Mvs/Cache.v, cache_entries_complete) observed on the implementation: a
			// directory that is visible in the cache is a complete download (equal to the one of the fault-free run)
			var coldDir string
			ninv := 0
			incomplete := func(when string, tg *vcTarget, snap string) {
				for _, e := range vcEntries(snap, "") {
					ninv++
					if d := vcDirDiff(filepath.Join(snap, e), filepath.Join(coldDir, e)); d != "" {
						out.emit(map[string]any{"t": "INV", "case": caseID, "u": u.id, "root": vuSortedCfg(root.Requirements),
							"when": when, "entry": e, "difference": d,
							"fault": map[string]any{"at": tg.loc, "target": tg.key, "point": tg.step, "of": tg.nsteps, "meaning": tg.desc}})
					}
				}
			}

			// fault-free, cold: the layout itself; and the list of downloads a cold run performs
			plan0 := vcNewPlan("", "", 0, "")
			vc.setPlan(plan0)
			coldDir = newDir()
			cold, coldMsg := vcRun(root, NewResolver(coldDir, vc, nil))
			nruns++
			if !vcSame(cold, want) {
				oracle("layout:cold-cache-vs-reference", nil, cold, coldMsg)
			}
			disk, diskMsg := vcRun(root, NewResolver(coldDir, vc, nil))
			nruns++
			if !vcSame(disk, want) {
				oracle("layout:warm-disk-cache-vs-reference", nil, disk, diskMsg)
			}

			// the contents of the cache the fault-free run left, against the generated tables
			content := func(when, dir string) {
				for _, e := range vcEntries(dir, "") {
					ncontent++
					if d := vc.entryDiff(dir, e); d != "" {
						out.emit(map[string]any{"t": "ORACLE", "name": "content:cache-entry-is-not-the-tree-of-its-project-version:" + when,
							"case": caseID, "u": u.id, "root": vuSortedCfg(root.Requirements), "got": c10Result{St: "entry", M: [][2]string{{e, d}}},
							"want": want, "error_text": ""})
						return
					}
				}
			}
			content("cold-run", coldDir)
			if exportDir != "" && nexport < maxExport && want.St == "ok" && vcSame(cold, want) {
				nexport++
				ed := filepath.Join(exportDir, "case"+strconv.Itoa(caseID))
				if err := vcCopyTree(coldDir, filepath.Join(ed, "cache")); err != nil {
					t.Fatal(err)
				}
				b, _ := json.Marshal(map[string]any{"case": caseID, "u": u.id, "root": vuSortedCfg(root.Requirements), "want": want.M})
				if err := os.WriteFile(filepath.Join(ed, "case.json"), b, 0o600); err != nil {
					t.Fatal(err)
				}
			}

			// lookup orders: a resolver that answered other root requirement sets before -- every reachable project
			// version as the only requirement of a root, in a drawn order and in the reverse of it (so of any two
			// projects each is looked up first once) -- then the root itself; and a fresh resolver on the cache it left
			reach := vcReachable(u, urootReqs)
			order := rng.Perm(len(reach))
			for pass := 0; pass < 2; pass++ {
				if pass == 1 {
					slices.Reverse(order)
				}
				dir := newDir()
				res := NewResolver(dir, vc, nil)
				for _, i := range order {
					m := vc.rename(reach[i])
					single := &project.Config{Requirements: map[string]project.RequirementConfig{"only": {Path: m.Path, Version: m.Version}}}
					got, msg := vcRun(single, res)
					nruns++
					if w := vc.want([]module.Version{reach[i]}); !vcSame(got, w) {
						out.emit(map[string]any{"t": "ORACLE", "name": "order:root-with-a-single-requirement-on-a-resolver-that-answered-others-before",
							"case": caseID, "u": u.id, "root": vuSortedCfg(single.Requirements), "got": got, "want": w, "error_text": msg,
							"before": vcNodes(vc, reach, order, i)})
						break
					}
				}
				got, msg := vcRun(root, res)
				nruns++
				if !vcSame(got, want) {
					rec := map[string]any{"t": "ORACLE", "name": "order:resolver-that-answered-other-roots-before", "case": caseID, "u": u.id,
						"root": vuSortedCfg(root.Requirements), "got": got, "want": want, "error_text": msg, "before": vcNodes(vc, reach, order, -1)}
					out.emit(rec)
				}
				content("resolver-that-answered-other-roots-before", dir)
				probe(res, "a resolver that answered single-requirement roots and the case's root before")
				fresh, freshMsg := vcRun(root, NewResolver(dir, vc, nil))
				nruns++
				if !vcSame(fresh, want) {
					out.emit(map[string]any{"t": "ORACLE", "name": "order:fresh-resolver-on-the-cache-left-by-other-roots", "case": caseID, "u": u.id,
						"root": vuSortedCfg(root.Requirements), "got": fresh, "want": want, "error_text": freshMsg, "before": vcNodes(vc, reach, order, -1)})
				}
				os.RemoveAll(dir)
			}

			var keys []string
			for k := range plan0.fetched {
				keys = append(keys, k)
			}
			sort.Strings(keys)
			rng.Shuffle(len(keys), func(i, j int) { keys[i], keys[j] = keys[j], keys[i] })
			if len(keys) > ntargets {
				keys = keys[:ntargets]
			}
			var targets []vcTarget
			for ti, k := range keys {
				parts := strings.Split(k, "|")
				repo := vc.repos[parts[0]]
				rev, _ := strconv.Atoi(parts[2])
				steps := repo.steps(repo.bySub[parts[1]], rev)
				n := len(steps)
				desc := func(i int) string {
					if i == n {
						return "after the last write of the download of " + k
					}
					return "before '" + steps[i].String() + "' in the download of " + k
				}
				var pts []int
				if ti == 0 {
					for i := 0; i <= n; i++ { // every delivery point of the first target
						pts = append(pts, i)
					}
				} else {
					pts = []int{rng.Intn(n + 1), rng.Intn(n + 1)}
				}
				for _, i := range pts {
					targets = append(targets, vcTarget{loc: "fetch", key: k, step: i, nsteps: n, desc: desc(i)})
				}
				switch rng.Intn(3) {
				case 0:
					targets = append(targets, vcTarget{loc: "dial", key: parts[0], desc: "dialing " + parts[0]})
				case 1:
					targets = append(targets, vcTarget{loc: "versions", key: parts[0], desc: "listing the versions of " + parts[0]})
				default:
					targets = append(targets, vcTarget{loc: "getrevision", key: parts[0] + "|" + parts[2], desc: "looking up revision " + parts[2] + " of " + parts[0]})
				}
			}

			fired, notFired := 0, 0
			for ti := range targets {
				tg := &targets[ti]
				nscen++
				// (F) the operation fails once
				{
					plan := vcNewPlan(tg.loc, tg.key, tg.step, "fail")
					vc.setPlan(plan)
					dir := newDir()
					r1 := NewResolver(dir, vc, nil)
					first, firstMsg := vcRun(root, r1)
					nruns++
					if plan.fired {
						fired++
					} else {
						notFired++
					}
					if first.St != "err" && !vcSame(first, want) {
						oracle("fault:run-with-a-failed-operation-answers-without-error-but-wrong", tg, first, firstMsg)
					}
					snap := newDir()
					if err := vcCopyTree(dir, snap); err != nil {
						t.Fatal(err)
					}
					incomplete("after the failed run", tg, snap)
					fresh, freshMsg := vcRun(root, NewResolver(snap, vc, nil))
					nruns++
					if !vcSame(fresh, want) {
						oracle("fault:fresh-resolver-on-the-cache-left-by-a-failed-run", tg, fresh, freshMsg)
					}
					again, againMsg := vcRun(root, r1)
					nruns++
					if !vcSame(again, want) {
						oracle("fault:same-resolver-again-after-a-failed-run", tg, again, againMsg)
					}
					os.RemoveAll(dir)
					os.RemoveAll(snap)
				}
				if tg.loc != "fetch" {
					continue
				}
				// (B) the download parks at the point: a second resolver runs meanwhile; the cache as it is then
				{
					plan := vcNewPlan(tg.loc, tg.key, tg.step, "block")
					vc.setPlan(plan)
					dir := newDir()
					type resMsg struct {
						r   c10Result
						msg string
					}
					ch := make(chan resMsg, 1)
					go func() {
						r, rMsg := vcRun(root, NewResolver(dir, vc, nil))
						ch <- resMsg{r, rMsg}
					}()
					var firstRM resMsg
					done := false
					select {
					case <-plan.entered:
					case firstRM = <-ch:
						done = true
					case <-time.After(20 * time.Second):
					}
					snap := newDir()
					if err := vcCopyTree(dir, snap); err != nil {
						t.Fatal(err)
					}
					incomplete("while the download is parked", tg, snap)
					second, secondMsg := vcRun(root, NewResolver(dir, vc, nil))
					nruns++
					close(plan.release)
					if !done {
						firstRM = <-ch
					}
					first, firstMsg := firstRM.r, firstRM.msg
					nruns++
					if !vcSame(second, want) {
						oracle("concurrent:second-resolver-while-the-first-is-downloading", tg, second, secondMsg)
					}
					if !vcSame(first, want) {
						oracle("concurrent:first-resolver-overtaken-by-a-second", tg, first, firstMsg)
					}
					killed, killedMsg := vcRun(root, NewResolver(snap, vc, nil))
					nruns++
					if !vcSame(killed, want) {
						oracle("crash:fresh-resolver-on-the-cache-of-a-process-killed-mid-download", tg, killed, killedMsg)
					}
					after, afterMsg := vcRun(root, NewResolver(dir, vc, nil))
					nruns++
					if !vcSame(after, want) {
						oracle("concurrent:fresh-resolver-after-both", tg, after, afterMsg)
					}
					os.RemoveAll(dir)
					os.RemoveAll(snap)
				}
			}
			vc.setPlan(nil)
			os.RemoveAll(coldDir)
			out.emit(map[string]any{"t": "CC", "case": caseID, "u": u.id, "root": vuSortedCfg(root.Requirements), "want": want,
				"cold": cold, "downloads": len(plan0.fetched), "faults": len(targets), "fired": fired, "not_fired": notFired, "entries_inspected": ninv})
		}
		var addrs []string
		for a := range vc.repos {
			addrs = append(addrs, a)
		}
		sort.Strings(addrs)
		obsv := [][4]string{}
		for _, pp := range probePaths {
			a := locs[pp]
			obsv = append(obsv, [4]string{pp, a[0], a[1], a[2]})
		}
		out.emit(map[string]any{"t": "LOCS", "u": u.id, "repositories": addrs, "lookups": obsv})
	}
	out.emit(map[string]any{"t": "END", "cases": caseID, "scenarios": nscen, "runs": nruns, "entries_checked_against_tables": ncontent,
		"exported": nexport, "repository_lookups": nprobes})
}
