package vcs

// C10 harness, fourth family: the REAL git repository under the resolver's parallel traversal.
//
// The build-list traversal (golang.org/x/mod's mvs.BuildList) looks requirements up on several goroutines at once,
// and the resolver memoises ONE vcs.Repository per project path: with a cold download cache two versions of one
// project -- or two projects of one repository -- are fetched from the same *gitRepository at the same time.  The
// model (Mvs/Cache.v) takes "a fetch of (project, version) delivers the tree of that project version" as the
// behaviour of a repository; this family checks the real one against it: repositories with several tagged versions
// of a root project and of projects in subdirectories are built with go-git, dialed over file://, and k jobs
// (GetRevision + FetchRevision into a private directory, exactly what Resolver.FetchProject does) are run (a) one
// at a time on a fresh dial each -- the reference, also compared with the generator's own tables -- and (b) all at
// once on ONE dialed repository.  Every delivered tree must be the tree of its own project version.
//
// Lines written to VERIF_OUT: {"t":"ROUND",...} before a round starts (so a process that dies names the jobs that
// were running), {"t":"JOB",...} per job with what it delivered, {"t":"END"} last.

import (
	"bufio"
	"context"
	"crypto/sha256"
	"encoding/hex"
	"encoding/json"
	"fmt"
	"io/fs"
	"math/rand"
	"os"
	"path/filepath"
	"sort"
	"strconv"
	"strings"
	"sync"
	"testing"
	"time"

	"github.com/go-git/go-git/v5"
	"github.com/go-git/go-git/v5/plumbing"
	"github.com/go-git/go-git/v5/plumbing/object"
)

type vfVersion struct {
	Sub   string            `json:"sub"`   // project path inside the repository ("." = root)
	Tag   string            `json:"tag"`   // tag name
	Hash  string            `json:"hash"`  // commit
	Files map[string]string `json:"files"` // the project's files at that commit, relative to the project
}

func vfWrite(t *testing.T, root, rel, content string) {
	p := filepath.Join(root, filepath.FromSlash(rel))
	if err := os.MkdirAll(filepath.Dir(p), 0o755); err != nil {
		t.Fatal(err)
	}
	if err := os.WriteFile(p, []byte(content), 0o644); err != nil {
		t.Fatal(err)
	}
}

// vfBuildRepo makes a repository with nver commits; commit i rewrites every project's files and tags one project.
func vfBuildRepo(t *testing.T, rng *rand.Rand, dir string, subs []string, nver int) []vfVersion {
	r, err := git.PlainInit(dir, false)
	if err != nil {
		t.Fatal(err)
	}
	wt, err := r.Worktree()
	if err != nil {
		t.Fatal(err)
	}
	var out []vfVersion
	state := map[string]map[string]string{}
	when := time.Unix(1_000_000, 0)
	for i := 0; i < nver; i++ {
		// every commit touches every project, so that the trees of two commits differ in every project
		for _, sub := range subs {
			files := map[string]string{
				"dawn.toml":  fmt.Sprintf("[project]\nname = %q\n", fmt.Sprintf("p-%s-%d", strings.ReplaceAll(sub, "/", "-"), i)),
				"BUILD.dawn": fmt.Sprintf("# commit %d of %s\n%s", i, sub, strings.Repeat("x = "+strconv.Itoa(i)+"\n", 1+rng.Intn(40))),
			}
			for k := 0; k < 1+rng.Intn(6); k++ {
				files[fmt.Sprintf("src/f%d_%d.txt", i%3, k)] = fmt.Sprintf("%s commit %d file %d\n%s", sub, i, k, strings.Repeat("line\n", rng.Intn(200)))
			}
			// files of the previous commit that this one does not have are removed
			for old := range state[sub] {
				if _, ok := files[old]; !ok {
					os.Remove(filepath.Join(dir, filepath.FromSlash(sub), filepath.FromSlash(old)))
				}
			}
			for rel, c := range files {
				vfWrite(t, filepath.Join(dir, filepath.FromSlash(sub)), rel, c)
			}
			state[sub] = files
		}
		if err := wt.AddWithOptions(&git.AddOptions{All: true}); err != nil {
			t.Fatal(err)
		}
		when = when.Add(time.Hour)
		h, err := wt.Commit(fmt.Sprintf("commit %d", i), &git.CommitOptions{Author: &object.Signature{Name: "verif", Email: "verif@example.com", When: when}})
		if err != nil {
			t.Fatal(err)
		}
		sub := subs[i%len(subs)]
		tag := fmt.Sprintf("v0.%d.0", i+1)
		if sub != "." {
			tag = sub + "/" + tag
		}
		if _, err := r.CreateTag(tag, h, nil); err != nil {
			t.Fatal(err)
		}
		// a project's tree holds the projects nested below it (all of them, for the project at the root)
		files := map[string]string{}
		for _, s := range subs {
			for rel, c := range state[s] {
				switch {
				case s == sub:
					files[rel] = c
				case sub == ".":
					files[s+"/"+rel] = c
				case strings.HasPrefix(s, sub+"/"):
					files[strings.TrimPrefix(s, sub+"/")+"/"+rel] = c
				}
			}
		}
		out = append(out, vfVersion{Sub: sub, Tag: tag, Hash: h.String(), Files: files})
	}
	// leave the repository on a branch named main with a clean work tree
	head, err := r.Head()
	if err != nil {
		t.Fatal(err)
	}
	if head.Name() != plumbing.NewBranchReferenceName("main") {
		if err := r.Storer.SetReference(plumbing.NewHashReference(plumbing.NewBranchReferenceName("main"), head.Hash())); err != nil {
			t.Fatal(err)
		}
		if err := r.Storer.SetReference(plumbing.NewSymbolicReference(plumbing.HEAD, plumbing.NewBranchReferenceName("main"))); err != nil {
			t.Fatal(err)
		}
	}
	return out
}

// vfTree lists the files below root (without .git) as path -> sha256 of the content.
func vfTree(root string) (map[string]string, error) {
	out := map[string]string{}
	err := filepath.WalkDir(root, func(p string, d fs.DirEntry, err error) error {
		if err != nil {
			return err
		}
		if d.IsDir() {
			if d.Name() == ".git" {
				return filepath.SkipDir
			}
			return nil
		}
		b, err := os.ReadFile(p)
		if err != nil {
			return err
		}
		rel, _ := filepath.Rel(root, p)
		s := sha256.Sum256(b)
		out[filepath.ToSlash(rel)] = hex.EncodeToString(s[:8])
		return nil
	})
	return out, err
}

func vfWant(v vfVersion) map[string]string {
	out := map[string]string{}
	for rel, c := range v.Files {
		s := sha256.Sum256([]byte(c))
		out[rel] = hex.EncodeToString(s[:8])
	}
	return out
}

func vfDiff(got, want map[string]string) string {
	var ds []string
	for k, w := range want {
		if g, ok := got[k]; !ok {
			ds = append(ds, "missing "+k)
		} else if g != w {
			ds = append(ds, "other content in "+k)
		}
	}
	for k := range got {
		if _, ok := want[k]; !ok {
			ds = append(ds, "extra "+k)
		}
	}
	sort.Strings(ds)
	if len(ds) > 6 {
		ds = append(ds[:6], fmt.Sprintf("... %d differences", len(ds)))
	}
	return strings.Join(ds, "; ")
}

// vfFetch is Resolver.FetchProject's use of a repository: look the revision up, fetch it into a private directory,
// take the project's subdirectory.
func vfFetch(repo Repository, v vfVersion, dest string) (map[string]string, error) {
	rev, err := repo.GetRevision(context.Background(), v.Hash)
	if err != nil {
		return nil, fmt.Errorf("GetRevision: %w", err)
	}
	if err := repo.FetchRevision(context.Background(), v.Sub, rev, dest); err != nil {
		return nil, fmt.Errorf("FetchRevision: %w", err)
	}
	src := dest
	if v.Sub != "" && v.Sub != "." {
		src = filepath.Join(dest, filepath.FromSlash(v.Sub))
	}
	return vfTree(src)
}

func TestVerifC10Fetch(t *testing.T) {
	outPath := os.Getenv("VERIF_OUT_FETCH")
	if outPath == "" {
		t.Skip("VERIF_OUT_FETCH not set")
	}
	seed, _ := strconv.ParseInt(os.Getenv("VERIF_SEED"), 10, 64)
	nrepos, _ := strconv.Atoi(os.Getenv("VERIF_FETCH_REPOS"))
	if nrepos == 0 {
		nrepos = 3
	}
	rounds, _ := strconv.Atoi(os.Getenv("VERIF_FETCH_ROUNDS"))
	if rounds == 0 {
		rounds = 6
	}
	f, err := os.Create(outPath)
	if err != nil {
		t.Fatal(err)
	}
	defer f.Close()
	w := bufio.NewWriter(f)
	var wmu sync.Mutex
	emit := func(v any) {
		b, _ := json.Marshal(v)
		wmu.Lock()
		w.Write(b)
		w.WriteByte('\n')
		w.Flush()
		wmu.Unlock()
	}
	rng := rand.New(rand.NewSource(seed*7919 + 11))
	base := t.TempDir()
	dial := func(dir string) Repository {
		repo, err := DialGitRepository(context.Background(), filepath.ToSlash(dir), &DialGitOptions{AllowFile: true})
		if err != nil {
			t.Fatalf("dial %s: %v", dir, err)
		}
		return repo
	}
	layouts := [][]string{{"."}, {".", "lib"}, {"tools/gen", "lib"}, {".", "a", "a/b"}}
	for ri := 0; ri < nrepos; ri++ {
		dir := filepath.Join(base, fmt.Sprintf("repo%d", ri))
		subs := layouts[(ri+int(seed))%len(layouts)]
		nver := 4 + rng.Intn(5)
		vers := vfBuildRepo(t, rng, dir, subs, nver)
		emit(map[string]any{"t": "REPO", "repo": ri, "projects": subs, "versions": len(vers)})
		// (a) one at a time, a fresh dial each: the reference, against the generator's tables
		for vi, v := range vers {
			got, err := vfFetch(dial(dir), v, filepath.Join(base, fmt.Sprintf("ref-%d-%d", ri, vi)))
			rec := map[string]any{"t": "JOB", "mode": "alone", "repo": ri, "project": v.Sub, "tag": v.Tag, "revision": v.Hash, "files": len(vfWant(v))}
			if err != nil {
				rec["error"] = err.Error()
			} else if d := vfDiff(got, vfWant(v)); d != "" {
				rec["differs"] = d
			}
			emit(rec)
		}
		// (a') one at a time on ONE dialed repository, in a drawn order: what a sequential resolver sees
		{
			repo := dial(dir)
			var before []string
			for j, vi := range append(rng.Perm(len(vers)), rng.Perm(len(vers))...) {
				v := vers[vi]
				got, err := vfFetch(repo, v, filepath.Join(base, fmt.Sprintf("turn-%d-%d", ri, j)))
				rec := map[string]any{"t": "JOB", "mode": "in-turn", "repo": ri, "project": v.Sub, "tag": v.Tag, "revision": v.Hash,
					"files": len(vfWant(v)), "jobs": append(append([]string{}, before...), v.Tag)}
				if err != nil {
					rec["error"] = err.Error()
				} else if d := vfDiff(got, vfWant(v)); d != "" {
					rec["differs"] = d
				}
				emit(rec)
				before = append(before, v.Tag)
				os.RemoveAll(filepath.Join(base, fmt.Sprintf("turn-%d-%d", ri, j)))
			}
		}
		// (b) k jobs at once on one dialed repository
		for rd := 0; rd < rounds; rd++ {
			k := 2 + rng.Intn(len(vers)-1)
			perm := rng.Perm(len(vers))[:k]
			if rd%3 == 2 {
				// the same project version twice as well (two resolvers' worth of requests, or a diamond)
				perm = append(perm, perm[0])
			}
			var jobs []string
			for _, vi := range perm {
				jobs = append(jobs, vers[vi].Tag)
			}
			sameDial := rd%2 == 0 // odd rounds: the repository has served the same jobs once before
			repo := dial(dir)
			if !sameDial {
				for j, vi := range perm {
					vfFetch(repo, vers[vi], filepath.Join(base, fmt.Sprintf("warm-%d-%d-%d", ri, rd, j)))
				}
			}
			emit(map[string]any{"t": "ROUND", "repo": ri, "round": rd, "projects": subs, "jobs": jobs, "fresh_dial": sameDial})
			var wg sync.WaitGroup
			start := make(chan struct{})
			for j, vi := range perm {
				wg.Add(1)
				go func(j int, v vfVersion) {
					defer wg.Done()
					<-start
					got, err := vfFetch(repo, v, filepath.Join(base, fmt.Sprintf("conc-%d-%d-%d", ri, rd, j)))
					rec := map[string]any{"t": "JOB", "mode": "together", "repo": ri, "round": rd, "project": v.Sub, "tag": v.Tag,
						"revision": v.Hash, "files": len(vfWant(v)), "jobs": jobs}
					if err != nil {
						rec["error"] = err.Error()
					} else if d := vfDiff(got, vfWant(v)); d != "" {
						rec["differs"] = d
					}
					emit(rec)
				}(j, vers[vi])
			}
			close(start)
			wg.Wait()
			for j := range perm {
				os.RemoveAll(filepath.Join(base, fmt.Sprintf("conc-%d-%d-%d", ri, rd, j)))
				os.RemoveAll(filepath.Join(base, fmt.Sprintf("warm-%d-%d-%d", ri, rd, j)))
			}
		}
	}
	emit(map[string]any{"t": "END"})
}
