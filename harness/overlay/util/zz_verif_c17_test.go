package util

// Correspondence harness for C17 (added to the package through `go test -overlay`; never committed to /repo).
// For every pattern list of the enumerated space: CompileGlobs, the compiled pattern string, the shape of
// regexp/syntax.Parse's tree of that string, and MatchString on every path of the path space (a bit set).
// Lines written to $VERIF_OUT:
//   case \t kind \t hex(g1),hex(g2).. \t ok|err \t hex(pattern string) \t hex(shape) \t bits(decimal)
//   ORACLE \t name \t hex patterns \t hex(path)          direct failure of the property on the implementation
//   PROBE \t hex patterns \t hex(path) \t match \t spec   non-ASCII documentation probes
//   PATHS \t n \t alphabet-hex \t maxlen

import (
	"bufio"
	"encoding/hex"
	"fmt"
	"math/big"
	"math/rand"
	"os"
	"regexp"
	"regexp/syntax"
	"strconv"
	"strings"
	"testing"
	"unicode/utf8"
)

func c17hx(s string) string {
	if s == "" {
		return "-"
	}
	return hex.EncodeToString([]byte(s))
}

// ---- the specification: an independent recursive matcher over characters (runes) ----

type c17tok struct {
	kind int // 0 literal, 1 ?, 2 *, 3 **
	r    rune
}

// c17tokens splits a pattern into tokens; ok=false for a dangling or invalid escape.
func c17tokens(g string) (toks []c17tok, ok bool) {
	rs := []rune(g)
	for i := 0; i < len(rs); i++ {
		switch c := rs[i]; c {
		case '\\':
			if i+1 >= len(rs) {
				return nil, false
			}
			d := rs[i+1]
			if d != '\\' && d != '*' && d != '?' && d != '[' && d != ']' {
				return nil, false
			}
			toks = append(toks, c17tok{0, d})
			i++
		case '*':
			if i+1 < len(rs) && rs[i+1] == '*' {
				toks = append(toks, c17tok{3, 0})
				i++
			} else {
				toks = append(toks, c17tok{2, 0})
			}
		case '?':
			toks = append(toks, c17tok{1, 0})
		default:
			toks = append(toks, c17tok{0, c})
		}
	}
	return toks, true
}

func c17match(t []c17tok, p []rune) bool {
	if len(t) == 0 {
		return len(p) == 0
	}
	switch t[0].kind {
	case 0:
		return len(p) > 0 && p[0] == t[0].r && c17match(t[1:], p[1:])
	case 1:
		return len(p) > 0 && c17match(t[1:], p[1:])
	case 2:
		for k := 0; ; k++ {
			if c17match(t[1:], p[k:]) {
				return true
			}
			if k >= len(p) || p[k] == '/' {
				return false
			}
		}
	default:
		for k := 0; k <= len(p); k++ {
			if c17match(t[1:], p[k:]) {
				return true
			}
		}
		return false
	}
}

// c17runes decodes like RE2 and like range-over-string: an invalid byte is one character.
func c17runes(s string) []rune {
	var rs []rune
	for _, r := range s {
		rs = append(rs, r)
	}
	return rs
}

func C17SpecAny(globs []string, path string) bool {
	p := c17runes(path)
	for _, g := range globs {
		t, ok := c17tokens(g)
		if ok && c17match(t, p) {
			return true
		}
	}
	return false
}

// ---- dump of the parse tree ----

func c17seq(re *syntax.Regexp, b *strings.Builder) {
	switch re.Op {
	case syntax.OpEmptyMatch:
	case syntax.OpLiteral:
		for _, r := range re.Rune {
			if re.Flags&syntax.FoldCase != 0 {
				b.WriteString("F")
			}
			fmt.Fprintf(b, "L%02x", r)
		}
	case syntax.OpConcat:
		for _, s := range re.Sub {
			c17seq(s, b)
		}
	case syntax.OpAlternate:
		b.WriteString("{")
		for i, s := range re.Sub {
			if i > 0 {
				b.WriteString("|")
			}
			if s.Op == syntax.OpAlternate {
				b.WriteString("!") // nested alternation: never flattened by us
			}
			c17seq(s, b)
		}
		b.WriteString("}")
	case syntax.OpCapture:
		b.WriteString("C(")
		c17seq(re.Sub[0], b)
		b.WriteString(")")
	case syntax.OpStar:
		if re.Flags&syntax.NonGreedy != 0 {
			b.WriteString("?")
		}
		b.WriteString("S(")
		c17seq(re.Sub[0], b)
		b.WriteString(")")
	case syntax.OpAnyChar:
		b.WriteString("D")
	case syntax.OpAnyCharNotNL:
		b.WriteString("d")
	case syntax.OpBeginText:
		b.WriteString("^")
	case syntax.OpEndText:
		if re.Flags&syntax.WasDollar == 0 {
			b.WriteString("z")
		}
		b.WriteString("$")
	case syntax.OpCharClass:
		if len(re.Rune) == 4 && re.Rune[0] == 0 && re.Rune[1] == '/'-1 && re.Rune[2] == '/'+1 && re.Rune[3] == utf8.MaxRune {
			b.WriteString("N")
		} else if len(re.Rune) == 0 {
			b.WriteString("0") // the empty class: no character
		} else {
			fmt.Fprintf(b, "[%x]", re.Rune)
		}
	case syntax.OpNoMatch:
		b.WriteString("0")
	default:
		fmt.Fprintf(b, "<%s>", re.Op.String())
	}
}

func c17shape(pat string) string {
	re, err := syntax.Parse(pat, syntax.Perl)
	if err != nil {
		return "parse-error"
	}
	var b strings.Builder
	c17seq(re, &b)
	return b.String()
}

// ---- enumeration ----

// c17enum: all strings of length <= maxLen over alpha: level by level, each level = for c in alpha, for s in
// previous level: c+s.  (The same order as all_strs in Glob/Run.v.)
func c17enum(alpha string, maxLen int) []string {
	all := []string{""}
	level := []string{""}
	for n := 1; n <= maxLen; n++ {
		var next []string
		for i := 0; i < len(alpha); i++ {
			for _, s := range level {
				next = append(next, string(alpha[i])+s)
			}
		}
		all = append(all, next...)
		level = next
	}
	return all
}

func c17compile(globs []string) (re *regexp.Regexp, err error, panicked bool) {
	defer func() {
		if x := recover(); x != nil {
			panicked = true
		}
	}()
	re, err = CompileGlobs(globs)
	return
}

func TestVerifC17(t *testing.T) {
	out := os.Getenv("VERIF_OUT")
	if out == "" {
		t.Skip("VERIF_OUT not set")
	}
	f, err := os.Create(out)
	if err != nil {
		t.Fatal(err)
	}
	defer f.Close()
	w := bufio.NewWriterSize(f, 1<<20)
	defer w.Flush()
	line := func(fields ...string) {
		w.WriteString(strings.Join(fields, "\t"))
		w.WriteByte('\n')
	}
	atoi := func(k string, d int) int {
		if v, err := strconv.Atoi(os.Getenv(k)); err == nil {
			return v
		}
		return d
	}
	maxSingle := atoi("VERIF_MAXSINGLE", 3)
	nTriples := atoi("VERIF_NTRIPLES", 300)
	seed := int64(atoi("VERIF_SEED", 1))
	const galpha = "a/*?\\.["
	const palpha = "a/.\n["
	paths := c17enum(palpha, 4)
	line("PATHS", strconv.Itoa(len(paths)), c17hx(palpha), "4")

	hexlist := func(gs []string) string {
		if len(gs) == 0 {
			return "nil"
		}
		hs := make([]string, len(gs))
		for i, g := range gs {
			hs[i] = c17hx(g)
		}
		return strings.Join(hs, ",")
	}
	nOracle := 0
	do := func(kind string, gs []string) {
		re, err, panicked := c17compile(gs)
		if panicked {
			line("case", kind, hexlist(gs), "panic")
			return
		}
		wellFormed := true
		for _, g := range gs {
			if _, ok := c17tokens(g); !ok {
				wellFormed = false
			}
		}
		if (err == nil) != wellFormed {
			line("ORACLE", "compile-fails-iff-bad-escape", hexlist(gs), "-")
		}
		if err != nil {
			line("case", kind, hexlist(gs), "err")
			return
		}
		bits := new(big.Int)
		for i, p := range paths {
			m := re.MatchString(p)
			if m {
				bits.SetBit(bits, i, 1)
			}
			if m != C17SpecAny(gs, p) && nOracle < 200 {
				nOracle++
				name := "set-matches-iff-some-pattern-matches"
				line("ORACLE", name, hexlist(gs), c17hx(p))
			}
		}
		pat := re.String()
		line("case", kind, hexlist(gs), "ok", c17hx(pat), c17hx(c17shape(pat)), bits.String())
	}

	do("zero", nil)
	do("zero", []string{})
	singles := c17enum(galpha, maxSingle)
	for _, g := range singles {
		do("single", []string{g})
	}
	short := c17enum(galpha, 2)
	for _, g1 := range short {
		for _, g2 := range short {
			do("pair", []string{g1, g2})
		}
	}
	rng := rand.New(rand.NewSource(seed))
	wf := []string{}
	for _, g := range c17enum(galpha, 3) {
		if _, ok := c17tokens(g); ok {
			wf = append(wf, g)
		}
	}
	for i := 0; i < nTriples; i++ {
		n := 3 + rng.Intn(3)
		gs := make([]string, n)
		for j := range gs {
			gs[j] = wf[rng.Intn(len(wf))]
		}
		do("multi", gs)
	}
	// the remaining metacharacters of the regexp syntax, escaped one by one, and realistic ignore lists
	for _, g := range []string{"+", "(", ")", "|", "{", "}", "^", "$", "]", "a+", "(a)", "a|/", "a{1}", "^a$", "[a]", "[^a]", "\\[a\\]", "\\]", "\\\\a", "-", "#", " ", "a\\*", "a\\?"} {
		do("meta", []string{g})
		do("meta", []string{"a", g})
	}
	do("real", []string{"*.go", "*.md"})
	do("real", []string{".git", "node_modules/**", "**/*.a"})
	do("real", []string{"**/a", "a/**", "?"})

	// non-ASCII probes (documentation; oracle = the character-wise specification)
	probes := []struct {
		gs []string
		p  string
	}{
		{[]string{"?"}, "é"}, {[]string{"?"}, "€"}, {[]string{"?"}, "😀"}, {[]string{"??"}, "é"},
		{[]string{"*"}, "é/"}, {[]string{"*"}, "日本"}, {[]string{"é"}, "é"}, {[]string{"é*"}, "éa"},
		{[]string{"**"}, "a\xffb"}, {[]string{"?"}, "\xff"}, {[]string{"a?b"}, "a\xffb"}, {[]string{"??"}, "\xc3\x28"},
		{[]string{"*.é", "日*"}, "日.é"}, {[]string{"\\*é"}, "*é"},
	}
	for _, pr := range probes {
		re, err, panicked := c17compile(pr.gs)
		if panicked || err != nil {
			line("PROBE", hexlist(pr.gs), c17hx(pr.p), "compile-error", "-")
			continue
		}
		m, s := re.MatchString(pr.p), C17SpecAny(pr.gs, pr.p)
		line("PROBE", hexlist(pr.gs), c17hx(pr.p), strconv.FormatBool(m), strconv.FormatBool(s))
		if m != s {
			line("ORACLE", "non-ascii-character-semantics", hexlist(pr.gs), c17hx(pr.p))
		}
	}
	// a pattern with invalid UTF-8: what does regexp.Compile do?
	_, err, _ = c17compile([]string{"a\xff"})
	line("PROBE", hexlist([]string{"a\xff"}), "-", fmt.Sprintf("compile-error=%v", err != nil), "-")
}
