"""Shared driver code of the runner checks C04, C05, C09 (harness invocation, trace rendering, acceptance)."""
import json
import os
import sys

sys.path.insert(0, os.path.dirname(os.path.dirname(os.path.dirname(os.path.abspath(__file__)))))
from lib.vlib import *  # noqa

HARNESS_FILE = os.path.join(HARNESS, "overlay/runner/zz_verif_c04c05c09_test.go")
HDR = ("From Coq Require Import List ZArith NArith.\nImport ListNotations.\n"
       "From Dawn Require Import Runner.Model Runner.Run.\nOpen Scope nat_scope.\n")

# the fake target's "eval.results" event (class of every result handed to a target: 0 ok, 1 failed, 2 cyclic) is replayed
# by the model only when Runner/Run.v has the EvResults constructor
try:
    EV_RESULTS = "EvResults" in open(os.path.join(COQ, "Runner/Run.v")).read()
except Exception:
    EV_RESULTS = False

# oracle name -> property that owns it
ORACLE_OWNER = {
    "load_at_most_once": "C04", "evaluate_at_most_once": "C04", "body_at_most_once": "C04",
    "continued_before_dep_finished": "C04", "result_is_actual": "C04", "result_target": "C04",
    "result_count": "C04", "run_result_is_root": "C04", "cyclic_results_uniform": "C04",
    "terminates": "C05", "cyclic_build_fails": "C05", "cycle_reported": "C05", "no_false_cycle": "C05",
    "cycle_reported_first": "C05",
    "executing_le_limit": "C09", "slots_conserved": "C09", "harness_counter": "C09",
}


CTL_FILE = os.path.join(HARNESS, "overlay/runner/zz_verif_c05_ctl_test.go")


def parse_out(out):
    """Records written by the Go harness: one JSON line per run, ORACLE and ABORTED lines.  If the harness process gave up on a
    run that its in-run watchdog could not end (<out>.stuck, written by vprocessWatchdog), that run is added as a hung run with a
    `terminates` oracle failure, so that the hang is attributed to its graph / limit / schedule profile."""
    runs, oracles, aborted = [], [], None
    if os.path.exists(out):
        for line in open(out):
            line = line.rstrip("\n")
            if line.startswith("{"):
                try:
                    runs.append(json.loads(line))
                except ValueError:
                    pass  # truncated last line of a process that was stopped
            elif line.startswith("ORACLE\t"):
                f = line.split("\t")
                if len(f) >= 4:
                    oracles.append({"oracle": f[1], "run": int(f[2]), "detail": f[3]})
            elif line.startswith("ABORTED\t"):
                aborted = int(line.split("\t")[1])
    if os.path.exists(out + ".stuck"):
        st = json.load(open(out + ".stuck"))
        r = {"run": st["run"], "graph": st["graph"], "n": st["n"], "k": st["k"], "root": st["root"], "deps": st["deps"],
             "unknown": [], "failing": [], "cyclic": None, "profile": st["profile"], "procs": st["procs"], "via_run": st["via_run"],
             "hung": True, "stuck": False, "run_result": "", "capacity_end": -1, "max_inside": 0, "events": [],
             "blocked": st.get("blocked"), "seed": str(st.get("seed")), "obs": {"order": []}}
        runs = [x for x in runs if x["run"] != r["run"]] + [r]
        oracles.append({"oracle": "terminates", "run": r["run"],
                        "detail": "the harness process could not end the run of graph %s (limit %d, profile %s) within %d ms (even its own "
                                  "watchdog was stuck); goroutines: %s"
                                  % (st["graph"], st["k"], st["profile"], st["waited_ms"], "; ".join(st.get("blocked") or []))})
        aborted = r["run"]
    return runs, oracles, aborted


def run_harness(ctx, prop, nrand, repeat, stress, timeout_ms=10000, extra_files=None):
    """Run the Go harness against /repo's working tree. Returns (ok, runs, oracles, aborted, output)."""
    out = os.path.join(ctx.tmp, "%s_runner.jsonl" % prop.lower())
    seed = ctx.seed * 100 + int(prop[1:])
    env = {"VERIF_OUT": out, "VERIF_SEED": str(seed), "VERIF_RUNS": str(nrand), "VERIF_REPEAT": str(repeat), "VERIF_STRESS": str(stress),
           "VERIF_TIMEOUT_MS": str(timeout_ms)}
    files = {"zz_verif_c04c05c09_test.go": HARNESS_FILE}
    files.update(extra_files or {})
    rc, o = ctx.go_overlay_test("runner", files, "^TestVerifRunner$", env, timeout=1500)
    if (rc != 0 and not os.path.exists(out + ".stuck")) or not os.path.exists(out):
        return False, [], [], None, o
    runs, oracles, aborted = parse_out(out)
    return True, runs, oracles, aborted, o


def run_controlled(ctx, prop, repeat, nrand):
    """The controlled-scheduler runs (zz_verif_c05_ctl_test.go), in their own process. Same return value as run_harness."""
    out = os.path.join(ctx.tmp, "%s_runner_ctl.jsonl" % prop.lower())
    seed = ctx.seed * 100 + int(prop[1:])
    env = {"VERIF_CTL_OUT": out, "VERIF_SEED": str(seed), "VERIF_CTL_REPEAT": str(repeat), "VERIF_CTL_RANDOM": str(nrand)}
    files = {"zz_verif_c04c05c09_test.go": HARNESS_FILE, "zz_verif_c05_ctl_test.go": CTL_FILE}
    rc, o = ctx.go_overlay_test("runner", files, "^TestVerifC05Ctl$", env, timeout=900)
    if (rc != 0 and not os.path.exists(out + ".stuck")) or not os.path.exists(out):
        return False, [], [], None, o
    runs, oracles, aborted = parse_out(out)
    return True, runs, oracles, aborted, o


def cfg_term(r):
    deps = "[" + "; ".join("(%d, [%s])" % (l, "; ".join(str(d) for d in ds)) for l, ds in enumerate(r["deps"]) if ds) + "]"
    return "(mkConfig %d %s [%s] [%s] %d)" % (
        r["root"], deps if deps != "[]" else "[]", "; ".join(map(str, r["unknown"])), "; ".join(map(str, r["failing"])), r["k"])


def lab_list(xs):
    return "[" + "; ".join(str(int(x)) for x in xs) + "]"


def render_events(r):
    """Hook log -> (list of Coq event terms, error or None). Goroutine ids are mapped to model thread ids:
    the goroutine that logged run.entered(l) is thread l; main is the goroutine of main.returned (or of the first event)."""
    evs = r["events"]
    g2l = {}
    for e in evs:
        if e[1] == "run.entered":
            g2l[e[0]] = int(e[2])
    main_g = None
    for e in evs:
        if e[1] == "main.returned":
            main_g = e[0]
    if main_g is None and evs:
        main_g = evs[0][0]

    def tid(g):
        if g == main_g:
            return "TMain"
        if g in g2l:
            return "(T %d)" % g2l[g]
        return None

    out = []
    b = lambda x: "true" if x else "false"
    held = None
    pair = {"publish.pre": "publish.post", "walk.pre": "walk.load", "clear.pre": "clear.post"}
    # controlled runs: one goroutine at a time on one processor, the log order is the execution order; a goroutine is parked at
    # a .pre hook like at any other, so other goroutines' events may follow it before its operation is done and logged (.post)
    controlled = bool(r.get("controlled"))
    for i, e in enumerate(evs):
        g, p, a = e[0], e[1], e[2:]
        if controlled and p in pair:
            continue
        if held is not None:
            if (g, p) != held:
                return out, "event %d: %s by another goroutine inside a %s bracket" % (i, p, held[1])
            held = None
        own = None  # label that must be this goroutine's own
        if p in pair:
            held = (g, pair[p])
            continue
        if p in ("run.entered", "eval.reenter", "wait.begin"):
            own = int(a[0])
        elif p == "gate.enter" or p == "gate.exit":
            t = tid(g)
            if t is None:
                return out, "event %d: %s by a goroutine that never logged run.entered" % (i, p)
            out.append("Ev%s %s (%d)%%Z" % ("GateEnter" if p == "gate.enter" else "GateExit", t, a[0]))
        elif p == "run.loaded":
            own = int(a[0])
            out.append("EvLoaded %d %s" % (own, b(a[1])))
        elif p == "eval.begin":
            own = int(a[0])
            out.append("EvEvalBegin %d %s" % (own, lab_list(a[1] or [])))
        elif p in ("start.run", "start.noop"):
            t = tid(g)
            if t is None:
                return out, "event %d: %s by an unknown goroutine" % (i, p)
            out.append("EvStart %s %d %s" % (t, int(a[0]), b(p == "start.run")))
        elif p == "publish.post":
            own = int(a[0])
            out.append("EvPublish %d %s" % (own, lab_list(a[1] or [])))
        elif p == "walk.load":
            own = int(a[0])
            out.append("EvWalkLoad %d %d %s" % (own, int(a[1]), b(a[2])))
        elif p == "walk.cycle":
            own = int(a[0])
            out.append("EvWalkCycle %d %d" % (own, int(a[1])))
        elif p == "wait.end":
            own = int(a[0])
            out.append("EvWaitEnd %d %d %s" % (own, int(a[1]), b(a[2])))
        elif p == "clear.post":
            own = int(a[0])
            out.append("EvClear %d" % own)
        elif p == "body.end":
            own = int(a[0])
            out.append("EvBody %d %d" % (own, a[1]))
        elif p == "run.finished":
            own = int(a[0])
            out.append("EvFinished %d %d" % (own, a[1]))
        elif p == "main.returned":
            out.append("EvMainReturned")
        elif p == "main.result":
            out.append("EvMainResult %s" % b(a[0]))
        elif p == "eval.results":
            own = int(a[0])
            if EV_RESULTS:
                out.append("EvResults %d [%s]" % (own, "; ".join(str(int(c)) for c in (a[1] or []))))
        else:
            return out, "event %d: unknown hook point %s" % (i, p)
        if own is not None and g2l.get(g) != own:
            return out, "event %d: %s for target %s logged by a goroutine that is not that target's (goroutine map %s)" % (
                i, p, own, g2l.get(g))
    if held is not None:
        return out, "log ends inside a %s bracket" % held[1]
    return out, None


def accept_traces(ctx, runs):
    """Trace acceptance inside Coq. Returns (ok, rejected: list of (run, index, reason), n_events)."""
    cases, rejected, nev = [], [], 0
    for r in runs:
        if r["hung"] or r["stuck"]:
            continue
        evs, err = render_events(r)
        nev += len(evs)
        if err is not None:
            rejected.append((r, len(evs), err))
            continue
        cases.append((r, evs))
    nshards = max(1, min(14, (len(cases) + 19) // 20))
    shards = [[] for _ in range(nshards)]
    for i, c in enumerate(cases):
        shards[i % nshards].append(c)
    exprs = []
    for sh in shards:
        items = ["(%d%%N, %s,\n [%s])" % (r["run"], cfg_term(r), ";\n  ".join(evs)) for r, evs in sh]
        exprs.append("rejected [\n" + ";\n".join(items) + "]")
    okc, res, logs = ctx.coq_eval(HDR, exprs, timeout=1200)
    if not okc:
        return False, logs, nev
    byid = {r["run"]: (r, evs) for r, evs in cases}
    for rr in res:
        for code in rr:
            rid, idx = divmod(code, 100000)
            r, evs = byid[rid]
            if idx == 0:
                rejected.append((r, 0, "all events accepted but the model's final state is not quiescent with a full gate"))
            else:
                rejected.append((r, idx, "model rejects event %d: %s" % (idx, evs[idx - 1])))
    return True, rejected, nev


def describe(r):
    d = {"graph": r["graph"], "root": r["root"], "deps": {str(i): d for i, d in enumerate(r["deps"]) if d},
         "unknown": r["unknown"], "failing": r["failing"], "limit": r["k"], "profile": r["profile"],
         "gomaxprocs": r["procs"], "via_Run": r["via_run"], "run_result": r["run_result"],
         "observations": r["obs"]}
    if r.get("controlled"):
        d["scheduler"] = "controlled, policy %s, seed %s (one goroutine released at a time at the hook points)" % (r["controlled"], r.get("seed"))
        d["schedule_released_label_at_hook"] = r.get("schedule")
    if r.get("verdict"):
        d["verdict"] = r["verdict"]
    if r.get("blocked"):
        d["goroutines_when_given_up"] = r["blocked"]
    if r.get("log_mutex_held"):
        d["note"] = ("free-running mode: a goroutine blocked between a .pre hook and its .post hook while owning the harness's log "
                     "mutex, so part of this hang is the instrumentation's; the controlled scheduler (no lock held across runner "
                     "code) decides whether the runner deadlocks by itself")
    return d


def run_check(ctx, prop, props_file, sizes, rule_extra, extra_files=None, more_runs=None):
    """The common body of the three checks.  extra_files: further harness files of the runner package to build in;
    more_runs: a function ctx -> (ok, runs, oracles, aborted, output) producing further runs (in a thread, at the same time
    as the main harness); they are treated like the main harness's (oracles, trace acceptance)."""
    ok, rep = ctx.coq_props(props_file, timeout=1500)
    proof_broken = not ok

    nrand, repeat, stress = sizes["quick"] if ctx.quick() else sizes["thorough"]
    more = {}
    th = None
    if more_runs is not None:
        import threading

        def _bg():
            try:
                more["res"] = more_runs(ctx)
            except Exception as e:  # noqa
                more["res"] = (False, [], [], None, "more_runs raised %r" % (e,))
        th = threading.Thread(target=_bg)
        th.start()
    okh, runs, oracles, aborted, o = run_harness(ctx, prop, nrand, repeat, stress, extra_files=extra_files)
    if th is not None:
        th.join()
        ok2, runs2, oracles2, aborted2, o2 = more["res"]
        if okh and not ok2:
            okh, o = False, o2
        elif okh:
            runs, oracles = runs + runs2, oracles2 + oracles  # a controlled schedule is the better replay: report it first
            aborted = aborted if aborted is not None else aborted2
    if not okh:
        ctx.log(o[-3000:])
        ctx.violation("runner harness failed to build or run against /repo",
                      {"theorem_or_correspondence": "%s harness (runner)" % prop, "output": o[-3000:]}, found_input=False)
        return
    byid = {r["run"]: r for r in runs}
    mine = [x for x in oracles if ORACLE_OWNER.get(x["oracle"]) == prop or x["oracle"] == "terminates"]
    others = [x for x in oracles if x not in mine]
    shown, per = [], {}
    for x in mine:  # at most two reports per oracle, six in all
        if per.get(x["oracle"], 0) < 2 and len(shown) < 6:
            per[x["oracle"]] = per.get(x["oracle"], 0) + 1
            shown.append(x)
    for x in shown:
        r = byid.get(x["run"])
        rp = {"oracle": x["oracle"], "detail": x["detail"], "config": describe(r) if r else None,
              "how": "go test -tags verif -overlay (harness/overlay/runner/zz_verif_c04c05c09_test.go) ./runner; "
                     "VERIF_SEED=%d; schedule-dependent: the event log of the failing run follows" % (ctx.seed * 100 + int(prop[1:])),
              "event_log": r["events"][:400] if r else None}
        # a free-running hang in which a goroutine is blocked while owning the harness's log mutex is partly the instrumentation's:
        # it shows that the tree blocks where the unchanged code does not, but it is not by itself a schedule of the runner
        ctx.violation("implementation violates %s oracle %s: %s" % (prop, x["oracle"], x["detail"]), rp,
                      found_input=not (r and r.get("log_mutex_held")))
    if others:
        ctx.log("oracle failures owned by other runner properties: %s" % sorted({x["oracle"] for x in others}))

    okc, rejected, nev = accept_traces(ctx, runs)
    if not okc:
        ctx.log("coq evaluation failed", rejected[:1])
        ctx.violation("trace acceptance could not be evaluated", {"theorem_or_correspondence": "Runner/Run.v evaluation",
                                                                  "log": rejected[:2]}, found_input=False)
        return
    done_runs = [r for r in runs if not (r["hung"] or r["stuck"])]
    ctx.runner_runs = runs
    dist = {}
    for r in runs:
        key = "%s%s/k=%d" % ("controlled/" if r.get("controlled") else "", "cyclic" if r["cyclic"] else "acyclic", r["k"])
        dist[key] = dist.get(key, 0) + 1
    profs = {}
    for r in runs:
        profs[r["profile"]] = profs.get(r["profile"], 0) + 1
    # schedule diversity: distinct projected event sequences (thread, point) per graph
    sigs = {(r["graph"] if not r["graph"].startswith("rand") else "rand", r["k"],
             tuple((e[1], tuple(map(str, e[2:]))) for e in r["events"])) for r in runs}
    ctx.coverage["evaluations"] = len(runs)
    ctx.coverage["distinct_nontrivial"] = len(sigs)
    ctx.coverage["rule"] = (
        "runs of the real runner over a fake Targets/Target (25 fixed graphs: chains, diamonds, shared subgraphs, fan-in, duplicate "
        "deps, failing/unknown targets, self-loops, 2-/3-cycles, inner and overlapping cycles, the F11 shape, a layered DAG) "
        "x limits {1,2,3,4,16} + exported Run at NumCPU, x %d repetitions, plus %d contention-stress runs (fan-in, layered, "
        "shared, fan-out on all CPUs), plus %d random graphs of 2..8 labels, each under "
        "one of 9 seeded jitter profiles and GOMAXPROCS in {1,2,4,16}; every run's hook log (%d events in total) is replayed "
        "by the Coq model; distinct = distinct (graph, limit, event sequence) triples, i.e. distinct observed schedules. %s"
        % (repeat, stress, nrand, nev, rule_extra))
    ctx.coverage["exhaustive"] = False
    ctx.coverage["correspondence"] = {"cases": len(done_runs), "events": nev, "mismatches": len(rejected),
                                      "distribution": dist, "jitter_profiles": profs,
                                      "oracle_failures": len(oracles)}
    for r in runs[3:6] + runs[-2:]:
        ctx.add_samples([{"graph": r["graph"], "k": r["k"], "deps": r["deps"], "result": r["run_result"],
                          "events": len(r["events"]), "order": r["obs"]["order"]}])
    ctx.log("runs=%d events=%d rejected=%d oracle_failures=%d (own %d) distinct_schedules=%d" % (
        len(runs), nev, len(rejected), len(oracles), len(mine), len(sigs)))
    if rejected:
        r, idx, why = rejected[0]
        rp = {"theorem_or_correspondence": "trace acceptance Runner/Run.v <-> runner/runner.go",
              "why": why, "rejected_traces": len(rejected), "config": describe(r),
              "event_log_prefix": r["events"][:max(0, idx) + 30]}
        # an oracle failure of this property on the same tree makes the rejection a found input
        ctx.violation("model rejects %d of %d traces of the implementation, first: run %d (%s, limit %d): %s" % (
            len(rejected), len(done_runs), r["run"], r["graph"], r["k"], why), rp, found_input=bool(mine))
    if aborted is not None and not mine:
        ctx.violation("harness aborted after a hang in run %d" % aborted, {"config": describe(byid[aborted])})
    if proof_broken and not ctx.violations:
        ctx.violation("a %s theorem no longer checks" % prop,
                      {"theorem_or_correspondence": getattr(ctx, "broken_proof", {})}, found_input=False)
