"""Shared driver code of the runner checks C04, C05, C09 (harness invocation, trace rendering, acceptance)."""
import json
import os
import sys

sys.path.insert(0, os.path.dirname(os.path.dirname(os.path.dirname(os.path.abspath(__file__)))))
from lib.vlib import *  # noqa

HARNESS_FILE = os.path.join(HARNESS, "overlay/runner/zz_verif_c04c05c09_test.go")
HDR = ("From Coq Require Import List ZArith NArith.\nImport ListNotations.\n"
       "From Dawn Require Import Runner.Model Runner.Run.\nOpen Scope nat_scope.\n")

# the fake target's "eval.results" event (class of every result handed to a target: 0 ok, 1 failed, 2 cyclic) is replayed
# by the model only when Runner/Run.v has the EvResults constructor
try:
    EV_RESULTS = "EvResults" in open(os.path.join(COQ, "Runner/Run.v")).read()
except Exception:
    EV_RESULTS = False

# oracle name -> property that owns it
ORACLE_OWNER = {
    "load_at_most_once": "C04", "evaluate_at_most_once": "C04", "body_at_most_once": "C04",
    "continued_before_dep_finished": "C04", "result_is_actual": "C04", "result_target": "C04",
    "result_count": "C04", "run_result_is_root": "C04", "cyclic_results_uniform": "C04",
    "terminates": "C05", "cyclic_build_fails": "C05", "cycle_reported": "C05", "no_false_cycle": "C05",
    "executing_le_limit": "C09", "slots_conserved": "C09", "harness_counter": "C09",
}


def run_harness(ctx, prop, nrand, repeat, stress, timeout_ms=10000):
    """Run the Go harness against /repo's working tree. Returns (ok, runs, oracles, aborted, output)."""
    out = os.path.join(ctx.tmp, "%s_runner.jsonl" % prop.lower())
    seed = ctx.seed * 100 + int(prop[1:])
    env = {"VERIF_OUT": out, "VERIF_SEED": str(seed), "VERIF_RUNS": str(nrand), "VERIF_REPEAT": str(repeat), "VERIF_STRESS": str(stress),
           "VERIF_TIMEOUT_MS": str(timeout_ms)}
    rc, o = ctx.go_overlay_test("runner", {"zz_verif_c04c05c09_test.go": HARNESS_FILE}, "^TestVerifRunner$", env,
                                timeout=1500)
    if rc != 0 or not os.path.exists(out):
        return False, [], [], None, o
    runs, oracles, aborted = [], [], None
    for line in open(out):
        line = line.rstrip("\n")
        if line.startswith("{"):
            runs.append(json.loads(line))
        elif line.startswith("ORACLE\t"):
            f = line.split("\t")
            oracles.append({"oracle": f[1], "run": int(f[2]), "detail": f[3]})
        elif line.startswith("ABORTED\t"):
            aborted = int(line.split("\t")[1])
    return True, runs, oracles, aborted, o


def cfg_term(r):
    deps = "[" + "; ".join("(%d, [%s])" % (l, "; ".join(str(d) for d in ds)) for l, ds in enumerate(r["deps"]) if ds) + "]"
    return "(mkConfig %d %s [%s] [%s] %d)" % (
        r["root"], deps if deps != "[]" else "[]", "; ".join(map(str, r["unknown"])), "; ".join(map(str, r["failing"])), r["k"])


def lab_list(xs):
    return "[" + "; ".join(str(int(x)) for x in xs) + "]"


def render_events(r):
    """Hook log -> (list of Coq event terms, error or None). Goroutine ids are mapped to model thread ids:
    the goroutine that logged run.entered(l) is thread l; main is the goroutine of main.returned (or of the first event)."""
    evs = r["events"]
    g2l = {}
    for e in evs:
        if e[1] == "run.entered":
            g2l[e[0]] = int(e[2])
    main_g = None
    for e in evs:
        if e[1] == "main.returned":
            main_g = e[0]
    if main_g is None and evs:
        main_g = evs[0][0]

    def tid(g):
        if g == main_g:
            return "TMain"
        if g in g2l:
            return "(T %d)" % g2l[g]
        return None

    out = []
    b = lambda x: "true" if x else "false"
    held = None
    pair = {"publish.pre": "publish.post", "walk.pre": "walk.load", "clear.pre": "clear.post"}
    for i, e in enumerate(evs):
        g, p, a = e[0], e[1], e[2:]
        if held is not None:
            if (g, p) != held:
                return out, "event %d: %s by another goroutine inside a %s bracket" % (i, p, held[1])
            held = None
        own = None  # label that must be this goroutine's own
        if p in pair:
            held = (g, pair[p])
            continue
        if p in ("run.entered", "eval.reenter", "wait.begin"):
            own = int(a[0])
        elif p == "gate.enter" or p == "gate.exit":
            t = tid(g)
            if t is None:
                return out, "event %d: %s by a goroutine that never logged run.entered" % (i, p)
            out.append("Ev%s %s (%d)%%Z" % ("GateEnter" if p == "gate.enter" else "GateExit", t, a[0]))
        elif p == "run.loaded":
            own = int(a[0])
            out.append("EvLoaded %d %s" % (own, b(a[1])))
        elif p == "eval.begin":
            own = int(a[0])
            out.append("EvEvalBegin %d %s" % (own, lab_list(a[1] or [])))
        elif p in ("start.run", "start.noop"):
            t = tid(g)
            if t is None:
                return out, "event %d: %s by an unknown goroutine" % (i, p)
            out.append("EvStart %s %d %s" % (t, int(a[0]), b(p == "start.run")))
        elif p == "publish.post":
            own = int(a[0])
            out.append("EvPublish %d %s" % (own, lab_list(a[1] or [])))
        elif p == "walk.load":
            own = int(a[0])
            out.append("EvWalkLoad %d %d %s" % (own, int(a[1]), b(a[2])))
        elif p == "walk.cycle":
            own = int(a[0])
            out.append("EvWalkCycle %d %d" % (own, int(a[1])))
        elif p == "wait.end":
            own = int(a[0])
            out.append("EvWaitEnd %d %d %s" % (own, int(a[1]), b(a[2])))
        elif p == "clear.post":
            own = int(a[0])
            out.append("EvClear %d" % own)
        elif p == "body.end":
            own = int(a[0])
            out.append("EvBody %d %d" % (own, a[1]))
        elif p == "run.finished":
            own = int(a[0])
            out.append("EvFinished %d %d" % (own, a[1]))
        elif p == "main.returned":
            out.append("EvMainReturned")
        elif p == "main.result":
            out.append("EvMainResult %s" % b(a[0]))
        elif p == "eval.results":
            own = int(a[0])
            if EV_RESULTS:
                out.append("EvResults %d [%s]" % (own, "; ".join(str(int(c)) for c in (a[1] or []))))
        else:
            return out, "event %d: unknown hook point %s" % (i, p)
        if own is not None and g2l.get(g) != own:
            return out, "event %d: %s for target %s logged by a goroutine that is not that target's (goroutine map %s)" % (
                i, p, own, g2l.get(g))
    if held is not None:
        return out, "log ends inside a %s bracket" % held[1]
    return out, None


def accept_traces(ctx, runs):
    """Trace acceptance inside Coq. Returns (ok, rejected: list of (run, index, reason), n_events)."""
    cases, rejected, nev = [], [], 0
    for r in runs:
        if r["hung"] or r["stuck"]:
            continue
        evs, err = render_events(r)
        nev += len(evs)
        if err is not None:
            rejected.append((r, len(evs), err))
            continue
        cases.append((r, evs))
    nshards = max(1, min(14, (len(cases) + 19) // 20))
    shards = [[] for _ in range(nshards)]
    for i, c in enumerate(cases):
        shards[i % nshards].append(c)
    exprs = []
    for sh in shards:
        items = ["(%d%%N, %s,\n [%s])" % (r["run"], cfg_term(r), ";\n  ".join(evs)) for r, evs in sh]
        exprs.append("rejected [\n" + ";\n".join(items) + "]")
    okc, res, logs = ctx.coq_eval(HDR, exprs, timeout=1200)
    if not okc:
        return False, logs, nev
    byid = {r["run"]: (r, evs) for r, evs in cases}
    for rr in res:
        for code in rr:
            rid, idx = divmod(code, 100000)
            r, evs = byid[rid]
            if idx == 0:
                rejected.append((r, 0, "all events accepted but the model's final state is not quiescent with a full gate"))
            else:
                rejected.append((r, idx, "model rejects event %d: %s" % (idx, evs[idx - 1])))
    return True, rejected, nev


def describe(r):
    return {"graph": r["graph"], "root": r["root"], "deps": {str(i): d for i, d in enumerate(r["deps"]) if d},
            "unknown": r["unknown"], "failing": r["failing"], "limit": r["k"], "profile": r["profile"],
            "gomaxprocs": r["procs"], "via_Run": r["via_run"], "run_result": r["run_result"],
            "observations": r["obs"]}


def run_check(ctx, prop, props_file, sizes, rule_extra):
    """The common body of the three checks."""
    ok, rep = ctx.coq_props(props_file, timeout=1500)
    proof_broken = not ok

    nrand, repeat, stress = sizes["quick"] if ctx.quick() else sizes["thorough"]
    okh, runs, oracles, aborted, o = run_harness(ctx, prop, nrand, repeat, stress)
    if not okh:
        ctx.log(o[-3000:])
        ctx.violation("runner harness failed to build or run against /repo",
                      {"theorem_or_correspondence": "%s harness (runner)" % prop, "output": o[-3000:]}, found_input=False)
        return
    byid = {r["run"]: r for r in runs}
    mine = [x for x in oracles if ORACLE_OWNER.get(x["oracle"]) == prop or x["oracle"] == "terminates"]
    others = [x for x in oracles if x not in mine]
    for x in mine[:6]:
        r = byid.get(x["run"])
        rp = {"oracle": x["oracle"], "detail": x["detail"], "config": describe(r) if r else None,
              "how": "go test -tags verif -overlay (harness/overlay/runner/zz_verif_c04c05c09_test.go) ./runner; "
                     "VERIF_SEED=%d; schedule-dependent: the event log of the failing run follows" % (ctx.seed * 100 + int(prop[1:])),
              "event_log": r["events"][:400] if r else None}
        ctx.violation("implementation violates %s oracle %s: %s" % (prop, x["oracle"], x["detail"]), rp)
    if others:
        ctx.log("oracle failures owned by other runner properties: %s" % sorted({x["oracle"] for x in others}))

    okc, rejected, nev = accept_traces(ctx, runs)
    if not okc:
        ctx.log("coq evaluation failed", rejected[:1])
        ctx.violation("trace acceptance could not be evaluated", {"theorem_or_correspondence": "Runner/Run.v evaluation",
                                                                  "log": rejected[:2]}, found_input=False)
        return
    done_runs = [r for r in runs if not (r["hung"] or r["stuck"])]
    dist = {}
    for r in runs:
        key = "%s/k=%d" % ("cyclic" if r["cyclic"] else "acyclic", r["k"])
        dist[key] = dist.get(key, 0) + 1
    profs = {}
    for r in runs:
        profs[r["profile"]] = profs.get(r["profile"], 0) + 1
    # schedule diversity: distinct projected event sequences (thread, point) per graph
    sigs = {(r["graph"] if not r["graph"].startswith("rand") else "rand", r["k"],
             tuple((e[1], tuple(map(str, e[2:]))) for e in r["events"])) for r in runs}
    ctx.coverage["evaluations"] = len(runs)
    ctx.coverage["distinct_nontrivial"] = len(sigs)
    ctx.coverage["rule"] = (
        "runs of the real runner over a fake Targets/Target (25 fixed graphs: chains, diamonds, shared subgraphs, fan-in, duplicate "
        "deps, failing/unknown targets, self-loops, 2-/3-cycles, inner and overlapping cycles, the F11 shape, a layered DAG) "
        "x limits {1,2,3,4,16} + exported Run at NumCPU, x %d repetitions, plus %d contention-stress runs (fan-in, layered, "
        "shared, fan-out on all CPUs), plus %d random graphs of 2..8 labels, each under "
        "one of 9 seeded jitter profiles and GOMAXPROCS in {1,2,4,16}; every run's hook log (%d events in total) is replayed "
        "by the Coq model; distinct = distinct (graph, limit, event sequence) triples, i.e. distinct observed schedules. %s"
        % (repeat, stress, nrand, nev, rule_extra))
    ctx.coverage["exhaustive"] = False
    ctx.coverage["correspondence"] = {"cases": len(done_runs), "events": nev, "mismatches": len(rejected),
                                      "distribution": dist, "jitter_profiles": profs,
                                      "oracle_failures": len(oracles)}
    for r in runs[3:6] + runs[-2:]:
        ctx.add_samples([{"graph": r["graph"], "k": r["k"], "deps": r["deps"], "result": r["run_result"],
                          "events": len(r["events"]), "order": r["obs"]["order"]}])
    ctx.log("runs=%d events=%d rejected=%d oracle_failures=%d (own %d) distinct_schedules=%d" % (
        len(runs), nev, len(rejected), len(oracles), len(mine), len(sigs)))
    if rejected:
        r, idx, why = rejected[0]
        rp = {"theorem_or_correspondence": "trace acceptance Runner/Run.v <-> runner/runner.go",
              "why": why, "rejected_traces": len(rejected), "config": describe(r),
              "event_log_prefix": r["events"][:max(0, idx) + 30]}
        # an oracle failure of this property on the same tree makes the rejection a found input
        ctx.violation("model rejects %d of %d traces of the implementation, first: run %d (%s, limit %d): %s" % (
            len(rejected), len(done_runs), r["run"], r["graph"], r["k"], why), rp, found_input=bool(mine))
    if aborted is not None and not mine:
        ctx.violation("harness aborted after a hang in run %d" % aborted, {"config": describe(byid[aborted])})
    if proof_broken and not ctx.violations:
        ctx.violation("a %s theorem no longer checks" % prop,
                      {"theorem_or_correspondence": getattr(ctx, "broken_proof", {})}, found_input=False)
