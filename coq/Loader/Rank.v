(** C06 proofs, part 8: a module that loaded without error finished after everything it loads. *)
From Coq Require Import List Arith Bool Lia.
From Dawn Require Import Loader.Model Loader.Step Loader.InvReg Loader.InvStk.
Import ListNotations.

Arguments upd : simpl never.

Definition LO (s : state) (m : label) : Prop := loaded (mods s m) = true /\ okres (mods s m) = true.

Section Rank.
Variable loads : label -> list label.
Variable bad : label -> bool.

Fixpoint frames_ok (s : state) (above : option label) (st : list frame) : Prop :=
  match st with
  | [] => True
  | (m, ls) :: rest =>
      (forall t, In t (loads m) -> In t ls \/ Some t = above \/ LO s t) /\ frames_ok s (Some m) rest
  end.

Definition thr_ok (s : state) (T0 : thread) : Prop :=
  match ph T0 with
  | PExec | PRet true => frames_ok s None (stack T0)
  | PMissEdge t | PHitEdge t | PWalk t _ _ | PWait t => frames_ok s (Some t) (stack T0)
  | PFail | PRet false => match stack T0 with (m, _) :: rest => frames_ok s (Some m) rest | [] => True end
  | _ => True
  end.

Record inv_rk (s : state) : Prop := {
  k_thr : forall tid, thr_ok s (thr s tid);
  k_lo : forall m, LO s m -> forall t, In t (loads m) -> LO s t /\ rank (mods s t) < rank (mods s m);
  k_rank : forall m, loaded (mods s m) = true -> rank (mods s m) < ndone s;
  k_bad : forall m, LO s m -> bad m = false
}.

Lemma inv_rk_init : forall roots, inv_rk (init roots).
Proof.
  intros roots. constructor.
  - intros tid. destruct (init_thread roots tid) as [[r [_ ->]]|[_ ->]]; exact I.
  - intros m [H _]. cbn in H. discriminate.
  - intros m H. cbn in H. discriminate.
  - intros m [H _]. cbn in H. discriminate.
Qed.

Lemma frames_ok_mono : forall s s' st a, (forall t, LO s t -> LO s' t) -> frames_ok s a st -> frames_ok s' a st.
Proof.
  induction st as [|[m ls] st IH]; cbn; intros a Hm H; auto.
  destruct H as [H1 H2]. split; auto.
  intros t Ht. destruct (H1 t Ht) as [?|[?|?]]; auto.
Qed.

Lemma thr_ok_mono : forall s s' T0, (forall t, LO s t -> LO s' t) -> thr_ok s T0 -> thr_ok s' T0.
Proof.
  intros s s' T0 Hm H. unfold thr_ok in *.
  destruct (ph T0); auto; try (eapply frames_ok_mono; eauto; fail).
  - destruct (stack T0) as [|[m ls] rest]; auto. eapply frames_ok_mono; eauto.
  - destruct r; [eapply frames_ok_mono; eauto|].
    destruct (stack T0) as [|[m ls] rest]; auto. eapply frames_ok_mono; eauto.
Qed.

Definition same_res (s s' : state) : Prop :=
  forall x, loaded (mods s' x) = loaded (mods s x) /\ okres (mods s' x) = okres (mods s x) /\
            rank (mods s' x) = rank (mods s x).

Lemma same_res_refl_thr : forall s tid T0, same_res s (set_thr s tid T0).
Proof. intros s tid T0 x. auto. Qed.

Lemma same_res_loading : forall s m v, same_res s (set_loading s m v).
Proof.
  intros s m v x. unfold set_loading, upd. cbn. destruct (Nat.eqb_spec x m); subst; auto.
Qed.

Lemma rk_frame : forall s s' tid, inv_rk s -> same_res s s' -> ndone s' = ndone s ->
  (forall i, i <> tid -> thr s' i = thr s i) -> thr_ok s (thr s' tid) -> inv_rk s'.
Proof.
  intros s s' tid [Kt Kl Kr Kb] Hs Hn Ho Ht.
  assert (HLO : forall t, LO s t <-> LO s' t).
  { intros t. unfold LO. destruct (Hs t) as (-> & -> & _). tauto. }
  constructor.
  - intros i. apply thr_ok_mono with (s := s); [intros; now apply HLO|].
    destruct (Nat.eq_dec i tid) as [->|Hne]; auto. rewrite Ho; auto.
  - intros m Hm t Hin. apply HLO in Hm. destruct (Kl m Hm t Hin) as [H1 H2]. split; [now apply HLO|].
    destruct (Hs t) as (_ & _ & ->). destruct (Hs m) as (_ & _ & ->). auto.
  - intros m Hm. destruct (Hs m) as (Hl & _ & ->). rewrite Hl in Hm. rewrite Hn. auto.
  - intros m Hm. apply Kb. now apply HLO.
Qed.

Lemma rk_done : forall s tid m ls rest b, inv_rk s -> inv_stk s ->
  stack (thr s tid) = (m, ls) :: rest ->
  (b = negb (bad m) /\ ph (thr s tid) = PExec /\ ls = [] \/ b = false /\ ph (thr s tid) = PFail) ->
  inv_rk (set_thr (set_done s m b) tid (mkT rest (after_pop rest b))).
Proof.
  intros s tid m ls rest b [Kt Kl Kr Kb] IS Hst Hb.
  set (s' := set_thr (set_done s m b) tid (mkT rest (after_pop rest b))).
  assert (Hml : loaded (mods s m) = false).
  { eapply s_stnl with (tid := tid); eauto. rewrite (labels_top _ _ _ _ _ Hst). left; auto. }
  assert (Hoth : forall x, x <> m -> mods s' x = mods s x).
  { intros x Hx. unfold s', set_done, upd. cbn. destruct (Nat.eqb_spec x m); congruence. }
  assert (Hm' : mods s' m = mkM (loading (mods s m)) true b (ndone s)).
  { unfold s', set_done, upd. cbn. now rewrite Nat.eqb_refl. }
  assert (Hmono : forall t, LO s t -> LO s' t).
  { intros t [H1 H2]. assert (t <> m) by congruence. unfold LO. rewrite Hoth; auto. }
  assert (Hback : forall t, LO s' t -> t = m /\ b = true \/ t <> m /\ LO s t).
  { intros t [H1 H2]. destruct (Nat.eq_dec t m) as [->|Hne].
    - left. rewrite Hm' in H2. cbn in H2. auto.
    - right. split; auto. unfold LO. rewrite <- (Hoth t Hne). auto. }
  assert (Hbelow : frames_ok s (Some m) rest /\ (b = true -> forall t, In t (loads m) -> LO s t)).
  { pose proof (Kt tid) as Hk. unfold thr_ok in Hk. rewrite Hst in Hk.
    destruct Hb as [(_ & Hp & ->)|(-> & Hp)]; rewrite Hp in Hk.
    - cbn in Hk. destruct Hk as [H1 H2]. split; auto. intros _ t Ht.
      destruct (H1 t Ht) as [[]|[?|?]]; [discriminate|auto].
    - split; auto. discriminate. }
  destruct Hbelow as [Hbel Hdeps].
  assert (Hbad : b = true -> bad m = false).
  { intros ->. destruct Hb as [(Hb & _)|(Hb & _)]; [|discriminate]. destruct (bad m); [discriminate|auto]. }
  constructor.
  - intros i.
    assert (Hts : thr s' tid = mkT rest (after_pop rest b)) by (unfold s'; proj_simpl; now rewrite upd_same).
    assert (Hto : forall i, i <> tid -> thr s' i = thr s i) by (intros; unfold s'; proj_simpl; now rewrite upd_other).
    destruct (Nat.eq_dec i tid) as [->|Hne]; [rewrite Hts|rewrite (Hto _ Hne)].
    + unfold thr_ok. cbn [ph stack]. destruct rest as [|[m1 l1] rest1]; cbn [after_pop]; auto.
      cbn in Hbel. destruct Hbel as [H1 H2].
      destruct b.
      * cbn. split; [|eapply frames_ok_mono; eauto].
        intros t Ht. destruct (H1 t Ht) as [?|[[= ->]|?]]; auto.
        right. right. unfold LO. rewrite Hm'. auto.
      * eapply frames_ok_mono; eauto.
    + eapply thr_ok_mono; eauto.
  - intros x Hx t Ht. destruct (Hback x Hx) as [[-> ->]|[Hne Hx0]].
    + pose proof (Hdeps eq_refl t Ht) as Hlt. split; auto.
      assert (t <> m) by (destruct Hlt; congruence).
      rewrite Hm', Hoth by auto. cbn. apply Kr. apply Hlt.
    + destruct (Kl x Hx0 t Ht) as [H1 H2]. split; auto.
      assert (t <> m) by (destruct H1; congruence). rewrite !Hoth by auto. auto.
  - intros x Hx. assert (Hnd : ndone s' = S (ndone s)) by reflexivity. rewrite Hnd.
    destruct (Nat.eq_dec x m) as [->|Hne].
    + rewrite Hm'. cbn. lia.
    + rewrite Hoth in * by auto. specialize (Kr x Hx). lia.
  - intros x Hx. destruct (Hback x Hx) as [[-> ->]|[Hne Hx0]]; auto.
Qed.

Ltac rkf IK tid :=
  apply (rk_frame _ _ tid IK); proj_simpl;
  [ | reflexivity | intros; rewrite upd_other by assumption; reflexivity | rewrite upd_same ].

Lemma inv_rk_step : forall s tid s', inv_rk s -> inv_stk s -> kstep loads bad s tid s' -> inv_rk s'.
Proof.
  intros s tid s' IK IS K.
  pose proof (k_thr _ IK tid) as Hk. unfold thr_ok in Hk.
  destruct K.
  - rkf IK tid; [apply same_res_refl_thr|exact I].
  - rkf IK tid; [intros x; auto|]. cbn. split; auto.
  - eapply rk_done; eauto.
  - eapply rk_done; eauto.
  - rewrite H, H0 in Hk. cbn in Hk. destruct Hk as [H2 H3].
    rkf IK tid; [apply same_res_refl_thr|].
    cbn. split; auto. intros t0 Ht0. destruct (H2 t0 Ht0) as [[<-|?]|[?|?]]; auto. discriminate.
  - rewrite H, H0 in Hk. cbn in Hk. destruct Hk as [H2 H3].
    rkf IK tid; [intros x; auto|].
    cbn. split; auto. intros t0 Ht0. destruct (H2 t0 Ht0) as [[<-|?]|[?|?]]; auto. discriminate.
  - rewrite H, H0 in Hk.
    rkf IK tid; [intros x; apply (same_res_loading s m (Some t) x)|].
    cbn [thr_ok ph stack frames_ok]. split; auto.
  - rewrite H, H0 in Hk.
    rkf IK tid; [intros x; apply (same_res_loading s m (Some t) x)|]. exact Hk.
  - rewrite H, H0 in Hk. rkf IK tid; [apply same_res_refl_thr|exact Hk].
  - rewrite H, H0 in Hk. rkf IK tid; [apply same_res_refl_thr|]. cbn in *. tauto.
  - rewrite H, H0 in Hk. rkf IK tid; [apply same_res_refl_thr|exact Hk].
  - rewrite H, H0 in Hk. rkf IK tid; [apply same_res_refl_thr|exact Hk].
  - rkf IK tid; [apply same_res_refl_thr|exact I].
  - rewrite H, H0 in Hk. cbn in Hk. destruct Hk as [H2 H3].
    rkf IK tid; [apply same_res_refl_thr|].
    unfold thr_ok. cbn [ph stack]. destruct (okres (mods s t)) eqn:Hok; auto.
    cbn. split; auto. intros t0 Ht0. destruct (H2 t0 Ht0) as [?|[[= ->]|?]]; auto.
    right. right. split; auto.
  - rewrite H, H0 in Hk.
    rkf IK tid; [intros x; apply (same_res_loading s m None x)|].
    unfold thr_ok. cbn [ph stack]. destruct r; auto.
Qed.

End Rank.
