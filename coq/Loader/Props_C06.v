(** C06 — Module loading is once-only, terminating and cycle-safe.  Statements only; proofs in Loader/*.v.
    [loads m] = the load() statements of module file m, [bad m] = module file m fails by itself (it is missing or
    unreadable, does not parse, its project is unknown, or its code fails at run time; [loads m] are then the
    load() statements executed before that point), [roots] = the package files (one goroutine each);
    [reachable] = reachable by any interleaving of the goroutines' critical sections; [final] = every
    goroutine has finished; [execs] = modules whose file has been executed; [load_ok] = Project.load finds
    no module error; [acyclic]/[cyclic] speak about the part of the load graph the packages reach.
    The first three theorems hold for every [bad]: a failing module never costs once-only execution or
    termination. *)
From Coq Require Import List Arith Bool.
From Dawn Require Import Loader.Model Loader.Run Loader.Final Loader.Term.
Import ListNotations.

Theorem executed_at_most_once :
  forall loads bad roots s, reachable loads bad roots s -> NoDup (execs s).
Proof. exact t_executed_at_most_once. Qed.
Print Assumptions executed_at_most_once.

Theorem loader_deadlock_free :
  forall loads bad roots s, reachable loads bad roots s -> ~ final s -> exists tid, step loads bad s tid <> None.
Proof. exact t_deadlock_free. Qed.
Print Assumptions loader_deadlock_free.

(* every run is finite (explicit bound from the finite set U of module files the packages can reach), and a
   run that cannot be extended has every goroutine finished: Load terminates under every interleaving,
   whichever modules fail *)
Theorem loader_terminates :
  forall loads bad roots (U : list label), NoDup U -> (forall m, from_roots loads roots m -> In m U) ->
  exists bound, forall sched s,
    run loads bad (init roots) sched = Some s ->
    length sched <= bound /\ ((forall tid, step loads bad s tid = None) -> final s).
Proof. exact t_terminates. Qed.
Print Assumptions loader_terminates.

Theorem acyclic_loads_succeed :
  forall loads bad roots, acyclic loads roots -> (forall m, from_roots loads roots m -> bad m = false) ->
  forall s, reachable loads bad roots s ->
    (~ final s -> exists tid, step loads bad s tid <> None) /\
    (final s ->
       load_ok s = true /\
       (forall m, In m (registry s) -> loaded (mods s m) = true /\ okres (mods s m) = true) /\
       (forall m, In m (registry s) <-> from_roots loads roots m)).
Proof. exact t_acyclic_succeed. Qed.
Print Assumptions acyclic_loads_succeed.

Theorem cyclic_loads_fail :
  forall loads bad roots, cyclic loads roots ->
  forall s, reachable loads bad roots s -> final s ->
    load_ok s = false /\
    exists m, In m (registry s) /\ loaded (mods s m) = true /\ okres (mods s m) = false.
Proof. exact t_cyclic_fail. Qed.
Print Assumptions cyclic_loads_fail.

Theorem load_result_deterministic :
  forall loads bad roots, acyclic loads roots -> (forall m, from_roots loads roots m -> bad m = false) ->
  forall s1 s2, reachable loads bad roots s1 -> reachable loads bad roots s2 -> final s1 -> final s2 ->
    load_ok s1 = true /\ load_ok s2 = true /\
    (forall m, In m (registry s1) <-> In m (registry s2)) /\
    (forall m, In m (execs s1) <-> In m (execs s2)).
Proof. exact t_deterministic. Qed.
Print Assumptions load_result_deterministic.

(* a module that the packages reach fails by itself: every schedule still ends (the three theorems at the top),
   and it ends with the failure published: Load returns an error, nobody is left waiting for the module *)
Theorem failing_module_fails_the_load :
  forall loads bad roots, (exists m, from_roots loads roots m /\ bad m = true) ->
  forall s, reachable loads bad roots s ->
    (~ final s -> exists tid, step loads bad s tid <> None) /\
    (final s ->
       load_ok s = false /\
       exists m, In m (registry s) /\ loaded (mods s m) = true /\ okres (mods s m) = false).
Proof.
  exact (fun loads bad roots H s R =>
           conj (t_deadlock_free loads bad roots s R) (t_faulty_fail loads bad roots H s R)).
Qed.
Print Assumptions failing_module_fails_the_load.

(** Tests (exhaustive over ALL schedules of tiny configurations, by computation): [all_runs] explores every
    interleaving; a stuck non-final state or a final state violating the predicate makes it false. *)

Definition nobad : label -> bool := fun _ => false.

(* two packages whose files load each other: every schedule ends, with an error, nothing executed twice *)
Example test_two_cycle_all_schedules :
  all_runs (loads_of [(0,[1]);(1,[0])]) nobad 40 (fun s => negb (load_ok s) && nodupb (execs s)) (init [0;1]) = true.
Proof. vm_compute. reflexivity. Qed.

(* the acyclic F4 witness: two packages share helper 2, which itself loads 3: every schedule loads all four *)
Example test_shared_helper_all_schedules :
  all_runs (loads_of [(0,[2]);(1,[2]);(2,[3]);(3,[])]) nobad 60
           (fun s => all_loaded_ok s && nodupb (execs s) && Nat.eqb (length (registry s)) 4) (init [0;1]) = true.
Proof. vm_compute. reflexivity. Qed.

(* a cycle 1 <-> 2 entered through a tail by one package and directly by another *)
Example test_cycle_with_tail_all_schedules :
  all_runs (loads_of [(0,[1]);(1,[2]);(2,[1])]) nobad 60 (fun s => negb (load_ok s)) (init [0;2]) = true.
Proof. vm_compute. reflexivity. Qed.

(* a file that loads itself *)
Example test_self_load :
  all_runs (loads_of [(0,[0])]) nobad 20 (fun s => negb (load_ok s)) (init [0]) = true.
Proof. vm_compute. reflexivity. Qed.

(* two packages share helper 2 whose file is missing (bad, no loads); one of them loads a good module 3 first:
   every schedule ends, with an error, 2 executed once and marked done with its error, 3 loaded fine *)
Example test_shared_failing_helper_all_schedules :
  all_runs (loads_of [(0,[3;2]);(1,[2]);(3,[])]) (fun m => Nat.eqb m 2) 60
           (fun s => negb (load_ok s) && nodupb (execs s) && loaded (mods s 2) && negb (okres (mods s 2))
                     && okres (mods s 3))
           (init [0;1]) = true.
Proof. vm_compute. reflexivity. Qed.

(* the hypotheses of the theorems are satisfiable, and the tests can fail: expecting success on a cycle is refuted *)
Example test_expectation_can_fail :
  all_runs (loads_of [(0,[1]);(1,[0])]) nobad 40 load_ok (init [0;1]) = false.
Proof. vm_compute. reflexivity. Qed.

Example acyclic_satisfiable : acyclic (loads_of [(0,[1]);(1,[])]) [0].
Proof.
  intros m [r [[<-|[]] Hm]] Hc.
  assert (H : forall a b, gplus (loads_of [(0,[1]);(1,[])]) a b -> a = 0 /\ b = 1).
  { intros a b G. induction G.
    - destruct a as [|[|a]]; cbn in H; intuition.
    - destruct a as [|[|a]]; cbn in H; intuition; subst; discriminate. }
  destruct (H _ _ Hc) as [-> E]. discriminate.
Qed.

Example cyclic_satisfiable : cyclic (loads_of [(0,[1]);(1,[0])]) [0].
Proof.
  exists 0. split.
  - exists 0. split; [left|left]; reflexivity.
  - apply gp_cons with (b := 1); [cbn; auto|apply gp_one; cbn; auto].
Qed.

Example failing_satisfiable : exists m, from_roots (loads_of [(0,[1]);(1,[])]) [0] m /\ (fun m => Nat.eqb m 1) m = true.
Proof.
  exists 1. split; [|reflexivity]. exists 0. split; [left; reflexivity|]. right. apply gp_one. cbn. auto.
Qed.

(** ** From registry keys to module files.
    The theorems above count executions per registry key (the model's [label]).  The registry is keyed by the label
    that module.go's loadModule computes from the text of a load statement ([module_key reqs cur raw]: the module
    [cur] executes [load(raw, ...)], [reqs] = the requirement aliases of its project); the file that is then
    executed is the one fetchModule derives from that label ([module_file]: project, package components, file
    name).  [wf_pkg p]: p is an absolute package and a fixed point of label.Clean; the package files start with
    such packages (loadPackage joins directory names onto "//") and every key keeps the invariant. *)

From Dawn Require Loader.KeyProofs.

(* once per registry key is once per file whenever equal files have equal keys ... *)
Theorem file_executed_at_most_once :
  forall (F : Type) (file_of : Loader.Model.label -> F), (forall a b, file_of a = file_of b -> a = b) ->
  forall loads bad roots s, reachable loads bad roots s -> NoDup (map file_of (execs s)).
Proof. exact Loader.KeyProofs.t_file_executed_at_most_once. Qed.
Print Assumptions file_executed_at_most_once.

From Dawn Require Import Label.Model Loader.KeyModel Loader.KeyProofs.

(* ... and they have: two load statements -- of any two modules, in any spelling (explicit kind, relative package,
   redundant slashes, omitted name, requirement alias or project path) -- that stand for the same file are
   registered under the same label, hence the same registry key label.String() *)
Theorem one_key_per_file :
  forall reqs1 reqs2 cur1 cur2 raw1 raw2 k1 k2,
    wf_pkg (l_package cur1) -> wf_pkg (l_package cur2) ->
    module_key reqs1 cur1 raw1 = KKey k1 -> module_key reqs2 cur2 raw2 = KKey k2 ->
    module_file k1 = module_file k2 ->
    k1 = k2 /\ to_string k1 = to_string k2.
Proof. exact t_one_key_per_file. Qed.
Print Assumptions one_key_per_file.

(* the invariant: a load statement of a module with a well-formed package never takes the nil-label path, and
   what it registers is a module label with a well-formed package and a file name, for which fetchModule's
   slice expression is in range *)
Theorem registry_keys_stay_well_formed :
  forall reqs cur raw, wf_pkg (l_package cur) ->
    module_key reqs cur raw <> KPanic /\
    forall k, module_key reqs cur raw = KKey k ->
      wf_pkg (l_package k) /\ l_kind k = module_kind /\ l_name k <> [] /\ module_file k <> None.
Proof.
  exact (fun reqs cur raw W => conj (key_no_panic reqs cur raw W) (fun k => t_key_keeps_wf reqs cur raw k W)).
Qed.
Print Assumptions registry_keys_stay_well_formed.

Example root_package_well_formed : wf_pkg [47; 47]%N.
Proof. exact root_pkg_wf. Qed.

Example joined_package_well_formed : forall a b p, wf_pkg a -> join2 a b = Some p -> wf_pkg p.
Proof. exact join_pkg_wf. Qed.

Local Open Scope N_scope.
Definition ex_build (pkg : list N) : Label.Model.label :=
  mkLabel module_kind [] pkg build_name.
Definition ex_helper_key : key_res :=    (* module://lib:helper.dawn *)
  KKey (mkLabel module_kind [] [47; 47; 108; 105; 98] [104; 101; 108; 112; 101; 114; 46; 100; 97; 119; 110]).

(* //lib:helper.dawn, source://lib:helper.dawn and lib/:helper.dawn from two packages, :helper.dawn from //lib *)
Example spellings_of_one_file :
  module_key [] (ex_build [47; 47; 112]) [47; 47; 108; 105; 98; 58; 104; 101; 108; 112; 101; 114; 46; 100; 97; 119; 110] = ex_helper_key /\
  module_key [] (ex_build [47; 47; 112]) [115; 111; 117; 114; 99; 101; 58; 47; 47; 108; 105; 98; 58; 104; 101; 108; 112; 101; 114; 46; 100; 97; 119; 110] = ex_helper_key /\
  module_key [] (ex_build [47; 47]) [108; 105; 98; 47; 58; 104; 101; 108; 112; 101; 114; 46; 100; 97; 119; 110] = ex_helper_key /\
  module_key [] (ex_build [47; 47; 108; 105; 98]) [58; 104; 101; 108; 112; 101; 114; 46; 100; 97; 119; 110] = ex_helper_key.
Proof. vm_compute. repeat split. Qed.

(* a package named without a file is its BUILD.dawn; an alias is replaced by the project it stands for *)
Example omitted_name_and_alias :
  module_key [] (ex_build [47; 47; 112]) [47; 47; 108; 105; 98] = KKey (ex_build [47; 47; 108; 105; 98]) /\
  module_key [([108; 105; 98], [101; 120; 97; 109; 112; 108; 101; 46; 99; 111; 109; 47; 108; 105; 98])] (ex_build [47; 47])
             [108; 105; 98; 47; 47; 58; 104; 101; 108; 112; 101; 114; 46; 100; 97; 119; 110] =
  module_key [] (ex_build [47; 47])
             [101; 120; 97; 109; 112; 108; 101; 46; 99; 111; 109; 47; 108; 105; 98; 47; 47; 58; 104; 101; 108; 112; 101; 114; 46; 100; 97; 119; 110] /\
  module_key [] (ex_build [47; 47]) [108; 105; 98; 47; 47; 58; 104; 101; 108; 112; 101; 114; 46; 100; 97; 119; 110] = KErr.
Proof. vm_compute. repeat split. Qed.
