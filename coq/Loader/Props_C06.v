From Dawn Require Import Loader.Model Loader.Run.
Theorem pipeline_placeholder : True. Proof. exact I. Qed.
Print Assumptions pipeline_placeholder.
