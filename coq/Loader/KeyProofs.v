(** C06 — proofs about the registry key of a load statement (Loader/KeyModel.v): every load statement of every
    module of a loaded project is registered under a label that is determined by the file it stands for. *)
From Dawn Require Import Base.Bytes Label.Model Label.Proofs.
From Dawn Require Import Loader.KeyModel.

(** the components of a cleaned package *)
Definition nonempty (c : str) : bool := match c with [] => false | _ => true end.
Definition ne (l : list str) : list str := filter nonempty l.
Definition glue (xs : list str) : str := flat_map (fun c => c_slash :: c) xs.
Definition lead (hv : bool) (xs : list str) : str :=
  match xs with
  | [] => []
  | x :: r => (if hv then [c_slash] else []) ++ x ++ glue r
  end.

Lemma lead_true xs : lead true xs = glue xs.
Proof. destruct xs; reflexivity. Qed.

Lemma split_on_cons c x s :
  split_on c (x :: s) =
  match split_on c s with
  | [] => [[]]
  | h :: t => if x =? c then [] :: h :: t else (x :: h) :: t
  end.
Proof. reflexivity. Qed.

(** what Clean's loop writes is a function of the non-empty components of what it reads *)
Lemma clean_loop_comps s :
  (forall r, clean_loop true true s = Some r ->
             exists h t, split_on c_slash s = h :: t /\ r = h ++ glue (ne t)) /\
  (forall hv r, clean_loop false hv s = Some r -> r = lead hv (ne (split_on c_slash s))).
Proof.
  induction s as [|c s [IH1 IH2]].
  - split.
    + intros r H. inversion H. exists [], []. split; reflexivity.
    + intros hv r H. inversion H. reflexivity.
  - split.
    + intros r H. rewrite clean_loop_cons in H.
      destruct (c =? c_colon); [discriminate|].
      rewrite split_on_cons.
      destruct (N.eqb_spec c c_slash) as [->|Hc].
      * apply IH2 in H. destruct (split_on c_slash s) as [|h t] eqn:E.
        { exfalso. revert E. clear. destruct s; simpl; [discriminate|]. destruct (split_on c_slash s); [discriminate|].
          destruct (n =? c_slash); discriminate. }
        exists [], (h :: t). split; [reflexivity|]. rewrite H, lead_true. reflexivity.
      * apply option_map_some in H. destruct H as (r' & H & ->).
        destruct (IH1 _ H) as (h & t & E & ->). rewrite E.
        exists (c :: h), t. split; reflexivity.
    + intros hv r H. rewrite clean_loop_cons in H.
      destruct (c =? c_colon); [discriminate|].
      rewrite split_on_cons.
      destruct (N.eqb_spec c c_slash) as [->|Hc].
      * apply IH2 in H. destruct (split_on c_slash s) as [|h t] eqn:E.
        { exfalso. revert E. clear. destruct s; simpl; [discriminate|]. destruct (split_on c_slash s); [discriminate|].
          destruct (n =? c_slash); discriminate. }
        rewrite H. reflexivity.
      * destruct (dot_elem (c :: s)); [discriminate|].
        apply option_map_some in H. destruct H as (r' & H & ->).
        destruct (IH1 _ H) as (h & t & E & ->). rewrite E.
        unfold ne, lead. simpl. try rewrite <- app_assoc. reflexivity.
Qed.

(** a package as the loader holds it: absolute, and a fixed point of label.Clean (what Parse, Join and
    RelativeTo produce) *)
Definition wf_pkg (p : str) : Prop := rooted p = true /\ clean p = Some p.

Lemma wf_pkg_shape p :
  wf_pkg p -> p = c_slash :: c_slash :: lead false (ne (split_on c_slash (skipn 2 p))).
Proof.
  intros [R C]. destruct (rooted_inv _ R) as (t & ->).
  rewrite clean_unfold, R in C. apply option_map_some in C. destruct C as (r & C & E).
  simpl skipn in *. inversion E; subst r.
  f_equal. f_equal. exact (proj2 (clean_loop_comps t) false t C).
Qed.

Lemma wf_pkg_split p :
  wf_pkg p -> split_pkg p = [c_slash; c_slash] :: ne (split_on c_slash (skipn 2 p)).
Proof. intros [R _]. unfold split_pkg. rewrite R. reflexivity. Qed.

(** the package is determined by its components *)
Lemma wf_pkg_inj p q : wf_pkg p -> wf_pkg q -> tl (split_pkg p) = tl (split_pkg q) -> p = q.
Proof.
  intros Hp Hq E. rewrite (wf_pkg_split _ Hp), (wf_pkg_split _ Hq) in E. cbn [tl] in E.
  rewrite (wf_pkg_shape _ Hp), (wf_pkg_shape _ Hq), E. reflexivity.
Qed.

Lemma join2_rooted a b p : rooted a = true -> join2 a b = Some p -> rooted p = true.
Proof.
  intros R. destruct (rooted_inv _ R) as (t & ->). unfold join2.
  assert (G : forall x, clean (c_slash :: c_slash :: x) = Some p -> rooted p = true).
  { intros x H. rewrite clean_unfold, rooted_ss in H. apply option_map_some in H.
    destruct H as (r & _ & ->). apply rooted_ss. }
  destruct b; intros H; eapply G; exact H.
Qed.

Definition wf_key (k : label) : Prop :=
  wf_pkg (l_package k) /\ l_kind k = module_kind /\ l_name k <> [].

Lemma name_or_build_nonempty n : name_or_build n <> [].
Proof. destruct n; discriminate. Qed.

Lemma name_or_build_id n : n <> [] -> name_or_build n = n.
Proof. destruct n; [congruence|reflexivity]. Qed.

(** [module_key] unfolded once *)
Lemma module_key_inv reqs cur raw k :
  module_key reqs cur raw = KKey k ->
  exists l p r, parse raw = Some l /\
    relative_to (mkLabel (l_kind l) p (l_package l) (l_name l)) (l_package cur) = Some r /\
    k = mkLabel module_kind (l_project r) (l_package r) (name_or_build (l_name r)).
Proof.
  unfold module_key. destruct (parse raw) as [l|]; [|discriminate].
  set (pr := match l_project l with [] => Some (l_project cur) | _ :: _ => _ end).
  destruct pr as [p|]; [|discriminate].
  destruct (relative_to _ _) as [r|] eqn:E; [|discriminate].
  intros H. inversion H. exists l, p, r. auto.
Qed.

(** the key of a load statement executed by a module whose package is well formed is well formed *)
Lemma key_wf reqs cur raw k :
  wf_pkg (l_package cur) -> module_key reqs cur raw = KKey k -> wf_key k.
Proof.
  intros [Rc Cc] H. destruct (module_key_inv _ _ _ _ H) as (l & p & r & P & Rl & ->).
  pose proof (parse_wf _ _ P) as (_ & _ & _ & Cl & _).
  unfold wf_key; simpl. split; [|split; [reflexivity|apply name_or_build_nonempty]].
  unfold relative_to, is_abs in Rl; simpl in Rl.
  destruct (rooted (l_package l)) eqn:R.
  - inversion Rl; subst r; simpl. split; assumption.
  - destruct (join2 (l_package cur) (l_package l)) as [q|] eqn:J; [|discriminate].
    inversion Rl; subst r; simpl. split.
    + eapply join2_rooted; eassumption.
    + eapply join2_clean; eassumption.
Qed.

(** Clean's loop accepts or rejects whatever [have] is *)
Lemma clean_loop_have s : forall ie hv hv', clean_loop ie hv s = None -> clean_loop ie hv' s = None.
Proof.
  induction s as [|c s IH]; intros ie hv hv' H; [discriminate|].
  rewrite clean_loop_cons in *.
  destruct (c =? c_colon); [reflexivity|].
  destruct (c =? c_slash); [eapply IH; eassumption|].
  destruct ie; [assumption|].
  destruct (dot_elem (c :: s)); [reflexivity|].
  destruct (clean_loop true true s); [discriminate|reflexivity].
Qed.

Lemma tail_dot_app s x : tail_dot (s ++ c_slash :: x) = tail_dot s.
Proof.
  destruct s as [|b [|d s]]; simpl; reflexivity.
Qed.

(** a string that passes the loop, a slash, and a string that passes the loop from its start: passes *)
Lemma clean_loop_app y : (forall hv, clean_loop false hv y <> None) ->
  forall s ie hv r, clean_loop ie hv s = Some r -> clean_loop ie hv (s ++ c_slash :: y) <> None.
Proof.
  intros Y. induction s as [|c s IH]; intros ie hv r H.
  - simpl app. rewrite clean_loop_cons.
    replace (c_slash =? c_colon) with false by reflexivity. rewrite N.eqb_refl. apply Y.
  - simpl app. rewrite clean_loop_cons in *.
    destruct (c =? c_colon); [discriminate|].
    destruct (c =? c_slash); [eapply IH; eassumption|].
    destruct ie.
    + destruct (clean_loop true true s) as [r'|] eqn:E; [|discriminate].
      specialize (IH true true _ E).
      destruct (clean_loop true true (s ++ c_slash :: y)); [discriminate|congruence].
    + rewrite dot_elem_eq, tail_dot_app, <- dot_elem_eq.
      destruct (dot_elem (c :: s)); [discriminate|].
      destruct (clean_loop true true s) as [r'|] eqn:E; [|discriminate].
      specialize (IH true true _ E).
      destruct (clean_loop true true (s ++ c_slash :: y)); [discriminate|congruence].
Qed.

(** RelativeTo cannot fail there, so the nil label is never dereferenced *)
Lemma key_no_panic reqs cur raw : wf_pkg (l_package cur) -> module_key reqs cur raw <> KPanic.
Proof.
  intros [Rc Cc]. unfold module_key. destruct (parse raw) as [l|] eqn:P; [|discriminate].
  set (pr := match l_project l with [] => Some (l_project cur) | _ :: _ => _ end).
  destruct pr as [p|]; [|discriminate].
  destruct (relative_to _ _) as [r|] eqn:E; [discriminate|]. exfalso.
  pose proof (parse_wf _ _ P) as (_ & _ & _ & Cl & _).
  unfold relative_to, is_abs in E; simpl in E.
  destruct (rooted (l_package l)) eqn:Rl; [discriminate|].
  destruct (join2 (l_package cur) (l_package l)) as [q|] eqn:J; [discriminate|].
  clear E. unfold join2 in J. destruct (rooted_inv _ Rc) as (t & Et). rewrite Et in J.
  destruct (l_package l) as [|d b] eqn:Eb.
  - rewrite <- Et, Cc in J. discriminate.
  - rewrite clean_unfold in J. simpl app in J. rewrite rooted_ss in J. simpl skipn in J.
    rewrite clean_unfold, Et, rooted_ss in Cc. simpl skipn in Cc.
    apply option_map_some in Cc. destruct Cc as (r1 & C1 & _).
    destruct (clean_loop false false (t ++ c_slash :: d :: b)) eqn:E1; [discriminate|].
    destruct (clean_some _ _ Cl) as [[Q _]|[(r0 & Q & _)|(d' & r' & Q & Hd & C2 & _)]];
      [discriminate | rewrite Q, rooted_ss in Rl; discriminate |].
    revert E1. eapply clean_loop_app; [|exact C1].
    intros hv N. apply (clean_loop_have _ false hv false) in N. congruence.
Qed.

(** two well-formed keys that stand for the same file are the same label *)
Lemma module_file_inj k1 k2 :
  wf_key k1 -> wf_key k2 -> module_file k1 = module_file k2 -> k1 = k2.
Proof.
  intros (W1 & K1 & N1) (W2 & K2 & N2). unfold module_file.
  pose proof (wf_pkg_split _ W1) as S1. pose proof (wf_pkg_split _ W2) as S2.
  pose proof (wf_pkg_inj _ _ W1 W2) as I. rewrite S1, S2 in *. simpl in I.
  rewrite (name_or_build_id _ N1), (name_or_build_id _ N2).
  intros E. inversion E as [[Ep Ec]]. apply app_inj_tail in Ec. destruct Ec as [Ec En].
  destruct k1, k2; simpl in *. subst. rewrite (I Ec). reflexivity.
Qed.

Lemma t_one_key_per_file reqs1 reqs2 cur1 cur2 raw1 raw2 k1 k2 :
  wf_pkg (l_package cur1) -> wf_pkg (l_package cur2) ->
  module_key reqs1 cur1 raw1 = KKey k1 -> module_key reqs2 cur2 raw2 = KKey k2 ->
  module_file k1 = module_file k2 -> k1 = k2 /\ to_string k1 = to_string k2.
Proof.
  intros W1 W2 H1 H2 E.
  assert (k1 = k2) by (eapply module_file_inj; eauto using key_wf). subst. auto.
Qed.

(** the invariant is established by loadPackage ("//" joined with directory names) and kept by every load *)
Lemma t_key_keeps_wf reqs cur raw k :
  wf_pkg (l_package cur) -> module_key reqs cur raw = KKey k ->
  wf_pkg (l_package k) /\ l_kind k = module_kind /\ l_name k <> [] /\ module_file k <> None.
Proof.
  intros W H. destruct (key_wf _ _ _ _ W H) as (Wk & Kk & Nk).
  repeat split; try assumption; try apply Wk.
  unfold module_file. rewrite (wf_pkg_split _ Wk). discriminate.
Qed.

Lemma root_pkg_wf : wf_pkg [c_slash; c_slash].
Proof. split; reflexivity. Qed.

Lemma join_pkg_wf a b p : wf_pkg a -> join2 a b = Some p -> wf_pkg p.
Proof. intros [R _] J. split; [eapply join2_rooted; eassumption | eapply join2_clean; eassumption]. Qed.

(** once per registry key (Loader/Final.v) and one key per file give once per file *)
From Coq Require FinFun.
From Dawn Require Loader.Model Loader.Final.

Lemma t_file_executed_at_most_once (F : Type) (file_of : Loader.Model.label -> F) :
  (forall a b, file_of a = file_of b -> a = b) ->
  forall loads bad roots s, Loader.Model.reachable loads bad roots s ->
    NoDup (map file_of (Loader.Model.execs s)).
Proof.
  intros Inj loads bad roots s R.
  apply FinFun.Injective_map_NoDup; [exact Inj|].
  eapply Loader.Final.t_executed_at_most_once; eassumption.
Qed.
