(** C06 proofs, part 1: the step function as an inductive relation, basic facts about updates. *)
From Coq Require Import List Arith Bool Lia.
From Dawn Require Import Loader.Model.
Import ListNotations.

Lemma upd_same : forall A (f : nat -> A) k v, upd f k v k = v.
Proof. intros. unfold upd. now rewrite Nat.eqb_refl. Qed.

Lemma upd_other : forall A (f : nat -> A) k v x, x <> k -> upd f k v x = f x.
Proof. intros. unfold upd. destruct (Nat.eqb_spec x k); congruence. Qed.

Lemma memb_In : forall x l, memb x l = true <-> In x l.
Proof.
  intros. unfold memb. rewrite existsb_exists. split.
  - intros [y [Hy He]]. apply Nat.eqb_eq in He. now subst.
  - intros. exists x. split; auto. apply Nat.eqb_refl.
Qed.

Lemma memb_nIn : forall x l, memb x l = false <-> ~ In x l.
Proof.
  intros. rewrite <- memb_In. destruct (memb x l); split; intros; congruence.
Qed.

Definition E (s : state) (m : label) : option label := loading (mods s m).
Definition T (s : state) (tid : nat) : thread := thr s tid.
Definition labels (s : state) (tid : nat) : list label := map fst (stack (thr s tid)).

Section Step.
Variable loads : label -> list label.
Variable bad : label -> bool.

Inductive kstep (s : state) (tid : nat) : state -> Prop :=
| KStartHit : forall r, ph (thr s tid) = PStart r -> In r (registry s) ->
    kstep s tid (set_thr s tid (mkT [] (PWait r)))
| KStartMiss : forall r, ph (thr s tid) = PStart r -> ~ In r (registry s) ->
    kstep s tid (set_thr (add_exec (add_reg s r) r) tid (mkT [(r, loads r)] PExec))
| KDone : forall m rest, ph (thr s tid) = PExec -> stack (thr s tid) = (m, []) :: rest ->
    kstep s tid (set_thr (set_done s m (negb (bad m))) tid (mkT rest (after_pop rest (negb (bad m)))))
| KFail : forall m ls rest, ph (thr s tid) = PFail -> stack (thr s tid) = (m, ls) :: rest ->
    kstep s tid (set_thr (set_done s m false) tid (mkT rest (after_pop rest false)))
| KHit : forall m t ls rest, ph (thr s tid) = PExec -> stack (thr s tid) = (m, t :: ls) :: rest ->
    In t (registry s) ->
    kstep s tid (set_thr s tid (mkT ((m, ls) :: rest) (PHitEdge t)))
| KMiss : forall m t ls rest, ph (thr s tid) = PExec -> stack (thr s tid) = (m, t :: ls) :: rest ->
    ~ In t (registry s) ->
    kstep s tid (set_thr (add_reg s t) tid (mkT ((m, ls) :: rest) (PMissEdge t)))
| KMissEdge : forall t m ls rest, ph (thr s tid) = PMissEdge t -> stack (thr s tid) = (m, ls) :: rest ->
    kstep s tid (set_thr (add_exec (set_loading s m (Some t)) t) tid
                         (mkT ((t, loads t) :: (m, ls) :: rest) PExec))
| KHitEdge : forall t m ls rest, ph (thr s tid) = PHitEdge t -> stack (thr s tid) = (m, ls) :: rest ->
    kstep s tid (set_thr (set_loading s m (Some t)) tid (mkT ((m, ls) :: rest) (PWalk t t [])))
| KWalkNone : forall t cur seen m ls rest, ph (thr s tid) = PWalk t cur seen ->
    stack (thr s tid) = (m, ls) :: rest -> E s cur = None ->
    kstep s tid (set_thr s tid (mkT ((m, ls) :: rest) (PWait t)))
| KWalkCycle : forall t cur seen m ls rest, ph (thr s tid) = PWalk t cur seen ->
    stack (thr s tid) = (m, ls) :: rest -> E s cur = Some m ->
    kstep s tid (set_thr s tid (mkT ((m, ls) :: rest) (PRet false)))
| KWalkSeen : forall t cur seen m ls rest l, ph (thr s tid) = PWalk t cur seen ->
    stack (thr s tid) = (m, ls) :: rest -> E s cur = Some l -> l <> m -> In l seen ->
    kstep s tid (set_thr s tid (mkT ((m, ls) :: rest) (PWait t)))
| KWalkHop : forall t cur seen m ls rest l, ph (thr s tid) = PWalk t cur seen ->
    stack (thr s tid) = (m, ls) :: rest -> E s cur = Some l -> l <> m -> ~ In l seen ->
    kstep s tid (set_thr s tid (mkT ((m, ls) :: rest) (PWalk t l (l :: seen))))
| KWokenRoot : forall t, ph (thr s tid) = PWait t -> stack (thr s tid) = [] -> loaded (mods s t) = true ->
    kstep s tid (set_thr s tid (mkT [] PFin))
| KWoken : forall t m ls rest, ph (thr s tid) = PWait t -> stack (thr s tid) = (m, ls) :: rest ->
    loaded (mods s t) = true ->
    kstep s tid (set_thr s tid (mkT ((m, ls) :: rest) (PRet (okres (mods s t)))))
| KRet : forall r m ls rest, ph (thr s tid) = PRet r -> stack (thr s tid) = (m, ls) :: rest ->
    kstep s tid (set_thr (set_loading s m None) tid (mkT ((m, ls) :: rest) (if r then PExec else PFail))).

Lemma step_kstep : forall s tid s', step loads bad s tid = Some s' -> tid < nthr s /\ kstep s tid s'.
Proof.
  intros s tid s' H. unfold step, step_ev in H.
  destruct (Nat.ltb_spec tid (nthr s)) as [Hlt|Hge]; cbn [negb] in H; [|discriminate].
  split; [assumption|].
  destruct (ph (thr s tid)) eqn:Hph.
  - destruct (memb r (registry s)) eqn:Hm; cbn in H; injection H as <-.
    + apply KStartHit; auto. now apply memb_In.
    + apply KStartMiss; auto. now apply memb_nIn.
  - destruct (stack (thr s tid)) as [|[m [|t ls]] rest] eqn:Hst; cbn in H; try discriminate.
    + injection H as <-. eapply KDone; eauto.
    + destruct (memb t (registry s)) eqn:Hm; cbn in H; injection H as <-.
      * eapply KHit; eauto. now apply memb_In.
      * eapply KMiss; eauto. now apply memb_nIn.
  - destruct (stack (thr s tid)) as [|[m ls] rest] eqn:Hst; cbn in H; try discriminate.
    injection H as <-. eapply KFail; eauto.
  - destruct (stack (thr s tid)) as [|[m ls] rest] eqn:Hst; cbn in H; try discriminate.
    injection H as <-. eapply KMissEdge; eauto.
  - destruct (stack (thr s tid)) as [|[m ls] rest] eqn:Hst; cbn in H; try discriminate.
    injection H as <-. eapply KHitEdge; eauto.
  - destruct (stack (thr s tid)) as [|[m ls] rest] eqn:Hst; cbn in H; try discriminate.
    destruct (loading (mods s cur)) as [l|] eqn:Hl.
    + destruct (Nat.eqb_spec l m) as [->|Hne]; cbn in H.
      * injection H as <-. eapply KWalkCycle; eauto.
      * destruct (memb l seen) eqn:Hm; cbn in H; injection H as <-.
        -- eapply KWalkSeen; eauto. now apply memb_In.
        -- eapply KWalkHop; eauto. now apply memb_nIn.
    + cbn in H. injection H as <-. eapply KWalkNone; eauto.
  - destruct (loaded (mods s t)) eqn:Hld; [|discriminate].
    destruct (stack (thr s tid)) as [|[m ls] rest] eqn:Hst; cbn in H; injection H as <-.
    + eapply KWokenRoot; eauto.
    + eapply KWoken; eauto.
  - destruct (stack (thr s tid)) as [|[m ls] rest] eqn:Hst; cbn in H; try discriminate.
    injection H as <-. eapply KRet; eauto.
  - discriminate.
Qed.

(** enabledness, by phase *)
Lemma step_enabled : forall s tid, tid < nthr s ->
  stack (thr s tid) <> [] ->
  match ph (thr s tid) with PExec | PFail | PMissEdge _ | PHitEdge _ | PWalk _ _ _ | PRet _ => True | _ => False end ->
  step loads bad s tid <> None.
Proof.
  intros s tid Hlt Hst Hph. unfold step, step_ev.
  destruct (Nat.ltb_spec tid (nthr s)); [|lia]. cbn [negb].
  destruct (stack (thr s tid)) as [|[m ls] rest]; [congruence|].
  destruct (ph (thr s tid)); try contradiction; cbn; try discriminate.
  - destruct ls; [discriminate|]. destruct (memb l (registry s)); discriminate.
  - destruct (loading (mods s cur)); [|discriminate].
    destruct (Nat.eqb l m); [discriminate|]. destruct (memb l seen); discriminate.
Qed.

Lemma step_enabled_start : forall s tid r, tid < nthr s -> ph (thr s tid) = PStart r -> step loads bad s tid <> None.
Proof.
  intros s tid r Hlt Hph. unfold step, step_ev.
  destruct (Nat.ltb_spec tid (nthr s)); [|lia]. cbn [negb]. rewrite Hph.
  destruct (memb r (registry s)); discriminate.
Qed.

Lemma step_enabled_wait : forall s tid t, tid < nthr s -> ph (thr s tid) = PWait t -> loaded (mods s t) = true ->
  step loads bad s tid <> None.
Proof.
  intros s tid t Hlt Hph Hl. unfold step, step_ev.
  destruct (Nat.ltb_spec tid (nthr s)); [|lia]. cbn [negb]. rewrite Hph, Hl.
  destruct (stack (thr s tid)) as [|[m ls] rest]; discriminate.
Qed.

End Step.
