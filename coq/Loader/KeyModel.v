(** C06 — the registry key of a load() statement and the file it stands for.

    The loader's registry (project.go loadModule: [proj.modules[label.String()]]) is keyed by a label; the property
    speaks about module FILES.  This file models the two functions that connect the two:
      - [module_key reqs cur raw]: the method loadModule of module in module.go — the label under which the load statement
        [load(raw, ...)], executed by the module with label [cur] whose project has the requirements [reqs]
        (alias -> project path), is registered, waited for and executed;
      - [module_file k]: Project.fetchModule in module_fetch.go — the file that is executed for a registered
        label: the project whose tree holds it ("" = the project being loaded) and the path elements below that
        project's root (package components, then the file name).
    Go panics are explicit outcomes ([KPanic], [None] of [module_file]).  No proofs in this file. *)
From Dawn Require Import Base.Bytes Label.Model.

Definition module_kind : str := [109; 111; 100; 117; 108; 101].                 (* "module" *)
Definition build_name : str := [66; 85; 73; 76; 68; 46; 100; 97; 119; 110].     (* "BUILD.dawn" *)

(** label.IsAlias: the project part has no '/' *)
Definition is_alias (p : str) : bool := negb (contains_byte c_slash p).

Fixpoint assoc (reqs : list (str * str)) (a : str) : option str :=
  match reqs with
  | [] => None
  | (k, v) :: r => if str_eqb k a then Some v else assoc r a
  end.

Inductive key_res :=
| KErr                 (* loadModule returns an error before anything is registered *)
| KPanic               (* label.RelativeTo fails and its nil result is dereferenced *)
| KKey (k : label).

Definition name_or_build (n : str) : str := match n with [] => build_name | _ => n end.

Definition module_key (reqs : list (str * str)) (cur : label) (raw : str) : key_res :=
  match parse raw with
  | None => KErr
  | Some l =>
      let proj :=
        match l_project l with
        | [] => Some (l_project cur)
        | p => if is_alias p then assoc reqs p else Some p
        end in
      match proj with
      | None => KErr                                    (* no project with that alias *)
      | Some p =>
          match relative_to (mkLabel (l_kind l) p (l_package l) (l_name l)) (l_package cur) with
          | None => KPanic
          | Some r => KKey (mkLabel module_kind (l_project r) (l_package r) (name_or_build (l_name r)))
          end
      end
  end.

(** fetchModule: [label.Split(l.Package)[1:]] panics when Split returns nothing (an empty package) *)
Definition module_file (k : label) : option (str * list str) :=
  match split_pkg (l_package k) with
  | [] => None
  | _ :: comps => Some (l_project k, comps ++ [name_or_build (l_name k)])
  end.

(** ** correspondence cases (checks/C06.py, harness zz_verif_c06_key_test.go) *)

Inductive key_obs :=
| OErr
| OPanic
| OKey (key : str) (file : option (str * str)).   (* label.String() of the registered label; project and
                                                      slash-joined path of the file below the project root *)

Record kcase := mkK { k_reqs : list (str * str); k_cur : label; k_raw : str; k_obs : key_obs }.

Definition check_kcase (c : kcase) : bool :=
  match module_key (k_reqs c) (k_cur c) (k_raw c), k_obs c with
  | KErr, OErr => true
  | KPanic, OPanic => true
  | KKey k, OKey s f =>
      str_eqb (to_string k) s &&
      match f with
      | None => true
      | Some (p, rel) =>
          (* a file name "." or ".." names a directory, and filepath.Join folds it into the path: no module file *)
          if is_dot (name_or_build (l_name k)) || is_dotdot (name_or_build (l_name k)) then true else
          match module_file k with
          | Some (p', elems) => str_eqb p p' && str_eqb (join_with c_slash elems) rel
          | None => false
          end
      end
  | _, _ => false
  end.

Definition key_mismatches (cs : list (N * kcase)) : list N :=
  map fst (filter (fun ic => negb (check_kcase (snd ic))) cs).
