(** C06 proofs, part 7: with an acyclic load graph whose reachable modules do not fail by themselves no error is
    ever produced. *)
From Coq Require Import List Arith Bool Lia.
From Dawn Require Import Loader.Model Loader.Step Loader.InvReg Loader.InvStk Loader.Graph.
Import ListNotations.

Arguments upd : simpl never.

Section NoErr.
Variable loads : label -> list label.
Variable bad : label -> bool.
Variable roots : list label.
Hypothesis Hacyc : acyclic loads roots.
Hypothesis Hgood : forall m, from_roots loads roots m -> bad m = false.

Definition noerr_ph (p : phase) : Prop := p <> PFail /\ p <> PRet false.

Record inv_noerr (s : state) : Prop := {
  n_ok : forall m, okres (mods s m) = true;
  n_ph : forall tid, noerr_ph (ph (thr s tid))
}.

Lemma inv_noerr_init : inv_noerr (init roots).
Proof.
  constructor; [reflexivity|].
  intros tid. destruct (init_thread roots tid) as [[r [_ ->]]|[_ ->]]; split; discriminate.
Qed.

Lemma inv_noerr_step : forall s tid s', inv_noerr s -> inv_g loads roots s -> inv_stk s -> inv_reg s ->
  kstep loads bad s tid s' -> inv_noerr s'.
Proof.
  intros s tid s' [Nok Nph] IG IS IR K.
  assert (Hthr : forall (s0 : state) T0, thr s0 = thr s -> noerr_ph (ph T0) ->
                 forall i, noerr_ph (ph (upd (thr s0) tid T0 i))).
  { intros s0 T0 Hs0 HT i. destruct (Nat.eq_dec i tid) as [->|Hne]; [now rewrite upd_same|].
    rewrite upd_other by auto. rewrite Hs0. apply Nph. }
  assert (Hpop : forall rest, noerr_ph (after_pop rest true)).
  { intros rest. destruct (after_pop_cases rest true) as [-> | ->]; split; discriminate. }
  pose proof (Nph tid) as [Hnf Hnr].
  destruct K.
  all: try (constructor; proj_simpl; [exact Nok|apply Hthr; auto; split; discriminate]).
  - (* KDone: the module is one the packages reach, so its own code does not fail *)
    assert (Hb : bad m = false).
    { apply Hgood. apply (g_reg _ _ _ IG). eapply i_exreg; eauto.
      eapply s_stex with (tid := tid); eauto. rewrite (labels_top _ _ _ _ _ H0). left; auto. }
    rewrite Hb. cbn [negb]. constructor; proj_simpl.
    + intros m0. unfold set_done, upd. cbn. destruct (Nat.eqb m0 m); auto.
    + apply (Hthr (set_done s m true)); auto. apply Hpop.
  - (* KFail *) congruence.
  - (* KMissEdge *) constructor; proj_simpl.
    + intros m0. unfold upd. destruct (Nat.eqb m0 m); cbn; auto.
    + apply (Hthr (add_exec (set_loading s m (Some t)) t)); auto. split; discriminate.
  - (* KHitEdge *) constructor; proj_simpl.
    + intros m0. unfold upd. destruct (Nat.eqb m0 m); cbn; auto.
    + apply (Hthr (set_loading s m (Some t))); auto. split; discriminate.
  - (* KWalkCycle: the chain read so far is a path of the load graph from m back to m *)
    exfalso.
    destruct (g_thr _ _ _ IG tid) as (_ & _ & G3 & _).
    assert (Hg : gplus loads m m).
    { eapply gplus_snoc; [eapply G3; eauto|]. apply (g_edge _ _ _ IG); auto. }
    apply (Hacyc m); auto. apply (g_reg _ _ _ IG). eapply i_exreg; eauto.
    eapply s_stex with (tid := tid); eauto. rewrite (labels_top _ _ _ _ _ H0). left; auto.
  - (* KWoken *) constructor; proj_simpl; [exact Nok|]. apply Hthr; auto. rewrite Nok. split; discriminate.
  - (* KRet *) destruct r; [|congruence]. constructor; proj_simpl.
    + intros m0. unfold upd. destruct (Nat.eqb m0 m); cbn; auto.
    + apply (Hthr (set_loading s m None)); auto. split; discriminate.
Qed.

End NoErr.
