(** C06 proofs, part 5: the combined invariant holds in every reachable state; deadlock freedom. *)
From Coq Require Import List Arith Bool Lia.
From Dawn Require Import Loader.Model Loader.Step Loader.InvReg Loader.InvStk Loader.Cycle.
Import ListNotations.

Arguments upd : simpl never.

Section Deadlock.
Variable loads : label -> list label.
Variable bad : label -> bool.

Lemma inv_cycle_step : forall s tid s', inv_reg s -> inv_stk s -> inv_cycle s -> kstep loads bad s tid s' -> inv_cycle s'.
Proof.
  intros s tid s' IR IS IC K.
  assert (Hoth : forall T0 i, i <> tid -> upd (thr s) tid T0 i = thr s i) by (intros; now rewrite upd_other).
  destruct K.
  - eapply cyc_frame with (tid := tid); eauto; proj_simpl; auto; intros; congruence.
  - eapply cyc_frame with (tid := tid); eauto; proj_simpl; auto; intros; congruence.
  - eapply cyc_frame with (tid := tid); eauto; proj_simpl; auto; try (intros; congruence).
    intros x. rewrite E_set_thr. apply E_set_done.
  - eapply cyc_frame with (tid := tid); eauto; proj_simpl; auto; try (intros; congruence).
    intros x. rewrite E_set_thr. apply E_set_done.
  - eapply cyc_frame with (tid := tid); eauto; proj_simpl; auto; intros; congruence.
  - eapply cyc_frame with (tid := tid); eauto; proj_simpl; auto; intros; congruence.
  - (* KMissEdge *)
    destruct (i_miss _ IR _ _ H) as [_ Hte]. destruct (fresh_facts _ _ IS Hte) as [Htl [_ HtE]].
    pose proof (s_top _ IS _ _ _ _ H0) as Ht. rewrite H in Ht. cbn in Ht.
    match goal with |- inv_cycle ?S => set (s' := S) end.
    assert (HE : forall x, E s' x = if Nat.eqb x m then Some t else E s x).
    { intros x. unfold s'. rewrite E_set_thr. apply (E_set_loading s m (Some t) x). }
    assert (Hthr : thr s' tid = mkT ((t, loads t) :: (m, ls) :: rest) PExec).
    { unfold s'. proj_simpl. now rewrite upd_same. }
    assert (Ho : forall i, i <> tid -> thr s' i = thr s i) by (intros; unfold s'; proj_simpl; auto).
    apply (cyc_set s tid m ls rest t _ _ s' IC H0 Ht HE Ho Hthr).
    + intros; congruence.
    + intros; congruence.
    + right. split; auto. intros ->. apply (Htl tid). rewrite (labels_top _ _ _ _ _ H0). left; auto.
  - (* KHitEdge *)
    pose proof (s_top _ IS _ _ _ _ H0) as Ht. rewrite H in Ht. cbn in Ht.
    match goal with |- inv_cycle ?S => set (s' := S) end.
    assert (HE : forall x, E s' x = if Nat.eqb x m then Some t else E s x).
    { intros x. unfold s'. rewrite E_set_thr. apply E_set_loading. }
    assert (Hthr : thr s' tid = mkT ((m, ls) :: rest) (PWalk t t [])).
    { unfold s'. proj_simpl. now rewrite upd_same. }
    assert (Ho : forall i, i <> tid -> thr s' i = thr s i) by (intros; unfold s'; proj_simpl; auto).
    apply (cyc_set s tid m ls rest t _ _ s' IC H0 Ht HE Ho Hthr).
    + intros; congruence.
    + intros; congruence.
    + left. auto.
  - eapply cyc_walk; eauto.
  - eapply cyc_walk; eauto.
  - eapply cyc_walk; eauto. right; right; left. eauto.
  - eapply cyc_walk; eauto. right; right; right. eauto.
  - eapply cyc_frame with (tid := tid); eauto; proj_simpl; auto; intros; congruence.
  - eapply cyc_frame with (tid := tid); eauto; proj_simpl; auto; intros; congruence.
  - (* KRet *)
    match goal with |- inv_cycle ?S => set (s' := S) end.
    assert (HE : forall x, E s' x = if Nat.eqb x m then None else E s x).
    { intros x. unfold s'. rewrite E_set_thr. apply E_set_loading. }
    assert (Ho : forall i, i <> tid -> thr s' i = thr s i) by (intros; unfold s'; proj_simpl; auto).
    exact (cyc_clear s tid m ls rest s' IC H0 HE Ho).
Qed.

Record Inv (s : state) : Prop := { inv_r : inv_reg s; inv_s : inv_stk s; inv_c : inv_cycle s }.

Lemma Inv_reachable : forall roots s, reachable loads bad roots s -> Inv s.
Proof.
  intros roots s R. induction R.
  - constructor; [apply inv_reg_init|apply inv_stk_init|apply inv_cycle_init].
  - destruct IHR as [IR IS IC]. destruct (step_kstep loads bad _ _ _ H) as [Hlt K]. constructor.
    + eapply inv_reg_step; eauto.
    + eapply inv_stk_step; eauto.
    + eapply inv_cycle_step; eauto.
Qed.

(** a function that maps a finite set into itself has a cycle *)
Lemma dup_in_map : forall (f : nat -> label) l, NoDup l -> ~ NoDup (map f l) ->
  exists i j, In i l /\ In j l /\ i <> j /\ f i = f j.
Proof.
  induction l as [|x l IH]; cbn; intros Hnd Hn.
  - exfalso. apply Hn. constructor.
  - inversion Hnd; subst. destruct (in_dec Nat.eq_dec (f x) (map f l)) as [Hin|Hnin].
    + apply in_map_iff in Hin. destruct Hin as [j [Hj Hjl]]. exists x, j. repeat split; auto.
      intros ->. contradiction.
    + destruct IH as (i & j & Hi & Hj & Hij & Hf); auto.
      * intros Hnd'. apply Hn. constructor; auto.
      * exists i, j. auto.
Qed.

Lemma functional_cycle : forall (Ef : label -> option label) (U : list label) a, In a U ->
  (forall x, In x U -> exists y, Ef x = Some y /\ In y U) ->
  exists b n, 1 <= n /\ iter Ef n b = Some b.
Proof.
  intros Ef U a Ha Hcl.
  assert (Horb : forall j, exists x, iter Ef j a = Some x /\ In x U).
  { induction j.
    - exists a. auto.
    - destruct IHj as [x [Hx Hu]]. destruct (Hcl x Hu) as [y [Hy Hyu]]. exists y. rewrite iter_S_r, Hx. auto. }
  set (f := fun j => match iter Ef j a with Some x => x | None => a end).
  assert (Hf : forall j, iter Ef j a = Some (f j)).
  { intros j. unfold f. destruct (Horb j) as [x [Hx _]]. now rewrite Hx. }
  assert (Hfu : forall j, In (f j) U).
  { intros j. destruct (Horb j) as [x [Hx Hu]]. unfold f. now rewrite Hx. }
  set (L := map f (seq 0 (S (length U)))).
  assert (Hn : ~ NoDup L).
  { intros Hnd. assert (Hl : length L <= length U).
    { apply NoDup_incl_length; auto. intros y Hy. unfold L in Hy. apply in_map_iff in Hy.
      destruct Hy as [j [<- _]]. auto. }
    unfold L in Hl. rewrite map_length, seq_length in Hl. lia. }
  destruct (dup_in_map f _ (seq_NoDup _ _) Hn) as (i & j & _ & _ & Hij & Hfe).
  assert (Hw : forall i j, i < j -> f i = f j -> exists b n, 1 <= n /\ iter Ef n b = Some b).
  { intros i0 j0 Hlt He. exists (f i0), (j0 - i0). split; [lia|].
    assert (Hj0 : iter Ef (i0 + (j0 - i0)) a = Some (f j0)) by (replace (i0 + (j0 - i0)) with j0 by lia; apply Hf).
    rewrite iter_add, Hf in Hj0. rewrite Hj0. congruence. }
  destruct (lt_dec i j); [eapply Hw; eauto|]. apply (Hw j i); [lia|auto].
Qed.

Lemma stuck_dec : forall s,
  (exists tid, tid < nthr s /\ step loads bad s tid <> None) \/ (forall tid, tid < nthr s -> step loads bad s tid = None).
Proof.
  intros s. induction (nthr s) as [|n IH].
  - right. intros; lia.
  - destruct IH as [[tid [Hlt He]]|Hn].
    + left. exists tid. split; auto.
    + destruct (step loads bad s n) eqn:Hs.
      * left. exists n. split; [lia|congruence].
      * right. intros tid Hlt. destruct (Nat.eq_dec tid n) as [->|]; auto. apply Hn. lia.
Qed.

Lemma not_final_witness : forall s, ~ final s -> exists tid, tid < nthr s /\ ph (thr s tid) <> PFin.
Proof.
  intros s Hnf. unfold final in Hnf.
  assert (H : forall n, (exists tid, tid < n /\ ph (thr s tid) <> PFin) \/ (forall tid, tid < n -> ph (thr s tid) = PFin)).
  { induction n as [|n IH].
    - right. intros; lia.
    - destruct IH as [[tid [Hlt He]]|Hn].
      + left. exists tid. split; auto.
      + destruct (ph (thr s n)) eqn:Hp; try (left; exists n; split; [lia|congruence]).
        right. intros tid Hlt. destruct (Nat.eq_dec tid n) as [->|]; auto. apply Hn. lia. }
  destruct (H (nthr s)) as [?|Hall]; auto. contradiction.
Qed.

Lemma stuck_phase : forall s tid, inv_stk s -> tid < nthr s -> step loads bad s tid = None ->
  ph (thr s tid) = PFin \/ exists t, ph (thr s tid) = PWait t /\ loaded (mods s t) = false.
Proof.
  intros s tid IS Hlt Hs.
  pose proof (s_shape _ IS tid) as Hsh. unfold shape in Hsh.
  destruct (ph (thr s tid)) eqn:Hp; auto.
  all: try (exfalso; apply (step_enabled loads bad s tid Hlt Hsh); [rewrite Hp; exact I|exact Hs]).
  - exfalso. eapply step_enabled_start; eauto.
  - right. exists t. split; auto. destruct (loaded (mods s t)) eqn:Hl; auto.
    exfalso. eapply step_enabled_wait; eauto.
Qed.

Theorem deadlock_free_inv : forall s, Inv s -> ~ final s -> exists tid, step loads bad s tid <> None.
Proof.
  intros s [IR IS IC] Hnf.
  destruct (stuck_dec s) as [[tid [_ He]]|Hstuck]; [eauto|]. exfalso.
  assert (Hph : forall tid, tid < nthr s ->
            ph (thr s tid) = PFin \/ exists t, ph (thr s tid) = PWait t /\ loaded (mods s t) = false).
  { intros tid Hlt. apply stuck_phase; auto. }
  assert (Hlt_of : forall tid, stack (thr s tid) <> [] -> tid < nthr s).
  { intros tid Hne. destruct (lt_dec tid (nthr s)); auto. exfalso.
    rewrite (s_out _ IS tid) in Hne by lia. cbn in Hne. congruence. }
  set (U := filter (fun m => negb (loaded (mods s m))) (registry s)).
  assert (HU : forall x, In x U <-> In x (registry s) /\ loaded (mods s x) = false).
  { intros x. unfold U. rewrite filter_In. destruct (loaded (mods s x)); cbn; intuition congruence. }
  (* a blocked thread gives an element of U *)
  destruct (not_final_witness s Hnf) as [tid0 [Hlt0 Hnf0]].
  destruct (Hph tid0 Hlt0) as [?|[t0 [Hp0 Hl0]]]; [contradiction|].
  assert (Ht0 : In t0 U). { apply HU. split; auto. apply (s_tgt _ IS tid0). now rewrite Hp0. }
  (* U is closed under the loading edge *)
  assert (Hcl : forall x, In x U -> exists y, E s x = Some y /\ In y U).
  { intros x Hx. apply HU in Hx. destruct Hx as [Hxr Hxl].
    assert (Hxe : In x (execs s)).
    { destruct (i_regex _ IR x Hxr) as [?|[tid Hm]]; auto. exfalso.
      assert (Hlt : tid < nthr s).
      { destruct (lt_dec tid (nthr s)); auto. rewrite (s_out _ IS tid) in Hm by lia. discriminate. }
      destruct (Hph tid Hlt) as [Hf|[t [Hw _]]]; congruence. }
    destruct (s_exld _ IS x Hxe) as [Hl|[tid Hin]]; [congruence|].
    assert (Hne : stack (thr s tid) <> []).
    { unfold labels in Hin. destruct (stack (thr s tid)); [contradiction|discriminate]. }
    pose proof (Hlt_of _ Hne) as Hlt.
    destruct (Hph tid Hlt) as [Hf|[t [Hw Htl]]].
    { pose proof (s_shape _ IS tid) as Hsh. unfold shape in Hsh. rewrite Hf in Hsh. contradiction. }
    destruct (stack (thr s tid)) as [|[m ls] rest] eqn:Hst; [congruence|].
    assert (Hon : forall y, In y (labels s tid) -> In y U).
    { intros y Hy. apply HU. split; [|eapply s_stnl; eauto]. eapply i_exreg; eauto. eapply s_stex; eauto. }
    rewrite (labels_top _ _ _ _ _ Hst) in Hin. destruct Hin as [<-|Hin].
    - exists t. split.
      + pose proof (s_top _ IS _ _ _ _ Hst) as Ht. now rewrite Hw in Ht.
      + apply HU. split; auto. apply (s_tgt _ IS tid). now rewrite Hw.
    - destruct (chain_ok_succ _ _ _ _ (s_chain _ IS _ _ _ _ Hst) Hin) as [m' [Hm' He]].
      exists m'. split; auto. apply Hon. rewrite (labels_top _ _ _ _ _ Hst).
      destruct Hm' as [->|Hm']; [left|right]; auto. }
  destruct (functional_cycle (E s) U t0 Ht0 Hcl) as (b & n & Hn & Hc).
  destruct (IC b n Hn Hc) as (tid & w & ls & rest & j & Hst & _ & Hp).
  assert (Hlt : tid < nthr s) by (apply Hlt_of; rewrite Hst; discriminate).
  destruct (Hph tid Hlt) as [Hf|[t [Hw _]]];
    destruct Hp as [[r Hr]|(t' & c & sn & Hr & _)]; congruence.
Qed.

Theorem deadlock_free : forall roots s, reachable loads bad roots s -> ~ final s -> exists tid, step loads bad s tid <> None.
Proof.
  intros roots s R. apply deadlock_free_inv. eapply Inv_reachable; eauto.
Qed.

Theorem executed_once : forall roots s, reachable loads bad roots s -> NoDup (execs s).
Proof.
  intros roots s R. apply i_exnd. apply (Inv_reachable _ _ R).
Qed.

End Deadlock.
