(** C06 correspondence: replay of verifhook logs by the model, and exhaustive exploration of all schedules of
    tiny configurations (used by the Examples in Props_C06.v). *)
From Coq Require Import List Arith Bool NArith.
From Dawn Require Import Loader.Model.
Import ListNotations.

(** log events, one per verifhook.At call of the loader *)
Inductive lev :=
| LHit (w : option label) (t : label)
| LMiss (w : option label) (t : label)
| LEdgeSet (f t : label)
| LEdgeClear (f : label)
| LHop (w t a : label)
| LCycle (w t : label)
| LWait (w : option label) (t : label)
| LWoken (w : option label) (t : label) (ok : bool)
| LDone (m : label) (ok : bool)
| LExec (m : label).

Definition olab_eqb (a b : option label) : bool :=
  match a, b with
  | None, None => true
  | Some x, Some y => Nat.eqb x y
  | _, _ => false
  end.

Definition event_eqb (a b : event) : bool :=
  match a, b with
  | EHit w t, EHit w' t' => olab_eqb w w' && Nat.eqb t t'
  | EMiss w t, EMiss w' t' => olab_eqb w w' && Nat.eqb t t'
  | EEdgeSet f t _, EEdgeSet f' t' _ => Nat.eqb f f' && Nat.eqb t t'
  | EEdgeClear f, EEdgeClear f' => Nat.eqb f f'
  | EHop w t a, EHop w' t' a' => Nat.eqb w w' && Nat.eqb t t' && Nat.eqb a a'
  | EWalkEnd w t, EWalkEnd w' t' => Nat.eqb w w' && Nat.eqb t t'
  | EWoken w t ok, EWoken w' t' ok' => olab_eqb w w' && Nat.eqb t t' && Bool.eqb ok ok'
  | EDone m ok, EDone m' ok' => Nat.eqb m m' && Bool.eqb ok ok'
  | _, _ => false
  end.

Definition top_label (T : thread) : option label :=
  match stack T with (m, _) :: _ => Some m | [] => None end.

Section Replay.
Variable loads : label -> list label.
Variable bad : label -> bool.

Definition expect (s : state) (tid : nat) (e : event) : option state :=
  match step_ev loads bad s tid with
  | Some (s', e') => if event_eqb e e' then Some s' else None
  | None => None
  end.

Definition replay1 (s : state) (tid : nat) (l : lev) : option state :=
  let T := thr s tid in
  match l with
  | LHit w t => expect s tid (EHit w t)
  | LMiss w t => expect s tid (EMiss w t)
  | LEdgeSet f t => expect s tid (EEdgeSet f t false)
  | LEdgeClear f => expect s tid (EEdgeClear f)
  | LHop w t a => expect s tid (EHop w t a)
  | LWoken w t ok => expect s tid (EWoken w t ok)
  | LDone m ok => expect s tid (EDone m ok)
  | LExec m =>
      (* module.exec(m): the goroutine has just entered m.load: m is its top frame, nothing of it consumed yet *)
      match ph T, stack T with
      | PExec, (m', ls) :: _ =>
          if Nat.eqb m m' && Nat.eqb (length ls) (length (loads m)) then Some s else None
      | _, _ => None
      end
  | LCycle w t =>
      match ph T with
      | PRet false => if olab_eqb (top_label T) (Some w) then Some s else None
      | _ => None
      end
  | LWait w t =>
      (* module.wait is logged after the walk, before m.m is taken: if the model thread is still walking, the
         walk ended because getLoading returned nil; otherwise the walk ended on an already seen module *)
      match ph T with
      | PWalk _ _ _ => match w with Some w' => expect s tid (EWalkEnd w' t) | None => None end
      | PWait t' => if Nat.eqb t t' && olab_eqb (top_label T) w then Some s else None
      | _ => None
      end
  end.

(** returns the final state, or the index of the first rejected event *)
Fixpoint replay (s : state) (log : list (nat * lev)) (pos : nat) : state + nat :=
  match log with
  | [] => inl s
  | (tid, l) :: log' =>
      match replay1 s tid l with
      | Some s' => replay s' log' (S pos)
      | None => inr pos
      end
  end.

End Replay.

Definition subset (a b : list label) : bool := forallb (fun x => memb x b) a.

Record case := mkCase {
  c_graph : list (label * list label);
  c_roots : list label;
  c_bad : list label;          (* modules that fail by themselves (their graph entry = the loads run before that) *)
  c_log : list (nat * lev);
  c_ok : bool;                 (* Load returned nil *)
  c_execs : list label         (* labels with a ModuleLoading event *)
}.

(** 0 = accepted; k+1 = log event k rejected; 100000 = not final at the end of the log; 100001 = Load's
    result differs; 100002 = executed set differs *)
Definition check_case (c : case) : N :=
  let loads := loads_of (c_graph c) in
  match replay loads (fun m => memb m (c_bad c)) (init (c_roots c)) (c_log c) 0 with
  | inr k => N.of_nat (S k)
  | inl s =>
      if negb (finalb s) then 100000%N
      else if negb (Bool.eqb (load_ok s) (c_ok c)) then 100001%N
      else if negb (subset (execs s) (c_execs c) && subset (c_execs c) (execs s)
                    && Nat.eqb (length (execs s)) (length (c_execs c))) then 100002%N
      else 0%N
  end.

Definition mismatches (cs : list (N * case)) : list N :=
  map fst (filter (fun ic => negb (N.eqb (check_case (snd ic)) 0%N)) cs).

(** where and why each rejected case was rejected (for the replay file) *)
Definition verdicts (cs : list (N * case)) : list N :=
  flat_map (fun ic => match check_case (snd ic) with 0%N => [] | k => [fst ic; k] end) cs.

(** exhaustive exploration of every schedule (tiny configurations only): [all_runs fuel P s] holds iff every
    maximal run from [s] ends within [fuel] steps in a final state satisfying P (a stuck non-final state, i.e. a
    deadlock, makes it false). *)
Fixpoint all_runs (loads : label -> list label) (bad : label -> bool) (fuel : nat) (P : state -> bool) (s : state) : bool :=
  match fuel with
  | 0 => false
  | S f =>
      let succs := flat_map (fun tid => match step loads bad s tid with Some s' => [s'] | None => [] end)
                            (seq 0 (nthr s)) in
      match succs with
      | [] => finalb s && P s
      | _ => forallb (all_runs loads bad f P) succs
      end
  end.

Fixpoint nodupb (l : list label) : bool :=
  match l with [] => true | x :: l' => negb (memb x l') && nodupb l' end.

Definition all_loaded_ok (s : state) : bool :=
  forallb (fun m => loaded (mods s m) && okres (mods s m)) (registry s).
