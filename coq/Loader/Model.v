(** C06 — executable model of dawn's module loader (module.go, project.go: loadPackage / loadModule /
    module.load / module.wait / module.done / setLoading / getLoading), as the code is after the F4 repair.

    Granularity: one model step = one critical section of the Go code (proj.m for the registry
    check-or-insert; m.m for setLoading, getLoading, done; the condition wait of module.wait is one step that is
    enabled iff the module is loaded).  No critical section of the loader takes a second lock or blocks inside,
    so the interleavings of whole critical sections are exactly the lock orders of the real execution.

    Configuration = [loads : label -> list label] (the load() statements of every module file, in order),
    [bad : label -> bool] (the module fails by itself: its file is missing or unreadable, does not parse, or its
    code fails at run time; [loads] of a bad module are the load() statements executed before that point, none for
    a file that cannot be read or parsed) and [roots] (the package files BUILD.dawn, one goroutine each, see
    loadPackage).
    No proofs in this file. *)
From Coq Require Import List Arith Bool.
Import ListNotations.

Definition label := nat.
Definition frame := (label * list label)%type.     (* module being executed, its remaining load() statements *)

(** per-module shared state (fields of Go's [module]); [rank] is a history variable: the index of the module's
    [done] among all [done]s. *)
Record mstate := mkM { loading : option label; loaded : bool; okres : bool; rank : nat }.
Definition m0 : mstate := mkM None false true 0.

Inductive phase :=
| PStart (r : label)                 (* package goroutine about to call proj.loadModule(nil, r) *)
| PExec                              (* top frame runs its body: next load() statement, or done(data, own error) *)
| PFail                              (* a load() of the top frame failed: ExecFile returns the error, done(nil, err) next *)
| PMissEdge (t : label)              (* registry miss on t (now registered): waiter.setLoading(t), then t.load() *)
| PHitEdge (t : label)               (* registry hit on t: waiter.setLoading(t), then t.wait(waiter) *)
| PWalk (t cur : label) (seen : list label)   (* in t.wait: about to call cur.getLoading() *)
| PWait (t : label)                  (* in t.wait: past the walk, waiting on the condition for t.loaded *)
| PRet (r : bool)                    (* loadModule's body returned (ok?) : deferred waiter.setLoading(nil) next *)
| PFin.                              (* goroutine finished (wg.Done) *)

Record thread := mkT { stack : list frame; ph : phase }.

Record state := mkS {
  registry : list label;             (* proj.modules (keys, most recent first) *)
  mods : label -> mstate;
  thr : nat -> thread;
  nthr : nat;
  ndone : nat;                       (* history: number of done() calls so far *)
  execs : list label                 (* history: modules whose file has been executed (module.load entered) *)
}.

(** observable of a step = the verifhook event emitted inside (or right after) that critical section *)
Inductive event :=
| EHit (w : option label) (t : label)
| EMiss (w : option label) (t : label)
| EEdgeSet (from to : label) (exec : bool)    (* exec = true on the miss path: module.exec(to) follows *)
| EEdgeClear (from : label)
| EHop (w t at_ : label)                      (* getLoading returned at_ *)
| EWalkEnd (w t : label)                      (* getLoading returned nil *)
| EWoken (w : option label) (t : label) (ok : bool)
| EDone (m : label) (ok : bool).

Definition upd {A} (f : nat -> A) (k : nat) (v : A) : nat -> A :=
  fun x => if Nat.eqb x k then v else f x.

Definition memb (x : label) (l : list label) : bool := existsb (Nat.eqb x) l.

Definition set_thr (s : state) (tid : nat) (T : thread) : state :=
  mkS (registry s) (mods s) (upd (thr s) tid T) (nthr s) (ndone s) (execs s).

Definition set_loading (s : state) (m : label) (v : option label) : state :=
  let M := mods s m in
  mkS (registry s) (upd (mods s) m (mkM v (loaded M) (okres M) (rank M))) (thr s) (nthr s) (ndone s) (execs s).

Definition set_done (s : state) (m : label) (ok : bool) : state :=
  let M := mods s m in
  mkS (registry s) (upd (mods s) m (mkM (loading M) true ok (ndone s))) (thr s) (nthr s) (S (ndone s)) (execs s).

Definition add_reg (s : state) (t : label) : state :=
  mkS (t :: registry s) (mods s) (thr s) (nthr s) (ndone s) (execs s).

Definition add_exec (s : state) (t : label) : state :=
  mkS (registry s) (mods s) (thr s) (nthr s) (ndone s) (t :: execs s).

Definition after_pop (rest : list frame) (ok : bool) : phase :=
  match rest with [] => PFin | _ => PRet ok end.

Section Loader.
Variable loads : label -> list label.
Variable bad : label -> bool.    (* the module's own code fails (after the load() statements listed in [loads]) *)

Definition init (roots : list label) : state :=
  mkS [] (fun _ => m0)
      (fun i => match nth_error roots i with Some r => mkT [] (PStart r) | None => mkT [] PFin end)
      (length roots) 0 [].

Definition step_ev (s : state) (tid : nat) : option (state * event) :=
  if negb (Nat.ltb tid (nthr s)) then None else
  let T := thr s tid in
  match ph T, stack T with
  | PStart r, _ =>
      (* project.go loadModule with waiter = nil *)
      if memb r (registry s)
      then Some (set_thr s tid (mkT [] (PWait r)), EHit None r)
      else Some (set_thr (add_exec (add_reg s r) r) tid (mkT [(r, loads r)] PExec), EMiss None r)
  | PExec, (m, []) :: rest =>
      (* ExecFile returned: done(data, err) with err = nil unless the module's own code failed *)
      let ok := negb (bad m) in
      Some (set_thr (set_done s m ok) tid (mkT rest (after_pop rest ok)), EDone m ok)
  | PExec, (m, t :: ls) :: rest =>
      if memb t (registry s)
      then Some (set_thr s tid (mkT ((m, ls) :: rest) (PHitEdge t)), EHit (Some m) t)
      else Some (set_thr (add_reg s t) tid (mkT ((m, ls) :: rest) (PMissEdge t)), EMiss (Some m) t)
  | PFail, (m, _) :: rest =>
      Some (set_thr (set_done s m false) tid (mkT rest (after_pop rest false)), EDone m false)
  | PMissEdge t, (m, ls) :: rest =>
      Some (set_thr (add_exec (set_loading s m (Some t)) t) tid (mkT ((t, loads t) :: (m, ls) :: rest) PExec),
            EEdgeSet m t true)
  | PHitEdge t, (m, ls) :: rest =>
      Some (set_thr (set_loading s m (Some t)) tid (mkT ((m, ls) :: rest) (PWalk t t [])), EEdgeSet m t false)
  | PWalk t cur seen, (m, ls) :: rest =>
      match loading (mods s cur) with
      | None => Some (set_thr s tid (mkT ((m, ls) :: rest) (PWait t)), EWalkEnd m t)
      | Some l =>
          if Nat.eqb l m then Some (set_thr s tid (mkT ((m, ls) :: rest) (PRet false)), EHop m t l)
          else if memb l seen then Some (set_thr s tid (mkT ((m, ls) :: rest) (PWait t)), EHop m t l)
          else Some (set_thr s tid (mkT ((m, ls) :: rest) (PWalk t l (l :: seen))), EHop m t l)
      end
  | PWait t, st =>
      if loaded (mods s t)
      then match st with
           | [] => Some (set_thr s tid (mkT [] PFin), EWoken None t (okres (mods s t)))
           | (m, _) :: _ => Some (set_thr s tid (mkT st (PRet (okres (mods s t)))), EWoken (Some m) t (okres (mods s t)))
           end
      else None
  | PRet r, (m, ls) :: rest =>
      Some (set_thr (set_loading s m None) tid (mkT ((m, ls) :: rest) (if r then PExec else PFail)), EEdgeClear m)
  | _, _ => None
  end.

Definition step (s : state) (tid : nat) : option state := option_map fst (step_ev s tid).

Definition is_fin (p : phase) : bool := match p with PFin => true | _ => false end.

Definition finalb (s : state) : bool := forallb (fun i => is_fin (ph (thr s i))) (seq 0 (nthr s)).

(** Project.load after the WaitGroup: the first module error, if any (map order: we only keep "some error") *)
Definition load_ok (s : state) : bool := forallb (fun m => okres (mods s m)) (registry s).


(** reachable states, final states, the load graph *)
Inductive reachable (roots : list label) : state -> Prop :=
| reach_init : reachable roots (init roots)
| reach_step : forall s tid s', reachable roots s -> step s tid = Some s' -> reachable roots s'.

Definition final (s : state) : Prop := forall tid, tid < nthr s -> ph (thr s tid) = PFin.

(** a run along a schedule (list of thread ids) *)
Fixpoint run (s : state) (sched : list nat) : option state :=
  match sched with
  | [] => Some s
  | tid :: sched' => match step s tid with Some s' => run s' sched' | None => None end
  end.

(** [gplus a b]: b is loaded (transitively, in one or more load() statements) by a *)
Inductive gplus : label -> label -> Prop :=
| gp_one : forall a b, In b (loads a) -> gplus a b
| gp_cons : forall a b c, In b (loads a) -> gplus b c -> gplus a c.

Definition from_roots (roots : list label) (m : label) : Prop :=
  exists r, In r roots /\ (r = m \/ gplus r m).

(** no load cycle among the modules that the packages reach *)
Definition acyclic (roots : list label) : Prop := forall m, from_roots roots m -> ~ gplus m m.

(** some package reaches a load cycle *)
Definition cyclic (roots : list label) : Prop := exists m, from_roots roots m /\ gplus m m.

End Loader.

(** concrete configurations: association list label -> loads *)
Fixpoint loads_of (g : list (label * list label)) (l : label) : list label :=
  match g with
  | [] => []
  | (k, v) :: g' => if Nat.eqb k l then v else loads_of g' l
  end.
