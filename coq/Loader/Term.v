(** C06 proofs, part 10: every run is finite (an explicit bound on the number of steps). *)
From Coq Require Import List Arith Bool Lia.
From Dawn Require Import Loader.Model Loader.Step Loader.InvReg Loader.InvStk Loader.Cycle Loader.Deadlock
  Loader.Graph Loader.Rank Loader.Final.
Import ListNotations.

Arguments upd : simpl never.

Section Term.
Variable loads : label -> list label.
Variable bad : label -> bool.
Variable roots : list label.
Variable U : list label.
Hypothesis U_nodup : NoDup U.
Hypothesis U_covers : forall m, from_roots loads roots m -> In m U.

Definition NN : nat := length U.
Definition WW : nat := NN + 5.

Definition fc (f : frame) : nat := 1 + WW * length (snd f).
Definition cmod (m : label) : nat := fc (m, loads m) + 2.

Definition pcost (p : phase) : nat :=
  match p with
  | PStart _ => 3
  | PExec | PFail | PFin => 0
  | PMissEdge t => 2 + fc (t, loads t)
  | PHitEdge _ => NN + 4
  | PWalk _ _ seen => (NN + 1 - length seen) + 2
  | PWait _ => 2
  | PRet _ => 1
  end.

Definition below (st : list frame) : nat := list_sum (map (fun f => fc f + 1) st).

Definition scost (st : list frame) : nat :=
  match st with [] => 0 | f :: rest => fc f + below rest end.

Definition tcost (T0 : thread) : nat := pcost (ph T0) + scost (stack T0).

Definition poolf (reg : list label) : nat :=
  list_sum (map (fun m => if memb m reg then 0 else cmod m) U).

Definition tsum (f : nat -> thread) (n : nat) : nat := list_sum (map (fun i => tcost (f i)) (seq 0 n)).

Definition mu (s : state) : nat := poolf (registry s) + tsum (thr s) (nthr s).

(** the walk's seen set *)
Definition thr_seen (T0 : thread) : Prop :=
  forall m ls rest t cur seen, stack T0 = (m, ls) :: rest -> ph T0 = PWalk t cur seen ->
    NoDup seen /\ forall x, In x seen -> gplus loads m x.

Definition inv_seen (s : state) : Prop := forall tid, thr_seen (thr s tid).

Lemma inv_seen_init : inv_seen (init roots).
Proof.
  intros tid m ls rest t cur seen Hst. destruct (init_thread roots tid) as [[r [_ Ht]]|[_ Ht]];
    rewrite Ht in Hst; discriminate.
Qed.

Lemma thr_seen_nowalk : forall st p, (forall t c sn, p <> PWalk t c sn) -> thr_seen (mkT st p).
Proof. intros st p H m ls rest t cur seen _ Hp. cbn in Hp. exfalso. eapply H; eauto. Qed.

Lemma inv_seen_step : forall s tid s', inv_seen s -> inv_g loads roots s -> kstep loads bad s tid s' -> inv_seen s'.
Proof.
  intros s tid s' IS IG K.
  assert (Hthr : forall (s0 : state) T0, thr s0 = thr s -> thr_seen T0 ->
                 forall i, thr_seen (upd (thr s0) tid T0 i)).
  { intros s0 T0 Hs0 HT i. destruct (Nat.eq_dec i tid) as [->|Hne]; [now rewrite upd_same|].
    rewrite upd_other by auto. rewrite Hs0. apply IS. }
  destruct K; intros i; proj_simpl.
  all: try (match goal with |- thr_seen (upd (thr ?s0) _ _ _) => apply (Hthr s0); auto end;
            apply thr_seen_nowalk; intros; try discriminate;
            try (match goal with |- context [after_pop ?r ?b] =>
                   destruct (after_pop_cases r b) as [Hc|Hc]; rewrite Hc; discriminate end);
            try (destruct r; discriminate); fail).
  - (* KHitEdge *) apply (Hthr (set_loading s m (Some t))); auto.
    intros m0 ls0 rest0 t0 cur0 seen0 _ [= _ _ <-]. split; [constructor|intros x []].
  - (* KWalkHop *) apply Hthr; auto.
    intros m0 ls0 rest0 t0 cur0 seen0 [= <- _ _] [= _ _ <-].
    destruct (IS tid _ _ _ _ _ _ H0 H) as [Hnd Hg]. split; [constructor; auto|].
    intros x [<-|Hx]; auto.
    destruct (g_thr _ _ _ IG tid) as (_ & _ & G3 & _).
    eapply gplus_snoc; [eapply G3; eauto|]. apply (g_edge _ _ _ IG); auto.
Qed.

Lemma from_roots_gplus : forall m x, from_roots loads roots m -> gplus loads m x -> from_roots loads roots x.
Proof.
  intros m x [r [Hr [Heq|Hg]]] Hx; exists r; split; auto; right.
  - subst. auto.
  - eapply gplus_trans; eauto.
Qed.

(** sums *)
Lemma tsum_other : forall (f : nat -> thread) tid T0 a n, (tid < a \/ a + n <= tid) ->
  list_sum (map (fun i => tcost (upd f tid T0 i)) (seq a n)) = list_sum (map (fun i => tcost (f i)) (seq a n)).
Proof.
  intros f tid T0 a n. unfold list_sum. revert a. induction n; intros a H; cbn; auto.
  rewrite upd_other by lia. rewrite IHn by lia. auto.
Qed.

Lemma tsum_upd_gen : forall (f : nat -> thread) tid T0 a n, a <= tid < a + n ->
  list_sum (map (fun i => tcost (upd f tid T0 i)) (seq a n)) + tcost (f tid) =
  list_sum (map (fun i => tcost (f i)) (seq a n)) + tcost T0.
Proof.
  intros f tid T0 a n. revert a. induction n; intros a H; [lia|]. cbn [seq map list_sum fold_right].
  destruct (Nat.eq_dec a tid) as [->|Hne].
  - rewrite upd_same. pose proof (tsum_other f tid T0 (S tid) n) as Ho. unfold list_sum in *. rewrite Ho by lia. lia.
  - rewrite upd_other by auto. specialize (IHn (S a)). unfold list_sum in *. lia.
Qed.

Lemma tsum_upd : forall f tid T0 n, tid < n -> tsum (upd f tid T0) n + tcost (f tid) = tsum f n + tcost T0.
Proof. intros. unfold tsum. apply tsum_upd_gen. lia. Qed.

Lemma poolf_add : forall reg t, In t U -> ~ In t reg -> poolf (t :: reg) + cmod t = poolf reg.
Proof.
  intros reg t Hin Hnr. unfold poolf. clear U_covers. induction U as [|x l IH]; [contradiction|].
  inversion U_nodup; subst. cbn [map list_sum].
  destruct Hin as [->|Hin].
  - assert (Hm : memb t reg = false) by (apply memb_nIn; auto). rewrite Hm.
    assert (Hm' : memb t (t :: reg) = true) by (apply memb_In; left; auto). rewrite Hm'.
    assert (Hl : map (fun m => if memb m (t :: reg) then 0 else cmod m) l =
                 map (fun m => if memb m reg then 0 else cmod m) l).
    { apply map_ext_in. intros y Hy. assert (y <> t) by (intros ->; contradiction).
      unfold memb. cbn. destruct (Nat.eqb_spec y t); [contradiction|auto]. }
    rewrite Hl. unfold list_sum. cbn [fold_right]. lia.
  - assert (Hx : x <> t) by (intros ->; contradiction).
    assert (Hmx : memb x (t :: reg) = memb x reg).
    { unfold memb. cbn. destruct (Nat.eqb_spec x t); [contradiction|auto]. }
    rewrite Hmx. specialize (IH H2 Hin). unfold list_sum in *. cbn [fold_right]. lia.
Qed.

Lemma below_nil : below [] = 0.
Proof. reflexivity. Qed.
Lemma below_cons : forall f rest, below (f :: rest) = fc f + 1 + below rest.
Proof. reflexivity. Qed.
Lemma scost_nil : scost [] = 0.
Proof. reflexivity. Qed.
Lemma scost_cons : forall f rest, scost (f :: rest) = fc f + below rest.
Proof. reflexivity. Qed.
Lemma fc_eq : forall m ls, fc (m, ls) = 1 + WW * length ls.
Proof. reflexivity. Qed.

Ltac norm H :=
  unfold tcost in H; cbn [ph stack pcost after_pop] in H;
  rewrite ?scost_cons, ?below_cons, ?below_nil, ?scost_nil, ?fc_eq in H; cbn [length] in H;
  cbn [below map list_sum fold_right scost] in H.

Lemma mu_step : forall s tid s', InvAll loads bad roots s -> inv_seen s -> tid < nthr s ->
  kstep loads bad s tid s' -> mu s' < mu s.
Proof.
  intros s tid s' [[IR IS IC] IG IK] ISn Hlt K.
  assert (Hreach : forall m ls rest, stack (thr s tid) = (m, ls) :: rest -> from_roots loads roots m).
  { intros m ls rest Hst. apply (g_reg _ _ _ IG). eapply i_exreg; eauto. eapply s_stex with (tid := tid); eauto.
    rewrite (labels_top _ _ _ _ _ Hst). left; auto. }
  destruct (g_thr _ _ _ IG tid) as (G1 & G2 & G3 & G4).
  assert (Hseen : forall m ls rest t cur seen, stack (thr s tid) = (m, ls) :: rest ->
                  ph (thr s tid) = PWalk t cur seen -> length seen <= NN).
  { intros m ls rest t cur seen Hst Hp. destruct (ISn tid _ _ _ _ _ _ Hst Hp) as [Hnd Hg].
    apply NoDup_incl_length; auto. intros x Hx. apply U_covers.
    eapply from_roots_gplus; [eapply Hreach; eauto|auto]. }
  pose proof (s_shape _ IS tid) as Hsh. unfold shape in Hsh.
  assert (Hcur : tcost (thr s tid) = pcost (ph (thr s tid)) + scost (stack (thr s tid))) by reflexivity.
  unfold mu.
  destruct K; proj_simpl;
    match goal with |- context [upd (thr s) tid ?T0] =>
      pose proof (tsum_upd (thr s) tid T0 (nthr s) Hlt) as He;
      set (A := tsum (upd (thr s) tid T0) (nthr s)) in *; set (B := tsum (thr s) (nthr s)) in * end;
    rewrite H in Hcur, Hsh; try rewrite H0 in Hcur; try rewrite Hsh in Hcur;
    set (C := tcost (thr s tid)) in *; norm Hcur; norm He.
  - (* KStartHit *) lia.
  - (* KStartMiss *)
    assert (HrU : In r U).
    { apply U_covers. exists r. split; auto. eapply nth_error_In. eauto. }
    pose proof (poolf_add (registry s) r HrU H0) as Hp. unfold cmod in Hp. rewrite fc_eq in Hp. lia.
  - (* KDone *) destruct rest as [|f1 rest1]; norm He; norm Hcur; lia.
  - (* KFail *) destruct rest as [|f1 rest1]; norm He; norm Hcur; lia.
  - (* KHit *) unfold WW in *. lia.
  - (* KMiss *)
    assert (HtU : In t U).
    { apply U_covers. eapply from_roots_step; [eapply Hreach; eauto|]. eapply G1; [rewrite H0; left; eauto|left; auto]. }
    pose proof (poolf_add (registry s) t HtU H1) as Hp. unfold cmod in Hp. rewrite fc_eq in Hp.
    unfold WW in *. lia.
  - (* KMissEdge *) lia.
  - (* KHitEdge *) lia.
  - (* KWalkNone *) pose proof (Hseen _ _ _ _ _ _ H0 H). lia.
  - (* KWalkCycle *) lia.
  - (* KWalkSeen *) pose proof (Hseen _ _ _ _ _ _ H0 H). lia.
  - (* KWalkHop *)
    assert (Hs : length (l :: seen) <= NN).
    { destruct (ISn tid _ _ _ _ _ _ H0 H) as [Hnd Hg].
      apply NoDup_incl_length; [constructor; auto|].
      intros x [<-|Hx]; apply U_covers.
      - eapply from_roots_gplus; [eapply Hreach; eauto|].
        eapply gplus_snoc; [eapply G3; eauto|]. apply (g_edge _ _ _ IG); auto.
      - eapply from_roots_gplus; [eapply Hreach; eauto|auto]. }
    cbn [length] in Hs. lia.
  - (* KWokenRoot *) lia.
  - (* KWoken *) lia.
  - (* KRet *) destruct r; norm He; lia.
Qed.

Lemma inv_seen_reachable : forall s, reachable loads bad roots s -> inv_seen s.
Proof.
  intros s R. induction R.
  - apply inv_seen_init.
  - destruct (step_kstep loads bad _ _ _ H) as [Hlt K]. eapply inv_seen_step; eauto.
    apply (all_g _ _ _ _ (InvAll_reachable loads bad roots s R)).
Qed.

Lemma run_measure : forall sched s s', reachable loads bad roots s -> run loads bad s sched = Some s' ->
  length sched + mu s' <= mu s.
Proof.
  induction sched as [|tid sched IH]; cbn; intros s s' R Hr.
  - injection Hr as <-. lia.
  - destruct (step loads bad s tid) as [s1|] eqn:Hs; [|discriminate].
    destruct (step_kstep loads bad _ _ _ Hs) as [Hlt K].
    pose proof (mu_step s tid s1 (InvAll_reachable loads bad roots s R) (inv_seen_reachable s R) Hlt K).
    assert (R1 : reachable loads bad roots s1) by (econstructor; eauto).
    specialize (IH s1 s' R1 Hr). lia.
Qed.

Lemma run_reachable : forall sched s s', reachable loads bad roots s -> run loads bad s sched = Some s' ->
  reachable loads bad roots s'.
Proof.
  induction sched as [|tid sched IH]; cbn; intros s s' R Hr.
  - injection Hr as <-. auto.
  - destruct (step loads bad s tid) as [s1|] eqn:Hs; [|discriminate].
    eapply IH; [|eauto]. econstructor; eauto.
Qed.

Lemma stuck_is_final : forall s, reachable loads bad roots s -> (forall tid, step loads bad s tid = None) -> final s.
Proof.
  intros s R Hst tid Hlt.
  destruct (ph (thr s tid)) eqn:Hp; auto; exfalso;
    (destruct (deadlock_free loads bad roots s R) as [tid' He]; [intros Hf; rewrite (Hf tid Hlt) in Hp; discriminate|];
     apply He; apply Hst).
Qed.

Theorem t_terminates : exists bound, forall sched s,
  run loads bad (init roots) sched = Some s ->
  length sched <= bound /\ ((forall tid, step loads bad s tid = None) -> final s).
Proof.
  exists (mu (init roots)). intros sched s Hr. split.
  - pose proof (run_measure sched (init roots) s (reach_init loads bad roots) Hr). lia.
  - apply stuck_is_final. eapply run_reachable; [apply reach_init|eauto].
Qed.

End Term.
