(** C06 proofs, part 9: the property theorems. *)
From Coq Require Import List Arith Bool Lia.
From Dawn Require Import Loader.Model Loader.Step Loader.InvReg Loader.InvStk Loader.Cycle Loader.Deadlock
  Loader.Graph Loader.NoErr Loader.Rank.
Import ListNotations.

Section Final.
Variable loads : label -> list label.
Variable bad : label -> bool.
Variable roots : list label.

Notation reachable := (reachable loads bad roots).

Record InvAll (s : state) : Prop := {
  all_inv : Inv s;
  all_g : inv_g loads roots s;
  all_rk : inv_rk loads bad s
}.

Lemma InvAll_reachable : forall s, reachable s -> InvAll s.
Proof.
  intros s R. induction R.
  - constructor; [apply (Inv_reachable loads bad roots); constructor|apply inv_g_init|apply inv_rk_init].
  - destruct IHR as [[IR IS IC] IG IK]. destruct (step_kstep loads bad _ _ _ H) as [Hlt K]. constructor.
    + apply (Inv_reachable loads bad roots). econstructor; eauto.
    + eapply inv_g_step; eauto.
    + eapply inv_rk_step; eauto.
Qed.

Definition good : Prop := forall m, from_roots loads roots m -> bad m = false.

Lemma noerr_reachable : acyclic loads roots -> good -> forall s, reachable s -> inv_noerr s.
Proof.
  intros Hac Hgood s R. induction R.
  - apply inv_noerr_init.
  - destruct (InvAll_reachable _ R) as [[IR IS IC] IG IK]. destruct (step_kstep loads bad _ _ _ H) as [Hlt K].
    eapply inv_noerr_step; eauto.
Qed.

Lemma final_all_fin : forall s, inv_stk s -> final s -> forall tid, ph (thr s tid) = PFin.
Proof.
  intros s IS Hf tid. destruct (lt_dec tid (nthr s)); auto. rewrite (s_out _ IS tid) by lia. reflexivity.
Qed.

Lemma final_loaded : forall s, Inv s -> final s -> forall m, In m (registry s) -> loaded (mods s m) = true.
Proof.
  intros s [IR IS IC] Hf m Hm.
  pose proof (final_all_fin s IS Hf) as Hfin.
  destruct (i_regex _ IR m Hm) as [He|[tid Hp]]; [|rewrite Hfin in Hp; discriminate].
  destruct (s_exld _ IS m He) as [?|[tid Hin]]; auto.
  pose proof (s_shape _ IS tid) as Hsh. unfold shape in Hsh. rewrite Hfin in Hsh.
  unfold labels in Hin. rewrite Hsh in Hin. contradiction.
Qed.

Lemma final_roots_registered : forall s, InvAll s -> final s -> forall r, In r roots -> In r (registry s).
Proof.
  intros s [[IR IS IC] IG IK] Hf r Hr.
  destruct (In_nth_error _ _ Hr) as [i Hi].
  destruct (g_root _ _ _ IG i r Hi) as [Hp|?]; auto.
  rewrite (final_all_fin s IS Hf) in Hp. discriminate.
Qed.

Lemma lo_gplus : forall s, inv_rk loads bad s -> forall a b, gplus loads a b -> LO s a ->
  LO s b /\ rank (mods s b) < rank (mods s a).
Proof.
  intros s IK a b H. induction H; intros Ha.
  - apply (k_lo _ _ _ IK a Ha b H).
  - destruct (k_lo _ _ _ IK a Ha b H) as [Hb Hr]. destruct (IHgplus Hb) as [Hc Hr']. split; auto. lia.
Qed.

Lemma final_closure : forall s, InvAll s -> final s ->
  (forall m, In m (registry s) -> okres (mods s m) = true) ->
  forall m, from_roots loads roots m -> LO s m /\ In m (registry s).
Proof.
  intros s IA Hf Hok m [r [Hr Hm]].
  pose proof (final_roots_registered s IA Hf r Hr) as Hrr.
  destruct IA as [I0 IG IK].
  assert (Hlr : LO s r) by (split; [apply final_loaded; auto|auto]).
  assert (Hlm : LO s m).
  { destruct Hm as [<-|Hg]; auto. apply (lo_gplus s IK r m Hg Hlr). }
  split; auto. destruct I0 as [IR IS IC]. eapply i_exreg; eauto. apply (s_ldex _ IS). apply Hlm.
Qed.

(** --- the theorems ------------------------------------------------------------------------------ *)

Theorem t_executed_at_most_once : forall s, reachable s -> NoDup (execs s).
Proof. intros s R. eapply executed_once; eauto. Qed.

Theorem t_deadlock_free : forall s, reachable s -> ~ final s -> exists tid, step loads bad s tid <> None.
Proof. intros s R. eapply deadlock_free; eauto. Qed.

Theorem t_acyclic_succeed : acyclic loads roots -> good -> forall s, reachable s ->
  (~ final s -> exists tid, step loads bad s tid <> None) /\
  (final s ->
     load_ok s = true /\
     (forall m, In m (registry s) -> loaded (mods s m) = true /\ okres (mods s m) = true) /\
     (forall m, In m (registry s) <-> from_roots loads roots m)).
Proof.
  intros Hac Hgood s R. split; [apply t_deadlock_free; auto|]. intros Hf.
  pose proof (InvAll_reachable s R) as IA. pose proof (noerr_reachable Hac Hgood s R) as [Nok _].
  assert (Hall : forall m, In m (registry s) -> loaded (mods s m) = true /\ okres (mods s m) = true).
  { intros m Hm. split; auto. apply final_loaded; auto. apply IA. }
  split; [|split; [exact Hall|intros m; split]].
  - unfold load_ok. apply forallb_forall. intros m _. apply Nok.
  - intros Hm. apply (g_reg _ _ _ (all_g _ IA)); auto.
  - intros Hm. apply (final_closure s IA Hf); auto.
Qed.

Theorem t_cyclic_fail : cyclic loads roots -> forall s, reachable s -> final s ->
  load_ok s = false /\ exists m, In m (registry s) /\ loaded (mods s m) = true /\ okres (mods s m) = false.
Proof.
  intros [c [Hc Hcc]] s R Hf.
  pose proof (InvAll_reachable s R) as IA.
  assert (Hno : load_ok s = false).
  { destruct (load_ok s) eqn:Hl; auto. exfalso.
    unfold load_ok in Hl. rewrite forallb_forall in Hl.
    destruct (final_closure s IA Hf Hl c Hc) as [Hlo _].
    destruct (lo_gplus s (all_rk _ IA) c c Hcc Hlo) as [_ Hlt]. lia. }
  split; auto.
  unfold load_ok in Hno.
  assert (Hex : exists m, In m (registry s) /\ okres (mods s m) = false).
  { clear -Hno. induction (registry s) as [|x l IH]; cbn in Hno; [discriminate|].
    destruct (okres (mods s x)) eqn:Hx; cbn in Hno.
    - destruct (IH Hno) as [m [Hm Hk]]. exists m. split; [right|]; auto.
    - exists x. split; [left|]; auto. }
  destruct Hex as [m [Hm Hk]]. exists m. repeat split; auto. apply final_loaded; auto. apply IA.
Qed.

(** a module the packages reach fails by itself (missing or unreadable file, syntax error, run-time failure): the
    load as a whole fails -- and, by [t_deadlock_free] and [t_terminates], it still ends under every schedule *)
Theorem t_faulty_fail : (exists m, from_roots loads roots m /\ bad m = true) -> forall s, reachable s -> final s ->
  load_ok s = false /\ exists m, In m (registry s) /\ loaded (mods s m) = true /\ okres (mods s m) = false.
Proof.
  intros [c [Hc Hb]] s R Hf.
  pose proof (InvAll_reachable s R) as IA.
  assert (Hno : load_ok s = false).
  { destruct (load_ok s) eqn:Hl; auto. exfalso.
    unfold load_ok in Hl. rewrite forallb_forall in Hl.
    destruct (final_closure s IA Hf Hl c Hc) as [Hlo _].
    rewrite (k_bad _ _ _ (all_rk _ IA) c Hlo) in Hb. discriminate. }
  split; auto.
  unfold load_ok in Hno.
  assert (Hex : exists m, In m (registry s) /\ okres (mods s m) = false).
  { clear -Hno. induction (registry s) as [|x l IH]; cbn in Hno; [discriminate|].
    destruct (okres (mods s x)) eqn:Hx; cbn in Hno.
    - destruct (IH Hno) as [m [Hm Hk]]. exists m. split; [right|]; auto.
    - exists x. split; [left|]; auto. }
  destruct Hex as [m [Hm Hk]]. exists m. repeat split; auto. apply final_loaded; auto. apply IA.
Qed.

Theorem t_deterministic : acyclic loads roots -> good -> forall s1 s2, reachable s1 -> reachable s2 -> final s1 -> final s2 ->
  load_ok s1 = true /\ load_ok s2 = true /\
  (forall m, In m (registry s1) <-> In m (registry s2)) /\
  (forall m, In m (execs s1) <-> In m (execs s2)).
Proof.
  intros Hac Hgood s1 s2 R1 R2 F1 F2.
  destruct (t_acyclic_succeed Hac Hgood s1 R1) as [_ H1]. destruct (H1 F1) as (L1 & A1 & C1).
  destruct (t_acyclic_succeed Hac Hgood s2 R2) as [_ H2]. destruct (H2 F2) as (L2 & A2 & C2).
  assert (Hre : forall s, reachable s -> final s -> forall m, In m (execs s) <-> In m (registry s)).
  { intros s R F m. destruct (InvAll_reachable s R) as [[IR IS IC] _ _]. split.
    - apply (i_exreg _ IR).
    - intros Hm. apply (s_ldex _ IS). apply final_loaded; auto. constructor; auto. }
  repeat split; auto.
  - intros H. apply C2, C1, H.
  - intros H. apply C1, C2, H.
  - intros H. apply (Hre s2 R2 F2), C2, C1, (Hre s1 R1 F1), H.
  - intros H. apply (Hre s1 R1 F1), C1, C2, (Hre s2 R2 F2), H.
Qed.

End Final.
