(** C06 proofs, part 4: every cycle of loading edges contains a walker that will find itself. *)
From Coq Require Import List Arith Bool Lia.
From Dawn Require Import Loader.Model Loader.Step Loader.InvReg Loader.InvStk.
Import ListNotations.

Arguments upd : simpl never.

Fixpoint iter (E : label -> option label) (n : nat) (a : label) : option label :=
  match n with
  | 0 => Some a
  | S n' => match E a with None => None | Some b => iter E n' b end
  end.

Lemma iter_add : forall E n m a,
  iter E (n + m) a = match iter E n a with Some b => iter E m b | None => None end.
Proof.
  induction n; intros; cbn; auto. destruct (E a); auto.
Qed.

Lemma iter_S_r : forall E n a, iter E (S n) a = match iter E n a with Some b => E b | None => None end.
Proof.
  intros. replace (S n) with (n + 1) by lia. rewrite iter_add. destruct (iter E n a); auto.
  cbn. destruct (E l); auto.
Qed.

Lemma iter_prefix : forall E k k' c w, iter E k c = Some w -> k' <= k -> exists x, iter E k' c = Some x.
Proof.
  intros E k k' c w H Hle. replace k with (k' + (k - k')) in H by lia. rewrite iter_add in H.
  destruct (iter E k' c); [eauto|discriminate].
Qed.

Lemma iter_sub : forall (E E' : label -> option label), (forall x y, E' x = Some y -> E x = Some y) ->
  forall n a b, iter E' n a = Some b -> iter E n a = Some b.
Proof.
  intros E E' Hs. induction n; cbn; intros a b H; auto.
  destruct (E' a) eqn:He; [|discriminate]. rewrite (Hs _ _ He). auto.
Qed.

Lemma cycle_total : forall E n a, 1 <= n -> iter E n a = Some a -> forall j, exists b, iter E j a = Some b.
Proof.
  intros E n a Hn Hc. induction j as [j IH] using lt_wf_ind.
  destruct (le_lt_dec j n) as [Hle|Hgt].
  - eapply iter_prefix; eauto.
  - replace j with (n + (j - n)) by lia. rewrite iter_add, Hc. apply IH. lia.
Qed.

Lemma cycle_shift : forall E n a j m, iter E n a = Some a -> iter E j a = Some m -> iter E n m = Some m.
Proof.
  intros E n a j m Hc Hj.
  assert (H1 : iter E (n + j) a = Some m) by (rewrite iter_add, Hc; auto).
  replace (n + j) with (j + n) in H1 by lia. rewrite iter_add, Hj in H1. auto.
Qed.

(** agreement of orbits *)
Lemma orbit_agree : forall (E E' : label -> option label) n a,
  (forall x y, E x = Some y -> E' x = Some y) ->
  1 <= n -> iter E n a = Some a -> forall j, iter E' j a = iter E j a.
Proof.
  intros E E' n a Hm Hn Hc j.
  destruct (cycle_total E n a Hn Hc j) as [b Hb]. rewrite Hb.
  eapply iter_sub; eauto.
Qed.

Lemma iter_avoid : forall (E E' : label -> option label) m, (forall x, x <> m -> E' x = E x) ->
  forall n a, (forall j, j < n -> iter E' j a <> Some m) -> iter E n a = iter E' n a.
Proof.
  intros E E' m Ho. induction n; intros a Hav; cbn; auto.
  assert (Ha : a <> m). { intros ->. apply (Hav 0); [lia|reflexivity]. }
  rewrite (Ho a Ha). destruct (E a) eqn:He; auto.
  apply IHn. intros j Hj Hc. apply (Hav (S j)); [lia|]. cbn. rewrite (Ho a Ha), He. auto.
Qed.

Lemma orbit_dec : forall E n a (m : label),
  (exists j, j < n /\ iter E j a = Some m) \/ (forall j, j < n -> iter E j a <> Some m).
Proof.
  intros E n a m. induction n.
  - right. intros; lia.
  - destruct IHn as [[j [Hj He]]|Hn].
    + left. exists j. split; auto.
    + destruct (iter E n a) as [x|] eqn:Hx.
      * destruct (Nat.eq_dec x m) as [->|Hne].
        -- left. exists n. auto.
        -- right. intros j Hj. destruct (Nat.eq_dec j n) as [->|]; [congruence|apply Hn; lia].
      * right. intros j Hj. destruct (Nat.eq_dec j n) as [->|]; [congruence|apply Hn; lia].
Qed.

Lemma min_exists : forall (P : nat -> Prop), (forall k, P k \/ ~ P k) ->
  forall k0, 1 <= k0 -> P k0 -> exists k, 1 <= k /\ P k /\ forall k', 1 <= k' < k -> ~ P k'.
Proof.
  intros P Pdec. induction k0 as [k0 IH] using lt_wf_ind. intros H1 HP.
  assert (Hd : (exists k', 1 <= k' < k0 /\ P k') \/ (forall k', 1 <= k' < k0 -> ~ P k')).
  { clear IH HP. induction k0.
    - right. intros; lia.
    - destruct (Nat.eq_dec k0 0) as [->|Hk]; [right; intros; lia|].
      destruct IHk0 as [[k' [Hk' HPk]]|Hn]; [lia| |].
      + left. exists k'. split; auto. lia.
      + destruct (Pdec k0) as [Hp|Hp].
        * left. exists k0. split; auto. lia.
        * right. intros k' Hk'. destruct (Nat.eq_dec k' k0) as [->|]; auto. apply Hn. lia. }
  destruct Hd as [[k' [Hk' HPk]]|Hn].
  - destruct (IH k') as [k [Hk1 [HPk' Hmin]]]; [lia|lia|auto|]. exists k. auto.
  - exists k0. auto.
Qed.

Section Cycle.
Variable loads : label -> list label.
Variable bad : label -> bool.

Definition walker_ok (Ef : label -> option label) (a w cur : label) (seen : list label) : Prop :=
  exists i k, iter Ef i a = Some cur /\ 1 <= k /\ iter Ef k cur = Some w /\
    (forall k', 1 <= k' < k -> iter Ef k' cur <> Some w) /\
    (forall k' x, 1 <= k' <= k -> iter Ef k' cur = Some x -> ~ In x seen).

Definition good (s : state) (a : label) : Prop :=
  exists tid w ls rest j,
    stack (thr s tid) = (w, ls) :: rest /\ iter (E s) j a = Some w /\
    ((exists r, ph (thr s tid) = PRet r) \/
     (exists t cur seen, ph (thr s tid) = PWalk t cur seen /\ walker_ok (E s) a w cur seen)).

Definition inv_cycle (s : state) : Prop :=
  forall a n, 1 <= n -> iter (E s) n a = Some a -> good s a.

Lemma inv_cycle_init : forall roots, inv_cycle (init roots).
Proof.
  intros roots a n Hn Hc. destruct n; [lia|]. cbn in Hc. discriminate.
Qed.

(** the witness survives a step of another thread when the orbit of [a] is unchanged *)
Lemma good_transfer : forall s s' tid a,
  (forall i, i <> tid -> thr s' i = thr s i) ->
  (forall j, iter (E s') j a = iter (E s) j a) ->
  (forall tid0 w ls rest, stack (thr s tid0) = (w, ls) :: rest ->
     (exists r, ph (thr s tid0) = PRet r) \/ (exists t cur seen, ph (thr s tid0) = PWalk t cur seen) ->
     (exists j, iter (E s) j a = Some w) -> tid0 <> tid) ->
  good s a -> good s' a.
Proof.
  intros s s' tid a Ho Hj Hne (tid0 & w & ls & rest & j & Hst & Hjw & Hph).
  assert (Hn : tid0 <> tid).
  { eapply Hne; eauto. destruct Hph as [[r Hr]|(t & cur & seen & Hp & _)]; eauto. }
  exists tid0, w, ls, rest, j. rewrite (Ho _ Hn), Hj. repeat split; auto.
  destruct Hph as [Hr|(t & cur & seen & Hp & (i & k & Hi & Hk1 & Hk & Hmin & Hav))]; auto.
  right. exists t, cur, seen. split; auto.
  assert (Hc : forall k', iter (E s') k' cur = iter (E s) k' cur).
  { intros k'. generalize (Hj (i + k')). rewrite !iter_add, Hj, Hi. auto. }
  exists i, k. rewrite Hj, !Hc. repeat split; auto.
  - intros k' Hk'. rewrite Hc. auto.
  - intros k' x Hk'. rewrite Hc. eauto.
Qed.


Lemma iter_ext : forall (E E' : label -> option label), (forall x, E' x = E x) ->
  forall n a, iter E' n a = iter E n a.
Proof.
  intros E E' He. induction n; cbn; intros; auto. rewrite He. destruct (E a); auto.
Qed.

(** steps that leave the loading edges alone and are not made by a walker *)
Lemma cyc_frame : forall s s' tid, inv_cycle s ->
  (forall x, E s' x = E s x) -> (forall i, i <> tid -> thr s' i = thr s i) ->
  (forall r, ph (thr s tid) <> PRet r) -> (forall t c sn, ph (thr s tid) <> PWalk t c sn) ->
  inv_cycle s'.
Proof.
  intros s s' tid IC HE Ho Hr Hw a n Hn Hc.
  assert (Hi : forall j b, iter (E s') j b = iter (E s) j b) by (intros; apply iter_ext; auto).
  rewrite Hi in Hc. eapply good_transfer with (tid := tid); eauto.
  intros tid0 w ls rest _ [[r Hp]|(t & c & sn & Hp)] _ ->; [eapply Hr|eapply Hw]; eauto.
Qed.

(** a walker's own step *)
Lemma cyc_walk : forall s tid t cur seen m ls rest p',
  inv_cycle s -> ph (thr s tid) = PWalk t cur seen -> stack (thr s tid) = (m, ls) :: rest ->
  (E s cur = None /\ p' = PWait t \/
   E s cur = Some m /\ p' = PRet false \/
   (exists l, E s cur = Some l /\ l <> m /\ In l seen /\ p' = PWait t) \/
   (exists l, E s cur = Some l /\ l <> m /\ ~ In l seen /\ p' = PWalk t l (l :: seen))) ->
  inv_cycle (set_thr s tid (mkT ((m, ls) :: rest) p')).
Proof.
  intros s tid t cur seen m ls rest p' IC Hph Hst Hcase a n Hn Hc.
  set (s' := set_thr s tid (mkT ((m, ls) :: rest) p')) in *.
  assert (HE : forall j b, iter (E s') j b = iter (E s) j b) by reflexivity.
  assert (Ho : forall i, i <> tid -> thr s' i = thr s i).
  { intros. unfold s'. proj_simpl. now rewrite upd_other. }
  rewrite HE in Hc. destruct (IC a n Hn Hc) as (tid0 & w & ls0 & rest0 & j & Hst0 & Hjw & Hp0).
  destruct (Nat.eq_dec tid0 tid) as [->|Hne].
  2:{ exists tid0, w, ls0, rest0, j. rewrite (Ho _ Hne). repeat split; auto. }
  rewrite Hst in Hst0. injection Hst0 as <- <- <-.
  destruct Hp0 as [[r Hr]|(t0 & cur0 & seen0 & Hp & (i & k & Hi & Hk1 & Hk & Hmin & Hav))]; [congruence|].
  rewrite Hph in Hp. injection Hp as <- <- <-.
  assert (Hk' : iter (E s) k cur = match E s cur with Some b => iter (E s) (k - 1) b | None => None end).
  { replace k with (S (k - 1)) at 1 by lia. reflexivity. }
  assert (Hts : thr s' tid = mkT ((m, ls) :: rest) p') by (unfold s'; proj_simpl; now rewrite upd_same).
  exists tid, m, ls, rest, j. rewrite Hts. cbn [stack ph]. change (E s') with (E s).
  repeat split; auto.
  destruct Hcase as [[He ->]|[[He ->]|[(l & He & Hlm & Hin & ->)|(l & He & Hlm & Hin & ->)]]].
  - rewrite He in Hk'. congruence.
  - left. eauto.
  - exfalso. destruct (Nat.eq_dec k 1) as [->|Hk2].
    + cbn in Hk. rewrite He in Hk. congruence.
    + apply (Hav 1 l); [lia| |auto]. cbn. now rewrite He.
  - right. exists t, l, (l :: seen). split; auto.
    assert (Hk2 : 2 <= k).
    { destruct (Nat.eq_dec k 1) as [->|]; [|lia]. cbn in Hk. rewrite He in Hk. congruence. }
    assert (Hsh : forall q, iter (E s) q l = iter (E s) (S q) cur) by (intros; cbn; now rewrite He).
    exists (S i), (k - 1). repeat split.
    + rewrite iter_S_r, Hi. auto.
    + lia.
    + rewrite Hsh. replace (S (k - 1)) with k by lia. auto.
    + intros k' Hk'1. rewrite Hsh. apply Hmin. lia.
    + intros k' x Hk'1 Hx [<-|Hin'].
      * (* the orbit would come back to l before reaching m: a shorter way to m *)
        assert (Hs : iter (E s) (k - 1) l = Some m) by (rewrite Hsh; replace (S (k - 1)) with k by lia; auto).
        replace (k - 1) with (k' + (k - 1 - k')) in Hs by lia. rewrite iter_add, Hx in Hs.
        rewrite Hsh in Hs. apply (Hmin (S (k - 1 - k'))); [lia|auto].
      * rewrite Hsh in Hx. apply (Hav (S k') x); [lia|auto|auto].
Qed.

(** publishing an edge: E m = None before *)
Lemma cyc_set : forall s tid m ls rest t p' st' s',
  inv_cycle s -> stack (thr s tid) = (m, ls) :: rest -> E s m = None ->
  (forall x, E s' x = if Nat.eqb x m then Some t else E s x) ->
  (forall i, i <> tid -> thr s' i = thr s i) -> thr s' tid = mkT st' p' ->
  (forall r, ph (thr s tid) <> PRet r) -> (forall t c sn, ph (thr s tid) <> PWalk t c sn) ->
  (p' = PWalk t t [] /\ st' = (m, ls) :: rest \/ (t <> m /\ E s t = None)) ->
  inv_cycle s'.
Proof.
  intros s tid m ls rest t p' st' s' IC Hst Hem HE Ho Ht Hr Hw Hcase a n Hn Hc.
  assert (Hmono : forall x y, E s x = Some y -> E s' x = Some y).
  { intros x y Hx. rewrite HE. destruct (Nat.eqb_spec x m); [congruence|auto]. }
  assert (Hoth : forall x, x <> m -> E s' x = E s x).
  { intros x Hx. rewrite HE. destruct (Nat.eqb_spec x m); congruence. }
  destruct (orbit_dec (E s') n a m) as [[j [Hj Hjm]]|Hav].
  - (* m is on the cycle: the acting thread is its walker *)
    assert (Hcm : iter (E s') n m = Some m) by (eapply cycle_shift; eauto).
    assert (Hm1 : E s' m = Some t) by (rewrite HE, Nat.eqb_refl; auto).
    destruct Hcase as [[-> ->]|[Htm Het]].
    2:{ exfalso. destruct n; [lia|]. cbn in Hcm. rewrite Hm1 in Hcm.
        destruct n; cbn in Hcm; [congruence|]. rewrite (Hoth t Htm), Het in Hcm. discriminate. }
    exists tid, m, ls, rest, j. rewrite Ht. cbn [stack ph]. repeat split; auto.
    right. exists t, t, []. split; auto.
    assert (Hk0 : exists k0, 1 <= k0 /\ iter (E s') k0 t = Some m).
    { destruct n; [lia|]. cbn in Hcm. rewrite Hm1 in Hcm. destruct n.
      - cbn in Hcm. injection Hcm as ->. exists 1. split; auto. cbn. now rewrite Hm1.
      - exists (S n). split; [lia|auto]. }
    destruct Hk0 as [k0 [Hk01 Hk0]].
    destruct (min_exists (fun k => iter (E s') k t = Some m)) with (k0 := k0) as (k & Hk1 & Hk & Hmin); auto.
    { intros k. destruct (iter (E s') k t) as [x|]; [|right; discriminate].
      destruct (Nat.eq_dec x m) as [->|]; [left; auto|right; congruence]. }
    exists (S j), k. repeat split; auto.
    rewrite iter_S_r, Hjm. auto.
  - (* m is not on the cycle: it is an old cycle *)
    assert (Hc0 : iter (E s) n a = Some a) by (rewrite (iter_avoid (E s) (E s') m Hoth n a Hav); auto).
    assert (Hag : forall j, iter (E s') j a = iter (E s) j a) by (eapply orbit_agree; eauto).
    eapply good_transfer with (tid := tid); eauto.
    intros tid0 w ls0 rest0 _ [[r Hp]|(t0 & c & sn & Hp)] _ ->; [eapply Hr|eapply Hw]; eauto.
Qed.

(** clearing an edge *)
Lemma cyc_clear : forall s tid m ls rest s',
  inv_cycle s -> stack (thr s tid) = (m, ls) :: rest ->
  (forall x, E s' x = if Nat.eqb x m then None else E s x) ->
  (forall i, i <> tid -> thr s' i = thr s i) ->
  inv_cycle s'.
Proof.
  intros s tid m ls rest s' IC Hst HE Ho a n Hn Hc.
  assert (Hsub : forall x y, E s' x = Some y -> E s x = Some y).
  { intros x y. rewrite HE. destruct (Nat.eqb x m); [discriminate|auto]. }
  assert (Hc0 : iter (E s) n a = Some a) by (eapply iter_sub; eauto).
  assert (Htot := cycle_total _ _ _ Hn Hc).
  assert (Hag : forall j, iter (E s') j a = iter (E s) j a).
  { intros j. destruct (Htot j) as [b Hb]. rewrite Hb. symmetry. eapply iter_sub; eauto. }
  eapply good_transfer with (tid := tid); eauto.
  intros tid0 w ls0 rest0 Hst0 _ [j Hj] ->. rewrite Hst in Hst0. injection Hst0 as <- <- <-.
  rewrite <- Hag in Hj. destruct (Htot (S j)) as [b Hb]. rewrite iter_S_r, Hj, HE, Nat.eqb_refl in Hb. discriminate.
Qed.

End Cycle.
