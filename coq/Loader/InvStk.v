(** C06 proofs, part 3: call-stack and loading-edge discipline. *)
From Coq Require Import List Arith Bool Lia.
From Dawn Require Import Loader.Model Loader.Step Loader.InvReg.
Import ListNotations.

Arguments upd : simpl never.

Definition shape (T : thread) : Prop :=
  match ph T with
  | PStart _ | PFin => stack T = []
  | PWait _ => True
  | _ => stack T <> []
  end.

Definition top_ok (E : label -> option label) (p : phase) (m : label) : Prop :=
  match p with
  | PExec | PFail | PMissEdge _ | PHitEdge _ => E m = None
  | PWalk t _ _ | PWait t => E m = Some t
  | _ => True
  end.

Fixpoint chain_ok (E : label -> option label) (above : label) (st : list frame) : Prop :=
  match st with
  | [] => True
  | (m, _) :: rest => E m = Some above /\ chain_ok E m rest
  end.

Definition tgt_of (p : phase) : option label :=
  match p with
  | PMissEdge t | PHitEdge t | PWalk t _ _ | PWait t => Some t
  | _ => None
  end.

Lemma chain_ok_ext : forall E E' st a, (forall x, In x (map fst st) -> E' x = E x) ->
  chain_ok E a st -> chain_ok E' a st.
Proof.
  induction st as [|[m l] st IH]; cbn; intros a Hx H; auto.
  destruct H as [H1 H2]. split.
  - rewrite Hx; auto.
  - apply IH; auto.
Qed.

Lemma chain_ok_succ : forall E st a m, chain_ok E a st -> In m (map fst st) ->
  exists m', (m' = a \/ In m' (map fst st)) /\ E m = Some m'.
Proof.
  induction st as [|[m0 l] st IH]; cbn; intros a m H Hin; [contradiction|].
  destruct H as [H1 H2]. destruct Hin as [<-|Hin].
  - exists a. auto.
  - destruct (IH _ _ H2 Hin) as [m' [[->|Hm'] He]]; eauto.
Qed.

Section InvStk.
Variable loads : label -> list label.
Variable bad : label -> bool.

Record inv_stk (s : state) : Prop := {
  s_out : forall tid, nthr s <= tid -> thr s tid = mkT [] PFin;
  s_shape : forall tid, shape (thr s tid);
  s_stex : forall tid m, In m (labels s tid) -> In m (execs s);
  s_stnl : forall tid m, In m (labels s tid) -> loaded (mods s m) = false;
  s_stnd : forall tid, NoDup (labels s tid);
  s_stdj : forall tid tid' m, In m (labels s tid) -> In m (labels s tid') -> tid = tid';
  s_exld : forall m, In m (execs s) -> loaded (mods s m) = true \/ exists tid, In m (labels s tid);
  s_ldex : forall m, loaded (mods s m) = true -> In m (execs s);
  s_edge : forall m, E s m <> None -> exists tid, In m (labels s tid);
  s_top : forall tid m ls rest, stack (thr s tid) = (m, ls) :: rest -> top_ok (E s) (ph (thr s tid)) m;
  s_chain : forall tid m ls rest, stack (thr s tid) = (m, ls) :: rest -> chain_ok (E s) m rest;
  s_tgt : forall tid t, tgt_of (ph (thr s tid)) = Some t -> In t (registry s)
}.

Lemma inv_stk_init : forall roots, inv_stk (init roots).
Proof.
  intros roots.
  assert (Hst : forall tid, stack (thr (init roots) tid) = []).
  { intros tid. destruct (init_thread roots tid) as [[r [_ ->]]|[_ ->]]; reflexivity. }
  assert (Hl : forall tid, labels (init roots) tid = []).
  { intros tid. unfold labels. now rewrite Hst. }
  constructor.
  - intros tid H. destruct (init_thread roots tid) as [[r [Hn ->]]|[_ ->]]; auto.
    exfalso. cbn in H. assert (H0 : nth_error roots tid <> None) by congruence.
    apply nth_error_Some in H0. lia.
  - intros tid. unfold shape. destruct (init_thread roots tid) as [[r [_ ->]]|[_ ->]]; reflexivity.
  - intros tid m H. rewrite Hl in H. contradiction.
  - intros tid m H. rewrite Hl in H. contradiction.
  - intros tid. rewrite Hl. constructor.
  - intros tid tid' m H. rewrite Hl in H. contradiction.
  - intros m H. cbn in H. contradiction.
  - intros m H. cbn in H. discriminate.
  - intros m H. cbn in H. congruence.
  - intros tid m ls rest H. rewrite Hst in H. discriminate.
  - intros tid m ls rest H. rewrite Hst in H. discriminate.
  - intros tid t H. destruct (init_thread roots tid) as [[r [_ Ht]]|[_ Ht]]; rewrite Ht in H; discriminate.
Qed.

(** steps that change only the acting thread's phase (and possibly grow the registry) *)
Lemma inv_stk_frame : forall s s' tid, inv_stk s -> tid < nthr s ->
  mods s' = mods s -> execs s' = execs s -> incl (registry s) (registry s') -> nthr s' = nthr s ->
  (forall i, i <> tid -> thr s' i = thr s i) ->
  (map fst (stack (thr s' tid)) = map fst (stack (thr s tid)) /\ tl (stack (thr s' tid)) = tl (stack (thr s tid))) ->
  shape (thr s' tid) ->
  (forall m ls rest, stack (thr s tid) = (m, ls) :: rest -> top_ok (E s) (ph (thr s' tid)) m) ->
  (forall t, tgt_of (ph (thr s' tid)) = Some t -> In t (registry s')) ->
  inv_stk s'.
Proof.
  intros s s' tid I Hlt Hm He Hr Hn Ho Hst Hsh Htop Htg.
  assert (HE : forall x, E s' x = E s x) by (intros; unfold E; now rewrite Hm).
  assert (HL : forall i, labels s' i = labels s i).
  { intros i. unfold labels. destruct (Nat.eq_dec i tid) as [->|Hne]; [apply Hst|now rewrite Ho]. }
  assert (Hold : forall m ls rest, stack (thr s' tid) = (m, ls) :: rest -> exists ls', stack (thr s tid) = (m, ls') :: rest).
  { intros m ls rest Hs. destruct Hst as [Hf Ht]. rewrite Hs in Hf, Ht. cbn in Hf, Ht.
    destruct (stack (thr s tid)) as [|[m' l'] r']; [discriminate|]. cbn in Hf, Ht. injection Hf as <- _. subst. eauto. }
  destruct I. constructor; intros; rewrite ?HL, ?Hm, ?He, ?Hn in *; eauto.
  - destruct (Nat.eq_dec tid0 tid) as [->|Hne]; [lia|]. rewrite Ho; auto.
  - destruct (Nat.eq_dec tid0 tid) as [->|Hne]; [auto|]. rewrite Ho; auto.
  - destruct (s_exld0 m H) as [?|[i Hi]]; auto. right. exists i. now rewrite HL.
  - rewrite HE in H. destruct (s_edge0 m H) as [i Hi]. exists i. now rewrite HL.
  - destruct (Nat.eq_dec tid0 tid) as [->|Hne].
    + destruct (Hold _ _ _ H) as [ls' H']. unfold top_ok. specialize (Htop _ _ _ H'). unfold top_ok in Htop.
      destruct (ph (thr s' tid)); rewrite ?HE; auto.
    + rewrite (Ho tid0 Hne) in *. specialize (s_top0 _ _ _ _ H). unfold top_ok in *.
      destruct (ph (thr s tid0)); rewrite ?HE; auto.
  - apply chain_ok_ext with (E := E s); [intros; apply HE|].
    destruct (Nat.eq_dec tid0 tid) as [->|Hne]; [destruct (Hold _ _ _ H) as [ls' H']|rewrite (Ho tid0 Hne) in H]; eauto.
  - destruct (Nat.eq_dec tid0 tid) as [->|Hne]; [auto|]. rewrite (Ho tid0 Hne) in H; eauto.
Qed.


Lemma E_set_thr : forall s tid T0 x, E (set_thr s tid T0) x = E s x.
Proof. reflexivity. Qed.

Lemma E_set_loading : forall s m v x, E (set_loading s m v) x = if Nat.eqb x m then v else E s x.
Proof. intros. unfold E, set_loading, upd. cbn. destruct (Nat.eqb x m); reflexivity. Qed.

Lemma loaded_set_loading : forall s m v x, loaded (mods (set_loading s m v) x) = loaded (mods s x).
Proof. intros. unfold set_loading, upd. cbn. destruct (Nat.eqb_spec x m); subst; reflexivity. Qed.

Lemma E_set_done : forall s m b x, E (set_done s m b) x = E s x.
Proof. intros. unfold E, set_done, upd. cbn. destruct (Nat.eqb_spec x m); subst; reflexivity. Qed.

Lemma loaded_set_done : forall s m b x,
  loaded (mods (set_done s m b) x) = if Nat.eqb x m then true else loaded (mods s x).
Proof. intros. unfold set_done, upd. cbn. destruct (Nat.eqb x m); reflexivity. Qed.

Lemma labels_top : forall s tid m ls rest, stack (thr s tid) = (m, ls) :: rest ->
  labels s tid = m :: map fst rest.
Proof. intros. unfold labels. rewrite H. reflexivity. Qed.

(** the acting thread rewrites the loading field of its top frame *)
Lemma inv_stk_edge : forall s tid m ls rest v p', inv_stk s -> tid < nthr s ->
  stack (thr s tid) = (m, ls) :: rest ->
  top_ok (fun x => if Nat.eqb x m then v else E s x) p' m ->
  match p' with PStart _ | PFin => False | _ => True end ->
  (forall t, tgt_of p' = Some t -> In t (registry s)) ->
  inv_stk (set_thr (set_loading s m v) tid (mkT ((m, ls) :: rest) p')).
Proof.
  intros s tid m ls rest v p' I Hlt Hst Htop Hp Htg.
  set (s' := set_thr (set_loading s m v) tid (mkT ((m, ls) :: rest) p')).
  assert (HL : forall i, labels s' i = labels s i).
  { intros i. unfold labels, s'. proj_simpl. thr_cases i tid; auto. now rewrite Hst. }
  assert (HE : forall x, E s' x = if Nat.eqb x m then v else E s x).
  { intros. unfold s'. apply E_set_loading. }
  assert (HEo : forall x, x <> m -> E s' x = E s x).
  { intros x Hx. rewrite HE. destruct (Nat.eqb_spec x m); congruence. }
  assert (Hld : forall x, loaded (mods s' x) = loaded (mods s x)).
  { intros. unfold s'. apply loaded_set_loading. }
  assert (Hmt : In m (labels s tid)) by (rewrite (labels_top _ _ _ _ _ Hst); left; auto).
  destruct I. constructor; intros; rewrite ?HL, ?Hld in *; eauto.
  - unfold s' in *. proj_simpl. thr_cases tid0 tid; [lia|auto].
  - unfold s'. proj_simpl. thr_cases tid0 tid; auto. unfold shape. cbn. destruct p'; try contradiction; auto; discriminate.
  - destruct (s_exld0 m0 H) as [?|[i Hi]]; auto. right. exists i. now rewrite HL.
  - destruct (Nat.eq_dec m0 m) as [->|Hne]; [exists tid; now rewrite HL|].
    rewrite HEo in H by auto. destruct (s_edge0 m0 H) as [i Hi]. exists i. now rewrite HL.
  - unfold s' in H |- *. proj_simpl. thr_cases tid0 tid.
    + cbn in H. injection H as <- <- <-. cbn.
      unfold top_ok in *. destruct p'; auto; rewrite E_set_thr, E_set_loading; auto.
    + assert (Hm0 : m0 <> m).
      { intros ->. apply n. eapply s_stdj0; eauto. rewrite (labels_top _ _ _ _ _ H). left; auto. }
      specialize (s_top0 _ _ _ _ H). unfold top_ok in *.
      destruct (ph (thr s tid0)); auto; rewrite E_set_thr, E_set_loading; destruct (Nat.eqb_spec m0 m); congruence.
  - assert (Hr : stack (thr s tid0) = (m0, ls0) :: rest0).
    { unfold s' in H. proj_simpl. thr_cases tid0 tid; auto. cbn in H. congruence. }
    apply chain_ok_ext with (E := E s); [|eauto].
    intros x Hx. apply HEo. intros ->.
    destruct (Nat.eq_dec tid0 tid) as [->|Hne].
    + rewrite Hst in Hr. injection Hr as <- <- <-.
      specialize (s_stnd0 tid). rewrite (labels_top _ _ _ _ _ Hst) in s_stnd0.
      inversion s_stnd0; auto.
    + apply Hne. eapply s_stdj0; eauto. rewrite (labels_top _ _ _ _ _ Hr). right; auto.
  - unfold s' in H |- *. proj_simpl. thr_cases tid0 tid; eauto.
Qed.


Lemma fresh_facts : forall s t, inv_stk s -> ~ In t (execs s) ->
  (forall i, ~ In t (labels s i)) /\ loaded (mods s t) = false /\ E s t = None.
Proof.
  intros s t I Hn. destruct I. repeat split.
  - intros i Hi. apply Hn. eauto.
  - destruct (loaded (mods s t)) eqn:Hl; auto. exfalso. auto.
  - destruct (E s t) eqn:He; auto. exfalso. destruct (s_edge0 t) as [i Hi]; [congruence|]. apply Hn. eauto.
Qed.

(** done(): the top frame is popped *)
Lemma inv_stk_pop : forall s tid m ls rest b, inv_stk s -> tid < nthr s ->
  stack (thr s tid) = (m, ls) :: rest -> E s m = None ->
  inv_stk (set_thr (set_done s m b) tid (mkT rest (after_pop rest b))).
Proof.
  intros s tid m ls rest b I Hlt Hst Hem.
  set (s' := set_thr (set_done s m b) tid (mkT rest (after_pop rest b))).
  assert (HLt : labels s' tid = map fst rest).
  { unfold labels, s'. proj_simpl. now rewrite upd_same. }
  assert (HLo : forall i, i <> tid -> labels s' i = labels s i).
  { intros i Hi. unfold labels, s'. proj_simpl. now rewrite upd_other by auto. }
  assert (HLs : forall i x, In x (labels s' i) -> In x (labels s i)).
  { intros i x Hx. destruct (Nat.eq_dec i tid) as [->|Hne].
    - rewrite HLt in Hx. rewrite (labels_top _ _ _ _ _ Hst). right; auto.
    - now rewrite HLo in Hx. }
  assert (HE : forall x, E s' x = E s x) by (intros; apply E_set_done).
  assert (Hld : forall x, loaded (mods s' x) = if Nat.eqb x m then true else loaded (mods s x)).
  { intros. unfold s'. apply loaded_set_done. }
  assert (Hnd : NoDup (m :: map fst rest)).
  { destruct I. specialize (s_stnd0 tid). now rewrite (labels_top _ _ _ _ _ Hst) in s_stnd0. }
  assert (Hmx : forall i x, In x (labels s' i) -> x <> m).
  { intros i x Hx ->. destruct (Nat.eq_dec i tid) as [->|Hne].
    - rewrite HLt in Hx. inversion Hnd; auto.
    - rewrite HLo in Hx by auto. apply Hne. destruct I. eapply s_stdj0; eauto.
      rewrite (labels_top _ _ _ _ _ Hst). left; auto. }
  destruct I. constructor.
  - intros i Hi. unfold s' in *. proj_simpl. thr_cases i tid; [lia|auto].
  - intros i. unfold s'. proj_simpl. thr_cases i tid; auto. unfold shape. cbn.
    destruct rest; cbn; auto. discriminate.
  - intros i x Hx. unfold s'. proj_simpl. eauto.
  - intros i x Hx. rewrite Hld. specialize (Hmx _ _ Hx). destruct (Nat.eqb_spec x m); [contradiction|]. eauto.
  - intros i. destruct (Nat.eq_dec i tid) as [->|Hne]; [rewrite HLt; inversion Hnd; auto|rewrite HLo; auto].
  - intros i i' x Hx Hx'. eauto.
  - intros x Hx. rewrite Hld. destruct (Nat.eqb_spec x m); auto.
    unfold s' in Hx. proj_simpl. destruct (s_exld0 x Hx) as [?|[i Hi]]; auto. right. exists i.
    destruct (Nat.eq_dec i tid) as [->|Hne]; [|now rewrite HLo].
    rewrite HLt. rewrite (labels_top _ _ _ _ _ Hst) in Hi. destruct Hi; congruence.
  - intros x Hx. rewrite Hld in Hx. unfold s'. proj_simpl. destruct (Nat.eqb_spec x m); auto.
    subst. eapply s_stex0. rewrite (labels_top _ _ _ _ _ Hst). left; auto.
  - intros x Hx. rewrite HE in Hx. destruct (s_edge0 x Hx) as [i Hi]. exists i.
    destruct (Nat.eq_dec i tid) as [->|Hne]; [|now rewrite HLo].
    rewrite HLt. rewrite (labels_top _ _ _ _ _ Hst) in Hi. destruct Hi; auto. congruence.
  - intros i m0 ls0 rest0 H. unfold s' in H |- *. proj_simpl. thr_cases i tid.
    + cbn in H |- *. subst rest. cbn. exact I.
    + specialize (s_top0 _ _ _ _ H). unfold top_ok in *.
      destruct (ph (thr s i)); auto; rewrite E_set_thr, E_set_done; auto.
  - intros i m0 ls0 rest0 H. apply chain_ok_ext with (E := E s); [intros; apply HE|].
    unfold s' in H. proj_simpl. thr_cases i tid.
    + cbn in H. subst rest. specialize (s_chain0 _ _ _ _ Hst). cbn in s_chain0. tauto.
    + eauto.
  - intros i t H. unfold s' in H |- *. proj_simpl. thr_cases i tid; eauto.
    cbn in H. destruct (after_pop_cases rest b) as [Hc|Hc]; rewrite Hc in H; discriminate.
Qed.

(** module.load entered on the miss path: a fresh frame is pushed *)
Lemma inv_stk_push : forall s tid t m ls rest, inv_stk s -> inv_reg s -> tid < nthr s ->
  ph (thr s tid) = PMissEdge t -> stack (thr s tid) = (m, ls) :: rest ->
  inv_stk (set_thr (add_exec (set_loading s m (Some t)) t) tid (mkT ((t, loads t) :: (m, ls) :: rest) PExec)).
Proof.
  intros s tid t m ls rest I IR Hlt Hph Hst.
  set (s' := set_thr (add_exec (set_loading s m (Some t)) t) tid (mkT ((t, loads t) :: (m, ls) :: rest) PExec)).
  destruct (i_miss _ IR _ _ Hph) as [Htr Hte].
  destruct (fresh_facts _ _ I Hte) as [Htl [Htld HtE]].
  assert (HLt : labels s' tid = t :: labels s tid).
  { unfold labels, s'. proj_simpl. rewrite upd_same. cbn. now rewrite Hst. }
  assert (HLo : forall i, i <> tid -> labels s' i = labels s i).
  { intros i Hi. unfold labels, s'. proj_simpl. now rewrite upd_other by auto. }
  assert (Hmt : In m (labels s tid)) by (rewrite (labels_top _ _ _ _ _ Hst); left; auto).
  assert (Htm : t <> m) by (intros ->; eapply Htl; eauto).
  assert (HE : forall x, E s' x = if Nat.eqb x m then Some t else E s x).
  { intros. unfold s'. rewrite E_set_thr. unfold add_exec, E. cbn. unfold upd. destruct (Nat.eqb x m); reflexivity. }
  assert (HEo : forall x, x <> m -> E s' x = E s x).
  { intros x Hx. rewrite HE. destruct (Nat.eqb_spec x m); congruence. }
  assert (Hld : forall x, loaded (mods s' x) = loaded (mods s x)).
  { intros. unfold s'. proj_simpl. unfold upd. destruct (Nat.eqb_spec x m); subst; reflexivity. }
  assert (HLs : forall i x, In x (labels s' i) -> x = t /\ i = tid \/ In x (labels s i)).
  { intros i x Hx. destruct (Nat.eq_dec i tid) as [->|Hne].
    - rewrite HLt in Hx. destruct Hx; auto.
    - rewrite HLo in Hx; auto. }
  destruct I. constructor.
  - intros i Hi. unfold s' in *. proj_simpl. thr_cases i tid; [lia|auto].
  - intros i. unfold s'. proj_simpl. thr_cases i tid; auto. unfold shape. cbn. discriminate.
  - intros i x Hx. unfold s'. proj_simpl. destruct (HLs _ _ Hx) as [[-> _]|?]; [left; auto|right; eauto].
  - intros i x Hx. rewrite Hld. destruct (HLs _ _ Hx) as [[-> _]|?]; eauto.
  - intros i. destruct (Nat.eq_dec i tid) as [->|Hne]; [rewrite HLt; constructor; auto|rewrite HLo; auto].
  - intros i i' x Hx Hx'.
    destruct (HLs _ _ Hx) as [[-> ->]|?]; destruct (HLs _ _ Hx') as [[? ?]|?]; subst; auto.
    + exfalso. eapply Htl; eauto.
    + exfalso. eapply Htl; eauto.
    + eauto.
  - intros x Hx. rewrite Hld. unfold s' in Hx. proj_simpl. destruct Hx as [<-|Hx].
    + right. exists tid. rewrite HLt. left; auto.
    + destruct (s_exld0 x Hx) as [?|[i Hi]]; auto. right. exists i.
      destruct (Nat.eq_dec i tid) as [->|Hne]; [rewrite HLt; right; auto|now rewrite HLo].
  - intros x Hx. rewrite Hld in Hx. unfold s'. proj_simpl. right. auto.
  - intros x Hx. destruct (Nat.eq_dec x m) as [->|Hne].
    + exists tid. rewrite HLt. right; auto.
    + rewrite HEo in Hx by auto. destruct (s_edge0 x Hx) as [i Hi]. exists i.
      destruct (Nat.eq_dec i tid) as [->|Hne']; [rewrite HLt; right; auto|now rewrite HLo].
  - intros i m0 ls0 rest0 H. unfold s' in H |- *. proj_simpl. thr_cases i tid.
    + cbn in H |- *. injection H as <- <- <-.
      change (E s' t = None). rewrite HEo; auto.
    + assert (Hm0 : m0 <> m).
      { intros ->. apply n. eapply s_stdj0; eauto. rewrite (labels_top _ _ _ _ _ H). left; auto. }
      specialize (s_top0 _ _ _ _ H). unfold top_ok in *.
      change (E (set_thr (add_exec (set_loading s m (Some t)) t) tid
                 {| stack := (t, loads t) :: (m, ls) :: rest; ph := PExec |})) with (E s').
      destruct (ph (thr s i)); auto; rewrite HEo; auto.
  - intros i m0 ls0 rest0 H. unfold s' in H. proj_simpl. thr_cases i tid.
    + cbn in H. injection H as <- <- <-. cbn. split.
      * rewrite HE. now rewrite Nat.eqb_refl.
      * apply chain_ok_ext with (E := E s); [|eauto].
        intros x Hx. apply HEo. intros ->.
        specialize (s_stnd0 tid). rewrite (labels_top _ _ _ _ _ Hst) in s_stnd0. inversion s_stnd0; auto.
    + apply chain_ok_ext with (E := E s); [|eauto].
      intros x Hx. apply HEo. intros ->. apply n. eapply s_stdj0; eauto.
      rewrite (labels_top _ _ _ _ _ H). right; auto.
  - intros i t0 H. unfold s' in H |- *. proj_simpl. thr_cases i tid; eauto. cbn in H. discriminate.
Qed.

(** a package goroutine registers its BUILD.dawn and starts executing it *)
Lemma inv_stk_start : forall s tid r, inv_stk s -> inv_reg s -> tid < nthr s ->
  ph (thr s tid) = PStart r -> ~ In r (registry s) ->
  inv_stk (set_thr (add_exec (add_reg s r) r) tid (mkT [(r, loads r)] PExec)).
Proof.
  intros s tid r I IR Hlt Hph Hnr.
  set (s' := set_thr (add_exec (add_reg s r) r) tid (mkT [(r, loads r)] PExec)).
  assert (Hre : ~ In r (execs s)) by (intros H; apply Hnr; eapply i_exreg; eauto).
  destruct (fresh_facts _ _ I Hre) as [Htl [Htld HtE]].
  assert (Hst : stack (thr s tid) = []).
  { destruct I. specialize (s_shape0 tid). unfold shape in s_shape0. now rewrite Hph in s_shape0. }
  assert (HLt : labels s' tid = [r]).
  { unfold labels, s'. proj_simpl. rewrite upd_same. reflexivity. }
  assert (HLo : forall i, i <> tid -> labels s' i = labels s i).
  { intros i Hi. unfold labels, s'. proj_simpl. now rewrite upd_other by auto. }
  assert (HL0 : labels s tid = []) by (unfold labels; now rewrite Hst).
  assert (HLs : forall i x, In x (labels s' i) -> x = r /\ i = tid \/ (i <> tid /\ In x (labels s i))).
  { intros i x Hx. destruct (Nat.eq_dec i tid) as [->|Hne].
    - rewrite HLt in Hx. destruct Hx as [<-|[]]; auto.
    - rewrite HLo in Hx; auto. }
  assert (HE : forall x, E s' x = E s x) by reflexivity.
  assert (Hld : forall x, loaded (mods s' x) = loaded (mods s x)) by reflexivity.
  destruct I. constructor.
  - intros i Hi. unfold s' in *. proj_simpl. thr_cases i tid; [lia|auto].
  - intros i. unfold s'. proj_simpl. thr_cases i tid; auto. unfold shape. cbn. discriminate.
  - intros i x Hx. unfold s'. proj_simpl. destruct (HLs _ _ Hx) as [[-> _]|[_ ?]]; [left; auto|right; eauto].
  - intros i x Hx. rewrite Hld. destruct (HLs _ _ Hx) as [[-> _]|[_ ?]]; eauto.
  - intros i. destruct (Nat.eq_dec i tid) as [->|Hne]; [rewrite HLt; repeat constructor; auto|rewrite HLo; auto].
  - intros i i' x Hx Hx'.
    destruct (HLs _ _ Hx) as [[-> ->]|[? ?]]; destruct (HLs _ _ Hx') as [[? ?]|[? ?]]; subst; auto.
    + exfalso. eapply Htl; eauto.
    + exfalso. eapply Htl; eauto.
    + eauto.
  - intros x Hx. rewrite Hld. unfold s' in Hx. proj_simpl. destruct Hx as [<-|Hx].
    + right. exists tid. rewrite HLt. left; auto.
    + destruct (s_exld0 x Hx) as [?|[i Hi]]; auto. right. exists i.
      destruct (Nat.eq_dec i tid) as [->|Hne]; [rewrite HL0 in Hi; contradiction|now rewrite HLo].
  - intros x Hx. rewrite Hld in Hx. unfold s'. proj_simpl. right. auto.
  - intros x Hx. rewrite HE in Hx. destruct (s_edge0 x Hx) as [i Hi]. exists i.
    destruct (Nat.eq_dec i tid) as [->|Hne']; [rewrite HL0 in Hi; contradiction|now rewrite HLo].
  - intros i m0 ls0 rest0 H. unfold s' in H |- *. proj_simpl. thr_cases i tid.
    + cbn in H |- *. injection H as <- <- <-. exact HtE.
    + exact (s_top0 _ _ _ _ H).
  - intros i m0 ls0 rest0 H. unfold s' in H. proj_simpl. thr_cases i tid.
    + cbn in H. injection H as <- <- <-. exact I.
    + exact (s_chain0 _ _ _ _ H).
  - intros i t0 H. unfold s' in H |- *. proj_simpl. thr_cases i tid.
    + cbn in H. discriminate.
    + right. eauto.
Qed.


Lemma inv_stk_step : forall s tid s', inv_stk s -> inv_reg s -> tid < nthr s -> kstep loads bad s tid s' -> inv_stk s'.
Proof.
  intros s tid s' IS IR Hlt K.
  assert (Hsh := s_shape _ IS tid). unfold shape in Hsh.
  destruct K.
  - (* KStartHit *) rewrite H in Hsh.
    eapply inv_stk_frame with (tid := tid); [exact IS|assumption|proj_simpl; auto; try apply incl_refl..].
    + intros. now rewrite upd_other.
    + rewrite upd_same. cbn. now rewrite Hsh.
    + rewrite upd_same. exact I.
    + intros m ls rest Hs. rewrite Hsh in Hs. discriminate.
    + rewrite upd_same. cbn. intros t [= <-]. auto.
  - (* KStartMiss *) apply inv_stk_start; auto.
  - (* KDone *) eapply inv_stk_pop; eauto. pose proof (s_top _ IS _ _ _ _ H0) as Ht. now rewrite H in Ht.
  - (* KFail *) eapply inv_stk_pop; eauto. pose proof (s_top _ IS _ _ _ _ H0) as Ht. now rewrite H in Ht.
  - (* KHit *)
    eapply inv_stk_frame with (tid := tid); [exact IS|assumption|proj_simpl; auto; try apply incl_refl..].
    + intros. now rewrite upd_other.
    + rewrite upd_same. cbn. rewrite H0. auto.
    + rewrite upd_same. unfold shape. cbn. discriminate.
    + rewrite upd_same. cbn. intros m0 ls0 rest0 Hs. rewrite H0 in Hs. injection Hs as <- _ _.
      pose proof (s_top _ IS _ _ _ _ H0) as Ht. now rewrite H in Ht.
    + rewrite upd_same. cbn. intros t0 [= <-]. auto.
  - (* KMiss *)
    eapply inv_stk_frame with (tid := tid); [exact IS|assumption|proj_simpl; auto; try (apply incl_tl, incl_refl)..].
    + intros. now rewrite upd_other.
    + rewrite upd_same. cbn. rewrite H0. auto.
    + rewrite upd_same. unfold shape. cbn. discriminate.
    + rewrite upd_same. cbn. intros m0 ls0 rest0 Hs. rewrite H0 in Hs. injection Hs as <- _ _.
      pose proof (s_top _ IS _ _ _ _ H0) as Ht. now rewrite H in Ht.
    + rewrite upd_same. cbn. intros t0 [= <-]. left; auto.
  - (* KMissEdge *) apply inv_stk_push; auto.
  - (* KHitEdge *)
    apply inv_stk_edge; auto.
    + cbn. now rewrite Nat.eqb_refl.
    + cbn. intros t0 [= <-]. apply (s_tgt _ IS tid). now rewrite H.
  - (* KWalkNone *)
    pose proof (s_top _ IS _ _ _ _ H0) as Ht. rewrite H in Ht. cbn in Ht.
    eapply inv_stk_frame with (tid := tid); [exact IS|assumption|proj_simpl; auto; try apply incl_refl..].
    + intros. now rewrite upd_other.
    + rewrite upd_same. cbn. rewrite H0. auto.
    + rewrite upd_same. exact I.
    + rewrite upd_same. cbn. intros m0 ls0 rest0 Hs. rewrite H0 in Hs. now injection Hs as <- _ _.
    + rewrite upd_same. cbn. intros t0 [= <-]. apply (s_tgt _ IS tid). now rewrite H.
  - (* KWalkCycle *)
    eapply inv_stk_frame with (tid := tid); [exact IS|assumption|proj_simpl; auto; try apply incl_refl..].
    + intros. now rewrite upd_other.
    + rewrite upd_same. cbn. rewrite H0. auto.
    + rewrite upd_same. unfold shape. cbn. discriminate.
    + rewrite upd_same. cbn. auto.
    + rewrite upd_same. cbn. discriminate.
  - (* KWalkSeen *)
    pose proof (s_top _ IS _ _ _ _ H0) as Ht. rewrite H in Ht. cbn in Ht.
    eapply inv_stk_frame with (tid := tid); [exact IS|assumption|proj_simpl; auto; try apply incl_refl..].
    + intros. now rewrite upd_other.
    + rewrite upd_same. cbn. rewrite H0. auto.
    + rewrite upd_same. exact I.
    + rewrite upd_same. cbn. intros m0 ls0 rest0 Hs. rewrite H0 in Hs. now injection Hs as <- _ _.
    + rewrite upd_same. cbn. intros t0 [= <-]. apply (s_tgt _ IS tid). now rewrite H.
  - (* KWalkHop *)
    pose proof (s_top _ IS _ _ _ _ H0) as Ht. rewrite H in Ht. cbn in Ht.
    eapply inv_stk_frame with (tid := tid); [exact IS|assumption|proj_simpl; auto; try apply incl_refl..].
    + intros. now rewrite upd_other.
    + rewrite upd_same. cbn. rewrite H0. auto.
    + rewrite upd_same. unfold shape. cbn. discriminate.
    + rewrite upd_same. cbn. intros m0 ls0 rest0 Hs. rewrite H0 in Hs. now injection Hs as <- _ _.
    + rewrite upd_same. cbn. intros t0 [= <-]. apply (s_tgt _ IS tid). now rewrite H.
  - (* KWokenRoot *)
    eapply inv_stk_frame with (tid := tid); [exact IS|assumption|proj_simpl; auto; try apply incl_refl..].
    + intros. now rewrite upd_other.
    + rewrite upd_same. cbn. rewrite H0. auto.
    + rewrite upd_same. reflexivity.
    + intros m ls rest Hs. rewrite H0 in Hs. discriminate.
    + rewrite upd_same. cbn. discriminate.
  - (* KWoken *)
    eapply inv_stk_frame with (tid := tid); [exact IS|assumption|proj_simpl; auto; try apply incl_refl..].
    + intros. now rewrite upd_other.
    + rewrite upd_same. cbn. rewrite H0. auto.
    + rewrite upd_same. unfold shape. cbn. discriminate.
    + rewrite upd_same. cbn. auto.
    + rewrite upd_same. cbn. discriminate.
  - (* KRet *)
    apply inv_stk_edge; auto.
    + destruct r; cbn; now rewrite Nat.eqb_refl.
    + destruct r; exact I.
    + destruct r; cbn; discriminate.
Qed.

End InvStk.
