(** C06 proofs, part 2: registry / executed-set invariants; executed_at_most_once. *)
From Coq Require Import List Arith Bool Lia.
From Dawn Require Import Loader.Model Loader.Step.
Import ListNotations.

Arguments upd : simpl never.

Ltac proj_simpl :=
  cbn [registry mods thr nthr ndone execs set_thr add_exec add_reg set_loading set_done stack ph] in *.

Ltac thr_cases i tid :=
  destruct (Nat.eq_dec i tid) as [->|?];
  [rewrite ?upd_same in * | rewrite ?upd_other in * by assumption].

Section InvReg.
Variable loads : label -> list label.
Variable bad : label -> bool.

Record inv_reg (s : state) : Prop := {
  i_regnd : NoDup (registry s);
  i_exreg : forall t, In t (execs s) -> In t (registry s);
  i_exnd : NoDup (execs s);
  i_miss : forall tid t, ph (thr s tid) = PMissEdge t -> In t (registry s) /\ ~ In t (execs s);
  i_miss1 : forall tid tid' t, ph (thr s tid) = PMissEdge t -> ph (thr s tid') = PMissEdge t -> tid = tid';
  i_regex : forall m, In m (registry s) -> In m (execs s) \/ exists tid, ph (thr s tid) = PMissEdge m
}.

Lemma init_thread : forall roots tid,
  (exists r, nth_error roots tid = Some r /\ thr (init roots) tid = mkT [] (PStart r)) \/
  (nth_error roots tid = None /\ thr (init roots) tid = mkT [] PFin).
Proof.
  intros. cbn. destruct (nth_error roots tid); eauto.
Qed.

Lemma inv_reg_init : forall roots, inv_reg (init roots).
Proof.
  intros roots.
  assert (Hn : forall tid t, ph (thr (init roots) tid) <> PMissEdge t).
  { intros tid t. destruct (init_thread roots tid) as [[r [_ ->]]|[_ ->]]; discriminate. }
  constructor; intros.
  - constructor.
  - contradiction.
  - constructor.
  - exfalso. eapply Hn; eauto.
  - exfalso. eapply Hn; eauto.
  - contradiction.
Qed.

Lemma after_pop_cases : forall rest b, after_pop rest b = PFin \/ after_pop rest b = PRet b.
Proof. destruct rest; cbn; auto. Qed.

Lemma inv_reg_frame : forall s s' tid, inv_reg s ->
  registry s' = registry s -> execs s' = execs s ->
  (forall i, i <> tid -> thr s' i = thr s i) ->
  (forall t, ph (thr s' tid) <> PMissEdge t) -> (forall t, ph (thr s tid) <> PMissEdge t) ->
  inv_reg s'.
Proof.
  intros s s' tid [Ird Ier Ien Im Im1 Ire] Hr He Ho Hn Hn0.
  assert (Hph : forall i t, ph (thr s' i) = PMissEdge t -> ph (thr s i) = PMissEdge t).
  { intros i t Hp. destruct (Nat.eq_dec i tid) as [->|Hne]; [exfalso; eapply Hn; eauto|].
    rewrite Ho in Hp; auto. }
  constructor; rewrite ?Hr, ?He; auto.
  - intros i t Hp. eauto.
  - intros i i' t Hp Hp'. eauto.
  - intros m Hin. destruct (Ire m Hin) as [?|[i Hi]]; auto. right. exists i.
    destruct (Nat.eq_dec i tid) as [->|Hne]; [exfalso; eapply Hn0; eauto|]. rewrite Ho; auto.
Qed.

Ltac frame_tac :=
  proj_simpl; auto;
  try (intros; rewrite upd_other by assumption; reflexivity);
  try (intros; rewrite ?upd_same; cbn; try discriminate; congruence).

Lemma inv_reg_step : forall s tid s', inv_reg s -> kstep loads bad s tid s' -> inv_reg s'.
Proof.
  intros s tid s' I K.
  destruct K.
  all: try (eapply inv_reg_frame with (tid := tid); [exact I|frame_tac..]; fail).
  - (* KStartMiss *)
    destruct I as [Ird Ier Ien Im Im1 Ire]. constructor; proj_simpl.
    + constructor; auto.
    + intros t [<-|Hin]; [left; auto|right; auto].
    + constructor; auto.
    + intros i t0 Hp. thr_cases i tid; cbn in Hp; try discriminate.
      destruct (Im _ _ Hp) as [Hr He]. split; [right; auto|]. intros [<-|Hin]; auto.
    + intros i i' t0 Hp Hp'. thr_cases i tid; thr_cases i' tid; cbn in Hp, Hp'; try discriminate. eauto.
    + intros m0 [<-|Hin]; [left; left; auto|].
      destruct (Ire m0 Hin) as [?|[i Hi]]; [left; right; auto|]. right.
      destruct (Nat.eq_dec i tid) as [->|Hne]; [congruence|exists i; rewrite upd_other by auto; auto].
  - (* KDone *)
    eapply inv_reg_frame with (tid := tid); [exact I|frame_tac..].
    intros t. rewrite upd_same. cbn. destruct (after_pop_cases rest (negb (bad m))) as [->| ->]; discriminate.
  - (* KFail *)
    eapply inv_reg_frame with (tid := tid); [exact I|frame_tac..].
    intros t. rewrite upd_same. cbn. destruct (after_pop_cases rest false) as [->| ->]; discriminate.
  - (* KMiss *)
    destruct I as [Ird Ier Ien Im Im1 Ire]. constructor; proj_simpl.
    + constructor; auto.
    + intros t0 Hin. right. auto.
    + auto.
    + intros i t0 Hp. thr_cases i tid; cbn in Hp.
      * injection Hp as <-. split; [left; auto|]. intros Hin. apply H1. auto.
      * destruct (Im _ _ Hp). split; [right|]; auto.
    + intros i i' t0 Hp Hp'. thr_cases i tid; thr_cases i' tid; cbn in Hp, Hp'; auto.
      * injection Hp as <-. destruct (Im _ _ Hp'). contradiction.
      * injection Hp' as <-. destruct (Im _ _ Hp). contradiction.
      * eauto.
    + intros m0 [<-|Hin].
      * right. exists tid. rewrite upd_same. reflexivity.
      * destruct (Ire m0 Hin) as [?|[i Hi]]; auto. right.
        destruct (Nat.eq_dec i tid) as [->|Hne]; [congruence|exists i; rewrite upd_other by auto; auto].
  - (* KMissEdge *)
    destruct I as [Ird Ier Ien Im Im1 Ire]. constructor; proj_simpl.
    + auto.
    + intros t0 [<-|Hin]; auto. destruct (Im _ _ H); auto.
    + constructor; auto. destruct (Im _ _ H); auto.
    + intros i t0 Hp. thr_cases i tid; cbn in Hp; try discriminate.
      destruct (Im _ _ Hp) as [Hr He]. split; auto. intros [<-|Hin]; auto.
      apply n. eapply Im1; eauto.
    + intros i i' t0 Hp Hp'. thr_cases i tid; thr_cases i' tid; cbn in Hp, Hp'; try discriminate. eauto.
    + intros m0 Hin. destruct (Ire m0 Hin) as [?|[i Hi]]; [left; right; auto|].
      destruct (Nat.eq_dec i tid) as [->|Hne].
      * left. left. congruence.
      * right. exists i. rewrite upd_other by auto. auto.
  - (* KRet *)
    eapply inv_reg_frame with (tid := tid); [exact I|frame_tac..].
    intros t. rewrite upd_same. cbn. destruct r; discriminate.
Qed.

End InvReg.
