(** C06 proofs, part 6: loading edges follow the load graph; acyclic graphs never produce an error. *)
From Coq Require Import List Arith Bool Lia.
From Dawn Require Import Loader.Model Loader.Step Loader.InvReg Loader.InvStk.
Import ListNotations.

Arguments upd : simpl never.

Section Graph.
Variable loads : label -> list label.
Variable bad : label -> bool.
Variable roots : list label.

Notation gplus := (gplus loads).
Notation from_roots := (from_roots loads roots).

Lemma gplus_snoc : forall a b c, gplus a b -> In c (loads b) -> gplus a c.
Proof.
  intros a b c H. induction H; intros Hc.
  - eapply gp_cons; eauto. apply gp_one; auto.
  - eapply gp_cons; eauto.
Qed.

Lemma gplus_trans : forall a b c, gplus a b -> gplus b c -> gplus a c.
Proof.
  intros a b c H. induction H; intros Hc.
  - eapply gp_cons; eauto.
  - eapply gp_cons; eauto.
Qed.

Lemma from_roots_step : forall m t, from_roots m -> In t (loads m) -> from_roots t.
Proof.
  intros m t [r [Hr [Heq|Hg]]] Ht; exists r; split; auto; right.
  - subst. apply gp_one; auto.
  - eapply gplus_snoc; eauto.
Qed.

(** per-thread facts (they do not depend on the shared state) *)
Definition thr_g (tid : nat) (T0 : thread) : Prop :=
  (forall m ls, In (m, ls) (stack T0) -> incl ls (loads m)) /\
  (forall m ls rest t, stack T0 = (m, ls) :: rest -> ph T0 = PMissEdge t \/ ph T0 = PHitEdge t -> In t (loads m)) /\
  (forall m ls rest t cur seen, stack T0 = (m, ls) :: rest -> ph T0 = PWalk t cur seen -> gplus m cur) /\
  (forall r, ph T0 = PStart r -> nth_error roots tid = Some r).

Record inv_g (s : state) : Prop := {
  g_thr : forall tid, thr_g tid (thr s tid);
  g_edge : forall m t, E s m = Some t -> In t (loads m);
  g_reg : forall m, In m (registry s) -> from_roots m;
  g_root : forall i r, nth_error roots i = Some r -> ph (thr s i) = PStart r \/ In r (registry s)
}.

Lemma inv_g_init : inv_g (init roots).
Proof.
  constructor.
  - intros tid. destruct (init_thread roots tid) as [[r [Hn ->]]|[_ ->]]; repeat split; cbn; intros;
      try contradiction; try discriminate; try (destruct H0; discriminate). congruence.
  - intros m t H. cbn in H. discriminate.
  - intros m H. cbn in H. contradiction.
  - intros i r H. left. cbn. now rewrite H.
Qed.

Lemma thr_g_mk : forall tid st p,
  (forall m ls, In (m, ls) st -> incl ls (loads m)) ->
  (forall m ls rest t, st = (m, ls) :: rest -> p = PMissEdge t \/ p = PHitEdge t -> In t (loads m)) ->
  (forall m ls rest t cur seen, st = (m, ls) :: rest -> p = PWalk t cur seen -> gplus m cur) ->
  (forall r, p <> PStart r) -> thr_g tid (mkT st p).
Proof.
  intros tid st p H1 H2 H3 H4. repeat split; cbn; eauto. intros r Hr. exfalso. eapply H4; eauto.
Qed.

Ltac pend_triv := try (intros ? ? ? ? ? [?|?]; discriminate).
Ltac walk_triv := try (intros; discriminate).
Ltac start_triv := try (intros; discriminate).

Lemma inv_g_step : forall s tid s', inv_g s -> inv_stk s -> inv_reg s -> kstep loads bad s tid s' -> inv_g s'.
Proof.
  intros s tid s' IG IS IR K.
  pose proof (g_thr _ IG tid) as GT. destruct GT as (G1 & G2 & G3 & G4).
  assert (Hthr : forall T0 (s0 : state), thr s0 = thr s -> thr_g tid T0 ->
                 forall i, thr_g i (upd (thr s0) tid T0 i)).
  { intros T0 s0 Hs0 HT i. destruct (Nat.eq_dec i tid) as [->|Hne]; [now rewrite upd_same|].
    rewrite upd_other by auto. rewrite Hs0. apply (g_thr _ IG). }
  assert (Hroot : forall (s0 : state) T0, thr s0 = thr s -> incl (registry s) (registry s0) ->
                  (forall r, ph (thr s tid) = PStart r -> In r (registry s0) \/ ph T0 = PStart r) ->
                  forall i r, nth_error roots i = Some r -> ph (upd (thr s0) tid T0 i) = PStart r \/ In r (registry s0)).
  { intros s0 T0 Hs0 Hinc Hst i r Hn. destruct (g_root _ IG i r Hn) as [Hp|Hin]; [|right; auto].
    destruct (Nat.eq_dec i tid) as [->|Hne].
    - rewrite upd_same. destruct (Hst r Hp); auto.
    - rewrite upd_other by auto. rewrite Hs0. auto. }
  assert (Hmreg : forall m ls rest, stack (thr s tid) = (m, ls) :: rest -> from_roots m).
  { intros m ls rest Hst. apply (g_reg _ IG). eapply i_exreg; eauto. eapply s_stex with (tid := tid); eauto.
    rewrite (labels_top _ _ _ _ _ Hst). left; auto. }
  assert (Hrest : forall m ls rest, stack (thr s tid) = (m, ls) :: rest ->
                  forall m0 ls0, In (m0, ls0) rest -> incl ls0 (loads m0)).
  { intros m ls rest Hst m0 ls0 Hin. eapply G1. rewrite Hst. right; eauto. }
  assert (Hsame : forall m ls rest, stack (thr s tid) = (m, ls) :: rest ->
                  forall m0 ls0, In (m0, ls0) ((m, ls) :: rest) -> incl ls0 (loads m0)).
  { intros m ls rest Hst m0 ls0 Hin. eapply G1. rewrite Hst. eauto. }
  destruct K.
  - (* KStartHit *) constructor; proj_simpl.
    + apply Hthr; auto. apply thr_g_mk; pend_triv; walk_triv; start_triv. intros ? ? [].
    + apply (g_edge _ IG).
    + apply (g_reg _ IG).
    + apply Hroot; auto. apply incl_refl. intros r0 Hr0. left. congruence.
  - (* KStartMiss *) constructor; proj_simpl.
    + apply (Hthr _ (add_exec (add_reg s r) r)); auto.
      apply thr_g_mk; pend_triv; walk_triv; start_triv.
      intros m ls [[= <- <-]|[]]. apply incl_refl.
    + apply (g_edge _ IG).
    + intros m [<-|Hin]; [|apply (g_reg _ IG); auto].
      exists r. split; auto. eapply nth_error_In. eapply G4; eauto.
    + apply (Hroot (add_exec (add_reg s r) r)); auto. apply incl_tl, incl_refl.
      intros r0 Hr0. left. left. congruence.
  - (* KDone *) constructor; proj_simpl.
    + apply (Hthr _ (set_done s m (negb (bad m)))); auto.
      destruct (after_pop_cases rest (negb (bad m))) as [-> | ->]; apply thr_g_mk; pend_triv; walk_triv; start_triv; eauto.
    + intros m0 t. rewrite E_set_thr, E_set_done. apply (g_edge _ IG).
    + apply (g_reg _ IG).
    + apply (Hroot (set_done s m (negb (bad m)))); auto. apply incl_refl. intros; congruence.
  - (* KFail *) constructor; proj_simpl.
    + apply (Hthr _ (set_done s m false)); auto.
      destruct (after_pop_cases rest false) as [-> | ->]; apply thr_g_mk; pend_triv; walk_triv; start_triv; eauto.
    + intros m0 t. rewrite E_set_thr, E_set_done. apply (g_edge _ IG).
    + apply (g_reg _ IG).
    + apply (Hroot (set_done s m false)); auto. apply incl_refl. intros; congruence.
  - (* KHit *)
    assert (Hl : incl (t :: ls) (loads m)) by (eapply G1; rewrite H0; left; eauto).
    constructor; proj_simpl.
    + apply Hthr; auto. apply thr_g_mk; walk_triv; start_triv.
      * intros m0 ls0 [[= <- <-]|Hin]; eauto. intros x Hx. apply Hl. right; auto.
      * intros m0 ls0 rest0 t0 [= <- _ _] [[=]|[= <-]]. apply Hl. left; auto.
    + apply (g_edge _ IG).
    + apply (g_reg _ IG).
    + apply Hroot; auto. apply incl_refl. intros; congruence.
  - (* KMiss *)
    assert (Hl : incl (t :: ls) (loads m)) by (eapply G1; rewrite H0; left; eauto).
    constructor; proj_simpl.
    + apply (Hthr _ (add_reg s t)); auto. apply thr_g_mk; walk_triv; start_triv.
      * intros m0 ls0 [[= <- <-]|Hin]; eauto. intros x Hx. apply Hl. right; auto.
      * intros m0 ls0 rest0 t0 [= <- _ _] [[= <-]|[=]]. apply Hl. left; auto.
    + apply (g_edge _ IG).
    + intros m0 [<-|Hin]; [|apply (g_reg _ IG); auto].
      eapply from_roots_step; eauto. apply Hl. left; auto.
    + apply (Hroot (add_reg s t)); auto. apply incl_tl, incl_refl. intros; congruence.
  - (* KMissEdge *)
    assert (Ht : In t (loads m)) by (eapply G2; eauto).
    constructor; proj_simpl.
    + apply (Hthr _ (add_exec (set_loading s m (Some t)) t)); auto.
      apply thr_g_mk; pend_triv; walk_triv; start_triv.
      intros m0 ls0 [[= <- <-]|Hin]; [apply incl_refl|eauto].
    + intros m0 t0. rewrite E_set_thr.
      change (E (add_exec (set_loading s m (Some t)) t) m0) with (E (set_loading s m (Some t)) m0).
      rewrite E_set_loading. destruct (Nat.eqb_spec m0 m); [intros [= <-]; subst; auto|apply (g_edge _ IG)].
    + apply (g_reg _ IG).
    + apply (Hroot (add_exec (set_loading s m (Some t)) t)); auto. apply incl_refl. intros; congruence.
  - (* KHitEdge *)
    assert (Ht : In t (loads m)) by (eapply G2; eauto).
    constructor; proj_simpl.
    + apply (Hthr _ (set_loading s m (Some t))); auto. apply thr_g_mk; pend_triv; start_triv; eauto.
      intros m0 ls0 rest0 t0 cur seen [= <- _ _] [= _ <- _]. apply gp_one; auto.
    + intros m0 t0. rewrite E_set_thr, E_set_loading.
      destruct (Nat.eqb_spec m0 m); [intros [= <-]; subst; auto|apply (g_edge _ IG)].
    + apply (g_reg _ IG).
    + apply (Hroot (set_loading s m (Some t))); auto. apply incl_refl. intros; congruence.
  - (* KWalkNone *) constructor; proj_simpl.
    + apply Hthr; auto. apply thr_g_mk; pend_triv; walk_triv; start_triv; eauto.
    + apply (g_edge _ IG).
    + apply (g_reg _ IG).
    + apply Hroot; auto. apply incl_refl. intros; congruence.
  - (* KWalkCycle *) constructor; proj_simpl.
    + apply Hthr; auto. apply thr_g_mk; pend_triv; walk_triv; start_triv; eauto.
    + apply (g_edge _ IG).
    + apply (g_reg _ IG).
    + apply Hroot; auto. apply incl_refl. intros; congruence.
  - (* KWalkSeen *) constructor; proj_simpl.
    + apply Hthr; auto. apply thr_g_mk; pend_triv; walk_triv; start_triv; eauto.
    + apply (g_edge _ IG).
    + apply (g_reg _ IG).
    + apply Hroot; auto. apply incl_refl. intros; congruence.
  - (* KWalkHop *) constructor; proj_simpl.
    + apply Hthr; auto. apply thr_g_mk; pend_triv; start_triv; eauto.
      intros m0 ls0 rest0 t0 cur0 seen0 [= <- _ _] [= _ <- _].
      eapply gplus_snoc; [eapply G3; eauto|]. apply (g_edge _ IG); auto.
    + apply (g_edge _ IG).
    + apply (g_reg _ IG).
    + apply Hroot; auto. apply incl_refl. intros; congruence.
  - (* KWokenRoot *) constructor; proj_simpl.
    + apply Hthr; auto. apply thr_g_mk; pend_triv; walk_triv; start_triv. intros ? ? [].
    + apply (g_edge _ IG).
    + apply (g_reg _ IG).
    + apply Hroot; auto. apply incl_refl. intros; congruence.
  - (* KWoken *) constructor; proj_simpl.
    + apply Hthr; auto. apply thr_g_mk; pend_triv; walk_triv; start_triv; eauto.
    + apply (g_edge _ IG).
    + apply (g_reg _ IG).
    + apply Hroot; auto. apply incl_refl. intros; congruence.
  - (* KRet *) constructor; proj_simpl.
    + apply (Hthr _ (set_loading s m None)); auto.
      apply thr_g_mk; eauto; destruct r; pend_triv; walk_triv; start_triv.
    + intros m0 t0. rewrite E_set_thr, E_set_loading.
      destruct (Nat.eqb_spec m0 m); [discriminate|apply (g_edge _ IG)].
    + apply (g_reg _ IG).
    + apply (Hroot (set_loading s m None)); auto. apply incl_refl. intros; congruence.
Qed.

End Graph.
