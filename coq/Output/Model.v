(** C18, output of processes: several producers (the standard output and the standard error of a process, or several
    processes of one shell command) whose bytes reach ONE line writer (Build/LineWriter.v).

    A producer writes BLOCKS of whole lines; a block is one atomic write (at most PIPE_BUF bytes), so the producer itself
    never tears a line.  Two architectures of the copying side are modelled:

    - one channel (what os/exec does when a command's Stdout and Stderr are the same writer, lib/os/exec.go): the blocks
      of all producers enter one pipe in the order in which the writes happen -- any interleaving, [channel] --, ONE
      copier reads the pipe in pieces of any size ([chunks], any chunking of the channel's bytes) and hands them to the
      line writer;
    - separate copiers: every producer has a pipe and a copier of its own, each copier cuts ITS stream into pieces of any
      size, and the pieces of all copiers reach the one line writer in some interleaving ([copied]; each Write call taken
      as atomic, which is generous: the real writer has no lock). *)
From Coq Require Import List NArith Bool.
From Dawn Require Import Base.Bytes Build.LineWriter.
Import ListNotations.
Open Scope N_scope.

Definition line_ok (l : str) : Prop := forall x, In x l -> x <> nl.

(** a block: whole lines, written with their newlines by one write *)
Definition block := list str.
Definition block_bytes (b : block) : str := concat (map (fun l => l ++ [nl]) b).

(** the channel: the blocks in the order in which they were written, each with the producer it came from *)
Definition channel := list (N * block).
Definition channel_ok (m : channel) : Prop := forall t b l, In (t, b) m -> In l b -> line_ok l.
Definition channel_bytes (m : channel) : str := concat (map (fun tb => block_bytes (snd tb)) m).
Definition tagged_lines (m : channel) : list (N * str) := flat_map (fun tb => map (pair (fst tb)) (snd tb)) m.

(** the lines producer [t] wrote, in the order in which it wrote them *)
Definition written_by (t : N) (m : channel) : list str := concat (map snd (filter (fun tb => fst tb =? t) m)).

(** the elements of a tagged list that belong to producer [t] *)
Definition of_stream {A} (t : N) (ls : list (N * A)) : list A := map snd (filter (fun tl => fst tl =? t) ls).

(** what the line writer delivers for a sequence of Write calls followed by Flush *)
Definition delivered (chunks : list str) : list str := snd (lw_run [] chunks).
