From Coq Require Import List NArith Bool.
From Dawn Require Import Base.Bytes Build.LineWriter Output.Model.
Import ListNotations.
Open Scope N_scope.

Lemma lw_write_line buf l r :
  line_ok l -> lw_write buf (l ++ nl :: r) = let (b', ls) := lw_write [] r in (b', (buf ++ l) :: ls).
Proof.
  revert buf; induction l as [|c l IH]; intros buf Hl; simpl.
  - change (nl =? nl) with true; cbv iota. rewrite app_nil_r. destruct (lw_write [] r); reflexivity.
  - destruct (N.eqb_spec c nl) as [E|_]; [exfalso; exact (Hl c (or_introl eq_refl) E)|].
    rewrite IH by (intros x Hx; apply Hl; right; exact Hx).
    rewrite <- app_assoc. reflexivity.
Qed.

Lemma lw_write_block ls :
  (forall l, In l ls -> line_ok l) -> lw_write [] (block_bytes ls) = ([], ls).
Proof.
  induction ls as [|l ls IH]; intros H; [reflexivity|].
  unfold block_bytes; simpl. rewrite <- app_assoc. simpl.
  rewrite lw_write_line by (apply H; left; reflexivity).
  fold (block_bytes ls). rewrite IH by (intros x Hx; apply H; right; exact Hx). reflexivity.
Qed.

Lemma block_bytes_app a b : block_bytes (a ++ b) = block_bytes a ++ block_bytes b.
Proof. unfold block_bytes. rewrite map_app, concat_app. reflexivity. Qed.

Lemma channel_bytes_lines m : channel_bytes m = block_bytes (map snd (tagged_lines m)).
Proof.
  induction m as [|[t b] m IH]; [reflexivity|].
  unfold channel_bytes, tagged_lines in *; simpl. rewrite map_app, block_bytes_app, IH.
  rewrite map_map; simpl. rewrite map_id. reflexivity.
Qed.

Lemma tagged_lines_ok m : channel_ok m -> forall l, In l (map snd (tagged_lines m)) -> line_ok l.
Proof.
  intros H l Hl. apply in_map_iff in Hl. destruct Hl as [[t l'] [E Hin]]. simpl in E; subst l'.
  unfold tagged_lines in Hin. apply in_flat_map in Hin. destruct Hin as [[t' b] [Hb Hl]].
  apply in_map_iff in Hl. destruct Hl as [l' [E Hl]]. inversion E; subst. exact (H _ _ _ Hb Hl).
Qed.

Lemma delivered_spec chunks ls :
  (forall l, In l ls -> line_ok l) -> concat chunks = block_bytes ls -> lw_run [] chunks = ([], ls).
Proof.
  intros Hok E. unfold lw_run. rewrite lw_writes_concat, E, lw_write_block by exact Hok.
  simpl. rewrite app_nil_r. reflexivity.
Qed.

Lemma of_stream_tagged t m : of_stream t (tagged_lines m) = written_by t m.
Proof.
  unfold of_stream, written_by, tagged_lines.
  induction m as [|[t0 b] m IH]; [reflexivity|]. simpl.
  rewrite filter_app, map_app, IH. f_equal.
  destruct (t0 =? t) eqn:E; simpl.
  - induction b as [|l b IHb]; [reflexivity|]. simpl. rewrite E. simpl. f_equal. exact IHb.
  - induction b as [|l b IHb]; [reflexivity|]. simpl. rewrite E. exact IHb.
Qed.

(** one channel, one copier *)
Lemma one_channel m chunks :
  channel_ok m -> concat chunks = channel_bytes m ->
  lw_run [] chunks = ([], map snd (tagged_lines m)) /\
  forall t, of_stream t (tagged_lines m) = written_by t m.
Proof.
  intros Hok E. split; [|intro t; apply of_stream_tagged].
  apply delivered_spec; [apply tagged_lines_ok; exact Hok|].
  rewrite E. apply channel_bytes_lines.
Qed.

(** separate copiers feeding one writer tear lines, even when every Write call is atomic *)
Lemma separate_copiers_tear :
  exists (A B : list str) (copied : list (N * str)),
    (forall l, In l A \/ In l B -> line_ok l) /\
    concat (of_stream 0 copied) = block_bytes A /\
    concat (of_stream 1 copied) = block_bytes B /\
    ~ (forall l, In l (delivered (map snd copied)) -> In l A \/ In l B).
Proof.
  exists [[97; 98]], [[120]], [(0, [97]); (1, [120; 10]); (0, [98; 10])].
  split; [|split; [reflexivity|split; [reflexivity|]]].
  - intros l [[<-|[]]|[<-|[]]] x Hx E; subst x; simpl in Hx;
      repeat (destruct Hx as [Hx|Hx]; [discriminate Hx|]); exact Hx.
  - intros H. specialize (H [97; 120]). vm_compute in H.
    destruct H as [[H|[]]|[H|[]]]; [left; reflexivity|discriminate H|discriminate H].
Qed.

(** separate copiers, a line writer per copier: each stream arrives whole, whatever its copier's chunking *)
Lemma writer_per_copier (copied : list (N * str)) t ls :
  (forall l, In l ls -> line_ok l) -> concat (of_stream t copied) = block_bytes ls ->
  lw_run [] (of_stream t copied) = ([], ls).
Proof. intros Hok E. apply delivered_spec; assumption. Qed.
