(** C18 -- output of processes that write to standard output and standard error at the same time.  Statements only. *)
From Coq Require Import List NArith Bool.
From Dawn Require Import Base.Bytes Build.LineWriter Output.Model Output.Proofs.
Import ListNotations.
Open Scope N_scope.

(** One channel, one copier (what a body's process gets from os.exec: standard output and standard error are the SAME
    writer, so os/exec makes one pipe and one copying goroutine).  Whatever the interleaving [m] of the producers' blocks
    of whole lines, and whatever the chunking [chunks] in which the copier reads the channel's bytes, the line writer
    delivers exactly the lines that were written -- each once, intact, nothing left in the buffer -- and the lines of
    every producer [t] in the order in which [t] wrote them. *)
Theorem one_channel_each_stream_in_order :
  forall (m : channel) (chunks : list str),
    channel_ok m -> concat chunks = channel_bytes m ->
    lw_run [] chunks = ([], map snd (tagged_lines m)) /\
    forall t, of_stream t (tagged_lines m) = written_by t m.
Proof. exact Proofs.one_channel. Qed.
Print Assumptions one_channel_each_stream_in_order.

(** Separate copiers feeding the one line writer do NOT have this property, even if every Write call is atomic: there
    are two producers of whole lines and chunkings of their two streams such that a delivered line is a line of neither
    (the pending partial line of one copier is completed by the other).  This is why a change that gives standard error
    a writer of its own (so that os/exec starts a second copier) breaks C18, and what the harness family
    zz_verif_c18_procout_test.go looks for. *)
Theorem separate_copiers_refuted :
  exists (A B : list str) (copied : list (N * str)),
    (forall l, In l A \/ In l B -> line_ok l) /\
    concat (of_stream 0 copied) = block_bytes A /\
    concat (of_stream 1 copied) = block_bytes B /\
    ~ (forall l, In l (delivered (map snd copied)) -> In l A \/ In l B).
Proof. exact Proofs.separate_copiers_tear. Qed.
Print Assumptions separate_copiers_refuted.

(** Separate copiers are fine when each has a line writer of its own: its stream arrives whole, whatever its chunking. *)
Theorem writer_per_copier_delivers_its_stream :
  forall (copied : list (N * str)) t ls,
    (forall l, In l ls -> line_ok l) -> concat (of_stream t copied) = block_bytes ls ->
    lw_run [] (of_stream t copied) = ([], ls).
Proof. exact Proofs.writer_per_copier. Qed.
Print Assumptions writer_per_copier_delivers_its_stream.

(** non-vacuity: standard output writes "a", then "b","c" in one block; standard error writes "x" in between; the copier
    reads the seven bytes as "a\nx", "\nb\n", "c\n" *)
Example one_channel_example :
  let m : channel := [(1, [[97]]); (2, [[120]]); (1, [[98]; [99]])] in
  channel_ok m /\
  concat [[97; 10; 120]; [10; 98; 10]; [99; 10]] = channel_bytes m /\
  delivered [[97; 10; 120]; [10; 98; 10]; [99; 10]] = [[97]; [120]; [98]; [99]] /\
  written_by 1 m = [[97]; [98]; [99]] /\ written_by 2 m = [[120]].
Proof.
  split; [|vm_compute; repeat split; reflexivity].
  intros t b l Hb Hl x Hx E; subst x. simpl in Hb.
  repeat (destruct Hb as [Hb|Hb]; [inversion Hb; subst; simpl in Hl;
    repeat (destruct Hl as [Hl|Hl]; [subst l; simpl in Hx; repeat (destruct Hx as [Hx|Hx]; [discriminate Hx|]); exact Hx|]); exact Hl|]).
  exact Hb.
Qed.
