(** Case evaluation for the directory-walk part of the C17 correspondence check. *)
From Dawn Require Import Glob.Model.
From Dawn Require Import Glob.Walk.

Fixpoint subtree (t : tree) (comps : list str) : option tree :=
  match comps with
  | [] => Some t
  | c :: cs =>
      match t with
      | Dir _ subs =>
          (fix find (l : list (str * tree)) : option tree :=
             match l with
             | [] => None
             | (n, s) :: l' => if str_eqb n c then subtree s cs else find l'
             end) subs
      end
  end.

Definition subset (a b : list str) : bool := forallb (fun x => existsb (str_eqb x) b) a.
Definition same_set (a b : list str) : bool :=
  subset a b && subset b a && Nat.eqb (length a) (length b).

Definition same_result (model got : option (list str)) : bool :=
  match model, got with
  | None, None => true
  | Some a, Some b => same_set a b
  | _, _ => false
  end.

(** [got]: None = the operation failed; Some l = the set of paths the implementation produced. *)
Inductive wcase :=
| WLoad (ignore : list str) (got : option (list str))
| WGlob (moddir : list str) (include exclude : list str) (got : option (list str))
| WOsGlob (cwd : list str) (include exclude : list str) (got : option (list str)).

Definition check_wcase (t : tree) (c : wcase) : bool :=
  match c with
  | WLoad ig got => same_result (load_project ig t) got
  | WGlob d inc exc got =>
      match subtree t d with Some s => same_result (glob_builtin inc exc s) got | None => false end
  | WOsGlob d inc exc got =>
      match subtree t d with Some s => same_result (os_glob inc exc s) got | None => false end
  end.

Definition walk_mismatches (t : tree) (cs : list (N * wcase)) : list N :=
  map fst (filter (fun ic => negb (check_wcase t (snd ic))) cs).
