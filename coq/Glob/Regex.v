(** The fragment of RE2 syntax that util.CompileGlobs emits: abstract syntax, a declarative
    position-aware semantics [M] / [Search] (what regexp.MatchString decides), and an executable
    set-of-remainders matcher [search].  Bytes stand for characters: this coincides with RE2's rune
    semantics exactly on ASCII text (every byte < 128); see Glob/Model.v for the restriction.
    No proofs in this file (they are in Glob/Proofs.v). *)
From Dawn Require Export Base.Bytes.

Inductive regex :=
| REps                       (* the empty regexp, e.g. the inside of "()" *)
| RLit (c : N)               (* a literal character, written c or \c *)
| RDot                       (* .      any character; excludes '\n' unless the s flag is on *)
| RNotSlash                  (* [^/]   any character but '/'; includes '\n' (Perl flags: ClassNL) *)
| RNone                      (* [^\x00-\x{10FFFF}]   the empty character class: no character at all *)
| RBol                       (* ^      beginning of text (no m flag) *)
| REol                       (* $      end of text (no m flag) *)
| RCat (a b : regex)
| RAlt (a b : regex)         (* a|b    binds loosest *)
| RStar (a : regex)
| RGroup (a : regex)         (* (a)    capturing group *)
| RFlagS (a : regex).        (* (?s:a) *)

Definition isnil {A} (l : list A) : bool := match l with [] => true | _ => false end.

(** [M fl r b s after]: [r] matches exactly the substring [s] of a text, where [fl] is the s flag in force,
    [b] tells whether [s] starts at offset 0 of the text and [after] is the rest of the text behind [s]. *)
Inductive M : bool -> regex -> bool -> str -> str -> Prop :=
| MEps fl b after : M fl REps b [] after
| MLit fl c b after : M fl (RLit c) b [c] after
| MDot fl c b after : fl = true \/ c <> 10 -> M fl RDot b [c] after
| MNotSlash fl c b after : c <> 47 -> M fl RNotSlash b [c] after
| MBol fl after : M fl RBol true [] after
| MEol fl b : M fl REol b [] []
| MCat fl a1 a2 b s1 s2 after :
    M fl a1 b s1 (s2 ++ after) -> M fl a2 (b && isnil s1) s2 after -> M fl (RCat a1 a2) b (s1 ++ s2) after
| MAltL fl a1 a2 b s after : M fl a1 b s after -> M fl (RAlt a1 a2) b s after
| MAltR fl a1 a2 b s after : M fl a2 b s after -> M fl (RAlt a1 a2) b s after
| MStar0 fl a b after : M fl (RStar a) b [] after
| MStarS fl a b s1 s2 after :
    M fl a b s1 (s2 ++ after) -> M fl (RStar a) (b && isnil s1) s2 after -> M fl (RStar a) b (s1 ++ s2) after
| MGroup fl a b s after : M fl a b s after -> M fl (RGroup a) b s after
| MFlagS fl a b s after : M true a b s after -> M fl (RFlagS a) b s after.

(** regexp.MatchString: the regexp matches some substring of the text (flags off at top level). *)
Definition Search (r : regex) (t : str) : Prop :=
  exists pre s post, t = pre ++ s ++ post /\ M false r (isnil pre) s post.

(** ** Executable matcher.  A configuration is (at offset 0?, remaining text). *)
Definition cfg := (bool * str)%type.

Definition shorter (c c' : cfg) : bool := Nat.ltb (length (snd c')) (length (snd c)).

(** All configurations reachable by iterating [f], where only iterations that consume input are repeated. *)
Fixpoint star_iter (fuel : nat) (f : cfg -> list cfg) (c : cfg) : list cfg :=
  c :: match fuel with
       | O => []
       | S n => flat_map (star_iter n f) (filter (shorter c) (f c))
       end.

Definition step (ok : N -> bool) (c : cfg) : list cfg :=
  match snd c with
  | x :: t => if ok x then [(false, t)] else []
  | [] => []
  end.

Fixpoint rems (fl : bool) (r : regex) (c : cfg) : list cfg :=
  match r with
  | REps => [c]
  | RLit x => step (N.eqb x) c
  | RDot => step (fun y => fl || negb (y =? 10)) c
  | RNotSlash => step (fun y => negb (y =? 47)) c
  | RNone => []
  | RBol => if fst c then [c] else []
  | REol => if isnil (snd c) then [c] else []
  | RCat a b => flat_map (rems fl b) (rems fl a c)
  | RAlt a b => rems fl a c ++ rems fl b c
  | RStar a => star_iter (length (snd c)) (rems fl a) c
  | RGroup a => rems fl a c
  | RFlagS a => rems true a c
  end.

Fixpoint search_from (r : regex) (b : bool) (s : str) : bool :=
  negb (isnil (rems false r (b, s))) ||
  match s with [] => false | _ :: s' => search_from r false s' end.

(** regexp.MatchString *)
Definition search (r : regex) (t : str) : bool := search_from r true t.

(** ** Concrete syntax, byte for byte. *)
Definition needs_escape (c : N) : bool :=
  existsb (N.eqb c) [92; 42; 63; 91; 93; 46; 43; 40; 41; 124; 123; 125; 94; 36].

Fixpoint print (r : regex) : str :=
  match r with
  | REps => []
  | RLit c => if needs_escape c then [92; c] else [c]
  | RDot => [46]
  | RNotSlash => [91; 94; 47; 93]
  | RNone => [91; 94; 92; 120; 48; 48; 45; 92; 120; 123; 49; 48; 70; 70; 70; 70; 125; 93]   (* [^\x00-\x{10FFFF}] *)
  | RBol => [94]
  | REol => [36]
  | RCat a b => print a ++ print b
  | RAlt a b => print a ++ 124 :: print b
  | RStar a => print a ++ [42]
  | RGroup a => 40 :: print a ++ [41]
  | RFlagS a => [40; 63; 115; 58] ++ print a ++ [41]
  end.

(** The shape of the parse tree as a string, in the notation the harness uses to dump the result of
    regexp/syntax.Parse: concatenations flattened, the empty regexp contributing nothing, an alternation
    written {a|b|c} (flattened), a capture C(..), a star S(..), a literal L followed by two hex digits,
    D = any character, d = any character but newline, N = [^/], 0 = the empty character class, ^ and $ the text anchors. *)
Definition hexdigit (n : N) : N := if n <? 10 then 48 + n else 87 + n.
Definition hex2 (c : N) : str := [hexdigit (c / 16); hexdigit (c mod 16)].

Definition isalt (r : regex) : bool := match r with RAlt _ _ => true | _ => false end.
Definition bracket (b : bool) (s : str) : str := if b then 123 :: s ++ [125] else s.

Fixpoint shape_s (fl : bool) (r : regex) : str :=
  match r with
  | REps => []
  | RLit c => 76 :: hex2 c
  | RDot => [if fl then 68 else 100]
  | RNotSlash => [78]
  | RNone => [48]
  | RBol => [94]
  | REol => [36]
  | RCat a b => shape_s fl a ++ shape_s fl b
  | RAlt a b => shape_s fl a ++ 124 :: shape_s fl b
  | RStar a => [83; 40] ++ bracket (isalt a) (shape_s fl a) ++ [41]
  | RGroup a => [67; 40] ++ bracket (isalt a) (shape_s fl a) ++ [41]
  | RFlagS a => bracket (isalt a) (shape_s true a)
  end.

Definition shape (r : regex) : str := bracket (isalt r) (shape_s false r).
