(** Proofs for C17: the executable regexp matcher is sound and complete for the declarative semantics;
    the translation of a glob denotes the glob's language; a pattern list denotes the union. *)
From Dawn Require Import Glob.Model.
From Coq Require Import Lia.

Local Open Scope N_scope.

(** * Part 1: the matcher *)

Lemma isnil_app {A} (a b : list A) : isnil (a ++ b) = isnil a && isnil b.
Proof. destruct a; reflexivity. Qed.

Lemma isnil_true {A} (a : list A) : isnil a = true -> a = [].
Proof. destruct a; [reflexivity | discriminate]. Qed.

(** [Reach fl r c c']: from configuration [c], [r] can consume a prefix and leave [c']. *)
Definition Reach (fl : bool) (r : regex) (c c' : cfg) : Prop :=
  exists s1, snd c = s1 ++ snd c' /\ fst c' = fst c && isnil s1 /\ M fl r (fst c) s1 (snd c').

Lemma star_iter_S n f c :
  star_iter (S n) f c = c :: flat_map (star_iter n f) (filter (shorter c) (f c)).
Proof. reflexivity. Qed.

Lemma star_iter_head n f c : In c (star_iter n f c).
Proof. destruct n; left; reflexivity. Qed.

Lemma star_iter_mono n : forall m f c x, (n <= m)%nat -> In x (star_iter n f c) -> In x (star_iter m f c).
Proof.
  induction n as [|n IH]; intros m f c x Hle Hin.
  - destruct Hin as [<-|[]]. apply star_iter_head.
  - destruct m as [|m]; [lia|]. rewrite star_iter_S in *.
    destruct Hin as [<-|Hin]; [left; reflexivity|right].
    apply in_flat_map in Hin. destruct Hin as [y [Hy Hx]].
    apply in_flat_map. exists y. split; [exact Hy|]. apply IH; [lia|exact Hx].
Qed.

Lemma star_iter_sound fl a f :
  (forall c1 c2, In c2 (f c1) -> Reach fl a c1 c2) ->
  forall n c c', In c' (star_iter n f c) -> Reach fl (RStar a) c c'.
Proof.
  intros Hf. induction n as [|n IH]; intros c c' Hin.
  - destruct Hin as [<-|[]]. exists []. repeat split; [now rewrite andb_true_r | constructor].
  - rewrite star_iter_S in Hin. destruct Hin as [<-|Hin].
    + exists []. repeat split; [now rewrite andb_true_r | constructor].
    + apply in_flat_map in Hin. destruct Hin as [c2 [Hc2 Hc']].
      apply filter_In in Hc2. destruct Hc2 as [Hc2 _].
      apply Hf in Hc2. apply IH in Hc'.
      destruct Hc2 as [s1 [E1 [B1 M1]]]. destruct Hc' as [s2 [E2 [B2 M2]]].
      exists (s1 ++ s2). split; [|split].
      * rewrite E1, E2. now rewrite app_assoc.
      * rewrite B2, B1, isnil_app. now rewrite andb_assoc.
      * apply MStarS.
        -- rewrite <- E2. exact M1.
        -- rewrite <- B1. exact M2.
Qed.

Lemma step_sound fl r ok c c' :
  (forall x b after, ok x = true -> M fl r b [x] after) ->
  In c' (step ok c) -> Reach fl r c c'.
Proof.
  intros Hok Hin. unfold step in Hin. destruct c as [b s]. simpl in Hin.
  destruct s as [|x t]; [destruct Hin|].
  destruct (ok x) eqn:E; [|destruct Hin].
  destruct Hin as [<-|[]]. exists [x]. simpl. repeat split.
  - now rewrite andb_false_r.
  - now apply Hok.
Qed.

Lemma rems_sound : forall r fl k0 k1, In k1 (rems fl r k0) -> Reach fl r k0 k1.
Proof.
  induction r; intros fl k0 k1 Hin; simpl in Hin.
  - destruct Hin as [<-|[]]. exists []. repeat split; [now rewrite andb_true_r | constructor].
  - eapply step_sound; [|exact Hin]. intros x b after E. apply N.eqb_eq in E. subst. constructor.
  - eapply step_sound; [|exact Hin]. intros x b after E. constructor.
    destruct fl; [now left|right]. simpl in E. intros ->. discriminate.
  - eapply step_sound; [|exact Hin]. intros x b after E. constructor. intros ->. discriminate.
  - destruct Hin.
  - destruct k0 as [b s]. simpl in Hin. destruct b; [|destruct Hin].
    destruct Hin as [<-|[]]. exists []. repeat split. constructor.
  - destruct k0 as [b s]. simpl in Hin. destruct s; [|destruct Hin].
    destruct Hin as [<-|[]]. exists []. repeat split; [now rewrite andb_true_r | constructor].
  - apply in_flat_map in Hin. destruct Hin as [c2 [H1 H2]].
    apply IHr1 in H1. apply IHr2 in H2.
    destruct H1 as [s1 [E1 [B1 M1]]]. destruct H2 as [s2 [E2 [B2 M2]]].
    exists (s1 ++ s2). split; [|split].
    + rewrite E1, E2. now rewrite app_assoc.
    + rewrite B2, B1, isnil_app. now rewrite andb_assoc.
    + apply MCat; [rewrite <- E2; exact M1 | rewrite <- B1; exact M2].
  - apply in_app_or in Hin. destruct Hin as [H|H].
    + apply IHr1 in H. destruct H as [s1 [E [B Hm]]]. exists s1. repeat split; auto. now apply MAltL.
    + apply IHr2 in H. destruct H as [s1 [E [B Hm]]]. exists s1. repeat split; auto. now apply MAltR.
  - eapply star_iter_sound; [|exact Hin]. intros c1 c2. apply IHr.
  - apply IHr in Hin. destruct Hin as [s1 [E [B Hm]]]. exists s1. repeat split; auto. now apply MGroup.
  - apply IHr in Hin. destruct Hin as [s1 [E [B Hm]]]. exists s1. repeat split; auto. now apply MFlagS.
Qed.

Lemma rems_complete fl r b s1 after :
  M fl r b s1 after -> In (b && isnil s1, after) (rems fl r (b, s1 ++ after)).
Proof.
  induction 1; simpl.
  - left. now rewrite andb_true_r.
  - unfold step. simpl. rewrite N.eqb_refl. left. now rewrite andb_false_r.
  - unfold step. simpl.
    assert (E : fl || negb (c =? 10) = true).
    { destruct H as [->|H]; [reflexivity|]. apply N.eqb_neq in H. rewrite H. now rewrite orb_true_r. }
    rewrite E. left. now rewrite andb_false_r.
  - unfold step. simpl. apply N.eqb_neq in H. rewrite H. left. now rewrite andb_false_r.
  - left. reflexivity.
  - left. now rewrite andb_true_r.
  - apply in_flat_map. exists (b && isnil s1, s2 ++ after). split.
    + rewrite <- app_assoc. exact IHM1.
    + rewrite isnil_app, andb_assoc. exact IHM2.
  - apply in_or_app. now left.
  - apply in_or_app. now right.
  - rewrite andb_true_r. apply star_iter_head.
  - destruct s1 as [|x s1].
    + simpl in *. rewrite andb_true_r in *. exact IHM2.
    + cbn [app isnil length] in *. rewrite ?andb_false_r in *. rewrite star_iter_S. right.
      apply in_flat_map. exists (false, s2 ++ after). split.
      * apply filter_In. split.
        -- simpl in IHM1. rewrite <- app_assoc. exact IHM1.
        -- unfold shorter. simpl. apply Nat.ltb_lt. rewrite !app_length. lia.
      * eapply star_iter_mono; [|exact IHM2]. simpl. rewrite !app_length. lia.
  - exact IHM.
  - exact IHM.
Qed.

Lemma search_from_iff r : forall s b,
  search_from r b s = true <->
  exists pre s1 post, s = pre ++ s1 ++ post /\ M false r (b && isnil pre) s1 post.
Proof.
  induction s as [|x s IH]; intros b; simpl.
  - rewrite orb_false_r. split.
    + destruct (rems false r _) as [|c' l] eqn:E; [simpl; intros H0; discriminate H0|]. intros _.
      assert (Hin : In c' (c' :: l)) by now left. rewrite <- E in Hin.
      apply rems_sound in Hin. destruct Hin as [s1 [E1 [_ Hm]]]. simpl in *.
      exists [], s1, (snd c'). simpl. rewrite andb_true_r. split; auto.
    + intros [pre [s1 [post [E Hm]]]].
      destruct pre; [|discriminate]. simpl in E. rewrite andb_true_r in Hm.
      apply rems_complete in Hm. rewrite <- E in Hm. destruct (rems false r _); [destruct Hm|reflexivity].
  - split.
    + intros H. apply orb_true_iff in H. destruct H as [H|H].
      * revert H. destruct (rems false r _) as [|c' l] eqn:E; [simpl; intros H0; discriminate H0|]. intros _.
        assert (Hin : In c' (c' :: l)) by now left. rewrite <- E in Hin.
        apply rems_sound in Hin. destruct Hin as [s1 [E1 [_ Hm]]]. simpl in *.
        exists [], s1, (snd c'). simpl. rewrite andb_true_r. split; auto.
      * apply IH in H. destruct H as [pre [s1 [post [E Hm]]]].
        exists (x :: pre), s1, post. simpl. rewrite andb_false_r. split; [now rewrite E|exact Hm].
    + intros [pre [s1 [post [E Hm]]]]. apply orb_true_iff.
      destruct pre as [|y pre].
      * left. simpl in E. rewrite andb_true_r in Hm. apply rems_complete in Hm. rewrite <- E in Hm.
        destruct (rems false r _); [destruct Hm|reflexivity].
      * right. simpl in E. injection E as -> ->. apply IH. exists pre, s1, post. split; [reflexivity|].
        simpl in Hm. rewrite andb_false_r in Hm. exact Hm.
Qed.

(** The executable matcher decides regexp.MatchString's specification. *)
Lemma search_correct r t : search r t = true <-> Search r t.
Proof.
  unfold search, Search. rewrite search_from_iff. split; intros [pre [s1 [post [E Hm]]]];
    exists pre, s1, post; (split; [exact E|]); simpl in *; exact Hm.
Qed.

(** * Part 2: inversion lemmas *)

Lemma M_cat_inv fl a1 a2 b s after :
  M fl (RCat a1 a2) b s after ->
  exists s1 s2, s = s1 ++ s2 /\ M fl a1 b s1 (s2 ++ after) /\ M fl a2 (b && isnil s1) s2 after.
Proof. intros H. inversion H; subst. eauto. Qed.

Lemma M_eps_inv fl b s after : M fl REps b s after -> s = [].
Proof. intros H. now inversion H. Qed.

Lemma M_lit_inv fl c b s after : M fl (RLit c) b s after -> s = [c].
Proof. intros H. now inversion H. Qed.

Lemma M_dot_inv fl b s after : M fl RDot b s after -> exists c, s = [c].
Proof. intros H. inversion H; eauto. Qed.

Lemma M_notslash_inv fl b s after : M fl RNotSlash b s after -> exists c, s = [c] /\ c <> 47.
Proof. intros H. inversion H; eauto. Qed.

Lemma M_bol_inv fl b s after : M fl RBol b s after -> s = [] /\ b = true.
Proof. intros H. now inversion H. Qed.

Lemma M_eol_inv fl b s after : M fl REol b s after -> s = [] /\ after = [].
Proof. intros H. now inversion H. Qed.

Lemma M_alt_inv fl a1 a2 b s after : M fl (RAlt a1 a2) b s after -> M fl a1 b s after \/ M fl a2 b s after.
Proof. intros H. inversion H; auto. Qed.

Lemma M_group_inv fl a b s after : M fl (RGroup a) b s after -> M fl a b s after.
Proof. intros H. now inversion H. Qed.

Lemma M_flags_inv fl a b s after : M fl (RFlagS a) b s after -> M true a b s after.
Proof. intros H. now inversion H. Qed.

(** * Part 3: globs *)

Definition notslash (x : N) : bool := negb (x =? 47).

Lemma M_star_dot : forall s b after, M true (RStar RDot) b s after.
Proof.
  induction s as [|x s IH]; intros b after; [constructor|].
  change (x :: s) with ([x] ++ s). apply MStarS; [constructor; now left | apply IH].
Qed.

Lemma M_star_seg_intro fl : forall s b after, forallb notslash s = true -> M fl (RStar RNotSlash) b s after.
Proof.
  induction s as [|x s IH]; intros b after H; [constructor|].
  simpl in H. apply andb_true_iff in H. destruct H as [Hx Hs].
  change (x :: s) with ([x] ++ s). apply MStarS; [|now apply IH].
  constructor. unfold notslash in Hx. apply negb_true_iff, N.eqb_neq in Hx. exact Hx.
Qed.

Lemma M_star_seg_elim fl b s after : M fl (RStar RNotSlash) b s after -> forallb notslash s = true.
Proof.
  intros H. remember (RStar RNotSlash) as r eqn:Er. induction H; try discriminate.
  - reflexivity.
  - injection Er as ->. apply M_notslash_inv in H. destruct H as [c [-> Hc]].
    simpl. rewrite (IHM2 eq_refl). unfold notslash. apply N.eqb_neq in Hc. now rewrite Hc.
Qed.

Lemma any_run_iff k : forall p, any_run k p = true <-> exists s1 s2, p = s1 ++ s2 /\ k s2 = true.
Proof.
  induction p as [|x p IH]; simpl.
  - rewrite orb_false_r. split.
    + intros H. now exists [], [].
    + intros [s1 [s2 [E H]]]. symmetry in E. apply app_eq_nil in E. destruct E as [_ ->]. exact H.
  - rewrite orb_true_iff, IH. split.
    + intros [H|[s1 [s2 [E H]]]].
      * now exists [], (x :: p).
      * exists (x :: s1), s2. split; [now rewrite E|exact H].
    + intros [s1 [s2 [E H]]]. destruct s1 as [|y s1].
      * left. simpl in E. now rewrite E.
      * right. simpl in E. injection E as -> ->. now exists s1, s2.
Qed.

Lemma seg_run_iff k : forall p,
  seg_run k p = true <-> exists s1 s2, p = s1 ++ s2 /\ forallb notslash s1 = true /\ k s2 = true.
Proof.
  induction p as [|x p IH]; simpl.
  - rewrite orb_false_r. split.
    + intros H. now exists [], [].
    + intros [s1 [s2 [E [_ H]]]]. symmetry in E. apply app_eq_nil in E. destruct E as [_ ->]. exact H.
  - rewrite orb_true_iff, andb_true_iff, IH. split.
    + intros [H|[Hx [s1 [s2 [E [H1 H2]]]]]].
      * now exists [], (x :: p).
      * exists (x :: s1), s2. split; [now rewrite E|]. split; [|exact H2]. simpl. unfold notslash at 1. now rewrite Hx.
    + intros [s1 [s2 [E [H1 H2]]]]. destruct s1 as [|y s1].
      * left. simpl in E. now rewrite E.
      * right. simpl in E. injection E as -> ->. simpl in H1. apply andb_true_iff in H1. destruct H1 as [Hy H1].
        split; [exact Hy|]. now exists s1, s2.
Qed.

Section Combinators.
  Variables (r' : regex) (k : str -> bool).
  Hypothesis Hr' : forall b s after, M true r' b s after <-> k s = true.

  Lemma M_cat_one a ok :
    (forall b s after, M true a b s after <-> exists x, s = [x] /\ ok x = true) ->
    forall b s after, M true (RCat a r') b s after <-> one ok k s = true.
  Proof.
    intros Ha b s after. split.
    - intros H. apply M_cat_inv in H. destruct H as [s1 [s2 [-> [H1 H2]]]].
      apply Ha in H1. destruct H1 as [x [-> Hx]]. apply Hr' in H2. simpl. now rewrite Hx, H2.
    - intros H. destruct s as [|x s]; [discriminate|]. simpl in H. apply andb_true_iff in H. destruct H as [Hx Hk].
      change (x :: s) with ([x] ++ s). apply MCat.
      + apply Ha. now exists x.
      + now apply Hr'.
  Qed.

  Lemma M_cat_any b s after : M true (RCat (RStar RDot) r') b s after <-> any_run k s = true.
  Proof.
    rewrite any_run_iff. split.
    - intros H. apply M_cat_inv in H. destruct H as [s1 [s2 [-> [_ H2]]]]. exists s1, s2. split; [reflexivity|now apply Hr' in H2].
    - intros [s1 [s2 [-> H]]]. apply MCat; [apply M_star_dot | now apply Hr'].
  Qed.

  Lemma M_cat_seg b s after : M true (RCat (RStar RNotSlash) r') b s after <-> seg_run k s = true.
  Proof.
    rewrite seg_run_iff. split.
    - intros H. apply M_cat_inv in H. destruct H as [s1 [s2 [-> [H1 H2]]]]. exists s1, s2. split; [reflexivity|].
      split; [now apply M_star_seg_elim in H1 | now apply Hr' in H2].
    - intros [s1 [s2 [-> [H1 H2]]]]. apply MCat; [now apply M_star_seg_intro | now apply Hr'].
  Qed.
End Combinators.

Lemma M_lit_iff c b s after : M true (RLit c) b s after <-> exists x, s = [x] /\ (c =? x) = true.
Proof.
  split.
  - intros H. apply M_lit_inv in H. exists c. now rewrite N.eqb_refl.
  - intros [x [-> E]]. apply N.eqb_eq in E. subst. constructor.
Qed.

Lemma M_dot_iff b s after : M true RDot b s after <-> exists x, s = [x] /\ (fun _ : N => true) x = true.
Proof.
  split.
  - intros H. apply M_dot_inv in H. destruct H as [c ->]. now exists c.
  - intros [x [-> _]]. constructor. now left.
Qed.

Lemma M_eps_iff b s after : M true REps b s after <-> isnil s = true.
Proof.
  split.
  - intros H. apply M_eps_inv in H. now subst.
  - intros H. apply isnil_true in H. subst. constructor.
Qed.

Lemma translate_cons c t :
  translate (c :: t) =
  if c =? 92 then
    match t with
    | [] => None
    | d :: t' => if escapable d then option_map (RCat (RLit d)) (translate t') else None
    end
  else if c =? 42 then
    match t with
    | d :: t' => if d =? 42 then option_map (RCat (RStar RDot)) (translate t')
                 else option_map (RCat (RStar RNotSlash)) (translate t)
    | [] => Some (RCat (RStar RNotSlash) REps)
    end
  else if c =? 63 then option_map (RCat RDot) (translate t)
  else option_map (RCat (RLit c)) (translate t).
Proof. reflexivity. Qed.

Lemma glob_match_cons c t p :
  glob_match (c :: t) p =
  if c =? 92 then
    match t with
    | [] => false
    | d :: t' => escapable d && one (N.eqb d) (glob_match t') p
    end
  else if c =? 42 then
    match t with
    | d :: t' => if d =? 42 then any_run (glob_match t') p else seg_run (glob_match t) p
    | [] => seg_run (glob_match t) p
    end
  else if c =? 63 then one (fun _ => true) (glob_match t) p
  else one (N.eqb c) (glob_match t) p.
Proof. reflexivity. Qed.

Lemma option_map_some {A B} (f : A -> B) o y : option_map f o = Some y -> exists x, o = Some x /\ y = f x.
Proof. destruct o; simpl; intros H; [injection H as <-; eauto | discriminate]. Qed.

(** The regexp of a single glob denotes exactly the glob's language (inside the (?s: ) group). *)
Lemma translate_M_len : forall n g r, (length g <= n)%nat -> translate g = Some r ->
  forall b s after, M true r b s after <-> glob_match g s = true.
Proof.
  induction n as [|n IH]; intros g r Hlen Htr b s after.
  - destruct g; [|simpl in Hlen; lia]. simpl in Htr. injection Htr as <-. apply M_eps_iff.
  - destruct g as [|c t].
    { simpl in Htr. injection Htr as <-. apply M_eps_iff. }
    simpl in Hlen. rewrite translate_cons in Htr. rewrite glob_match_cons.
    destruct (c =? 92).
    { destruct t as [|d t']; [discriminate|]. simpl in Hlen.
      destruct (escapable d); [|discriminate].
      apply option_map_some in Htr. destruct Htr as [r' [Ht ->]]. simpl andb.
      apply M_cat_one; [|apply M_lit_iff]. intros. apply (IH t'); [lia|exact Ht]. }
    destruct (c =? 42).
    { destruct t as [|d t'].
      - injection Htr as <-. apply M_cat_seg. intros. apply M_eps_iff.
      - simpl in Hlen. destruct (d =? 42).
        + apply option_map_some in Htr. destruct Htr as [r' [Ht ->]].
          apply M_cat_any. intros. apply (IH t'); [lia|exact Ht].
        + apply option_map_some in Htr. destruct Htr as [r' [Ht ->]].
          apply M_cat_seg. intros. apply (IH (d :: t')); [simpl; lia|exact Ht]. }
    destruct (c =? 63).
    { apply option_map_some in Htr. destruct Htr as [r' [Ht ->]].
      apply M_cat_one; [|apply M_dot_iff]. intros. apply (IH t); [lia|exact Ht]. }
    apply option_map_some in Htr. destruct Htr as [r' [Ht ->]].
    apply M_cat_one; [|apply M_lit_iff]. intros. apply (IH t); [lia|exact Ht].
Qed.

Lemma translate_M g r : translate g = Some r ->
  forall b s after, M true r b s after <-> glob_match g s = true.
Proof. intros H. apply (translate_M_len (length g)); [lia|exact H]. Qed.

Lemma translate_all_cons g gs rs :
  translate_all (g :: gs) = Some rs ->
  exists r rs', translate g = Some r /\ translate_all gs = Some rs' /\ rs = r :: rs'.
Proof.
  simpl. destruct (translate g) as [r|]; [|discriminate]. intros H.
  apply option_map_some in H. destruct H as [rs' [H ->]]. eauto.
Qed.

Lemma alts_M : forall gs rs, translate_all gs = Some rs -> gs <> [] ->
  forall b s after, M true (alts rs) b s after <-> existsb (fun g => glob_match g s) gs = true.
Proof.
  induction gs as [|g gs IH]; intros rs Htr Hne b s after; [congruence|].
  apply translate_all_cons in Htr. destruct Htr as [r [rs' [Hg [Hgs ->]]]].
  simpl existsb. rewrite orb_true_iff.
  destruct gs as [|g2 gs].
  - simpl in Hgs. injection Hgs as <-. simpl. split.
    + intros H. left. apply M_group_inv in H. now apply (translate_M g r Hg) in H.
    + intros [H|H]; [|discriminate]. apply MGroup. now apply (translate_M g r Hg).
  - assert (Hne' : g2 :: gs <> []) by discriminate.
    specialize (IH rs' Hgs Hne').
    destruct rs' as [|r2 rs'].
    { apply translate_all_cons in Hgs. destruct Hgs as [? [? [_ [_ ?]]]]. discriminate. }
    change (alts (r :: r2 :: rs')) with (RAlt (RGroup r) (alts (r2 :: rs'))). split.
    + intros H. apply M_alt_inv in H. destruct H as [H|H].
      * left. apply M_group_inv in H. now apply (translate_M g r Hg) in H.
      * right. now apply IH in H.
    + intros [H|H].
      * apply MAltL, MGroup. now apply (translate_M g r Hg).
      * apply MAltR. now apply IH.
Qed.

(** Anchoring: ^(?s:X)$ found anywhere in the text = X matches the whole text. *)
Lemma Search_anchored X t :
  Search (RCat RBol (RCat (RFlagS X) REol)) t <-> M true X true t [].
Proof.
  split.
  - intros [pre [s [post [E H]]]].
    apply M_cat_inv in H. destruct H as [s1 [s2 [-> [H1 H2]]]].
    apply M_bol_inv in H1. destruct H1 as [-> Hb]. apply isnil_true in Hb. subst pre.
    apply M_cat_inv in H2. destruct H2 as [s3 [s4 [-> [H3 H4]]]].
    apply M_eol_inv in H4. destruct H4 as [-> ->]. apply M_flags_inv in H3.
    simpl in *. rewrite !app_nil_r in *. subst t. exact H3.
  - intros H. exists [], t, []. split; [now rewrite app_nil_r|].
    change t with ([] ++ t). apply MCat; [constructor|]. simpl.
    rewrite <- (app_nil_r t). apply MCat.
    + apply MFlagS. simpl. exact H.
    + constructor.
Qed.

Lemma compile_some gs r : compile gs = Some r ->
  exists rs, translate_all gs = Some rs /\ r = RCat RBol (RCat (RFlagS (alts rs)) REol).
Proof. unfold compile. intros H. apply option_map_some in H. exact H. Qed.

Lemma bool_eq_iff (a b : bool) : (a = true <-> b = true) -> a = b.
Proof. destruct a, b; intros [H1 H2]; try reflexivity; [symmetry; apply H1; reflexivity | apply H2; reflexivity]. Qed.

(** Main lemma, for the byte model (no ASCII restriction needed inside the model). *)
Lemma glob_set_matches_bytes gs r p :
  compile gs = Some r -> gs <> [] -> search r p = existsb (fun g => glob_match g p) gs.
Proof.
  intros Hc Hne. apply compile_some in Hc. destruct Hc as [rs [Htr ->]].
  apply bool_eq_iff. rewrite search_correct, Search_anchored. now apply alts_M.
Qed.

Lemma M_none_inv fl b s after : ~ M fl RNone b s after.
Proof. intros H. inversion H. Qed.

(** the empty list: the empty character class, which nothing matches -- not even the empty path *)
Lemma compile_nil_search p : forall r, compile [] = Some r -> search r p = false.
Proof.
  intros r Hc. apply compile_some in Hc. destruct Hc as [rs [Htr ->]].
  simpl in Htr. injection Htr as <-.
  destruct (search _ p) eqn:E; [|reflexivity].
  apply search_correct, Search_anchored in E. simpl in E. now apply M_none_inv in E.
Qed.

Lemma glob_set_matches gs r p :
  compile gs = Some r -> search r p = existsb (fun g => glob_match g p) gs.
Proof.
  intros Hc.
  destruct gs as [|g gs]; [|apply glob_set_matches_bytes; [exact Hc|discriminate]].
  now rewrite (compile_nil_search p r Hc).
Qed.

(** * Part 4: compilation errors *)

Lemma well_escaped_cons c t :
  well_escaped (c :: t) =
  if c =? 92 then match t with [] => false | d :: t' => escapable d && well_escaped t' end
  else well_escaped t.
Proof. reflexivity. Qed.

Lemma option_map_none {A B} (f : A -> B) o : option_map f o = None <-> o = None.
Proof. destruct o; simpl; split; congruence. Qed.

Lemma translate_none_len : forall n g, (length g <= n)%nat -> (translate g = None <-> well_escaped g = false).
Proof.
  induction n as [|n IH]; intros g Hlen.
  - destruct g; [|simpl in Hlen; lia]. simpl. split; discriminate.
  - destruct g as [|c t]; [simpl; split; discriminate|].
    simpl in Hlen. rewrite translate_cons, well_escaped_cons.
    destruct (c =? 92) eqn:E92.
    { destruct t as [|d t']; [tauto|]. simpl in Hlen. destruct (escapable d); simpl; [|tauto].
      rewrite option_map_none. apply IH. lia. }
    destruct (c =? 42) eqn:E42.
    { destruct t as [|d t']; [simpl; split; discriminate|]. simpl in Hlen.
      destruct (d =? 42) eqn:Ed.
      - rewrite option_map_none. rewrite well_escaped_cons.
        apply N.eqb_eq in Ed. subst d. simpl. apply IH. lia.
      - rewrite option_map_none. apply IH. simpl. lia. }
    destruct (c =? 63); rewrite option_map_none; apply IH; lia.
Qed.

Lemma translate_none g : translate g = None <-> well_escaped g = false.
Proof. apply (translate_none_len (length g)). lia. Qed.

Lemma compile_fails gs : compile gs = None <-> existsb (fun g => negb (well_escaped g)) gs = true.
Proof.
  unfold compile. rewrite option_map_none.
  induction gs as [|g gs IH]; simpl; [split; discriminate|].
  rewrite orb_true_iff, negb_true_iff, <- translate_none, <- IH.
  destruct (translate g); [|split; auto].
  rewrite option_map_none. split; [auto|intros [H|H]; [discriminate|exact H]].
Qed.

(** * Part 5: users *)

Lemma ignored_spec ig o p :
  load_ignore ig = Some o -> ignored o p = existsb (fun g => glob_match g p) ig.
Proof.
  unfold load_ignore. destruct ig as [|g ig].
  - intros H. injection H as <-. reflexivity.
  - intros H. apply option_map_some in H. destruct H as [r [Hc ->]]. simpl ignored.
    apply glob_set_matches_bytes; [exact Hc|discriminate].
Qed.

Lemma load_ignore_fails ig : load_ignore ig = None <-> existsb (fun g => negb (well_escaped g)) ig = true.
Proof.
  unfold load_ignore. destruct ig as [|g ig]; [simpl; split; discriminate|].
  rewrite option_map_none. apply compile_fails.
Qed.

Lemma glob_select_spec inc exc paths l :
  glob_select inc exc paths = Some l ->
  forall p,
    (In p l <-> In p paths /\ existsb (fun g => glob_match g p) inc = true
                           /\ existsb (fun g => glob_match g p) exc = false).
Proof.
  unfold glob_select. destruct (compile inc) as [ri|] eqn:Ei; [|discriminate].
  destruct (compile exc) as [re|] eqn:Ee; [|discriminate].
  intros H p. injection H as <-. rewrite filter_In, andb_true_iff, negb_true_iff.
  rewrite (glob_set_matches inc ri p Ei), (glob_set_matches exc re p Ee).
  tauto.
Qed.

Lemma glob_select_fails inc exc paths :
  glob_select inc exc paths = None <->
  existsb (fun g => negb (well_escaped g)) (inc ++ exc) = true.
Proof.
  unfold glob_select. rewrite existsb_app, orb_true_iff, <- !compile_fails.
  destruct (compile inc); destruct (compile exc); split; try tauto; try discriminate; intros [H|H]; discriminate.
Qed.
