(** Case evaluation for the C17 correspondence check. *)
From Dawn Require Import Glob.Model.

(** All strings of length <= n over [alpha], in the order of the harness (c17enum). *)
Fixpoint levels (alpha : str) (n : nat) : list str * list str :=   (* (all so far, last level) *)
  match n with
  | O => ([[]], [[]])
  | S k => let (all, lvl) := levels alpha k in
           let next := flat_map (fun c => map (cons c) lvl) alpha in
           (all ++ next, next)
  end.
Definition all_strs (alpha : str) (n : nat) : list str := fst (levels alpha n).

Definition bits_of (l : list bool) : N :=
  fold_right (fun (b : bool) acc => (if b then 1 else 0) + 2 * acc) 0 l.

(** expected: None = compile error; Some (pattern string, parse shape, match bits over the path space) *)
Inductive case := CGlob (gs : list str) (exp : option (str * str * N)).

Definition check_case (paths : list str) (c : case) : bool :=
  match c with
  | CGlob gs exp =>
      match compile gs, exp with
      | None, None => true
      | Some r, Some (ps, sh, bits) =>
          str_eqb (print r) ps && str_eqb (shape r) sh && (bits_of (map (search r) paths) =? bits)
      | _, _ => false
      end
  end.

Definition mismatches (paths : list str) (cs : list (N * case)) : list N :=
  map fst (filter (fun ic => negb (check_case paths (snd ic))) cs).
