(** Executable model of the two directory walks that apply compiled glob sets:
    Project.loadPackage (project.go), which applies the ignore list, and the filepath.WalkDir callbacks of
    glob() (project_builtins.go) and os.glob() (lib/os/glob.go), which produce the candidate paths.

    A directory is [Dir files subs]: the names of its regular files and its sub-directories by name.  Names are
    directory entries (non-empty, no '/', not "." or ".."), so label.Join / filepath.Join are plain
    concatenation with one '/', written [pjoin]; the project root has the relative path "".  The order of the
    results is not modelled (module loads are concurrent; the check compares sets).  No proofs in this file. *)
From Dawn Require Export Glob.Model.

Inductive tree := Dir (files : list str) (subs : list (str * tree)).

Definition pjoin (rel name : str) : str := if isnil rel then name else rel ++ 47 :: name.

Definition dot_dawn : str := [46; 100; 97; 119; 110].                                  (* .dawn *)
Definition build_dawn : str := [66; 85; 73; 76; 68; 46; 100; 97; 119; 110].            (* BUILD.dawn *)
Definition dawn_build : str := [46; 100; 97; 119; 110; 47; 98; 117; 105; 108; 100].    (* .dawn/build *)

Definition has_build (files : list str) : bool := existsb (str_eqb build_dawn) files.

(** loadPackage(wg, "//" + rel): the ignore test is the first statement, for the root package too; then every
    sub-directory not called .dawn is entered and a BUILD.dawn file makes the directory a loaded package.
    The result is the list of relative paths of the packages whose BUILD.dawn is loaded. *)
Fixpoint load_packages (ig : option regex) (rel : str) (t : tree) : list str :=
  if ignored ig rel then @nil str else
  match t with
  | Dir files subs =>
      (if has_build files then [rel] else []) ++
      flat_map (fun ns : str * tree => let (n, s) := ns in
                          if str_eqb n dot_dawn then [] else load_packages ig (pjoin rel n) s) subs
  end.

(** Project.load: configuration first ([None] = "invalid ignores"), then the walk from the root. *)
Definition load_project (ignore : list str) (t : tree) : option (list str) :=
  option_map (fun ig => load_packages ig [] t) (load_ignore ignore).

(** The WalkDir callback of glob(): every regular file below the module's directory is a candidate, under its
    path relative to that directory; only the directory .dawn/build (directly below it) is skipped.
    (.dawn/build is taken to be a directory, as dawn creates it.) *)
Fixpoint walk_files (skip : str -> bool) (rel : str) (t : tree) : list str :=
  match t with
  | Dir files subs =>
      map (pjoin rel) files ++
      flat_map (fun ns : str * tree => let (n, s) := ns in
                          let r := pjoin rel n in if skip r then [] else walk_files skip r s) subs
  end.

Definition glob_builtin (include exclude : list str) (moddir : tree) : option (list str) :=
  glob_select include exclude (walk_files (str_eqb dawn_build) [] moddir).

(** The WalkDir callback of os.glob(): files and directories alike, nothing skipped, the start directory excepted. *)
Fixpoint walk_all (rel : str) (t : tree) : list str :=
  match t with
  | Dir files subs =>
      map (pjoin rel) files ++
      flat_map (fun ns : str * tree => let (n, s) := ns in let r := pjoin rel n in r :: walk_all r s) subs
  end.

Definition os_glob (include exclude : list str) (cwd : tree) : option (list str) :=
  glob_select include exclude (walk_all [] cwd).

(** ** Specification vocabulary: what is in a tree, independently of any pattern. *)

(** Every package of the tree (a directory holding BUILD.dawn, not below a directory called .dawn) with the
    relative paths of the directories on the way to it: itself first, the start directory last. *)
Fixpoint packages (rel : str) (above : list str) (t : tree) : list (str * list str) :=
  match t with
  | Dir files subs =>
      (if has_build files then [(rel, rel :: above)] else []) ++
      flat_map (fun ns : str * tree => let (n, s) := ns in
                          if str_eqb n dot_dawn then [] else packages (pjoin rel n) (rel :: above) s) subs
  end.

(** Every regular file of the tree under its relative path, with the relative paths of the directories strictly
    between the start directory and the file (innermost first). *)
Fixpoint files_below (rel : str) (above : list str) (t : tree) : list (str * list str) :=
  match t with
  | Dir files subs =>
      map (fun f => (pjoin rel f, above)) files ++
      flat_map (fun ns : str * tree => let (n, s) := ns in files_below (pjoin rel n) (pjoin rel n :: above) s) subs
  end.

Definition matches_some (gs : list str) (p : str) : bool := existsb (fun g => glob_match g p) gs.
