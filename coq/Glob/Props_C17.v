(** C17 — Glob sets match exactly the union of their patterns.
    Vocabulary (Glob/Regex.v, Glob/Model.v): [compile gs] = the regexp util.CompileGlobs builds for the pattern
    list [gs] ([None] = "invalid escape sequence"); [search r p] = r.MatchString(p), an executable matcher;
    [Search r p] = its declarative meaning (r matches some substring of p, with ^ $ (?s:) | () * as in RE2);
    [glob_match g p] = the recursive matcher of the property statement; [ascii s] = every byte < 128
    (bytes = characters; RE2 works on UTF-8 characters, so the model speaks for Go on ASCII text).
    Glob/Walk.v: a directory is [Dir files subs]; [load_project ignore t] = the packages Project.load loads from the
    tree [t] under the ignore list (the recursion of loadPackage); [glob_builtin inc exc t] / [os_glob inc exc t] =
    what glob() / os.glob() return when called from a module whose directory is [t] (the WalkDir callbacks);
    [packages [] [] t] = every package of the tree paired with the directories on the way to it (the root, "",
    and itself included); [files_below [] [] t] = every regular file below [t] at any depth, paired with the
    directories on the way to it; [matches_some gs p] = some pattern of [gs] matches the whole of [p]. *)
From Dawn Require Import Glob.Model Glob.Proofs Glob.Walk Glob.WalkProofs.

(** The executable regexp matcher decides the declarative semantics, for every regexp of the fragment. *)
Theorem search_decides_MatchString : forall r t, search r t = true <-> Search r t.
Proof. exact search_correct. Qed.
Print Assumptions search_decides_MatchString.

(** Any number of patterns (none, one, two, many), every path, the empty one included: the set matches iff some
    pattern matches the whole path. *)
Theorem glob_set_matches_iff : forall gs r p,
  Forall ascii gs -> ascii p ->
  compile gs = Some r ->
  search r p = existsb (fun g => glob_match g p) gs.
Proof. intros gs r p _ _. exact (glob_set_matches gs r p). Qed.
Print Assumptions glob_set_matches_iff.

(** In particular the empty pattern list compiles to ^(?s:[^\x00-\x{10FFFF}])$ -- the empty character class -- which
    matches nothing, not even the empty path (since fix d795852; before it the list compiled to ^(?s:)$, which matched
    the empty path). *)
Theorem compile_nil_matches_nothing : forall r p, compile [] = Some r -> search r p = false.
Proof. intros r p. exact (compile_nil_search p r). Qed.
Print Assumptions compile_nil_matches_nothing.

Example compile_nil_text :
  option_map print (compile []) = Some [94;40;63;115;58;91;94;92;120;48;48;45;92;120;123;49;48;70;70;70;70;125;93;41;36]
  /\ option_map (fun r => search r []) (compile []) = Some false.
Proof. vm_compute. auto. Qed.

(** Compilation fails exactly when some pattern has a backslash that is last or not followed by \ * ? [ ]. *)
Theorem compile_fails_iff : forall gs,
  compile gs = None <-> existsb (fun g => negb (well_escaped g)) gs = true.
Proof. exact compile_fails. Qed.
Print Assumptions compile_fails_iff.

(** Project.ignored: a path is ignored iff some pattern of the ignore list matches it (any list, any path). *)
Theorem ignored_iff : forall ig o p,
  Forall ascii ig -> ascii p ->
  load_ignore ig = Some o ->
  ignored o p = existsb (fun g => glob_match g p) ig.
Proof. intros ig o p _ _. exact (ignored_spec ig o p). Qed.
Print Assumptions ignored_iff.

Theorem load_ignore_fails_iff : forall ig,
  load_ignore ig = None <-> existsb (fun g => negb (well_escaped g)) ig = true.
Proof. exact load_ignore_fails. Qed.
Print Assumptions load_ignore_fails_iff.

(** glob(include, exclude) returns exactly the walked paths matching some include and no exclude pattern. *)
Theorem glob_selects_exactly : forall inc exc paths l,
  Forall ascii inc -> Forall ascii exc -> Forall ascii paths ->
  glob_select inc exc paths = Some l ->
  forall p,
    (In p l <-> In p paths /\ existsb (fun g => glob_match g p) inc = true
                           /\ existsb (fun g => glob_match g p) exc = false).
Proof. intros inc exc paths l _ _ _. exact (glob_select_spec inc exc paths l). Qed.
Print Assumptions glob_selects_exactly.

Theorem glob_select_fails_iff : forall inc exc paths,
  glob_select inc exc paths = None <-> existsb (fun g => negb (well_escaped g)) (inc ++ exc) = true.
Proof. exact glob_select_fails. Qed.
Print Assumptions glob_select_fails_iff.

(** ** The walks that apply the sets: which paths are tested at all. *)

(** The ignore list selects exactly the documented packages: a package of the tree is loaded iff no directory on
    the way to it -- the project root, whose relative path is empty, and the package itself included -- is matched
    by some pattern of the list. *)
Theorem ignore_list_selects_packages : forall ignore t l,
  Forall ascii ignore -> (forall p way, In (p, way) (packages [] [] t) -> Forall ascii way) ->
  load_project ignore t = Some l ->
  forall p, In p l <->
            exists way, In (p, way) (packages [] [] t) /\ forall d, In d way -> matches_some ignore d = false.
Proof. intros ignore t l _ _. exact (load_project_spec ignore t l). Qed.
Print Assumptions ignore_list_selects_packages.

(** In particular the empty run is a run: a list with a pattern that matches the empty path (one star, two stars,
    the empty pattern, ...) ignores the root package and with it the whole project. *)
Theorem ignore_matching_empty_path_ignores_everything : forall ignore t l,
  load_project ignore t = Some l -> matches_some ignore [] = true -> l = [].
Proof. exact load_project_root_ignored. Qed.
Print Assumptions ignore_matching_empty_path_ignores_everything.

(** Only the paths of directories count: two lists that match the same ones among the root-relative paths of the
    directories on the way to the packages of the tree load the same packages, whatever else they match -- ".",
    "/", "./d", "d/", an absolute path or a file name is not the path of a directory on the way to anything. *)
Theorem ignore_depends_only_on_directory_paths : forall ig1 ig2 t l1 l2,
  load_project ig1 t = Some l1 -> load_project ig2 t = Some l2 ->
  (forall p way d, In (p, way) (packages [] [] t) -> In d way -> matches_some ig1 d = matches_some ig2 d) ->
  forall p, In p l1 <-> In p l2.
Proof. exact load_project_only_directory_paths. Qed.
Print Assumptions ignore_depends_only_on_directory_paths.

Theorem load_project_fails_iff : forall ignore t,
  load_project ignore t = None <-> existsb (fun g => negb (well_escaped g)) ignore = true.
Proof. exact load_project_fails. Qed.
Print Assumptions load_project_fails_iff.

(** glob(include, exclude) called from a module returns exactly the regular files below the module's directory, at
    every depth and whatever the shape of the patterns, whose relative path matches some include and no exclude
    pattern; the only files never considered are those below <module dir>/.dawn/build. *)
Theorem glob_walk_selects_exactly : forall inc exc t l,
  Forall ascii inc -> Forall ascii exc -> (forall p way, In (p, way) (files_below [] [] t) -> ascii p) ->
  glob_builtin inc exc t = Some l ->
  forall p,
    (In p l <-> (exists way, In (p, way) (files_below [] [] t) /\ ~ In dawn_build way)
                /\ matches_some inc p = true /\ matches_some exc p = false).
Proof. intros inc exc t l _ _ _. exact (glob_builtin_spec inc exc t l). Qed.
Print Assumptions glob_walk_selects_exactly.

(** os.glob: the same over every file and directory strictly below the current directory ([walk_all] lists them). *)
Theorem os_glob_selects_exactly : forall inc exc t l,
  Forall ascii inc -> Forall ascii exc -> Forall ascii (walk_all [] t) ->
  os_glob inc exc t = Some l ->
  forall p,
    (In p l <-> In p (walk_all [] t) /\ matches_some inc p = true /\ matches_some exc p = false).
Proof. intros inc exc t l _ _ _. exact (os_glob_spec inc exc t l). Qed.
Print Assumptions os_glob_selects_exactly.

(** The hypotheses are satisfiable; the two-pattern case that the old anchoring got wrong. *)
Example two_patterns :
  let gs := [[42; 46; 103; 111]; [42; 46; 109; 100]] in            (* "*.go", "*.md" *)
  option_map print (compile gs) =
    Some [94;40;63;115;58;40;91;94;47;93;42;92;46;103;111;41;124;40;91;94;47;93;42;92;46;109;100;41;41;36]
    (* ^(?s:([^/]*\.go)|([^/]*\.md))$ *)
  /\ option_map (fun r => search r [120; 46; 103; 111]) (compile gs) = Some true             (* x.go *)
  /\ option_map (fun r => search r [120; 46; 103; 111; 46; 98]) (compile gs) = Some false    (* x.go.b *)
  /\ option_map (fun r => search r [100; 47; 120; 46; 109; 100]) (compile gs) = Some false.  (* d/x.md *)
Proof. vm_compute. auto. Qed.

(** A tree with packages "", a, a/b and files x, a/x:  ignore=["a/*"] keeps "" and a;  ignore=["*"] matches the
    empty path and keeps nothing;  glob(["a?x"]) from the root selects a/x (? stands for the separator) and
    glob(["*x"]) does not. *)
Example walks :
  let bd := build_dawn in
  let t := Dir [bd; [120]] [([97], Dir [bd; [120]] [([98], Dir [bd] [])])] in
  load_project [[97; 47; 42]] t = Some [[]; [97]]
  /\ load_project [[97; 47; 42]; [42]] t = Some []
  /\ glob_builtin [[97; 63; 120]] [] t = Some [[97; 47; 120]]
  /\ glob_builtin [[42; 120]] [] t = Some [[120]].
Proof. vm_compute. auto. Qed.

(** A tree with the packages "", src and .g:  ignore=[".*"] drops .g only (the pattern matches the one-character
    string "." too, which is the path of nothing);  ignore=["?"] and ignore=[".", "/", "./*"] drop nothing. *)
Example dot_patterns :
  let bd := build_dawn in
  let src := [115; 114; 99] in
  let t := Dir [bd] [(src, Dir [bd] []); ([46; 103], Dir [bd] [])] in
  load_project [[46; 42]] t = Some [[]; src]
  /\ load_project [[63]] t = Some [[]; src; [46; 103]]
  /\ load_project [[46]; [47]; [46; 47; 42]] t = Some [[]; src; [46; 103]].
Proof. vm_compute. auto. Qed.
