(** Executable model of util/glob.go (CompileGlobs) and of its users: Project.ignored (project.go,
    project_config.go) and the selection made by glob() (project_builtins.go, lib/os/glob.go).
    [compile gs] is the PARSED SHAPE of the pattern string that CompileGlobs builds and hands to
    regexp.Compile; [print (compile gs)] is that string byte for byte.  [glob_match] is the specification:
    the recursive matcher of the property statement.

    Scope.  Bytes stand for characters.  RE2 matches runes (UTF-8 code points), so the model agrees with
    Go exactly when patterns and paths are ASCII (every byte < 128): the theorems carry that hypothesis.
    A pattern containing invalid UTF-8 is rejected by regexp.Compile ("invalid UTF-8"), which the model does
    not represent; in a path, each invalid byte is one U+FFFD character for RE2.  No proofs in this file. *)
From Dawn Require Export Glob.Regex.

Definition ascii (s : str) : Prop := forall c, In c s -> c < 128.

(** The characters that may follow a backslash:  \ * ? [ ]  *)
Definition escapable (c : N) : bool := existsb (N.eqb c) [92; 42; 63; 91; 93].

(** One pattern: the loop of CompileGlobs over the bytes of [g]; [None] = "invalid escape sequence".
    The characters . + ( ) | { } ^ $ [ ] are written with a backslash, i.e. they are literals. *)
Fixpoint translate (g : str) : option regex :=
  match g with
  | [] => Some REps
  | c :: t =>
      if c =? 92 then
        match t with
        | [] => None
        | d :: t' => if escapable d then option_map (RCat (RLit d)) (translate t') else None
        end
      else if c =? 42 then
        match t with
        | d :: t' => if d =? 42 then option_map (RCat (RStar RDot)) (translate t')
                     else option_map (RCat (RStar RNotSlash)) (translate t)
        | [] => Some (RCat (RStar RNotSlash) REps)
        end
      else if c =? 63 then option_map (RCat RDot) (translate t)
      else option_map (RCat (RLit c)) (translate t)
  end.

(** (g1)|(g2)|...|(gn); the empty character class, which no text matches, for the empty list. *)
Fixpoint alts (rs : list regex) : regex :=
  match rs with
  | [] => RNone
  | [r] => RGroup r
  | r :: rs' => RAlt (RGroup r) (alts rs')
  end.

Fixpoint translate_all (gs : list str) : option (list regex) :=
  match gs with
  | [] => Some []
  | g :: gs' => match translate g with
                | None => None
                | Some r => option_map (cons r) (translate_all gs')
                end
  end.

(** ^(?s:(g1)|(g2)|...)$ *)
Definition compile (gs : list str) : option regex :=
  option_map (fun rs => RCat RBol (RCat (RFlagS (alts rs)) REol)) (translate_all gs).

(** ** Specification: the matcher of the property statement. *)

(** [k] holds of some suffix of [p] (the skipped prefix is arbitrary). *)
Fixpoint any_run (k : str -> bool) (p : str) : bool :=
  k p || match p with [] => false | _ :: p' => any_run k p' end.

(** [k] holds of some suffix of [p], the skipped prefix containing no '/'. *)
Fixpoint seg_run (k : str -> bool) (p : str) : bool :=
  k p || match p with [] => false | x :: p' => negb (x =? 47) && seg_run k p' end.

Definition one (ok : N -> bool) (k : str -> bool) (p : str) : bool :=
  match p with [] => false | x :: p' => ok x && k p' end.

Fixpoint glob_match (g : str) (p : str) : bool :=
  match g with
  | [] => isnil p
  | c :: t =>
      if c =? 92 then                                   (* an escaped metacharacter matches itself *)
        match t with
        | [] => false
        | d :: t' => escapable d && one (N.eqb d) (glob_match t') p
        end
      else if c =? 42 then
        match t with
        | d :: t' => if d =? 42 then any_run (glob_match t') p        (* ** : any run of characters *)
                     else seg_run (glob_match t) p                    (* *  : any run of non-'/' characters *)
        | [] => seg_run (glob_match t) p
        end
      else if c =? 63 then one (fun _ => true) (glob_match t) p        (* ?  : one character *)
      else one (N.eqb c) (glob_match t) p                              (* any other character: itself *)
  end.

(** Every backslash is followed by one of \ * ? [ ]. *)
Fixpoint well_escaped (g : str) : bool :=
  match g with
  | [] => true
  | c :: t => if c =? 92 then match t with [] => false | d :: t' => escapable d && well_escaped t' end
              else well_escaped t
  end.

(** ** Users. *)

(** project_config.go / project.go: an empty ignore list means "nothing ignored" (proj.ignore = nil);
    [None] = loading the configuration fails with "invalid ignores". *)
Definition load_ignore (ignore : list str) : option (option regex) :=
  match ignore with
  | [] => Some None
  | _ => option_map Some (compile ignore)
  end.

Definition ignored (ig : option regex) (p : str) : bool :=
  match ig with None => false | Some r => search r p end.

(** glob(include, exclude) over the relative paths of the files found by the directory walk. *)
Definition glob_select (include exclude : list str) (paths : list str) : option (list str) :=
  match compile include, compile exclude with
  | Some ri, Some re => Some (filter (fun p => search ri p && negb (search re p)) paths)
  | _, _ => None
  end.
