(** Proofs about the directory walks of Glob/Walk.v. *)
From Dawn Require Import Glob.Model Glob.Proofs.
From Dawn Require Import Glob.Walk.

Fixpoint tree_rect' (P : tree -> Prop)
  (H : forall files subs, Forall (fun ns => P (snd ns)) subs -> P (Dir files subs)) (t : tree) : P t :=
  match t with
  | Dir files subs =>
      H files subs ((fix go (l : list (str * tree)) : Forall (fun ns => P (snd ns)) l :=
                       match l with
                       | [] => Forall_nil _
                       | x :: l' => Forall_cons x (tree_rect' P H (snd x)) (go l')
                       end) subs)
  end.

Lemma filter_none {A} (f : A -> bool) l : (forall x, In x l -> f x = false) -> filter f l = [].
Proof.
  induction l as [|a l IH]; intros H; [reflexivity|]. simpl. rewrite (H a (or_introl eq_refl)).
  apply IH. intros x Hx. apply H. right. exact Hx.
Qed.

Lemma flat_map_filter_map {A B C} (F : A -> list C) (G : A -> list B) (f : B -> bool) (h : B -> C) l :
  Forall (fun x => F x = map h (filter f (G x))) l ->
  flat_map F l = map h (filter f (flat_map G l)).
Proof.
  induction 1 as [|x l Hx _ IH]; [reflexivity|]. simpl. rewrite filter_app, map_app, Hx, IH. reflexivity.
Qed.

(** The way to anything found below [rel] passes through what was above. *)
Lemma packages_way : forall t rel above pa,
  In pa (packages rel above t) -> exists pre, snd pa = pre ++ rel :: above.
Proof.
  induction t as [files subs IH] using tree_rect'. intros rel above pa. simpl. rewrite in_app_iff. intros [H|H].
  - destruct (has_build files); [|contradiction]. destruct H as [<-|[]]. exists []. reflexivity.
  - apply in_flat_map in H. destruct H as [[n s] [Hin H]]. rewrite Forall_forall in IH.
    destruct (str_eqb n dot_dawn); [contradiction|].
    destruct (IH (n, s) Hin _ _ _ H) as [pre Hp]. exists (pre ++ [pjoin rel n]).
    rewrite Hp, <- app_assoc. reflexivity.
Qed.

Lemma files_below_way : forall t rel above fa,
  In fa (files_below rel above t) -> exists pre, snd fa = pre ++ above.
Proof.
  induction t as [files subs IH] using tree_rect'. intros rel above fa. simpl. rewrite in_app_iff. intros [H|H].
  - apply in_map_iff in H. destruct H as [f [<- _]]. exists []. reflexivity.
  - apply in_flat_map in H. destruct H as [[n s] [Hin H]]. rewrite Forall_forall in IH.
    destruct (IH (n, s) Hin _ _ _ H) as [pre Hp]. exists (pre ++ [pjoin rel n]).
    rewrite Hp, <- app_assoc. reflexivity.
Qed.

Section Load.
  Variable ig : option regex.
  Let clear (way : list str) : bool := forallb (fun d => negb (ignored ig d)) way.

  Lemma load_packages_filter : forall t rel above,
    clear above = true ->
    load_packages ig rel t = map fst (filter (fun pa => clear (snd pa)) (packages rel above t)).
  Proof.
    induction t as [files subs IH] using tree_rect'. intros rel above Hab.
    cbn [load_packages]. destruct (ignored ig rel) eqn:E.
    - rewrite filter_none; [reflexivity|]. intros pa Hpa. apply packages_way in Hpa. destruct Hpa as [pre ->].
      unfold clear. rewrite forallb_app. cbn [forallb]. rewrite E. cbn. apply andb_false_r.
    - cbn [packages]. rewrite filter_app, map_app. f_equal.
      + destruct (has_build files); [|reflexivity]. cbn [filter snd]. unfold clear at 1. cbn [forallb].
        rewrite E. fold (clear above). rewrite Hab. reflexivity.
      + apply flat_map_filter_map. rewrite Forall_forall in *. intros [n s] Hin.
        destruct (str_eqb n dot_dawn); [reflexivity|].
        apply (IH (n, s) Hin). unfold clear. cbn [forallb]. rewrite E. exact Hab.
  Qed.
End Load.

Lemma forallb_negb_false {A} (f : A -> bool) l :
  forallb (fun x => negb (f x)) l = true <-> forall x, In x l -> f x = false.
Proof.
  rewrite forallb_forall. split; intros H x Hx; specialize (H x Hx).
  - apply negb_true_iff. exact H.
  - apply negb_true_iff. exact H.
Qed.

Lemma load_project_spec ignore t l :
  load_project ignore t = Some l ->
  forall p, In p l <->
            exists way, In (p, way) (packages [] [] t) /\ forall d, In d way -> matches_some ignore d = false.
Proof.
  unfold load_project. intros H. apply option_map_some in H. destruct H as [o [Ho ->]]. intros p.
  rewrite (load_packages_filter o t [] [] eq_refl), in_map_iff. split.
  - intros [[p' way] [<- Hin]]. apply filter_In in Hin. destruct Hin as [Hin Hc]. exists way. split; [exact Hin|].
    cbn [snd] in Hc. rewrite forallb_negb_false in Hc. intros d Hd. unfold matches_some.
    rewrite <- (ignored_spec ignore o d Ho). apply Hc. exact Hd.
  - intros [way [Hin Hc]]. exists (p, way). split; [reflexivity|]. apply filter_In. split; [exact Hin|].
    cbn [snd]. apply forallb_negb_false. intros d Hd. rewrite (ignored_spec ignore o d Ho). apply Hc. exact Hd.
Qed.

(** An ignore list with a pattern that matches the empty path ignores the root package, hence everything. *)
Lemma load_project_root_ignored ignore t l :
  load_project ignore t = Some l -> matches_some ignore [] = true -> l = [].
Proof.
  unfold load_project. intros H. apply option_map_some in H. destruct H as [o [Ho ->]]. intros Hm.
  destruct t as [files subs]. cbn [load_packages]. rewrite (ignored_spec ignore o [] Ho).
  unfold matches_some in Hm. rewrite Hm. reflexivity.
Qed.

(** Two ignore lists that agree on the paths of the directories on the way to the packages load the same packages:
    what a list matches among other strings (".", "/", "./d", "d/", absolute paths, ...) does not count. *)
Lemma load_project_only_directory_paths ig1 ig2 t l1 l2 :
  load_project ig1 t = Some l1 -> load_project ig2 t = Some l2 ->
  (forall p way d, In (p, way) (packages [] [] t) -> In d way -> matches_some ig1 d = matches_some ig2 d) ->
  forall p, In p l1 <-> In p l2.
Proof.
  intros H1 H2 Hag p. rewrite (load_project_spec ig1 t l1 H1 p), (load_project_spec ig2 t l2 H2 p).
  split; intros [way [Hin Hc]]; exists way; (split; [exact Hin|]); intros d Hd.
  - rewrite <- (Hag p way d Hin Hd). apply Hc. exact Hd.
  - rewrite (Hag p way d Hin Hd). apply Hc. exact Hd.
Qed.

Lemma load_project_fails ignore t :
  load_project ignore t = None <-> existsb (fun g => negb (well_escaped g)) ignore = true.
Proof. unfold load_project. rewrite option_map_none. apply load_ignore_fails. Qed.

Section Files.
  Variable skip : str -> bool.
  Let clear (way : list str) : bool := forallb (fun d => negb (skip d)) way.

  Lemma walk_files_filter : forall t rel above,
    clear above = true ->
    walk_files skip rel t = map fst (filter (fun fa => clear (snd fa)) (files_below rel above t)).
  Proof.
    induction t as [files subs IH] using tree_rect'. intros rel above Hab.
    cbn [walk_files files_below]. rewrite filter_app, map_app. f_equal.
    - induction files as [|f fs IHf]; [reflexivity|]. cbn [map filter snd]. rewrite Hab. cbn [map fst]. f_equal. exact IHf.
    - apply flat_map_filter_map. rewrite Forall_forall in *. intros [n s] Hin.
      destruct (skip (pjoin rel n)) eqn:E.
      + rewrite filter_none; [reflexivity|]. intros fa Hfa. apply files_below_way in Hfa. destruct Hfa as [pre ->].
        unfold clear. rewrite forallb_app. cbn [forallb]. rewrite E. cbn. apply andb_false_r.
      + apply (IH (n, s) Hin). unfold clear. cbn [forallb]. rewrite E. exact Hab.
  Qed.
End Files.

Lemma glob_builtin_spec inc exc t l :
  glob_builtin inc exc t = Some l ->
  forall p,
    (In p l <-> (exists way, In (p, way) (files_below [] [] t) /\ ~ In dawn_build way)
                /\ matches_some inc p = true /\ matches_some exc p = false).
Proof.
  unfold glob_builtin. intros H p. rewrite (glob_select_spec _ _ _ _ H p).
  fold (matches_some inc p) (matches_some exc p).
  rewrite (walk_files_filter (str_eqb dawn_build) t [] [] eq_refl), in_map_iff.
  assert (Hway : forall way, forallb (fun d => negb (str_eqb dawn_build d)) way = true <-> ~ In dawn_build way).
  { intros way. rewrite forallb_negb_false. split.
    - intros H1 H2. specialize (H1 _ H2). rewrite str_eqb_refl in H1. discriminate.
    - intros H1 x Hx. destruct (str_eqb_spec dawn_build x) as [E|]; [rewrite <- E in Hx; contradiction|reflexivity]. }
  split.
  - intros [[[p' way] [<- Hin]] Hm]. apply filter_In in Hin. destruct Hin as [Hin Hc]. split; [|exact Hm].
    exists way. split; [exact Hin|]. apply Hway. exact Hc.
  - intros [[way [Hin Hc]] Hm]. split; [|exact Hm]. exists (p, way). split; [reflexivity|].
    apply filter_In. split; [exact Hin|]. apply Hway. exact Hc.
Qed.

Lemma glob_builtin_fails inc exc t :
  glob_builtin inc exc t = None <-> existsb (fun g => negb (well_escaped g)) (inc ++ exc) = true.
Proof. apply glob_select_fails. Qed.

Lemma os_glob_spec inc exc t l :
  os_glob inc exc t = Some l ->
  forall p,
    (In p l <-> In p (walk_all [] t) /\ matches_some inc p = true /\ matches_some exc p = false).
Proof. unfold os_glob. intros H p. exact (glob_select_spec _ _ _ _ H p). Qed.
