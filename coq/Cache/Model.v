(** C20 — executable model of /repo/cache.go (type cache, get, once) as an interleaving
    transition system.  No proofs in this file.

    The Go code, line by line:

      func (c *cache) get(key) (v, ok) {
        c.m.RLock()                          PRLock      enabled iff no writer holds the lock
        defer c.m.RUnlock()
        v, ok := c.entries[key]              PLookup     remembers the lookup result
        return v, ok                         PRUnlock    the deferred RUnlock runs
      }
      func (c *cache) once(thread, fn, key, function) (v, err) {
        if v, ok := c.get(key); ok {         (the three steps above)
          return v, nil                      PReturn (RVal v)     fast path: hit
        }
        c.m.Lock()                           PLock       enabled iff no writer and no readers
        defer c.m.Unlock()
        if v, ok := c.entries[key]; ok {     PRecheck
          return v, nil                      -> PUnlock (RVal v) -> PReturn (RVal v)
        }
        v, err := starlark.Call(function)    PCall       the callable runs, outcome Ok v | Fail
        if err != nil { return nil, err }    -> PUnlock RErr -> PReturn RErr   (nothing stored)
        c.entries[key] = v                   PStore v
        return v, nil                        -> PUnlock (RVal v) -> PReturn (RVal v)
      }

    Keys and values are numbers.  A caller (goroutine) performs a list of calls sequentially, each
    call is (key, outcome of its callable): the callable's behaviour is an input of the model.
    Visible events (the history): call start, invocation of a callable with its outcome, return of
    once with its result.  Lock operations, lookups and the store are internal.

    sync.RWMutex: RLock proceeds when no writer holds the lock (Go additionally makes new readers
    wait behind a *pending* writer; the model allows them in, so it has every behaviour of the real
    lock and more, which is the safe direction for the safety theorems).  Lock proceeds when there is
    no writer and no reader.  RUnlock with no reader and Unlock with no writer are fatal errors in Go
    ("sync: RUnlock of unlocked RWMutex"): the model makes such a step impossible (step = None) and
    the theorems `cache_invariant`/`once_deadlock_free` show that a caller inside a lock section can
    always step, i.e. those fatal errors are unreachable.

    Not modelled: a callable that calls `once` on the same cache (re-entrancy).  In the code this
    self-deadlocks on c.m.Lock(); the property does not quantify over it and callers here never do it. *)
From Coq Require Import List NArith Bool Arith.
Import ListNotations.

Inductive outcome := Ok (v : N) | Fail.
Inductive result := RVal (v : N) | RErr.

(** one call of once: the key and what the callable would do if it were invoked *)
Definition call := (N * outcome)%type.

Inductive pc :=
| PRLock | PLookup | PRUnlock (hit : option N)
| PLock | PRecheck | PCall | PStore (v : N) | PUnlock (r : result)
| PReturn (r : result).

(** [todo]: calls not yet started; [cur]: the call in progress and where it is (None = between calls) *)
Record caller := mkCaller { todo : list call; cur : option (call * pc) }.

Inductive event :=
| ECall (c : nat) (k : N)
| EInvoke (c : nat) (k : N) (o : outcome)
| EReturn (c : nat) (k : N) (r : result).

(** [entries]: association list, first binding wins (a store conses in front = map assignment).
    [hist]: newest event first. *)
Record state := mkState {
  entries : list (N * N);
  readers : nat;
  writer : bool;
  callers : list caller;
  hist : list event
}.

Fixpoint lookup (k : N) (m : list (N * N)) : option N :=
  match m with
  | [] => None
  | (k', v) :: t => if N.eqb k k' then Some v else lookup k t
  end.

Fixpoint upd {A} (l : list A) (i : nat) (x : A) : list A :=
  match l, i with
  | [], _ => []
  | _ :: t, O => x :: t
  | y :: t, S i' => y :: upd t i' x
  end.

Definition step_caller (s : state) (c : nat) (cl : caller) : option state :=
  match cur cl with
  | None =>
      match todo cl with
      | [] => None                                              (* finished *)
      | (k, o) :: rest =>
          Some (mkState (entries s) (readers s) (writer s)
                        (upd (callers s) c (mkCaller rest (Some ((k, o), PRLock))))
                        (ECall c k :: hist s))
      end
  | Some ((k, o), p) =>
      let goto p' := upd (callers s) c (mkCaller (todo cl) (Some ((k, o), p'))) in
      match p with
      | PRLock =>
          if writer s then None                                 (* blocked *)
          else Some (mkState (entries s) (S (readers s)) (writer s) (goto PLookup) (hist s))
      | PLookup =>
          Some (mkState (entries s) (readers s) (writer s) (goto (PRUnlock (lookup k (entries s)))) (hist s))
      | PRUnlock hit =>
          match readers s with
          | O => None                                           (* Go: fatal error, RUnlock of unlocked RWMutex *)
          | S r =>
              Some (mkState (entries s) r (writer s)
                            (goto (match hit with Some v => PReturn (RVal v) | None => PLock end)) (hist s))
          end
      | PLock =>
          if writer s then None                                 (* blocked *)
          else match readers s with
               | O => Some (mkState (entries s) O true (goto PRecheck) (hist s))
               | S _ => None                                    (* blocked *)
               end
      | PRecheck =>
          Some (mkState (entries s) (readers s) (writer s)
                        (goto (match lookup k (entries s) with Some v => PUnlock (RVal v) | None => PCall end))
                        (hist s))
      | PCall =>
          match o with
          | Ok v => Some (mkState (entries s) (readers s) (writer s) (goto (PStore v)) (EInvoke c k (Ok v) :: hist s))
          | Fail => Some (mkState (entries s) (readers s) (writer s) (goto (PUnlock RErr)) (EInvoke c k Fail :: hist s))
          end
      | PStore v =>
          Some (mkState ((k, v) :: entries s) (readers s) (writer s) (goto (PUnlock (RVal v))) (hist s))
      | PUnlock r =>
          if writer s
          then Some (mkState (entries s) (readers s) false (goto (PReturn r)) (hist s))
          else None                                             (* Go: fatal error, Unlock of unlocked RWMutex *)
      | PReturn r =>
          Some (mkState (entries s) (readers s) (writer s)
                        (upd (callers s) c (mkCaller (todo cl) None))
                        (EReturn c k r :: hist s))
      end
  end.

(** one atomic step of caller number [c]; None = that caller cannot move now (blocked, finished, absent) *)
Definition step (s : state) (c : nat) : option state :=
  match nth_error (callers s) c with
  | None => None
  | Some cl => step_caller s c cl
  end.

(** a schedule is a list of caller numbers *)
Fixpoint run (s : state) (sched : list nat) : option state :=
  match sched with
  | [] => Some s
  | c :: rest => match step s c with None => None | Some s' => run s' rest end
  end.

(** a configuration: one program (list of calls) per caller *)
Definition config := list (list call).

Definition init (cfg : config) : state :=
  mkState [] 0 false (map (fun p => mkCaller p None) cfg) [].

Inductive reachable (cfg : config) : state -> Prop :=
| reach_init : reachable cfg (init cfg)
| reach_step : forall s c s', reachable cfg s -> step s c = Some s' -> reachable cfg s'.

Definition finished (cl : caller) : bool :=
  match cur cl, todo cl with None, [] => true | _, _ => false end.

Definition all_done (s : state) : bool := forallb finished (callers s).

(** -------- observation functions over histories (used by the theorems) -------- *)

(** values produced by successful invocations for key k, newest first *)
Fixpoint succ_vals (k : N) (h : list event) : list N :=
  match h with
  | [] => []
  | EInvoke _ k' (Ok v) :: t => if N.eqb k k' then v :: succ_vals k t else succ_vals k t
  | _ :: t => succ_vals k t
  end.

(** number of invocations (successful or not) for key k *)
Fixpoint invocations (k : N) (h : list event) : nat :=
  match h with
  | [] => 0
  | EInvoke _ k' _ :: t => (if N.eqb k k' then 1 else 0) + invocations k t
  | _ :: t => invocations k t
  end.

(** failed invocations made by caller c / error returns received by caller c *)
Fixpoint nfail (c : nat) (h : list event) : nat :=
  match h with
  | [] => 0
  | EInvoke c' _ Fail :: t => (if Nat.eqb c c' then 1 else 0) + nfail c t
  | _ :: t => nfail c t
  end.

Fixpoint nerr (c : nat) (h : list event) : nat :=
  match h with
  | [] => 0
  | EReturn c' _ RErr :: t => (if Nat.eqb c c' then 1 else 0) + nerr c t
  | _ :: t => nerr c t
  end.

(** lock sections *)
Definition in_read (cl : caller) : bool :=
  match cur cl with
  | Some (_, PLookup) | Some (_, PRUnlock _) => true
  | _ => false
  end.

Definition in_write (cl : caller) : bool :=
  match cur cl with
  | Some (_, PRecheck) | Some (_, PCall) | Some (_, PStore _) | Some (_, PUnlock _) => true
  | _ => false
  end.

Fixpoint sump (w : caller -> nat) (l : list caller) : nat :=
  match l with
  | [] => 0
  | x :: t => w x + sump w t
  end.

Definition b2n (b : bool) : nat := if b then 1 else 0.

(** number of callers between RLock and RUnlock / between Lock and Unlock *)
Definition n_reading (s : state) : nat := sump (fun cl => b2n (in_read cl)) (callers s).
Definition n_writing (s : state) : nat := sump (fun cl => b2n (in_write cl)) (callers s).
