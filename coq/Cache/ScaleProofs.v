(** C20 — the lifetime of a cache: a key that has an entry is never computed again.

    The single-cache model (Cache/Model.v) puts no bound on the number of keys, calls or failures, and its
    entries only grow (Proofs.run_entries_grow).  The lemma below states the consequence the property
    needs over the whole life of a cache: from any reachable state in which key k has an entry v -- however
    many other keys are stored, however many calls have been made or have failed, and whatever any caller
    does afterwards (more keys, failing callables, repeated requests for k) -- along EVERY schedule
      - the entry of k is still v,
      - the number of invocations (successful or not) of callables for k does not change,
      - the only successful invocation for k in the history is still the one that produced v, and
      - every non-error return for k in the history, old or new, carries v. *)
From Coq Require Import List NArith Bool Arith Lia.
Import ListNotations.
From Dawn Require Import Cache.Model Cache.Run Cache.Proofs.

Lemma step_invocations_stored : forall s c s' kk vv,
  Inv s -> step s c = Some s' -> lookup kk (entries s) = Some vv ->
  invocations kk (hist s') = invocations kk (hist s).
Proof.
  intros s c s' kk vv HI H Hl. apply step_inv in H. destruct H as (cl & Hnth & H).
  pose proof (fun k o p => inv_pc s HI c cl k o p Hnth) as HPc.
  destruct s as [en rd wr cs h]. cbn [entries readers writer callers hist] in *.
  step_split H; cbn [entries readers writer callers hist invocations]; try reflexivity.
  - (* PCall, Ok: the caller's recheck missed, so its key has no entry *)
    specialize (HPc _ _ _ eq_refl). cbn in HPc.
    destruct (N.eqb_spec kk k); [subst; congruence|reflexivity].
  - (* PCall, Fail *)
    specialize (HPc _ _ _ eq_refl). cbn in HPc.
    destruct (N.eqb_spec kk k); [subst; congruence|reflexivity].
Qed.

Lemma run_invocations_stored : forall cfg sched s s' k v,
  reachable cfg s -> run s sched = Some s' -> lookup k (entries s) = Some v ->
  invocations k (hist s') = invocations k (hist s).
Proof.
  induction sched as [|c sched IH]; intros s s' k v Hr H Hl; cbn in H.
  - inversion H; subst; auto.
  - destruct (step s c) as [s1|] eqn:E; [|discriminate].
    pose proof (reachable_inv _ _ Hr) as HI.
    rewrite (IH s1 s' k v); [eapply step_invocations_stored; eauto|econstructor; eauto|exact H|].
    eapply step_entries; eauto.
Qed.

Lemma stored_never_recomputed : forall cfg s sched s' k v,
  reachable cfg s -> lookup k (entries s) = Some v -> run s sched = Some s' ->
  lookup k (entries s') = Some v /\
  invocations k (hist s') = invocations k (hist s) /\
  succ_vals k (hist s') = [v] /\
  (forall c v', In (EReturn c k (RVal v')) (hist s') -> v' = v).
Proof.
  intros cfg s sched s' k v Hr Hl Hrun.
  assert (Hl' : lookup k (entries s') = Some v) by (eapply run_entries_grow; eauto).
  pose proof (run_reachable _ _ _ _ Hr Hrun) as Hr'.
  split; [exact Hl'|]. split; [eapply run_invocations_stored; eauto|]. split.
  - pose proof (inv_key s' (reachable_inv _ _ Hr') k) as HK. rewrite Hl' in HK. exact HK.
  - intros c v' Hin. destruct (same_value _ _ _ _ _ Hr' Hin) as [E _]. congruence.
Qed.
