(** C20 — proofs about Cache/NestedModel.v: the projection of the nested multi-cache system onto one
    cache is a run of the single-cache model.  Restated in Props_C20.v. *)
From Coq Require Import List NArith Bool Arith Lia.
Import ListNotations.
From Dawn Require Import Cache.Model Cache.Run Cache.Proofs Cache.NestedModel.

(** * Lists *)

Fixpoint upd_f {A} (l : list A) (i : nat) (f : A -> A) : list A :=
  match l, i with
  | [], _ => []
  | y :: t, O => f y :: t
  | y :: t, S i' => y :: upd_f t i' f
  end.

Lemma nth_upd_f_eq {A} : forall (l : list A) i f, nth_error (upd_f l i f) i = option_map f (nth_error l i).
Proof. induction l as [|a l IH]; intros [|i] f; cbn; auto. Qed.

Lemma nth_upd_f_neq {A} : forall (l : list A) i j f, i <> j -> nth_error (upd_f l i f) j = nth_error l j.
Proof. induction l as [|a l IH]; intros [|i] [|j] f H; cbn; try congruence; auto. Qed.

Lemma upd_f_length {A} : forall (l : list A) i f, length (upd_f l i f) = length l.
Proof. induction l as [|a l IH]; intros [|i] f; cbn; auto. Qed.

Lemma upd_upd_f_same {A} : forall (l : list A) i f x, upd (upd_f l i f) i x = upd l i x.
Proof. induction l as [|a l IH]; intros [|i] f x; cbn; auto. now rewrite IH. Qed.

Lemma upd_f_upd_same {A} : forall (l : list A) i f x, upd_f (upd l i x) i f = upd l i (f x).
Proof. induction l as [|a l IH]; intros [|i] f x; cbn; auto. now rewrite IH. Qed.

Lemma upd_upd_f_comm {A} : forall (l : list A) i j f x, i <> j -> upd (upd_f l i f) j x = upd_f (upd l j x) i f.
Proof. induction l as [|a l IH]; intros [|i] [|j] f x H; cbn; try congruence; auto. now rewrite IH by lia. Qed.

Lemma map_upd_f {A B} : forall (g : A -> B) (h : A -> A) (f : B -> B) (l : list A) i,
  (forall y, g (h y) = f (g y)) -> map g (upd_f l i h) = upd_f (map g l) i f.
Proof. intros g h f l. induction l as [|a l IH]; intros [|i] H; cbn; auto; [now rewrite H|now rewrite IH]. Qed.

Lemma map_upd {A B} : forall (g : A -> B) (l : list A) i x, map g (upd l i x) = upd (map g l) i (g x).
Proof. intros g l. induction l as [|a l IH]; intros [|i] x; cbn; auto. now rewrite IH. Qed.

Lemma upd_same {A} : forall (l : list A) i x, nth_error l i = Some x -> upd l i x = l.
Proof. induction l as [|a l IH]; intros [|i] x H; cbn in *; try discriminate; [congruence|]. now rewrite IH. Qed.

Lemma nth_nth_error {A} : forall (l : list A) i d x, nth_error l i = Some x -> nth i l d = x.
Proof. induction l as [|a l IH]; intros [|i] d x H; cbn in *; try discriminate; [congruence|eauto]. Qed.

Lemma nth_upd_same {A} : forall (l : list A) i d x y, nth_error l i = Some y -> nth i (upd l i x) d = x.
Proof. intros. eapply nth_nth_error. eapply nth_upd_eq; eauto. Qed.

Lemma nth_upd_other {A} : forall (l : list A) i j d x, i <> j -> nth j (upd l i x) d = nth j l d.
Proof. induction l as [|a l IH]; intros [|i] [|j] d x H; cbn; try congruence; auto. Qed.

(** * The single-cache model does not look at the calls a caller has not started:
      appending calls to a caller's program keeps every run *)

Definition more_todo (x : list call) (cl : caller) : caller := mkCaller (todo cl ++ x) (cur cl).

Definition ext (s : state) (c : nat) (x : list call) : state :=
  mkState (entries s) (readers s) (writer s) (upd_f (callers s) c (more_todo x)) (hist s).

Definition cfg_ext (cfg : config) (c : nat) (x : list call) : config := upd_f cfg c (fun p => p ++ x).

Lemma ext_step : forall s c x c1 s', step s c1 = Some s' -> step (ext s c x) c1 = Some (ext s' c x).
Proof.
  intros s c x c1 s' H. apply step_inv in H. destruct H as (cl & Hnth & H).
  unfold step, ext. cbn [callers].
  destruct (Nat.eq_dec c c1) as [->|Hne].
  - rewrite nth_upd_f_eq, Hnth. cbn [option_map].
    destruct s as [en rd wr cs h]. cbn [entries readers writer callers hist] in *.
    step_split H; unfold step_caller, more_todo; cbn [cur todo entries readers writer callers hist app];
      rewrite ?upd_upd_f_same, ?upd_f_upd_same; reflexivity.
  - rewrite nth_upd_f_neq by assumption. rewrite Hnth.
    destruct s as [en rd wr cs h]. cbn [entries readers writer callers hist] in *.
    step_split H; unfold step_caller; cbn [cur todo entries readers writer callers hist];
      rewrite ?(upd_upd_f_comm _ _ _ _ _ Hne); reflexivity.
Qed.

Lemma ext_init : forall cfg c x, init (cfg_ext cfg c x) = ext (init cfg) c x.
Proof.
  intros. unfold init, ext, cfg_ext. cbn [entries readers writer callers hist]. f_equal.
  apply map_upd_f. intros y. reflexivity.
Qed.

Lemma ext_reachable : forall cfg s c x, reachable cfg s -> reachable (cfg_ext cfg c x) (ext s c x).
Proof.
  intros cfg s c x H. induction H.
  - rewrite <- ext_init. constructor.
  - econstructor; [exact IHreachable|]. apply ext_step. eassumption.
Qed.

(** * Shape of the stacks: the caches of a stack strictly decrease from the innermost frame outwards,
      and what a callable still has to call lies strictly above its own cache *)

Fixpoint stack_ok (st : list frame) : Prop :=
  match st with
  | [] => True
  | f :: rest =>
      forallb (ranked (S (f_cache f))) (f_body f) = true /\
      (forall g, In g rest -> f_cache g < f_cache f) /\
      stack_ok rest
  end.

Definition thread_ok (th : thread) : Prop :=
  forallb (ranked 0) (t_todo th) = true /\ stack_ok (t_stack th).

Definition mwf (M : mstate) : Prop := forall t th, nth_error (m_threads M) t = Some th -> thread_ok th.

Lemma mwf_init : forall n progs, ranked_progs progs = true -> mwf (minit n progs).
Proof.
  intros n progs H t th Hn. unfold minit in Hn. cbn [m_threads] in Hn.
  rewrite nth_error_map in Hn. destruct (nth_error progs t) as [p|] eqn:E; [|discriminate].
  inversion Hn; subst. split; cbn; auto.
  unfold ranked_progs in H. rewrite forallb_forall in H. apply H. eapply nth_error_In; eauto.
Qed.

Lemma stack_ok_find_none : forall st i, stack_ok st -> (forall g, In g st -> f_cache g < i) -> find (on_cache i) st = None.
Proof.
  induction st as [|f st IH]; intros i Hok Hlt; cbn; auto.
  assert (Hf : f_cache f < i) by (apply Hlt; left; auto).
  unfold on_cache at 1. destruct (Nat.eqb_spec (f_cache f) i); [lia|].
  apply IH; [apply Hok|]. intros g Hg. apply Hlt. right; auto.
Qed.

Lemma mwf_step : forall M t M', mwf M -> mstep M t = Some M' -> mwf M'.
Proof.
  intros M t M' HW H. unfold mstep in H.
  destruct (nth_error (m_threads M) t) as [th|] eqn:Hth; [|discriminate].
  pose proof (HW _ _ Hth) as [Htodo Hst].
  assert (K : forall th', thread_ok th' ->
              forall ca h, mwf (mkM ca (upd (m_threads M) t th') h)).
  { intros th' Hok ca h t1 th1 Hn. cbn [m_threads] in Hn.
    destruct (Nat.eq_dec t t1) as [->|Hne].
    - rewrite (nth_upd_eq _ _ _ _ Hth) in Hn. inversion Hn; subst; auto.
    - rewrite nth_upd_neq in Hn by assumption. eapply HW; eauto. }
  destruct th as [td st]. cbn [t_stack t_todo] in *.
  destruct st as [|f st].
  - destruct td as [|[i k body o] rest]; [discriminate|]. inversion H; subst. apply K.
    cbn in Htodo. apply andb_true_iff in Htodo. destruct Htodo as [Hb Hrest].
    split; cbn [t_todo t_stack stack_ok f_cache f_body]; auto. repeat split; auto. intros g [].
  - destruct (nth_error (m_caches M) (f_cache f)) as [c|] eqn:Hc; [|discriminate].
    cbn [stack_ok] in Hst. destruct Hst as (Hbody & Hlt & Hrest).
    assert (G : forall p' b', forallb (ranked (S (f_cache f))) b' = true ->
                thread_ok (mkThread td (mkFrame (f_cache f) (f_key f) (f_out f) p' b' :: st))).
    { intros p' b' Hb'. split; cbn [t_todo t_stack stack_ok f_cache f_body]; auto. }
    destruct (f_pc f) eqn:Hpc.
    + destruct (c_writer c); [discriminate|]. inversion H; subst. apply K, G, Hbody.
    + inversion H; subst. apply K, G, Hbody.
    + destruct (c_readers c); [discriminate|]. inversion H; subst. apply K, G, Hbody.
    + destruct (c_writer c); [discriminate|]. destruct (c_readers c); [|discriminate].
      inversion H; subst. apply K, G, Hbody.
    + inversion H; subst. apply K, G, Hbody.
    + destruct (f_body f) as [|[i' k' body' o'] more] eqn:Hb.
      * destruct (f_out f); inversion H; subst; apply K; rewrite <- Hb; apply G; rewrite Hb; reflexivity.
      * inversion H; subst. apply K.
        cbn [forallb ranked] in Hbody. apply andb_true_iff in Hbody. destruct Hbody as [Hn Hmore].
        apply andb_true_iff in Hn. destruct Hn as [Hle Hb'']. apply Nat.leb_le in Hle.
        split; cbn [t_todo t_stack stack_ok f_cache f_body]; auto.
        repeat split; auto.
        intros g [<-|Hg]; cbn [f_cache]; [lia|]. specialize (Hlt _ Hg). lia.
    + inversion H; subst. apply K, G, Hbody.
    + destruct (c_writer c); [|discriminate]. inversion H; subst. apply K, G, Hbody.
    + inversion H; subst. apply K. split; cbn [t_todo t_stack]; auto.
Qed.

Lemma mreachable_wf : forall n progs M, ranked_progs progs = true -> mreachable n progs M -> mwf M.
Proof.
  intros n progs M HR H. induction H; [apply mwf_init; auto|eapply mwf_step; eauto].
Qed.

Lemma mreachable_ncaches : forall n progs M, mreachable n progs M -> length (m_caches M) = n.
Proof.
  intros n progs M H. induction H.
  - cbn. apply repeat_length.
  - rewrite <- IHmreachable. unfold mstep in H0.
    destruct (nth_error (m_threads M) t) as [th|]; [|discriminate].
    destruct (t_stack th) as [|f st].
    + destruct (t_todo th) as [|[i k body o] rest]; [discriminate|]. inversion H0; subst; reflexivity.
    + destruct (nth_error (m_caches M) (f_cache f)) as [c|]; [|discriminate].
      destruct (f_pc f);
        repeat match type of H0 with
               | context [if ?b then _ else _] => destruct b
               | context [match ?x with O => _ | S _ => _ end] => destruct x
               | context [match f_body f with _ => _ end] => destruct (f_body f) as [|[? ? ? ?] ?]
               | context [match f_out f with _ => _ end] => destruct (f_out f)
               end; try discriminate; inversion H0; subst; cbn [m_caches]; rewrite ?upd_length; reflexivity.
Qed.

(** * One step of the nested system, seen from cache i *)

Lemma proj_thread_top : forall i f st td,
  f_cache f = i -> proj_thread i (mkThread td (f :: st)) = mkCaller [] (Some ((f_key f, f_out f), f_pc f)).
Proof.
  intros i f st td H. unfold proj_thread. cbn [t_stack find]. unfold on_cache at 1. rewrite H, Nat.eqb_refl. reflexivity.
Qed.

Lemma proj_thread_skip : forall i f st td td',
  f_cache f <> i -> proj_thread i (mkThread td (f :: st)) = proj_thread i (mkThread td' st).
Proof.
  intros i f st td td' H. unfold proj_thread. cbn [t_stack find]. unfold on_cache at 1.
  destruct (Nat.eqb_spec (f_cache f) i); [contradiction|reflexivity].
Qed.

Lemma proj_thread_idle : forall i td st,
  stack_ok st -> (forall g, In g st -> f_cache g < i) -> proj_thread i (mkThread td st) = mkCaller [] None.
Proof.
  intros i td st H1 H2. unfold proj_thread. cbn [t_stack]. rewrite stack_ok_find_none; auto.
Qed.

Lemma proj_hist_cons : forall i j e h,
  proj_hist i ((j, e) :: h) = if Nat.eqb j i then e :: proj_hist i h else proj_hist i h.
Proof. intros. unfold proj_hist. cbn [filter fst]. destruct (Nat.eqb j i); reflexivity. Qed.

(** the projection after thread t changed, caches and history given *)
Lemma proj_upd : forall i ca ths h t th',
  proj i (mkM ca (upd ths t th') h) =
  mkState (c_entries (nth i ca (mkC [] 0 false))) (c_readers (nth i ca (mkC [] 0 false)))
          (c_writer (nth i ca (mkC [] 0 false)))
          (upd (map (proj_thread i) ths) t (proj_thread i th')) (proj_hist i h).
Proof. intros. unfold proj. cbn [m_caches m_threads m_hist]. now rewrite map_upd. Qed.

Lemma proj_same_thread : forall i ca ths h t th th',
  nth_error ths t = Some th -> proj_thread i th' = proj_thread i th ->
  proj i (mkM ca (upd ths t th') h) = proj i (mkM ca ths h).
Proof.
  intros. rewrite proj_upd. unfold proj. cbn [m_caches m_threads m_hist]. f_equal.
  rewrite H0. apply upd_same. rewrite nth_error_map, H. reflexivity.
Qed.

Lemma proj_other_cache : forall i j ca c' ths h,
  i <> j -> proj i (mkM (upd ca j c') ths h) = proj i (mkM ca ths h).
Proof.
  intros. unfold proj. cbn [m_caches m_threads m_hist]. rewrite nth_upd_other by auto. reflexivity.
Qed.

Lemma proj_other_event : forall i j e ca ths h,
  j <> i -> proj i (mkM ca ths ((j, e) :: h)) = proj i (mkM ca ths h).
Proof.
  intros. unfold proj. cbn [m_caches m_threads m_hist]. rewrite proj_hist_cons.
  destruct (Nat.eqb_spec j i); [contradiction|reflexivity].
Qed.

(** a call starts on cache i: in the single-cache model this is the start of a call that is appended
    to the (idle) caller's program *)
Lemma proj_call_start : forall i ca ths h t th th' k o,
  nth_error ths t = Some th ->
  proj_thread i th = mkCaller [] None ->
  proj_thread i th' = mkCaller [] (Some ((k, o), PRLock)) ->
  step (ext (proj i (mkM ca ths h)) t [(k, o)]) t = Some (proj i (mkM ca (upd ths t th') ((i, ECall t k) :: h))).
Proof.
  intros i ca ths h t th th' k o Hth Hidle Hnew.
  unfold step, ext. cbn [callers]. rewrite nth_upd_f_eq.
  unfold proj at 1. cbn [callers m_threads]. rewrite nth_error_map, Hth. cbn [option_map]. rewrite Hidle.
  unfold more_todo, step_caller. cbn [cur todo app entries readers writer callers hist].
  rewrite proj_upd, proj_hist_cons, Nat.eqb_refl, Hnew.
  unfold proj. cbn [entries readers writer callers hist m_caches m_threads m_hist].
  rewrite upd_upd_f_same. reflexivity.
Qed.

Ltac own_start Hcl Hn :=
  right; left; unfold step; rewrite Hcl; unfold step_caller; cbn [cur todo];
  unfold proj at 1 2 3 4 5; cbn [entries readers writer callers hist m_caches m_threads m_hist];
  rewrite ?Hn.

Ltac own_fin H Hc Hn :=
  injection H as <-;
  unfold proj; cbn [entries readers writer callers hist m_caches m_threads m_hist app];
  rewrite ?(nth_upd_same _ _ _ _ _ Hc), ?map_upd, ?proj_hist_cons, ?Nat.eqb_refl, ?Hn;
  rewrite ?proj_thread_top by reflexivity; cbn [c_entries c_readers c_writer f_key f_out f_pc];
  try reflexivity.

Lemma proj_step : forall M t M' i,
  mwf M -> mstep M t = Some M' ->
  proj i M' = proj i M \/
  step (proj i M) t = Some (proj i M') \/
  exists k o, step (ext (proj i M) t [(k, o)]) t = Some (proj i M').
Proof.
  intros M t M' i HW H. unfold mstep in H.
  destruct M as [ca ths h]. cbn [m_threads m_caches m_hist] in H.
  destruct (nth_error ths t) as [th|] eqn:Hth; [|discriminate].
  pose proof (HW _ _ Hth) as [Htodo Hst].
  destruct th as [td st]. cbn [t_stack t_todo] in *.
  destruct st as [|f st].
  - destruct td as [|[i0 k body o] rest]; [discriminate|]. inversion H; subst; clear H.
    destruct (Nat.eq_dec i0 i) as [->|Hne].
    + right; right. exists k, o. eapply proj_call_start; eauto.
      apply proj_thread_top; reflexivity.
    + left. rewrite proj_other_event by auto. eapply proj_same_thread; eauto.
      unfold proj_thread, on_cache. cbn. destruct (Nat.eqb_spec i0 i); [contradiction|reflexivity].
  - destruct (nth_error ca (f_cache f)) as [c|] eqn:Hc; [|discriminate].
    pose proof Hst as Hst0.
    cbn [stack_ok] in Hst. destruct Hst as (Hbody & Hlt & Hrest).
    destruct (Nat.eq_dec (f_cache f) i) as [Hi|Hi].
    + (* the innermost frame is on cache i *)
      assert (Hn : nth i ca (mkC [] 0 false) = c) by (subst i; eapply nth_nth_error; eauto).
      assert (Hcl : nth_error (callers (proj i (mkM ca ths h))) t =
                    Some (mkCaller [] (Some ((f_key f, f_out f), f_pc f)))).
      { unfold proj. cbn [callers m_threads]. rewrite nth_error_map, Hth. cbn [option_map].
        now rewrite proj_thread_top. }
      destruct f as [fi fk fo fp fb]. cbn [f_cache f_key f_out f_pc f_body] in *. subst fi.
      destruct fp as [| |hit| | | |v|r|r].
      * own_start Hcl Hn. destruct (c_writer c); [discriminate|]. own_fin H Hc Hn.
      * own_start Hcl Hn. own_fin H Hc Hn.
      * own_start Hcl Hn. destruct (c_readers c); [discriminate|]. own_fin H Hc Hn.
      * own_start Hcl Hn. destruct (c_writer c); [discriminate|]. destruct (c_readers c); [|discriminate].
        own_fin H Hc Hn.
      * own_start Hcl Hn. own_fin H Hc Hn.
      * destruct fb as [|[i' k' body' o'] more].
        -- own_start Hcl Hn. destruct fo; own_fin H Hc Hn.
        -- (* the callable calls once on another cache: nothing happens on cache i *)
           left. injection H as <-.
           cbn [forallb ranked] in Hbody. apply andb_true_iff in Hbody. destruct Hbody as [Hb1 _].
           apply andb_true_iff in Hb1. destruct Hb1 as [Hle _]. apply Nat.leb_le in Hle.
           rewrite proj_other_event by lia. eapply proj_same_thread; eauto.
           rewrite (proj_thread_skip _ _ _ _ td) by (cbn [f_cache]; lia).
           rewrite !proj_thread_top by reflexivity. reflexivity.
      * own_start Hcl Hn. own_fin H Hc Hn.
      * own_start Hcl Hn. destruct (c_writer c); [|discriminate]. own_fin H Hc Hn.
      * own_start Hcl Hn. own_fin H Hc Hn. rewrite proj_thread_idle by auto. reflexivity.
    + (* the innermost frame is on another cache *)
      assert (Hskip : forall f' td', f_cache f' = f_cache f ->
                proj_thread i (mkThread td' (f' :: st)) = proj_thread i (mkThread td (f :: st))).
      { intros f' td' E. rewrite (proj_thread_skip _ _ _ _ td) by congruence.
        rewrite (proj_thread_skip _ f _ _ td) by congruence. reflexivity. }
      assert (G : forall c' p' b' ev, (forall e, In e ev -> fst e = f_cache f) ->
                proj i (mkM (upd ca (f_cache f) c')
                            (upd ths t (mkThread td (mkFrame (f_cache f) (f_key f) (f_out f) p' b' :: st)))
                            (ev ++ h)) = proj i (mkM ca ths h)).
      { intros c' p' b' ev Hev. rewrite proj_other_cache by auto.
        assert (E : proj_hist i (ev ++ h) = proj_hist i h).
        { induction ev as [|[j e] ev IH]; [reflexivity|]. cbn [app]. rewrite proj_hist_cons.
          assert (j = f_cache f) by (apply (Hev (j, e)); left; auto). subst j.
          destruct (Nat.eqb_spec (f_cache f) i); [contradiction|]. apply IH. intros e' He'. apply Hev. right; auto. }
        unfold proj. cbn [m_caches m_threads m_hist]. rewrite E. f_equal.
        rewrite map_upd. rewrite Hskip by reflexivity. apply upd_same. rewrite nth_error_map, Hth. reflexivity. }
      assert (G0 : forall e, In e (@nil (nat * event)) -> fst e = f_cache f) by (intros e []).
      assert (G1 : forall (x : event) (e : nat * event), In e [(f_cache f, x)] -> fst e = f_cache f)
        by (intros x e [<-|[]]; reflexivity).
      destruct (f_pc f) eqn:Hpc.
      * destruct (c_writer c); [discriminate|]. injection H as <-. left. apply (G _ _ _ []). exact G0.
      * injection H as <-. left. apply (G _ _ _ []). exact G0.
      * destruct (c_readers c); [discriminate|]. injection H as <-. left. apply (G _ _ _ []). exact G0.
      * destruct (c_writer c); [discriminate|]. destruct (c_readers c); [|discriminate].
        injection H as <-. left. apply (G _ _ _ []). exact G0.
      * injection H as <-. left. apply (G _ _ _ []). exact G0.
      * destruct (f_body f) as [|[i' k' body' o'] more] eqn:Hb.
        -- destruct (f_out f); injection H as <-; left; rewrite <- Hb;
             apply (G _ _ _ [_]); apply G1.
        -- injection H as <-.
           cbn [forallb ranked] in Hbody. apply andb_true_iff in Hbody. destruct Hbody as [Hb1 _].
           apply andb_true_iff in Hb1. destruct Hb1 as [Hle _]. apply Nat.leb_le in Hle.
           destruct (Nat.eq_dec i' i) as [->|Hne].
           ++ right; right. exists k', o'. eapply proj_call_start; eauto.
              ** apply proj_thread_idle; auto. intros g [<-|Hg]; [lia|]. specialize (Hlt _ Hg). lia.
              ** apply proj_thread_top; reflexivity.
           ++ left. rewrite proj_other_event by auto. eapply proj_same_thread; eauto.
              rewrite (proj_thread_skip _ _ _ _ td) by (cbn [f_cache]; auto).
              apply Hskip. reflexivity.
      * injection H as <-. left. apply (G _ _ _ []). exact G0.
      * destruct (c_writer c); [|discriminate]. injection H as <-. left. apply (G _ _ _ []). exact G0.
      * injection H as <-. left. rewrite proj_other_event by auto. eapply proj_same_thread; eauto.
        rewrite (proj_thread_skip _ f _ _ td) by auto. reflexivity.
Qed.

(** * The projection of every reachable state of the nested system is reachable in the single-cache model *)

Lemma proj_init : forall n progs i, proj i (minit n progs) = init (map (fun _ => []) progs).
Proof.
  intros. unfold proj, minit, init. cbn [m_caches m_threads m_hist]. rewrite nth_repeat. cbn [c_entries c_readers c_writer].
  f_equal. rewrite !map_map. apply map_ext. intros p. reflexivity.
Qed.

Lemma nested_projection_lemma : forall n progs M i,
  ranked_progs progs = true -> mreachable n progs M ->
  exists cfg, reachable cfg (proj i M) /\ length cfg = length progs.
Proof.
  intros n progs M i HR H. induction H.
  - exists (map (fun _ => []) progs). rewrite proj_init. split; [constructor|apply map_length].
  - destruct IHmreachable as (cfg & Hc & Hl).
    pose proof (mreachable_wf _ _ _ HR H) as HW.
    destruct (proj_step _ _ _ i HW H0) as [E|[E|(k & o & E)]].
    + rewrite E. eauto.
    + exists cfg. split; [econstructor; eauto|auto].
    + exists (cfg_ext cfg t [(k, o)]). split.
      * econstructor; [apply ext_reachable; exact Hc|exact E].
      * unfold cfg_ext. rewrite upd_f_length. exact Hl.
Qed.

Lemma in_proj_hist : forall i e h, In (i, e) h -> In e (proj_hist i h).
Proof.
  intros i e h H. unfold proj_hist. apply in_map_iff. exists (i, e). split; [reflexivity|].
  apply filter_In. split; [exact H|]. cbn. apply Nat.eqb_refl.
Qed.

Lemma nested_at_most_once : forall n progs M i k,
  ranked_progs progs = true -> mreachable n progs M ->
  length (succ_vals k (proj_hist i (m_hist M))) <= 1 /\
  (forall h1 h2 t1 v1, proj_hist i (m_hist M) = h1 ++ EInvoke t1 k (Ok v1) :: h2 ->
     forall t2 v2, ~ In (EInvoke t2 k (Ok v2)) (h1 ++ h2)).
Proof.
  intros n progs M i k HR H. destruct (nested_projection_lemma _ _ _ i HR H) as (cfg & Hc & _).
  exact (at_most_once_success cfg (proj i M) k Hc).
Qed.

Lemma nested_same_value : forall n progs M i t k v,
  ranked_progs progs = true -> mreachable n progs M ->
  In (i, EReturn t k (RVal v)) (m_hist M) ->
  lookup k (c_entries (nth i (m_caches M) (mkC [] 0 false))) = Some v /\
  succ_vals k (proj_hist i (m_hist M)) = [v].
Proof.
  intros n progs M i t k v HR H Hin. destruct (nested_projection_lemma _ _ _ i HR H) as (cfg & Hc & _).
  apply in_proj_hist in Hin. exact (same_value cfg (proj i M) t k v Hc Hin).
Qed.

Lemma nested_same_value_pair : forall n progs M i t1 t2 k v1 v2,
  ranked_progs progs = true -> mreachable n progs M ->
  In (i, EReturn t1 k (RVal v1)) (m_hist M) -> In (i, EReturn t2 k (RVal v2)) (m_hist M) -> v1 = v2.
Proof.
  intros n progs M i t1 t2 k v1 v2 HR H H1 H2.
  destruct (nested_same_value _ _ _ _ _ _ _ HR H H1) as [E1 _].
  destruct (nested_same_value _ _ _ _ _ _ _ HR H H2) as [E2 _]. congruence.
Qed.

Lemma nested_failure_stores_nothing : forall n progs M i k,
  ranked_progs progs = true -> mreachable n progs M ->
  succ_vals k (proj_hist i (m_hist M)) = [] ->
  lookup k (c_entries (nth i (m_caches M) (mkC [] 0 false))) = None.
Proof.
  intros n progs M i k HR H E. destruct (nested_projection_lemma _ _ _ i HR H) as (cfg & Hc & _).
  exact (no_success_no_entry cfg (proj i M) k Hc E).
Qed.

Lemma mrun_reachable : forall n progs sched M M', mreachable n progs M -> mrun M sched = Some M' -> mreachable n progs M'.
Proof.
  induction sched as [|t sched IH]; intros M M' Hr H; cbn in H.
  - inversion H; subst; auto.
  - destruct (mstep M t) as [M1|] eqn:E; [|discriminate]. eapply IH; [|exact H]. econstructor; eauto.
Qed.
