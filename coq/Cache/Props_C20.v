(** C20 — Cache.once computes each key at most once under concurrency.

    Statements only; the proofs are in Cache/Proofs.v.  The model (Cache/Model.v) is an interleaving
    transition system for cache.go: [step s c] is one atomic step of caller c, [reachable cfg s] is
    the reflexive-transitive closure of [step] from [init cfg]; a configuration gives every caller a
    list of calls (key, outcome of the callable).  Every theorem is for every configuration (any
    number of callers, keys, programs) and every schedule.  The model has no re-entrant callable
    (a callable calling once on the same cache self-deadlocks in the code; out of the property). *)
From Coq Require Import List NArith Bool Arith.
Import ListNotations.
From Dawn Require Import Cache.Model Cache.Run Cache.Proofs Cache.ScaleProofs Cache.NestedModel Cache.NestedProofs.

(** Per key, at most one successful invocation of a callable is ever recorded: the list of values
    produced by successful invocations for k has length <= 1; equivalently, if the history contains
    a successful invocation for k, the rest of the history contains no other one. *)
Theorem once_at_most_once_success : forall cfg s k,
  reachable cfg s ->
  length (succ_vals k (hist s)) <= 1 /\
  (forall h1 h2 c1 v1, hist s = h1 ++ EInvoke c1 k (Ok v1) :: h2 ->
     forall c2 v2, ~ In (EInvoke c2 k (Ok v2)) (h1 ++ h2)).
Proof. exact at_most_once_success. Qed.
Print Assumptions once_at_most_once_success.

(** Every non-error return for key k carries the value stored in entries[k], which is the value of
    the single successful invocation for k; hence all callers for k receive the same value. *)
Theorem once_same_value : forall cfg s c k v,
  reachable cfg s -> In (EReturn c k (RVal v)) (hist s) ->
  lookup k (entries s) = Some v /\ succ_vals k (hist s) = [v].
Proof. exact same_value. Qed.
Print Assumptions once_same_value.

Theorem once_same_value_pair : forall cfg s c1 c2 k v1 v2,
  reachable cfg s -> In (EReturn c1 k (RVal v1)) (hist s) -> In (EReturn c2 k (RVal v2)) (hist s) -> v1 = v2.
Proof. exact same_value_pair. Qed.
Print Assumptions once_same_value_pair.

(** A call whose callable fails: the invocation step leaves entries unchanged and sends the caller
    to the (deferred) Unlock with the error; the Unlock and the return leave entries unchanged and
    the caller receives the error.  Globally: a key without a successful invocation has no entry,
    and every failed invocation by a caller is matched by an error return to that caller (or that
    return is still pending). *)
Theorem once_failure_stores_nothing : forall cfg s,
  reachable cfg s ->
  (forall c cl k s',
      nth_error (callers s) c = Some cl -> cur cl = Some ((k, Fail), PCall) -> step s c = Some s' ->
      entries s' = entries s /\ hist s' = EInvoke c k Fail :: hist s /\
      nth_error (callers s') c = Some (mkCaller (todo cl) (Some ((k, Fail), PUnlock RErr)))) /\
  (forall c cl k o s',
      nth_error (callers s) c = Some cl -> cur cl = Some ((k, o), PUnlock RErr) -> step s c = Some s' ->
      entries s' = entries s /\ hist s' = hist s /\ writer s' = false /\
      nth_error (callers s') c = Some (mkCaller (todo cl) (Some ((k, o), PReturn RErr)))) /\
  (forall c cl k o s',
      nth_error (callers s) c = Some cl -> cur cl = Some ((k, o), PReturn RErr) -> step s c = Some s' ->
      entries s' = entries s /\ hist s' = EReturn c k RErr :: hist s /\
      nth_error (callers s') c = Some (mkCaller (todo cl) None)) /\
  (forall k, succ_vals k (hist s) = [] -> lookup k (entries s) = None) /\
  (forall c cl, nth_error (callers s) c = Some cl ->
      nfail c (hist s) = nerr c (hist s) +
      match cur cl with Some (_, PUnlock RErr) | Some (_, PReturn RErr) => 1 | _ => 0 end).
Proof. exact failure_stores_nothing. Qed.
Print Assumptions once_failure_stores_nothing.

(** Retry: from every reachable state in which key k has no entry (for instance because every
    invocation for k so far failed) and caller c is about to start a call on k with a succeeding
    callable, there is a schedule (let every caller inside a lock section leave it, then run c alone)
    after which k is stored, c has received the stored value, and a callable for k was invoked. *)
Theorem retry_possible : forall cfg s c k v rest,
  reachable cfg s -> lookup k (entries s) = None ->
  nth_error (callers s) c = Some (mkCaller ((k, Ok v) :: rest) None) ->
  exists sched s', run s sched = Some s' /\
    exists v', lookup k (entries s') = Some v' /\
               In (EReturn c k (RVal v')) (hist s') /\
               succ_vals k (hist s') = [v'] /\
               1 <= invocations k (hist s').
Proof. exact retry_possible_lemma. Qed.
Print Assumptions retry_possible.

(** Plain safety version: whenever the lock is free and k has no entry (whatever failed before), the
    next call on k DOES invoke its callable; a success is stored and returned, a failure is returned
    and leaves the state ready for the next attempt (lock free, entries unchanged). *)
Theorem retry_when_lock_free : forall s c k o rest,
  readers s = 0 -> writer s = false -> lookup k (entries s) = None ->
  nth_error (callers s) c = Some (mkCaller ((k, o) :: rest) None) ->
  match o with
  | Ok v =>
      exists s', run s (repeat c 10) = Some s' /\
                 entries s' = (k, v) :: entries s /\
                 hist s' = EReturn c k (RVal v) :: EInvoke c k (Ok v) :: ECall c k :: hist s /\
                 readers s' = 0 /\ writer s' = false /\
                 nth_error (callers s') c = Some (mkCaller rest None)
  | Fail =>
      exists s', run s (repeat c 9) = Some s' /\
                 entries s' = entries s /\
                 hist s' = EReturn c k RErr :: EInvoke c k Fail :: ECall c k :: hist s /\
                 readers s' = 0 /\ writer s' = false /\
                 nth_error (callers s') c = Some (mkCaller rest None)
  end.
Proof. exact retry_lock_free. Qed.
Print Assumptions retry_when_lock_free.

Theorem failed_call_then_retry_succeeds : forall s c k v rest,
  readers s = 0 -> writer s = false -> lookup k (entries s) = None ->
  nth_error (callers s) c = Some (mkCaller ((k, Fail) :: (k, Ok v) :: rest) None) ->
  exists s', run s (repeat c 19) = Some s' /\
             entries s' = (k, v) :: entries s /\
             hist s' = EReturn c k (RVal v) :: EInvoke c k (Ok v) :: ECall c k ::
                       EReturn c k RErr :: EInvoke c k Fail :: ECall c k :: hist s.
Proof. exact fail_then_retry. Qed.
Print Assumptions failed_call_then_retry_succeeds.

(** The invariant: readers = number of callers between RLock and RUnlock; the writer flag is set
    iff exactly one caller is between Lock and Unlock (b2n writer = that number); entries only grow
    (an entry Some v stays Some v, for one step and along every schedule); entries change only by
    the store step of a caller holding the write lock, after its recheck missed (the key has no
    entry) and its callable succeeded with the stored value. *)
Theorem cache_invariant : forall cfg s,
  reachable cfg s ->
  readers s = n_reading s /\
  b2n (writer s) = n_writing s /\
  (forall c s', step s c = Some s' ->
     (forall k v, lookup k (entries s) = Some v -> lookup k (entries s') = Some v) /\
     (entries s' = entries s \/
      exists cl k v, nth_error (callers s) c = Some cl /\ cur cl = Some ((k, Ok v), PStore v) /\
                     writer s = true /\ lookup k (entries s) = None /\ succ_vals k (hist s) = [v] /\
                     entries s' = (k, v) :: entries s)) /\
  (forall sched s' k v, run s sched = Some s' -> lookup k (entries s) = Some v -> lookup k (entries s') = Some v).
Proof. exact cache_inv. Qed.
Print Assumptions cache_invariant.

(** A caller inside a lock section can always take its next step (so the Go fatal errors "RUnlock /
    Unlock of unlocked RWMutex", modelled as disabled steps, are unreachable and nobody holds the
    lock forever). *)
Theorem lock_holder_can_step : forall cfg s c cl,
  reachable cfg s -> nth_error (callers s) c = Some cl -> in_read cl = true \/ in_write cl = true ->
  exists s', step s c = Some s'.
Proof. exact holder_can_step_reach. Qed.
Print Assumptions lock_holder_can_step.

(** Deadlock freedom (callables are not re-entrant in the model): in every reachable state in which
    some caller has not finished, some caller can step. *)
Theorem once_deadlock_free : forall cfg s,
  reachable cfg s -> all_done s = false -> exists c s', step s c = Some s'.
Proof. exact deadlock_free. Qed.
Print Assumptions once_deadlock_free.

(** The acceptance function used by the correspondence check is sound: an accepted case exhibits a
    real execution of the model with exactly the observed history and final entries. *)
Theorem accepts_sound : forall c,
  accepts c = true ->
  exists s, run (init (c_cfg c)) (expand (c_blocks c)) = Some s /\
            reachable (c_cfg c) s /\
            rev (hist s) = c_obs c /\
            all_done s = true /\
            (forall k ov, In (k, ov) (c_final c) -> lookup k (entries s) = ov).
Proof. exact accepts_sound_lemma. Qed.
Print Assumptions accepts_sound.

(** The lifetime of a cache.  No theorem above bounds the number of keys, calls or failures; this one
    states what "at most once per key" and "the same value" mean over the whole life of a cache: from
    ANY reachable state in which key k has an entry v (however many other keys are stored, however many
    calls were made or failed) and along EVERY further schedule (more keys, failing callables, repeated
    requests for k by any caller): the entry of k is still v, no callable for k is invoked any more
    (successfully or not), the only successful invocation for k in the history is the one that
    produced v, and every non-error return for k, old or new, carries v.  The scale family of the
    harness drives the real cache to 10^5..10^6 entries and calls and checks exactly this. *)
Theorem stored_key_is_never_recomputed : forall cfg s sched s' k v,
  reachable cfg s -> lookup k (entries s) = Some v -> run s sched = Some s' ->
  lookup k (entries s') = Some v /\
  invocations k (hist s') = invocations k (hist s) /\
  succ_vals k (hist s') = [v] /\
  (forall c v', In (EReturn c k (RVal v')) (hist s') -> v' = v).
Proof. exact stored_never_recomputed. Qed.
Print Assumptions stored_key_is_never_recomputed.

(** ---- callers in context: several caches, callables that call once on another cache ----

    Cache/NestedModel.v: n caches, threads with a stack of activations of once; a callable may call
    once on a cache of higher number with its thread ([ranked_progs]; same-cache re-entrancy blocks,
    see test_reentrant_blocks).  So a caller of cache i may be inside the callable of another cache,
    holding that cache's write lock, while other threads call cache i directly.  [proj i M] is cache
    i's part of the state: its entries and lock, per thread the activation of once on i (or idle),
    and the events of cache i. *)

(** The projection of every reachable state of the nested system onto any cache is a reachable state
    of the single-cache model (for the configuration made of the calls that were actually made on
    that cache).  Hence every theorem above holds for each cache of the nested system. *)
Theorem nested_projection : forall n progs M i,
  ranked_progs progs = true -> mreachable n progs M ->
  exists cfg, reachable cfg (proj i M) /\ length cfg = length progs.
Proof. exact nested_projection_lemma. Qed.
Print Assumptions nested_projection.

(** Spelled out.  Per cache and key at most one successful invocation, wherever the callers are. *)
Theorem nested_once_at_most_once_success : forall n progs M i k,
  ranked_progs progs = true -> mreachable n progs M ->
  length (succ_vals k (proj_hist i (m_hist M))) <= 1 /\
  (forall h1 h2 t1 v1, proj_hist i (m_hist M) = h1 ++ EInvoke t1 k (Ok v1) :: h2 ->
     forall t2 v2, ~ In (EInvoke t2 k (Ok v2)) (h1 ++ h2)).
Proof. exact nested_at_most_once. Qed.
Print Assumptions nested_once_at_most_once_success.

(** Every value returned by once on cache i for key k is the value stored in cache i under k, the
    value of the single successful invocation on that cache; two callers (nested or not) agree. *)
Theorem nested_once_same_value : forall n progs M i t k v,
  ranked_progs progs = true -> mreachable n progs M ->
  In (i, EReturn t k (RVal v)) (m_hist M) ->
  lookup k (c_entries (nth i (m_caches M) (mkC [] 0 false))) = Some v /\
  succ_vals k (proj_hist i (m_hist M)) = [v].
Proof. exact nested_same_value. Qed.
Print Assumptions nested_once_same_value.

Theorem nested_once_same_value_pair : forall n progs M i t1 t2 k v1 v2,
  ranked_progs progs = true -> mreachable n progs M ->
  In (i, EReturn t1 k (RVal v1)) (m_hist M) -> In (i, EReturn t2 k (RVal v2)) (m_hist M) -> v1 = v2.
Proof. exact nested_same_value_pair. Qed.
Print Assumptions nested_once_same_value_pair.

(** A cache in which no callable for k has succeeded (e.g. the nested callable failed and the error
    went up through the outer once) has no entry for k. *)
Theorem nested_once_failure_stores_nothing : forall n progs M i k,
  ranked_progs progs = true -> mreachable n progs M ->
  succ_vals k (proj_hist i (m_hist M)) = [] ->
  lookup k (c_entries (nth i (m_caches M) (mkC [] 0 false))) = None.
Proof. exact nested_failure_stores_nothing. Qed.
Print Assumptions nested_once_failure_stores_nothing.

(** ---- tests (not claims): exhaustive exploration of ALL interleavings of tiny configurations ---- *)
Open Scope N_scope.

(* two callers, one key, both callables would succeed *)
Example test_all_interleavings_ok_ok : all_interleavings_ok [[(0, Ok 1)]; [(0, Ok 2)]] = true.
Proof. vm_compute. reflexivity. Qed.

(* one failing and one succeeding callable; two failing callables *)
Example test_all_interleavings_fail_ok : all_interleavings_ok [[(0, Fail)]; [(0, Ok 2)]] = true.
Proof. vm_compute. reflexivity. Qed.
Example test_all_interleavings_fail_fail : all_interleavings_ok [[(0, Fail)]; [(0, Fail)]] = true.
Proof. vm_compute. reflexivity. Qed.

(* a caller that fails and retries, against a concurrent succeeding caller *)
Example test_all_interleavings_retry : all_interleavings_ok [[(0, Fail); (0, Ok 1)]; [(0, Ok 2)]] = true.
Proof. vm_compute. reflexivity. Qed.

(* the explorer does report a false property as false (5 events are produced in every full run) *)
Example test_explorer_detects :
  explore 22 (fun s => Nat.leb (length (hist s)) 4) (init [[(0, Ok 1)]; [(0, Ok 2)]]) = false.
Proof. vm_compute. reflexivity. Qed.

(* the hypotheses of retry_possible are satisfiable: after caller 0's callable failed, key 0 has no
   entry and caller 1 is about to call once on key 0 *)
Example test_retry_hypotheses :
  exists s, reachable [[(0, Fail)]; [(0, Ok 7)]] s /\ lookup 0 (entries s) = None /\
            nfail 0%nat (hist s) = 1%nat /\
            nth_error (callers s) 1 = Some (mkCaller [(0, Ok 7)] None).
Proof.
  destruct (run (init [[(0, Fail)]; [(0, Ok 7)]]) (repeat 0%nat 9)) as [s|] eqn:E; [|vm_compute in E; discriminate].
  exists s. split; [eapply run_reachable; [constructor|exact E]|].
  vm_compute in E. inversion E; subst. vm_compute. auto.
Qed.

(* both a matching and a non-matching observed history through the acceptance function *)
(** the hypotheses of stored_key_is_never_recomputed are satisfiable and its conclusion is not vacuous: caller 0
    stores keys 0..2, then caller 1 offers another callable for key 0 (after a failing call on a new key): the
    callable for key 0 is not invoked again and caller 1 receives caller 0's value *)
Example test_stored_key :
  let cfg := [[(0, Ok 1); (1, Ok 2); (2, Ok 3)]; [(3, Fail); (0, Ok 9)]]%N in
  match run (init cfg) (repeat 0%nat 30), run (init cfg) (repeat 0%nat 30 ++ repeat 1%nat 14) with
  | Some s, Some s' =>
      (optN_eqb (lookup 0%N (entries s)) (Some 1%N) && optN_eqb (lookup 0%N (entries s')) (Some 1%N)
       && Nat.eqb (invocations 0%N (hist s)) 1 && Nat.eqb (invocations 0%N (hist s')) 1
       && Nat.eqb (invocations 3%N (hist s')) 1
       && events_eqb (firstn 1 (hist s')) [EReturn 1 0%N (RVal 1%N)] && all_done s')%bool
  | _, _ => false
  end = true.
Proof. vm_compute. reflexivity. Qed.

Example test_accepts_good :
  accepts (mkCase [[(0, Ok 1)]; [(0, Ok 2)]] [(0, 1); (1, 1); (1, 8); (0, 4); (1, 1)]%nat
                  [ECall 0 0; ECall 1 0; EInvoke 1 0 (Ok 2); EReturn 0 0 (RVal 2); EReturn 1 0 (RVal 2)]
                  [(0, Some 2)]) = true.
Proof. vm_compute. reflexivity. Qed.
Example test_accepts_rejects_double_invocation :
  accepts (mkCase [[(0, Ok 1)]; [(0, Ok 2)]] [(0, 1); (1, 1); (1, 8); (0, 8); (0, 1); (1, 1)]%nat
                  [ECall 0 0; ECall 1 0; EInvoke 1 0 (Ok 2); EInvoke 0 0 (Ok 1); EReturn 0 0 (RVal 1); EReturn 1 0 (RVal 2)]
                  [(0, Some 1)]) = false.
Proof. vm_compute. reflexivity. Qed.

(* ---- nested system ---- *)
(* explore every interleaving from the state reached by [sched] (false if [sched] cannot be run) *)
Definition explore_after (n : nat) (progs : list (list ncall)) (sched : list nat) (fuel : nat) (check : mstate -> bool) : bool :=
  match mrun (minit n progs) sched with Some M => mexplore fuel check M | None => false end.

(* thread 0: cache0.once(0, f) where f calls cache1.once(0, g); thread 1: cache1.once(0, g') directly.
   Every interleaving from the moment thread 0 has entered the nested once (7 steps: its activation
   on cache 0 is at PCall, holding cache 0's write lock). *)
Definition nested_min := [[NCall 0 0 [NCall 1 0 [] (Ok 1)] (Ok 5)]; [NCall 1 0 [] (Ok 3)]].
Example test_nested_min : explore_after 2 nested_min (repeat 0%nat 7) 40 (mstate_ok 2 [0]) = true.
Proof. vm_compute. reflexivity. Qed.

(* the nested callable fails and the outer callable fails with it *)
Example test_nested_fail :
  explore_after 2 [[NCall 0 0 [NCall 1 0 [] Fail] Fail]; [NCall 1 0 [] (Ok 3)]] (repeat 0%nat 7) 40 (mstate_ok 2 [0]) = true.
Proof. vm_compute. reflexivity. Qed.

(* two nested callers through different keys of cache 0, same key of cache 1: all interleavings from the start *)
Example test_nested_two :
  all_nested_interleavings_ok 2 [0; 1]
    [[NCall 0 0 [NCall 1 0 [] (Ok 1)] (Ok 5)]; [NCall 0 1 [NCall 1 0 [] (Ok 2)] (Ok 6)]] = true.
Proof. vm_compute. reflexivity. Qed.

(* the explorer does report a false property as false (every full run of nested_min has 8 events), and a
   prefix that cannot be run is not a pass *)
Example test_nested_explorer_detects :
  explore_after 2 nested_min (repeat 0%nat 7) 40 (fun M => Nat.leb (length (m_hist M)) 7) = false /\
  explore_after 2 nested_min (repeat 0%nat 7) 40 (fun M => Nat.leb (length (m_hist M)) 8) = true /\
  explore_after 2 nested_min (repeat 1%nat 11) 40 (fun _ => true) = false.
Proof. vm_compute. auto. Qed.

(* one full run with a racing direct caller: thread 1 calls cache 1 while thread 0 is in the nested callable's
   once (thread 0 gets there first, thread 1 receives thread 0's value); the projections are what the
   correspondence check compares *)
Example test_nested_run :
  exists M, mrun (minit 2 nested_min) (repeat 0 7 ++ [1] ++ repeat 0 9 ++ repeat 1 4 ++ repeat 0 4)%nat = Some M /\
  mall_done M = true /\
  rev (proj_hist 1 (m_hist M)) = [ECall 0 0; ECall 1 0; EInvoke 0 0 (Ok 1); EReturn 0 0 (RVal 1); EReturn 1 0 (RVal 1)] /\
  rev (proj_hist 0 (m_hist M)) = [ECall 0 0; EInvoke 0 0 (Ok 5); EReturn 0 0 (RVal 5)].
Proof. eexists. split; [vm_compute; reflexivity|]. vm_compute. auto. Qed.

(* same-cache re-entrancy: the nested activation blocks for ever at RLock (the code self-deadlocks) *)
Example test_reentrant_blocks :
  exists M, mrun (minit 1 [[NCall 0 0 [NCall 0 1 [] (Ok 2)] (Ok 1)]]) (repeat 0%nat 7) = Some M /\
            mstep M 0 = None /\ mall_done M = false.
Proof. eexists. split; [vm_compute; reflexivity|]. split; vm_compute; reflexivity. Qed.
