From Dawn Require Import Cache.Model Cache.Run Cache.Proofs.
Theorem c20_init_reachable : forall cfg, reachable cfg (init cfg).
Proof. exact init_reachable. Qed.
Print Assumptions c20_init_reachable.
