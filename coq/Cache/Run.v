(** C20 correspondence: does the model have an execution that produces exactly an observed history?

    A case carries the plan (one program per goroutine), a candidate schedule proposed by the
    (untrusted) python driver as blocks (caller, number of consecutive steps), the history observed
    on the real cache (oldest first) and the final contents of c.entries for the keys of the plan.
    [accepts] RUNS the model along the candidate schedule from [init]: it fails if any step is
    disabled, if the produced history differs from the observed one, if the final entries differ or
    if some caller has not finished.  So acceptance exhibits a real model execution (lemma
    accepts_sound in Proofs.v); the driver can only make the check fail, never pass wrongly.

    Also: exhaustive exploration of all interleavings of a small configuration (used by the
    `Example`s in Props_C20.v). *)
From Coq Require Import List NArith Bool Arith.
Import ListNotations.
From Dawn Require Import Cache.Model.

Definition outcome_eqb (a b : outcome) : bool :=
  match a, b with
  | Ok x, Ok y => N.eqb x y
  | Fail, Fail => true
  | _, _ => false
  end.

Definition result_eqb (a b : result) : bool :=
  match a, b with
  | RVal x, RVal y => N.eqb x y
  | RErr, RErr => true
  | _, _ => false
  end.

Definition event_eqb (a b : event) : bool :=
  match a, b with
  | ECall c k, ECall c' k' => Nat.eqb c c' && N.eqb k k'
  | EInvoke c k o, EInvoke c' k' o' => Nat.eqb c c' && N.eqb k k' && outcome_eqb o o'
  | EReturn c k r, EReturn c' k' r' => Nat.eqb c c' && N.eqb k k' && result_eqb r r'
  | _, _ => false
  end.

Fixpoint events_eqb (a b : list event) : bool :=
  match a, b with
  | [], [] => true
  | x :: a', y :: b' => event_eqb x y && events_eqb a' b'
  | _, _ => false
  end.

Definition optN_eqb (a b : option N) : bool :=
  match a, b with
  | None, None => true
  | Some x, Some y => N.eqb x y
  | _, _ => false
  end.

Fixpoint expand (blocks : list (nat * nat)) : list nat :=
  match blocks with
  | [] => []
  | (c, n) :: t => repeat c n ++ expand t
  end.

Record case := mkCase {
  c_cfg : config;
  c_blocks : list (nat * nat);
  c_obs : list event;
  c_final : list (N * option N)
}.

Definition accepts (c : case) : bool :=
  match run (init (c_cfg c)) (expand (c_blocks c)) with
  | None => false
  | Some s =>
      events_eqb (rev (hist s)) (c_obs c)
      && forallb (fun kv => optN_eqb (lookup (fst kv) (entries s)) (snd kv)) (c_final c)
      && all_done s
  end.

Definition mismatches (cs : list (N * case)) : list N :=
  map fst (filter (fun ic => negb (accepts (snd ic))) cs).

(** ---------- exhaustive exploration of every maximal interleaving ---------- *)

(** [explore fuel s check]: true iff [check] holds in every state reachable from s within [fuel]
    steps (depth-first over all enabled callers), and no reachable unfinished state is stuck. *)
Fixpoint explore (fuel : nat) (check : state -> bool) (s : state) : bool :=
  check s &&
  match fuel with
  | O => all_done s
  | S f =>
      let succs := flat_map (fun c => match step s c with Some s' => [s'] | None => [] end)
                            (seq 0 (length (callers s))) in
      match succs with
      | [] => all_done s
      | _ => forallb (explore f check) succs
      end
  end.

Definition keys_of (cfg : config) : list N := map fst (concat cfg).

(** the per-state property tested by the Examples: per key at most one successful invocation, every
    value returned for the key is the stored one, no success => nothing stored *)
Definition returns_for (k : N) (h : list event) : list N :=
  flat_map (fun e => match e with
                     | EReturn _ k' (RVal v) => if N.eqb k k' then [v] else []
                     | _ => []
                     end) h.

Definition state_ok (cfg : config) (s : state) : bool :=
  forallb (fun k =>
             Nat.leb (length (succ_vals k (hist s))) 1
             && forallb (fun v => optN_eqb (lookup k (entries s)) (Some v)) (returns_for k (hist s))
             && match succ_vals k (hist s) with
                | [] => optN_eqb (lookup k (entries s)) None
                | _ => true
                end)
          (keys_of cfg).

Definition all_interleavings_ok (cfg : config) : bool :=
  explore (11 * length (concat cfg)) (state_ok cfg) (init cfg).
