(** C20 — callers in context: several caches, and callables that call once on another cache.
    No proofs in this file.

    cache.go has one RWMutex and one entries map PER cache object and keeps nothing on the thread,
    so what [once] does for a caller depends only on that cache.  The single-cache model
    (Cache/Model.v) therefore describes each cache of a program, PROVIDED the callers of that cache
    may be anywhere: in particular inside the callable that another cache's once is running (a
    memoised function that uses another memoised function), still holding that other cache's write
    lock.  This file models that system explicitly; Cache/NestedProofs.v proves that its projection
    onto any one cache is a run of the single-cache model, so that every theorem of Props_C20.v
    holds per cache of the nested system.

    A planned call [NCall i k body o]: call once on cache number i with key k; IF the callable is
    invoked it first makes the calls of [body] (with the same thread), then yields outcome o.  As in
    Model.v the outcome of a callable is an input of the model, fixed per call; a callable whose
    result depends on its nested calls (it returns what the nested once returned) yields, in each
    run, some outcome, and that run is a run of the program that has this outcome written in it.

    A thread is a stack of frames, innermost first; one frame = one activation of once
    (cache, key, outcome, program counter as in Model.v, nested calls still to make).  Only the
    innermost frame moves; a frame below it sits at PCall (inside its callable).

    once, line by line, for the innermost frame on cache i (c = caches[i]):
        PRLock .. PRecheck, PStore, PUnlock   exactly Model.step_caller on c's readers/writer/entries
        PCall, body = n :: more               the callable makes its next nested call: push a frame for n
        PCall, body = []                      the callable returns: outcome o (event EInvoke)
        PReturn r                             once returns to the callable of the frame below (pop)

    Re-entrancy on the SAME cache (a frame on cache i above another frame on cache i) blocks for ever
    at PRLock exactly as the code self-deadlocks; the projection theorem is stated for programs whose
    nested calls go to caches of strictly higher number ([ranked]), which is also what makes the lock
    order acyclic.  The harness generates exactly such programs. *)
From Coq Require Import List NArith Bool Arith.
Import ListNotations.
From Dawn Require Import Cache.Model Cache.Run.

Inductive ncall := NCall (i : nat) (k : N) (body : list ncall) (o : outcome).

Record frame := mkFrame {
  f_cache : nat; f_key : N; f_out : outcome; f_pc : pc; f_body : list ncall
}.

Record thread := mkThread { t_todo : list ncall; t_stack : list frame }.

Record cstate := mkC { c_entries : list (N * N); c_readers : nat; c_writer : bool }.

(** [m_hist]: (cache, event), newest first; the caller number in an event is the thread number *)
Record mstate := mkM {
  m_caches : list cstate;
  m_threads : list thread;
  m_hist : list (nat * event)
}.

Definition mstep (M : mstate) (t : nat) : option mstate :=
  match nth_error (m_threads M) t with
  | None => None
  | Some th =>
      match t_stack th with
      | [] =>
          match t_todo th with
          | [] => None                                            (* finished *)
          | NCall i k body o :: rest =>
              Some (mkM (m_caches M)
                        (upd (m_threads M) t (mkThread rest [mkFrame i k o PRLock body]))
                        ((i, ECall t k) :: m_hist M))
          end
      | f :: st =>
          let i := f_cache f in
          let k := f_key f in
          let o := f_out f in
          match nth_error (m_caches M) i with
          | None => None                                          (* no such cache *)
          | Some c =>
              let goto c' p' ev :=
                Some (mkM (upd (m_caches M) i c')
                          (upd (m_threads M) t (mkThread (t_todo th) (mkFrame i k o p' (f_body f) :: st)))
                          (ev ++ m_hist M)) in
              match f_pc f with
              | PRLock =>
                  if c_writer c then None                         (* blocked *)
                  else goto (mkC (c_entries c) (S (c_readers c)) (c_writer c)) PLookup []
              | PLookup => goto c (PRUnlock (lookup k (c_entries c))) []
              | PRUnlock hit =>
                  match c_readers c with
                  | O => None
                  | S r => goto (mkC (c_entries c) r (c_writer c))
                                (match hit with Some v => PReturn (RVal v) | None => PLock end) []
                  end
              | PLock =>
                  if c_writer c then None                         (* blocked *)
                  else match c_readers c with
                       | O => goto (mkC (c_entries c) O true) PRecheck []
                       | S _ => None                              (* blocked *)
                       end
              | PRecheck =>
                  goto c (match lookup k (c_entries c) with Some v => PUnlock (RVal v) | None => PCall end) []
              | PCall =>
                  match f_body f with
                  | NCall i' k' body' o' :: more =>               (* the callable calls once on cache i' *)
                      Some (mkM (m_caches M)
                                (upd (m_threads M) t
                                     (mkThread (t_todo th)
                                               (mkFrame i' k' o' PRLock body' :: mkFrame i k o PCall more :: st)))
                                ((i', ECall t k') :: m_hist M))
                  | [] =>                                         (* the callable returns *)
                      match o with
                      | Ok v => goto c (PStore v) [(i, EInvoke t k (Ok v))]
                      | Fail => goto c (PUnlock RErr) [(i, EInvoke t k Fail)]
                      end
                  end
              | PStore v => goto (mkC ((k, v) :: c_entries c) (c_readers c) (c_writer c)) (PUnlock (RVal v)) []
              | PUnlock r =>
                  if c_writer c then goto (mkC (c_entries c) (c_readers c) false) (PReturn r) []
                  else None
              | PReturn r =>
                  Some (mkM (m_caches M)
                            (upd (m_threads M) t (mkThread (t_todo th) st))
                            ((i, EReturn t k r) :: m_hist M))
              end
          end
      end
  end.

Fixpoint mrun (M : mstate) (sched : list nat) : option mstate :=
  match sched with
  | [] => Some M
  | t :: rest => match mstep M t with None => None | Some M' => mrun M' rest end
  end.

(** [n] caches, one program (list of planned calls) per thread *)
Definition minit (n : nat) (progs : list (list ncall)) : mstate :=
  mkM (repeat (mkC [] 0 false) n) (map (fun p => mkThread p []) progs) [].

Inductive mreachable (n : nat) (progs : list (list ncall)) : mstate -> Prop :=
| mreach_init : mreachable n progs (minit n progs)
| mreach_step : forall M t M', mreachable n progs M -> mstep M t = Some M' -> mreachable n progs M'.

(** nested calls go to caches of strictly higher number *)
Fixpoint ranked (lo : nat) (c : ncall) : bool :=
  match c with
  | NCall i _ body _ => Nat.leb lo i && forallb (ranked (S i)) body
  end.

Definition ranked_progs (progs : list (list ncall)) : bool := forallb (forallb (ranked 0)) progs.

(** -------- projection onto cache i: a state of the single-cache model -------- *)

Definition on_cache (i : nat) (f : frame) : bool := Nat.eqb (f_cache f) i.

(** thread t seen from cache i: inside a call of once on i (wherever the innermost frame is), or idle *)
Definition proj_thread (i : nat) (th : thread) : caller :=
  match find (on_cache i) (t_stack th) with
  | Some f => mkCaller [] (Some ((f_key f, f_out f), f_pc f))
  | None => mkCaller [] None
  end.

Definition proj_hist (i : nat) (h : list (nat * event)) : list event :=
  map snd (filter (fun ce => Nat.eqb (fst ce) i) h).

Definition proj (i : nat) (M : mstate) : state :=
  let c := nth i (m_caches M) (mkC [] 0 false) in
  mkState (c_entries c) (c_readers c) (c_writer c)
          (map (proj_thread i) (m_threads M))
          (proj_hist i (m_hist M)).

Definition mfinished (th : thread) : bool :=
  match t_todo th, t_stack th with [], [] => true | _, _ => false end.

Definition mall_done (M : mstate) : bool := forallb mfinished (m_threads M).

(** -------- exhaustive exploration of every interleaving (used by the Examples in Props_C20.v) -------- *)

(** true iff [check] holds in every state reachable from M within [fuel] steps and no reachable
    unfinished state is stuck *)
Fixpoint mexplore (fuel : nat) (check : mstate -> bool) (M : mstate) : bool :=
  check M &&
  match fuel with
  | O => mall_done M
  | S f =>
      let succs := flat_map (fun t => match mstep M t with Some M' => [M'] | None => [] end)
                            (seq 0 (length (m_threads M))) in
      match succs with
      | [] => mall_done M
      | _ => forallb (mexplore f check) succs
      end
  end.

Fixpoint ncalls (c : ncall) : nat :=
  match c with NCall _ _ body _ => S (fold_right (fun b a => ncalls b + a) 0 body) end.

Definition nprog_size (progs : list (list ncall)) : nat :=
  fold_right (fun p a => fold_right (fun c a' => ncalls c + a') 0 p + a) 0 progs.

(** per cache and key: at most one successful invocation, every returned value is the stored one, no
    success => nothing stored (Run.state_ok on the projection) *)
Definition mstate_ok (n : nat) (keys : list N) (M : mstate) : bool :=
  forallb (fun i => state_ok [map (fun k => (k, Fail)) keys] (proj i M)) (seq 0 n).

Definition all_nested_interleavings_ok (n : nat) (keys : list N) (progs : list (list ncall)) : bool :=
  mexplore (11 * nprog_size progs) (mstate_ok n keys) (minit n progs).
