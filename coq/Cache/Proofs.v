(** C20 — proofs about Cache/Model.v.  The theorems are restated in Props_C20.v. *)
From Coq Require Import List NArith Bool Arith Lia.
Import ListNotations.
From Dawn Require Import Cache.Model Cache.Run.

(** * Lists *)

Lemma nth_upd_eq {A} : forall (l : list A) i x y,
  nth_error l i = Some x -> nth_error (upd l i y) i = Some y.
Proof.
  induction l as [|a l IH]; intros [|i] x y H; cbn in *; try discriminate; eauto.
Qed.

Lemma nth_upd_neq {A} : forall (l : list A) i j y,
  i <> j -> nth_error (upd l i y) j = nth_error l j.
Proof.
  induction l as [|a l IH]; intros [|i] [|j] y H; cbn in *; try congruence; eauto.
Qed.

Lemma upd_upd {A} : forall (l : list A) i x y, upd (upd l i x) i y = upd l i y.
Proof.
  induction l as [|a l IH]; intros [|i] x y; cbn; try reflexivity. now rewrite IH.
Qed.

Lemma upd_length {A} : forall (l : list A) i x, length (upd l i x) = length l.
Proof.
  induction l as [|a l IH]; intros [|i] x; cbn; auto.
Qed.

Lemma sump_upd : forall w l i x y,
  nth_error l i = Some x -> sump w (upd l i y) + w x = sump w l + w y.
Proof.
  induction l as [|a l IH]; intros [|i] x y H; cbn in *; try discriminate.
  - inversion H; subst. lia.
  - specialize (IH _ _ y H). lia.
Qed.

Lemma sump_ge : forall w l i x, nth_error l i = Some x -> w x <= sump w l.
Proof.
  induction l as [|a l IH]; intros [|i] x H; cbn in *; try discriminate.
  - inversion H; subst. lia.
  - specialize (IH _ _ H). lia.
Qed.

Lemma sump_pos : forall w l, 0 < sump w l -> exists i x, nth_error l i = Some x /\ 0 < w x.
Proof.
  induction l as [|a l IH]; cbn; intros H; [lia|].
  destruct (w a) eqn:E.
  - destruct IH as (i & x & H1 & H2); [lia|]. exists (S i), x. auto.
  - exists 0, a. cbn. split; auto. lia.
Qed.

Lemma sump_unique : forall w l i j x y,
  sump w l <= 1 -> nth_error l i = Some x -> nth_error l j = Some y -> 0 < w x -> 0 < w y -> i = j.
Proof.
  induction l as [|a l IH]; intros [|i] [|j] x y Hs Hi Hj Hx Hy; cbn in *; try discriminate; auto.
  - inversion Hi; subst. pose proof (sump_ge w _ _ _ Hj). lia.
  - inversion Hj; subst. pose proof (sump_ge w _ _ _ Hi). lia.
  - f_equal. eapply IH; eauto. lia.
Qed.

Lemma lookup_cons_keep : forall k v k' v' m,
  lookup k m = None -> lookup k' m = Some v' -> lookup k' ((k, v) :: m) = Some v'.
Proof.
  intros. cbn. destruct (N.eqb_spec k' k); [subst; congruence | assumption].
Qed.

(** * The invariant *)

Definition pend (cl : caller) : nat :=
  match cur cl with
  | Some (_, PUnlock RErr) | Some (_, PReturn RErr) => 1
  | _ => 0
  end.

Definition pc_ok (s : state) (k : N) (o : outcome) (p : pc) : Prop :=
  match p with
  | PRUnlock (Some v) => lookup k (entries s) = Some v
  | PCall => lookup k (entries s) = None
  | PStore v => lookup k (entries s) = None /\ o = Ok v /\ succ_vals k (hist s) = [v]
  | PUnlock (RVal v) | PReturn (RVal v) => lookup k (entries s) = Some v
  | PUnlock RErr | PReturn RErr => o = Fail
  | _ => True
  end.

Record Inv (s : state) : Prop := mkInv {
  inv_readers : readers s = n_reading s;
  inv_writer : b2n (writer s) = n_writing s;
  inv_key : forall k,
      match lookup k (entries s) with
      | Some v => succ_vals k (hist s) = [v]
      | None => succ_vals k (hist s) = [] \/
                exists c cl o v, nth_error (callers s) c = Some cl /\ cur cl = Some ((k, o), PStore v)
      end;
  inv_pc : forall c cl k o p,
      nth_error (callers s) c = Some cl -> cur cl = Some ((k, o), p) -> pc_ok s k o p;
  inv_ret : forall c k v, In (EReturn c k (RVal v)) (hist s) -> lookup k (entries s) = Some v;
  inv_err : forall c cl, nth_error (callers s) c = Some cl -> nfail c (hist s) = nerr c (hist s) + pend cl
}.

Lemma write_unique : forall s c cl c1 cl1,
  b2n (writer s) = n_writing s ->
  nth_error (callers s) c = Some cl -> in_write cl = true ->
  nth_error (callers s) c1 = Some cl1 -> in_write cl1 = true -> c1 = c.
Proof.
  intros s c cl c1 cl1 HW H1 H2 H3 H4. unfold n_writing in HW.
  eapply (sump_unique (fun cl => b2n (in_write cl))); eauto.
  - rewrite <- HW. destruct (writer s); cbn; lia.
  - rewrite H4. cbn. lia.
  - rewrite H2. cbn. lia.
Qed.

Lemma step_inv : forall s c s',
  step s c = Some s' -> exists cl, nth_error (callers s) c = Some cl /\ step_caller s c cl = Some s'.
Proof.
  unfold step. intros s c s' H. destruct (nth_error (callers s) c) as [cl|]; [eauto|discriminate].
Qed.

(** case analysis of one step: destructs the caller, its pc and the guards, and substitutes s' *)
Ltac step_split H :=
  unfold step_caller in H; cbn [readers writer entries hist callers] in H;
  match type of H with
  | context [cur ?cl] =>
      destruct cl as [td [[[k o] p]|]]; cbn [cur todo] in H;
      [ destruct p as [| |hit| | | |v|r|r];
        [ match type of H with context [if ?w then _ else _] => destruct w; [discriminate|] end
        |
        | match type of H with context [match ?r with O => _ | S _ => _ end] => destruct r as [|r0]; [discriminate|] end
        | match type of H with context [if ?w then _ else _] => destruct w; [discriminate|] end;
          match type of H with context [match ?r with O => _ | S _ => _ end] => destruct r as [|r0]; [|discriminate] end
        |
        | destruct o as [v|]
        |
        | match type of H with context [if ?w then _ else _] => destruct w; [|discriminate] end
        | ]
      | destruct td as [|[k o] rest]; [discriminate|] ]
  end;
  inversion H; subst; clear H.

Ltac dm :=
  repeat match goal with
         | |- context [match ?x with Some _ => _ | None => _ end] => destruct x eqn:?
         | H : context [match ?x with Some _ => _ | None => _ end] |- _ => destruct x eqn:?
         end.

Ltac other_caller Hnth Hn1 :=
  let E := fresh "E" in
  match type of Hn1 with
  | nth_error (upd _ ?c _) ?c1 = _ =>
      destruct (Nat.eq_dec c c1) as [E|E];
      [ subst c1; rewrite (nth_upd_eq _ _ _ _ Hnth) in Hn1; inversion Hn1; subst; clear Hn1
      | rewrite (nth_upd_neq _ _ _ _ E) in Hn1 ]
  end.

Lemma inv_step : forall s c s', Inv s -> step s c = Some s' -> Inv s'.
Proof.
  intros s c s' HI H. apply step_inv in H. destruct H as (cl & Hnth & H).
  destruct s as [en rd wr cs h]. destruct HI as [HR HW HK HP HV HE].
  unfold n_reading, n_writing in *. cbn [entries readers writer callers hist] in *.
  assert (HU : forall c1 cl1, in_write cl = true -> nth_error cs c1 = Some cl1 -> in_write cl1 = true -> c1 = c).
  { intros c1 cl1 Hw1 Hn1 Hw2.
    eapply (write_unique (mkState en rd wr cs h)); cbn [callers writer]; eauto. }
  pose proof (fun k o p => HP c cl k o p Hnth) as HPc.
  pose proof (HE _ _ Hnth) as HEc.
  constructor; unfold n_reading, n_writing; cbn [entries readers writer callers hist].
  - (* readers *)
    step_split H; cbn [entries readers writer callers hist];
    match goal with |- _ = sump ?w (upd _ _ ?y) => pose proof (sump_upd w _ _ _ y Hnth) as X end;
    cbn [in_read cur b2n] in *; try lia.
    all: dm; cbn [in_read cur b2n] in *; lia.
  - (* writer *)
    step_split H; cbn [entries readers writer callers hist];
    match goal with |- _ = sump ?w (upd _ _ ?y) => pose proof (sump_upd w _ _ _ y Hnth) as X end;
    cbn [in_write cur b2n] in *; try lia.
    all: dm; cbn [in_write cur b2n] in *; lia.
  - (* per key *)
    intros k0. specialize (HK k0).
    step_split H; cbn [entries readers writer callers hist succ_vals].
    all: try (destruct (lookup k0 en) as [v0|]; [exact HK|];
              destruct HK as [HK|(c1 & cl1 & o1 & v1 & Hn1 & Hc1)]; [left; exact HK|right];
              exists c1, cl1, o1, v1; split; [|exact Hc1];
              rewrite nth_upd_neq; [exact Hn1|];
              intro; subst c1; rewrite Hnth in Hn1; inversion Hn1; subst cl1; cbn in Hc1; discriminate).
    + (* call ok *)
      specialize (HPc _ _ _ eq_refl). cbn in HPc.
      destruct (N.eqb_spec k0 k) as [->|Hne].
      * rewrite HPc in *. right. exists c, (mkCaller td (Some ((k, Ok v), PStore v))), (Ok v), v.
        split; [eapply nth_upd_eq; eauto|reflexivity].
      * destruct (lookup k0 en) as [v0|]; [exact HK|].
        destruct HK as [HK|(c1 & cl1 & o1 & v1 & Hn1 & Hc1)]; [left; exact HK|right].
        exists c1, cl1, o1, v1; split; [|exact Hc1].
        rewrite nth_upd_neq; [exact Hn1|].
        intro; subst c1; rewrite Hnth in Hn1; inversion Hn1; subst cl1; cbn in Hc1; discriminate.
    + (* store *)
      specialize (HPc _ _ _ eq_refl). cbn in HPc. destruct HPc as (Hl & Ho & Hs).
      cbn [lookup]. destruct (N.eqb_spec k0 k) as [->|Hne]; [exact Hs|].
      destruct (lookup k0 en) as [v0|]; [exact HK|].
      destruct HK as [HK|(c1 & cl1 & o1 & v1 & Hn1 & Hc1)]; [left; exact HK|right].
      exists c1, cl1, o1, v1; split; [|exact Hc1].
      rewrite nth_upd_neq; [exact Hn1|].
      intro; subst c1; rewrite Hnth in Hn1; inversion Hn1; subst cl1; cbn in Hc1; congruence.
  - (* pcs *)
    intros c1 cl1 k1 o1 p1 Hn1 Hc1.
    destruct (Nat.eq_dec c c1) as [E|E].
    + subst c1.
      step_split H; cbn [entries readers writer callers hist] in *;
      rewrite (nth_upd_eq _ _ _ _ Hnth) in Hn1; inversion Hn1; subst cl1; clear Hn1;
      cbn [cur] in Hc1; try discriminate; inversion Hc1; subst; clear Hc1;
      try specialize (HPc _ _ _ eq_refl); unfold pc_ok in *; cbn [entries hist] in *.
      all: try exact I; try reflexivity; try exact HPc.
      all: try solve [dm; auto].
      * (* call ok *)
        split; [exact HPc|split; [reflexivity|]]. cbn [succ_vals]. rewrite N.eqb_refl. f_equal.
        specialize (HK k1). rewrite HPc in HK.
        destruct HK as [HK|(c2 & cl2 & o2 & v2 & Hn2 & Hc2)]; [exact HK|exfalso].
        assert (c2 = c) by (eapply HU; eauto; unfold in_write; rewrite Hc2; reflexivity).
        subst c2. rewrite Hnth in Hn2; inversion Hn2; subst cl2; cbn in Hc2; discriminate.
      * (* store *)
        cbn [lookup]. rewrite N.eqb_refl. reflexivity.
    + assert (Hn1' : nth_error cs c1 = Some cl1).
      { step_split H; cbn [callers] in Hn1; rewrite nth_upd_neq in Hn1; auto. }
      specialize (HP _ _ _ _ _ Hn1' Hc1).
      step_split H; unfold pc_ok in *; cbn [entries hist succ_vals] in *; try exact HP.
      * (* call ok by c; c1 cannot be inside the write section *)
        destruct p1 as [| |hit1| | | |v1|r1|r1]; try exact HP.
        exfalso; apply E; symmetry; eapply HU; [reflexivity|exact Hn1'|unfold in_write; rewrite Hc1; reflexivity].
      * (* store by c *)
        specialize (HPc _ _ _ eq_refl). cbn in HPc. destruct HPc as (Hl & _ & _).
        destruct p1 as [| |[v1|]| | | |v1|[v1|]|[v1|]]; try exact HP;
        try (eapply lookup_cons_keep; eassumption).
        all: exfalso; apply E; symmetry; eapply HU; [reflexivity|exact Hn1'|unfold in_write; rewrite Hc1; reflexivity].
  - (* returned values *)
    intros c1 k1 v1 Hin.
    step_split H; cbn [entries readers writer callers hist] in *.
    all: try (eapply HV; exact Hin).
    all: try (destruct Hin as [Hin|Hin]; [try discriminate|eapply HV; exact Hin]).
    + (* store *)
      specialize (HPc _ _ _ eq_refl). cbn in HPc. destruct HPc as (Hl & _ & _).
      eapply lookup_cons_keep; [exact Hl|eapply HV; exact Hin].
    + (* return *)
      inversion Hin; subst. specialize (HPc _ _ _ eq_refl). exact HPc.
  - (* error accounting *)
    intros c1 cl1 Hn1.
    destruct (Nat.eq_dec c c1) as [E|E].
    + subst c1.
      step_split H; cbn [entries readers writer callers hist] in *;
      rewrite (nth_upd_eq _ _ _ _ Hnth) in Hn1; inversion Hn1; subst cl1; clear Hn1;
      unfold pend in *; cbn [cur nfail nerr] in *; try rewrite Nat.eqb_refl; try lia.
      * destruct hit; lia.
      * destruct (lookup k en); lia.
      * destruct r; lia.
    + assert (Hn1' : nth_error cs c1 = Some cl1).
      { step_split H; cbn [callers] in Hn1; rewrite nth_upd_neq in Hn1; auto. }
      specialize (HE _ _ Hn1').
      assert (Hneq : Nat.eqb c1 c = false) by (apply Nat.eqb_neq; congruence).
      step_split H; cbn [entries readers writer callers hist nfail nerr] in *; try rewrite Hneq; try exact HE.
      destruct r; try rewrite Hneq; exact HE.
Qed.

Lemma sump_idle : forall w (cfg : config),
  (forall p, w (mkCaller p None) = 0) -> sump w (map (fun p => mkCaller p None) cfg) = 0.
Proof.
  induction cfg as [|p cfg IH]; intros Hw; cbn; auto. rewrite Hw, IH; auto.
Qed.

Lemma nth_idle : forall (cfg : config) c cl,
  nth_error (map (fun p => mkCaller p None) cfg) c = Some cl -> cur cl = None.
Proof.
  intros cfg c cl H. apply nth_error_In in H. apply in_map_iff in H.
  destruct H as (p & <- & _). reflexivity.
Qed.

Lemma inv_init : forall cfg, Inv (init cfg).
Proof.
  intros cfg. constructor; unfold n_reading, n_writing, init; cbn [entries readers writer callers hist].
  - rewrite sump_idle; auto.
  - rewrite sump_idle; auto.
  - intros k. cbn. auto.
  - intros c cl k o p H Hc. apply nth_idle in H. congruence.
  - intros c k v [].
  - intros c cl H. apply nth_idle in H. unfold pend. rewrite H. reflexivity.
Qed.

Lemma reachable_inv : forall cfg s, reachable cfg s -> Inv s.
Proof.
  induction 1; [apply inv_init|eapply inv_step; eauto].
Qed.

Lemma run_reachable : forall cfg sched s s', reachable cfg s -> run s sched = Some s' -> reachable cfg s'.
Proof.
  induction sched as [|c sched IH]; intros s s' Hr H; cbn in H.
  - inversion H; subst; auto.
  - destruct (step s c) as [s1|] eqn:E; [|discriminate]. eapply IH; [|exact H]. econstructor; eauto.
Qed.

Lemma run_app : forall s1 a b s2 s3, run s1 a = Some s2 -> run s2 b = Some s3 -> run s1 (a ++ b) = Some s3.
Proof.
  intros s1 a. revert s1. induction a as [|c a IH]; intros s1 b s2 s3 H1 H2; cbn in *.
  - inversion H1; subst; auto.
  - destruct (step s1 c); [|discriminate]. eauto.
Qed.

(** * At most one successful invocation per key *)

Lemma succ_vals_le1 : forall s k, Inv s -> length (succ_vals k (hist s)) <= 1.
Proof.
  intros s k HI. pose proof (inv_key s HI k) as HK.
  destruct (lookup k (entries s)).
  - rewrite HK. cbn. lia.
  - destruct HK as [HK|(c & cl & o & v & Hn & Hc)].
    + rewrite HK. cbn. lia.
    + pose proof (inv_pc s HI _ _ _ _ _ Hn Hc) as HP. cbn in HP. destruct HP as (_ & _ & HP).
      rewrite HP. cbn. lia.
Qed.

Lemma succ_vals_app : forall k h1 h2, succ_vals k (h1 ++ h2) = succ_vals k h1 ++ succ_vals k h2.
Proof.
  induction h1 as [|e h1 IH]; intros h2; cbn; auto.
  destruct e as [c k'|c k' [v|]|c k' r]; auto.
  destruct (N.eqb k k'); cbn; rewrite IH; auto.
Qed.

Lemma succ_vals_in : forall k c v h, In (EInvoke c k (Ok v)) h -> In v (succ_vals k h).
Proof.
  induction h as [|e h IH]; cbn; intros H; [contradiction|].
  destruct H as [->|H].
  - rewrite N.eqb_refl. left; auto.
  - destruct e as [c' k'|c' k' [v'|]|c' k' r]; auto.
    destruct (N.eqb k k'); [right|]; auto.
Qed.

Lemma at_most_once_success : forall cfg s k,
  reachable cfg s ->
  length (succ_vals k (hist s)) <= 1 /\
  (forall h1 h2 c1 v1, hist s = h1 ++ EInvoke c1 k (Ok v1) :: h2 ->
     forall c2 v2, ~ In (EInvoke c2 k (Ok v2)) (h1 ++ h2)).
Proof.
  intros cfg s k Hr. apply reachable_inv in Hr. pose proof (succ_vals_le1 s k Hr) as HL.
  split; [exact HL|].
  intros h1 h2 c1 v1 Hh c2 v2 Hin. rewrite Hh in HL.
  rewrite succ_vals_app in HL. cbn [succ_vals] in HL. rewrite N.eqb_refl in HL.
  rewrite app_length in HL. cbn [length] in HL.
  apply in_app_or in Hin. destruct Hin as [Hin|Hin]; apply succ_vals_in in Hin.
  - destruct (succ_vals k h1); [contradiction|cbn in HL; lia].
  - destruct (succ_vals k h2); [contradiction|cbn in HL; lia].
Qed.

(** * Every successful return carries the stored value of the single successful invocation *)

Lemma same_value : forall cfg s c k v,
  reachable cfg s -> In (EReturn c k (RVal v)) (hist s) ->
  lookup k (entries s) = Some v /\ succ_vals k (hist s) = [v].
Proof.
  intros cfg s c k v Hr Hin. apply reachable_inv in Hr.
  pose proof (inv_ret s Hr _ _ _ Hin) as HL. split; [exact HL|].
  pose proof (inv_key s Hr k) as HK. rewrite HL in HK. exact HK.
Qed.

Lemma same_value_pair : forall cfg s c1 c2 k v1 v2,
  reachable cfg s -> In (EReturn c1 k (RVal v1)) (hist s) -> In (EReturn c2 k (RVal v2)) (hist s) -> v1 = v2.
Proof.
  intros cfg s c1 c2 k v1 v2 Hr H1 H2.
  destruct (same_value _ _ _ _ _ Hr H1) as [E1 _]. destruct (same_value _ _ _ _ _ Hr H2) as [E2 _]. congruence.
Qed.

(** * A failed callable stores nothing *)

Ltac step_at H Hn Hc :=
  unfold step in H; rewrite Hn in H; unfold step_caller in H; rewrite Hc in H; cbn beta iota in H.

Lemma failed_call_step : forall s c cl k s',
  nth_error (callers s) c = Some cl -> cur cl = Some ((k, Fail), PCall) -> step s c = Some s' ->
  entries s' = entries s /\ hist s' = EInvoke c k Fail :: hist s /\
  nth_error (callers s') c = Some (mkCaller (todo cl) (Some ((k, Fail), PUnlock RErr))).
Proof.
  intros s c cl k s' Hn Hc H. step_at H Hn Hc. inversion H; subst; cbn.
  repeat split; auto. eapply nth_upd_eq; eauto.
Qed.

Lemma error_unlock_step : forall s c cl k o s',
  nth_error (callers s) c = Some cl -> cur cl = Some ((k, o), PUnlock RErr) -> step s c = Some s' ->
  entries s' = entries s /\ hist s' = hist s /\ writer s' = false /\
  nth_error (callers s') c = Some (mkCaller (todo cl) (Some ((k, o), PReturn RErr))).
Proof.
  intros s c cl k o s' Hn Hc H. step_at H Hn Hc. destruct (writer s); [|discriminate].
  inversion H; subst; cbn. repeat split; auto. eapply nth_upd_eq; eauto.
Qed.

Lemma error_return_step : forall s c cl k o s',
  nth_error (callers s) c = Some cl -> cur cl = Some ((k, o), PReturn RErr) -> step s c = Some s' ->
  entries s' = entries s /\ hist s' = EReturn c k RErr :: hist s /\
  nth_error (callers s') c = Some (mkCaller (todo cl) None).
Proof.
  intros s c cl k o s' Hn Hc H. step_at H Hn Hc.
  inversion H; subst; cbn. repeat split; auto. eapply nth_upd_eq; eauto.
Qed.

Lemma no_success_no_entry : forall cfg s k,
  reachable cfg s -> succ_vals k (hist s) = [] -> lookup k (entries s) = None.
Proof.
  intros cfg s k Hr H. apply reachable_inv in Hr. pose proof (inv_key s Hr k) as HK.
  destruct (lookup k (entries s)); [congruence|reflexivity].
Qed.

Lemma failure_stores_nothing : forall cfg s,
  reachable cfg s ->
  (forall c cl k s',
      nth_error (callers s) c = Some cl -> cur cl = Some ((k, Fail), PCall) -> step s c = Some s' ->
      entries s' = entries s /\ hist s' = EInvoke c k Fail :: hist s /\
      nth_error (callers s') c = Some (mkCaller (todo cl) (Some ((k, Fail), PUnlock RErr)))) /\
  (forall c cl k o s',
      nth_error (callers s) c = Some cl -> cur cl = Some ((k, o), PUnlock RErr) -> step s c = Some s' ->
      entries s' = entries s /\ hist s' = hist s /\ writer s' = false /\
      nth_error (callers s') c = Some (mkCaller (todo cl) (Some ((k, o), PReturn RErr)))) /\
  (forall c cl k o s',
      nth_error (callers s) c = Some cl -> cur cl = Some ((k, o), PReturn RErr) -> step s c = Some s' ->
      entries s' = entries s /\ hist s' = EReturn c k RErr :: hist s /\
      nth_error (callers s') c = Some (mkCaller (todo cl) None)) /\
  (forall k, succ_vals k (hist s) = [] -> lookup k (entries s) = None) /\
  (forall c cl, nth_error (callers s) c = Some cl ->
      nfail c (hist s) = nerr c (hist s) +
      match cur cl with Some (_, PUnlock RErr) | Some (_, PReturn RErr) => 1 | _ => 0 end).
Proof.
  intros cfg s Hr. repeat split.
  1-3: eapply failed_call_step; eauto.
  1-4: eapply error_unlock_step; eauto.
  1-3: eapply error_return_step; eauto.
  - intros; eapply no_success_no_entry; eauto.
  - intros c cl Hn. apply reachable_inv in Hr. exact (inv_err s Hr c cl Hn).
Qed.

(** * The invariant theorem *)

Lemma in_write_writer : forall s c cl,
  Inv s -> nth_error (callers s) c = Some cl -> in_write cl = true -> writer s = true.
Proof.
  intros s c cl HI Hn Hw. pose proof (inv_writer s HI) as HW. unfold n_writing in HW.
  pose proof (sump_ge (fun cl => b2n (in_write cl)) _ _ _ Hn) as G. cbn beta in G. rewrite Hw in G.
  destruct (writer s); auto. cbn in *. lia.
Qed.

Lemma in_read_readers : forall s c cl,
  Inv s -> nth_error (callers s) c = Some cl -> in_read cl = true -> exists r, readers s = S r.
Proof.
  intros s c cl HI Hn Hw. pose proof (inv_readers s HI) as HW. unfold n_reading in HW.
  pose proof (sump_ge (fun cl => b2n (in_read cl)) _ _ _ Hn) as G. cbn beta in G. rewrite Hw in G.
  destruct (readers s); [cbn in *; lia|eauto].
Qed.

Lemma step_entries : forall s c s',
  Inv s -> step s c = Some s' ->
  (forall k v, lookup k (entries s) = Some v -> lookup k (entries s') = Some v) /\
  (entries s' = entries s \/
   exists cl k v, nth_error (callers s) c = Some cl /\ cur cl = Some ((k, Ok v), PStore v) /\
                  writer s = true /\ lookup k (entries s) = None /\ succ_vals k (hist s) = [v] /\
                  entries s' = (k, v) :: entries s).
Proof.
  intros s c s' HI H. apply step_inv in H. destruct H as (cl & Hnth & H).
  pose proof (fun k o p => inv_pc s HI c cl k o p Hnth) as HPc.
  pose proof (in_write_writer s c cl HI Hnth) as HWr.
  destruct s as [en rd wr cs h]. cbn [entries readers writer callers hist] in *.
  step_split H; cbn [entries readers writer callers hist] in *; try (split; [auto|left; reflexivity]).
  specialize (HPc _ _ _ eq_refl). cbn in HPc. destruct HPc as (Hl & Ho & Hs). subst o.
  split.
  - intros k0 v0 H0. eapply lookup_cons_keep; eauto.
  - right. eexists _, k, v. repeat split; eauto.
Qed.

Lemma run_entries_grow : forall cfg sched s s' k v,
  reachable cfg s -> run s sched = Some s' -> lookup k (entries s) = Some v -> lookup k (entries s') = Some v.
Proof.
  induction sched as [|c sched IH]; intros s s' k v Hr H Hl; cbn in H.
  - inversion H; subst; auto.
  - destruct (step s c) as [s1|] eqn:E; [|discriminate].
    eapply IH; [econstructor; eauto|exact H|].
    eapply step_entries; eauto. eapply reachable_inv; eauto.
Qed.

Lemma cache_inv : forall cfg s,
  reachable cfg s ->
  readers s = n_reading s /\
  b2n (writer s) = n_writing s /\
  (forall c s', step s c = Some s' ->
     (forall k v, lookup k (entries s) = Some v -> lookup k (entries s') = Some v) /\
     (entries s' = entries s \/
      exists cl k v, nth_error (callers s) c = Some cl /\ cur cl = Some ((k, Ok v), PStore v) /\
                     writer s = true /\ lookup k (entries s) = None /\ succ_vals k (hist s) = [v] /\
                     entries s' = (k, v) :: entries s)) /\
  (forall sched s' k v, run s sched = Some s' -> lookup k (entries s) = Some v -> lookup k (entries s') = Some v).
Proof.
  intros cfg s Hr. pose proof (reachable_inv _ _ Hr) as HI.
  split; [apply inv_readers; auto|]. split; [apply inv_writer; auto|]. split.
  - intros; eapply step_entries; eauto.
  - intros; eapply run_entries_grow; eauto.
Qed.

(** * Lock holders can always step; deadlock freedom *)

Lemma holder_can_step : forall s c cl,
  Inv s -> nth_error (callers s) c = Some cl -> in_read cl = true \/ in_write cl = true ->
  exists s', step s c = Some s'.
Proof.
  intros s c cl HI Hn H. unfold step. rewrite Hn.
  destruct cl as [td [[[k o] p]|]]; [|cbn in H; destruct H; discriminate].
  destruct p; cbn in H; try (destruct H; discriminate); unfold step_caller; cbn [cur todo]; eauto.
  - destruct (in_read_readers s c _ HI Hn eq_refl) as [r ->]. eauto.
  - destruct o; eauto.
  - rewrite (in_write_writer s c _ HI Hn eq_refl). eauto.
Qed.

Lemma forallb_false_nth {A} : forall (f : A -> bool) l,
  forallb f l = false -> exists i x, nth_error l i = Some x /\ f x = false.
Proof.
  induction l as [|a l IH]; cbn; intros H; [discriminate|].
  destruct (f a) eqn:E.
  - destruct (IH H) as (i & x & H1 & H2). exists (S i), x. auto.
  - exists 0, a. auto.
Qed.

Lemma b2n_pos : forall b, 0 < b2n b -> b = true.
Proof. destruct b; cbn; auto; lia. Qed.

Lemma deadlock_free : forall cfg s,
  reachable cfg s -> all_done s = false -> exists c s', step s c = Some s'.
Proof.
  intros cfg s Hr Hd. apply reachable_inv in Hr.
  pose proof (inv_writer s Hr) as HW. pose proof (inv_readers s Hr) as HR.
  unfold n_writing, n_reading in *.
  destruct (writer s) eqn:Ew.
  { destruct (sump_pos (fun cl => b2n (in_write cl)) (callers s)) as (i & x & Hn & Hp); [cbn in HW; lia|].
    apply b2n_pos in Hp. exists i. eapply holder_can_step; eauto. }
  destruct (readers s) as [|r] eqn:Er.
  2:{ destruct (sump_pos (fun cl => b2n (in_read cl)) (callers s)) as (i & x & Hn & Hp); [lia|].
      apply b2n_pos in Hp. exists i. eapply holder_can_step; eauto. }
  unfold all_done in Hd. apply forallb_false_nth in Hd. destruct Hd as (i & x & Hn & Hf).
  exists i.
  destruct (in_read x) eqn:E1; [eapply holder_can_step; eauto|].
  destruct (in_write x) eqn:E2; [eapply holder_can_step; eauto|].
  unfold step. rewrite Hn. unfold step_caller.
  destruct x as [td [[[k o] p]|]]; cbn [cur todo] in *.
  - destruct p; cbn in E1, E2; try discriminate; rewrite ?Ew, ?Er; eauto.
  - destruct td as [|[k o] rest]; [cbn in Hf; discriminate|eauto].
Qed.

(** * Draining the lock: every caller inside a lock section can be run out of it *)

Definition weight (cl : caller) : nat :=
  match cur cl with
  | Some (_, PLookup) => 2
  | Some (_, PRUnlock _) => 1
  | Some (_, PRecheck) => 4
  | Some (_, PCall) => 3
  | Some (_, PStore _) => 2
  | Some (_, PUnlock _) => 1
  | _ => 0
  end.

Lemma sump_le : forall (w1 w2 : caller -> nat) l, (forall x, w1 x <= w2 x) -> sump w1 l <= sump w2 l.
Proof.
  induction l as [|a l IH]; intros H; cbn; auto. specialize (IH H). specialize (H a). lia.
Qed.

Lemma weight_holder : forall cl, 0 < weight cl -> in_read cl = true \/ in_write cl = true.
Proof.
  intros [td [[[k o] p]|]]; unfold weight, in_read, in_write; cbn; [|lia].
  destruct p; intros; auto; lia.
Qed.

Lemma holder_step_decreases : forall s c cl,
  Inv s -> nth_error (callers s) c = Some cl -> 0 < weight cl ->
  exists s', step s c = Some s' /\
             sump weight (callers s') < sump weight (callers s) /\
             (forall c1, c1 <> c -> nth_error (callers s') c1 = nth_error (callers s) c1).
Proof.
  intros s c cl HI Hn Hw.
  destruct (holder_can_step s c cl HI Hn (weight_holder _ Hw)) as [s' Hs].
  exists s'. split; [exact Hs|].
  apply step_inv in Hs. destruct Hs as (cl' & Hn' & H). rewrite Hn in Hn'. inversion Hn'; subst cl'. clear Hn'.
  destruct s as [en rd wr cs h]. cbn [entries readers writer callers hist] in *.
  step_split H; cbn [callers]; unfold weight in Hw; cbn [cur] in Hw; try lia.
  all: split; [|intros c1 Hc1; apply nth_upd_neq; congruence].
  all: match goal with |- sump ?w (upd _ _ ?y) < _ => pose proof (sump_upd w _ _ _ y Hn) as X end;
       unfold weight at 2 4 in X; cbn [cur] in X; try lia.
  - destruct hit; lia.
  - destruct (lookup k en); lia.
Qed.

Lemma drain : forall n s,
  Inv s -> sump weight (callers s) <= n ->
  exists sched s', run s sched = Some s' /\ readers s' = 0 /\ writer s' = false /\
                   (forall c cl, nth_error (callers s) c = Some cl -> weight cl = 0 ->
                                 nth_error (callers s') c = Some cl).
Proof.
  induction n as [|n IH]; intros s HI Hle.
  - exists [], s. cbn. split; [reflexivity|].
    pose proof (inv_readers s HI) as HR. pose proof (inv_writer s HI) as HW. unfold n_reading, n_writing in *.
    assert (A : sump (fun cl => b2n (in_read cl)) (callers s) <= sump weight (callers s)).
    { apply sump_le. intros [td [[[k o] p]|]]; unfold weight, in_read; cbn; [destruct p; cbn; lia|lia]. }
    assert (B : sump (fun cl => b2n (in_write cl)) (callers s) <= sump weight (callers s)).
    { apply sump_le. intros [td [[[k o] p]|]]; unfold weight, in_write; cbn; [destruct p; cbn; lia|lia]. }
    repeat split; auto; [lia|]. destruct (writer s); cbn in *; auto; lia.
  - destruct (Nat.eq_dec (sump weight (callers s)) 0) as [E|E].
    { apply IH; auto. lia. }
    destruct (sump_pos weight (callers s)) as (c & cl & Hn & Hw); [lia|].
    destruct (holder_step_decreases s c cl HI Hn Hw) as (s1 & Hs & Hlt & Hoth).
    destruct (IH s1) as (sched & s' & Hrun & Hr0 & Hw0 & Hkeep); [eapply inv_step; eauto|lia|].
    exists (c :: sched), s'. cbn [run]. rewrite Hs. repeat split; auto.
    intros c1 cl1 Hn1 Hw1. apply Hkeep; auto. rewrite Hoth; auto.
    intro; subst c1. rewrite Hn in Hn1. inversion Hn1; subst. lia.
Qed.

(** * Running one caller alone from a state where the lock is free *)

Ltac solo Hnth :=
  unfold step at 1; cbn [callers];
  first [rewrite Hnth | rewrite (nth_upd_eq _ _ _ _ Hnth)];
  unfold step_caller at 1; cbn [cur todo entries readers writer callers hist]; rewrite ?upd_upd.

Lemma solo_miss_ok : forall s c k v rest,
  nth_error (callers s) c = Some (mkCaller ((k, Ok v) :: rest) None) ->
  readers s = 0 -> writer s = false -> lookup k (entries s) = None ->
  exists s', run s (repeat c 10) = Some s' /\
             entries s' = (k, v) :: entries s /\
             hist s' = EReturn c k (RVal v) :: EInvoke c k (Ok v) :: ECall c k :: hist s /\
             readers s' = 0 /\ writer s' = false /\
             nth_error (callers s') c = Some (mkCaller rest None).
Proof.
  intros [en rd wr cs h] c k v rest Hnth Hr Hw Hl. cbn [entries readers writer callers hist] in *. subst rd wr.
  cbn [repeat run].
  do 3 solo Hnth. rewrite Hl. do 3 solo Hnth. rewrite Hl. do 4 solo Hnth.
  eexists. split; [reflexivity|]. cbn. repeat split; auto. eapply nth_upd_eq; eauto.
Qed.

Lemma solo_miss_fail : forall s c k rest,
  nth_error (callers s) c = Some (mkCaller ((k, Fail) :: rest) None) ->
  readers s = 0 -> writer s = false -> lookup k (entries s) = None ->
  exists s', run s (repeat c 9) = Some s' /\
             entries s' = entries s /\
             hist s' = EReturn c k RErr :: EInvoke c k Fail :: ECall c k :: hist s /\
             readers s' = 0 /\ writer s' = false /\
             nth_error (callers s') c = Some (mkCaller rest None).
Proof.
  intros [en rd wr cs h] c k rest Hnth Hr Hw Hl. cbn [entries readers writer callers hist] in *. subst rd wr.
  cbn [repeat run].
  do 3 solo Hnth. rewrite Hl. do 3 solo Hnth. rewrite Hl. do 3 solo Hnth.
  eexists. split; [reflexivity|]. cbn. repeat split; auto. eapply nth_upd_eq; eauto.
Qed.

Lemma solo_hit : forall s c k o v' rest,
  nth_error (callers s) c = Some (mkCaller ((k, o) :: rest) None) ->
  readers s = 0 -> writer s = false -> lookup k (entries s) = Some v' ->
  exists s', run s (repeat c 5) = Some s' /\
             entries s' = entries s /\
             hist s' = EReturn c k (RVal v') :: ECall c k :: hist s /\
             readers s' = 0 /\ writer s' = false /\
             nth_error (callers s') c = Some (mkCaller rest None).
Proof.
  intros [en rd wr cs h] c k o v' rest Hnth Hr Hw Hl. cbn [entries readers writer callers hist] in *. subst rd wr.
  cbn [repeat run].
  do 2 solo Hnth. solo Hnth. rewrite Hl. do 2 solo Hnth.
  eexists. split; [reflexivity|]. cbn. repeat split; auto. eapply nth_upd_eq; eauto.
Qed.

(** * Retry *)

Lemma succ_le_invocations : forall k h, length (succ_vals k h) <= invocations k h.
Proof.
  induction h as [|e h IH]; cbn; auto.
  destruct e as [c k'|c k' [v|]|c k' r]; auto; destruct (N.eqb k k'); cbn; lia.
Qed.

Lemma retry_lock_free : forall s c k o rest,
  readers s = 0 -> writer s = false -> lookup k (entries s) = None ->
  nth_error (callers s) c = Some (mkCaller ((k, o) :: rest) None) ->
  match o with
  | Ok v =>
      exists s', run s (repeat c 10) = Some s' /\
                 entries s' = (k, v) :: entries s /\
                 hist s' = EReturn c k (RVal v) :: EInvoke c k (Ok v) :: ECall c k :: hist s /\
                 readers s' = 0 /\ writer s' = false /\
                 nth_error (callers s') c = Some (mkCaller rest None)
  | Fail =>
      exists s', run s (repeat c 9) = Some s' /\
                 entries s' = entries s /\
                 hist s' = EReturn c k RErr :: EInvoke c k Fail :: ECall c k :: hist s /\
                 readers s' = 0 /\ writer s' = false /\
                 nth_error (callers s') c = Some (mkCaller rest None)
  end.
Proof.
  intros s c k [v|] rest Hr Hw Hl Hn; [eapply solo_miss_ok|eapply solo_miss_fail]; eauto.
Qed.

Lemma fail_then_retry : forall s c k v rest,
  readers s = 0 -> writer s = false -> lookup k (entries s) = None ->
  nth_error (callers s) c = Some (mkCaller ((k, Fail) :: (k, Ok v) :: rest) None) ->
  exists s', run s (repeat c 19) = Some s' /\
             entries s' = (k, v) :: entries s /\
             hist s' = EReturn c k (RVal v) :: EInvoke c k (Ok v) :: ECall c k ::
                       EReturn c k RErr :: EInvoke c k Fail :: ECall c k :: hist s.
Proof.
  intros s c k v rest Hr Hw Hl Hn.
  destruct (solo_miss_fail s c k _ Hn Hr Hw Hl) as (s1 & R1 & E1 & H1 & Hr1 & Hw1 & Hn1).
  rewrite <- E1 in Hl.
  destruct (solo_miss_ok s1 c k v rest Hn1 Hr1 Hw1 Hl) as (s2 & R2 & E2 & H2 & _).
  exists s2. split; [|split].
  - change (repeat c 19) with (repeat c 9 ++ repeat c 10). eapply run_app; eauto.
  - rewrite E2, E1. reflexivity.
  - rewrite H2, H1. reflexivity.
Qed.

Lemma retry_possible_lemma : forall cfg s c k v rest,
  reachable cfg s -> lookup k (entries s) = None ->
  nth_error (callers s) c = Some (mkCaller ((k, Ok v) :: rest) None) ->
  exists sched s', run s sched = Some s' /\
    exists v', lookup k (entries s') = Some v' /\
               In (EReturn c k (RVal v')) (hist s') /\
               succ_vals k (hist s') = [v'] /\
               1 <= invocations k (hist s').
Proof.
  intros cfg s c k v rest Hr Hl Hn.
  destruct (drain _ s (reachable_inv _ _ Hr) (le_n _)) as (sched1 & s1 & R1 & Hr1 & Hw1 & Hkeep).
  specialize (Hkeep _ _ Hn eq_refl).
  pose proof (run_reachable _ _ _ _ Hr R1) as Hreach1.
  assert (Fin : forall sched2 s2 v', run s1 sched2 = Some s2 -> lookup k (entries s2) = Some v' ->
                In (EReturn c k (RVal v')) (hist s2) ->
                exists sched s', run s sched = Some s' /\
                  exists v', lookup k (entries s') = Some v' /\ In (EReturn c k (RVal v')) (hist s') /\
                             succ_vals k (hist s') = [v'] /\ 1 <= invocations k (hist s')).
  { intros sched2 s2 v' R2 L2 I2. exists (sched1 ++ sched2), s2. split; [eapply run_app; eauto|].
    exists v'. pose proof (run_reachable _ _ _ _ Hreach1 R2) as Hreach2.
    destruct (same_value _ _ _ _ _ Hreach2 I2) as [_ S2].
    repeat split; auto. pose proof (succ_le_invocations k (hist s2)) as G. rewrite S2 in G. exact G. }
  destruct (lookup k (entries s1)) as [v1|] eqn:L1.
  - destruct (solo_hit s1 c k _ v1 rest Hkeep Hr1 Hw1 L1) as (s2 & R2 & E2 & H2 & _).
    eapply (Fin _ s2 v1); eauto; [rewrite E2; auto|rewrite H2; left; reflexivity].
  - destruct (solo_miss_ok s1 c k v rest Hkeep Hr1 Hw1 L1) as (s2 & R2 & E2 & H2 & _).
    eapply (Fin _ s2 v); eauto; [rewrite E2; cbn; rewrite N.eqb_refl; reflexivity|rewrite H2; left; reflexivity].
Qed.

(** * Soundness of the acceptance function of Run.v *)

Lemma outcome_eqb_eq : forall a b, outcome_eqb a b = true -> a = b.
Proof. intros [x|] [y|]; cbn; intros H; try discriminate; auto. apply N.eqb_eq in H. congruence. Qed.

Lemma result_eqb_eq : forall a b, result_eqb a b = true -> a = b.
Proof. intros [x|] [y|]; cbn; intros H; try discriminate; auto. apply N.eqb_eq in H. congruence. Qed.

Lemma event_eqb_eq : forall a b, event_eqb a b = true -> a = b.
Proof.
  intros [c k|c k o|c k r] [c' k'|c' k' o'|c' k' r']; cbn; intros H; try discriminate;
  repeat (apply andb_prop in H; destruct H as [H ?]);
  repeat match goal with
         | H : Nat.eqb _ _ = true |- _ => apply Nat.eqb_eq in H
         | H : N.eqb _ _ = true |- _ => apply N.eqb_eq in H
         | H : outcome_eqb _ _ = true |- _ => apply outcome_eqb_eq in H
         | H : result_eqb _ _ = true |- _ => apply result_eqb_eq in H
         end; congruence.
Qed.

Lemma events_eqb_eq : forall a b, events_eqb a b = true -> a = b.
Proof.
  induction a as [|x a IH]; intros [|y b]; cbn; intros H; try discriminate; auto.
  apply andb_prop in H. destruct H as [H1 H2]. apply event_eqb_eq in H1. apply IH in H2. congruence.
Qed.

Lemma optN_eqb_eq : forall a b, optN_eqb a b = true -> a = b.
Proof. intros [x|] [y|]; cbn; intros H; try discriminate; auto. apply N.eqb_eq in H. congruence. Qed.

Lemma accepts_sound_lemma : forall c,
  accepts c = true ->
  exists s, run (init (c_cfg c)) (expand (c_blocks c)) = Some s /\
            reachable (c_cfg c) s /\
            rev (hist s) = c_obs c /\
            all_done s = true /\
            (forall k ov, In (k, ov) (c_final c) -> lookup k (entries s) = ov).
Proof.
  intros c H. unfold accepts in H.
  destruct (run (init (c_cfg c)) (expand (c_blocks c))) as [s|] eqn:R; [|discriminate].
  apply andb_prop in H. destruct H as [H H3]. apply andb_prop in H. destruct H as [H1 H2].
  exists s. split; [reflexivity|]. split; [eapply run_reachable; [constructor|exact R]|].
  split; [apply events_eqb_eq; auto|]. split; [auto|].
  intros k ov Hin. rewrite forallb_forall in H2. specialize (H2 _ Hin). cbn in H2. apply optN_eqb_eq; auto.
Qed.

Lemma holder_can_step_reach : forall cfg s c cl,
  reachable cfg s -> nth_error (callers s) c = Some cl -> in_read cl = true \/ in_write cl = true ->
  exists s', step s c = Some s'.
Proof. intros cfg s c cl H. exact (holder_can_step s c cl (reachable_inv cfg s H)). Qed.
