(** Idempotence of the operations. *)
From Dawn Require Import Mvs.VersionProofs Mvs.Spec Mvs.Proofs_Base Mvs.Proofs_C10 Mvs.Proofs_ReqList Mvs.Proofs_Names
     Mvs.Proofs_C11 Mvs.Proofs_Idem.

Lemma csorted_ext (a b : config) :
  csorted a -> csorted b -> (forall e, In e a <-> In e b) -> a = b.
Proof.
  unfold csorted. revert b; induction a as [|x a IH]; intros b S1 S2 H.
  - destruct b as [|y b]; auto. exfalso. apply (H y). now left.
  - destruct b as [|y b]; [exfalso; apply (H x); now left|].
    apply StronglySorted_inv in S1. destruct S1 as [S1 F1].
    apply StronglySorted_inv in S2. destruct S2 as [S2 F2].
    rewrite Forall_forall in F1, F2.
    assert (x = y).
    { destruct (proj1 (H x) (or_introl eq_refl)) as [E|E]; auto.
      destruct (proj2 (H y) (or_introl eq_refl)) as [E'|E']; auto.
      exfalso. pose proof (F2 _ E) as X. pose proof (F1 _ E') as Y. unfold key_lt in *.
      rewrite (str_ltb_asym _ _ X) in Y. discriminate. }
    subst y. f_equal. apply IH; auto. intros e. split; intros He.
    + destruct (proj1 (H e) (or_intror He)) as [E|E]; auto. subst e.
      exfalso. pose proof (F1 _ He) as X. unfold key_lt in X. now rewrite str_ltb_irrefl in X.
    + destruct (proj2 (H e) (or_intror He)) as [E|E]; auto. subst e.
      exfalso. pose proof (F2 _ He) as X. unfold key_lt in X. now rewrite str_ltb_irrefl in X.
Qed.

Lemma add_fresh_all_named U root (newv : list node) c :
  (forall v : node, In v newv -> fst v = [] \/ names_of root (fst v) <> []) -> add_fresh U root newv c = Ok c.
Proof.
  induction newv as [|v newv IH]; intros H; simpl; auto.
  destruct (fst v) eqn:Ev; [apply IH; intros; apply H; now right|]. rewrite <- Ev.
  destruct (H v (or_introl eq_refl)) as [X|X]; [congruence|].
  destruct (names_of root (fst v)); [contradiction|]. apply IH. intros; apply H; now right.
Qed.

Lemma names_of_in root n p : In n (names_of root p) -> exists v, In (n, (p, v)) root.
Proof.
  unfold names_of. intros H. apply in_map_iff in H. destruct H as ([n' [q v]] & E & F). simpl in E. subst n'.
  apply filter_In in F. destruct F as [F G]. simpl in G. destruct (str_eqb_spec q p); [subst; eauto | discriminate].
Qed.

(** re-attaching names to the requirement list a configuration already holds changes nothing *)
Lemma transform_fixpoint U (c' : config) (tx : list node -> outcome (list node)) mn :
  csorted c' -> same_set (map snd c') mn -> NoDup (map fst mn) -> (forall x, In x mn -> fst x <> []) ->
  tx (map snd c') = Ok mn -> transform_reqs U c' tx = Ok c'.
Proof.
  intros CS SS ND NE Etx. unfold transform_reqs. rewrite Etx. simpl.
  assert (NU : names_unique c') by (now apply csorted_nodup_keys).
  assert (VAL : forall n x, In (n, x) c' -> In x mn).
  { intros n x H. apply SS. now apply (in_map snd _ (n, x)). }
  assert (KO : keep_old c' mn = c').
  { apply csorted_ext; auto.
    - apply keep_old_csorted.
    - intros [n x]. rewrite (cfg_In_get _ n x) by apply keep_old_csorted.
      pose proof (keep_old_spec c' mn NU ND [] n x) as K. rewrite <- (keep_old_fold c' mn NU ND) in K. rewrite K. split.
      + intros [(A & B & C)|(A & _)]; [|discriminate].
        apply names_of_in in C. destruct C as (v & C). pose proof (VAL _ _ C) as D.
        assert (x = (fst x, v)).
        { destruct x as [p w]. simpl in *. f_equal.
          apply (In_find_path _ _ _ ND) in A. apply (In_find_path _ _ _ ND) in D. congruence. }
        rewrite H. exact C.
      + intros H. left. split; [eapply VAL; eauto|]. split; [apply NE; eapply VAL; eauto|].
        destruct x as [p w]. simpl. eapply in_names_of; eauto. }
  rewrite KO. apply add_fresh_all_named. intros v Hv. right.
  apply SS in Hv. apply in_map_iff in Hv. destruct Hv as ([n x] & E & Hx). simpl in E. subst x.
  intros X. destruct v as [p w]. pose proof (in_names_of c' n p w Hx) as Y. simpl in X. rewrite X in Y. exact Y.
Qed.

(** ... also when several names share a path at different versions: handing the configuration's own requirement
    list back keeps every name at its own version *)
Lemma transform_fixpoint_self U (c' : config) (tx : list node -> outcome (list node)) :
  csorted c' -> (forall x, In x (map snd c') -> fst x <> []) ->
  tx (map snd c') = Ok (map snd c') -> transform_reqs U c' tx = Ok c'.
Proof.
  intros CS NE Etx. unfold transform_reqs. rewrite Etx. simpl.
  assert (NU : names_unique c') by (now apply csorted_nodup_keys).
  set (mn := map snd c').
  assert (KO : keep_old c' mn = c').
  { apply csorted_ext_get; auto; [apply keep_old_csorted|]. intros n.
    pose proof (kfold_spec c' (keep_name c' mn) NU mn [] n) as K. rewrite <- keep_old_kfold in K.
    assert (OWN : forall x, cfg_get c' n = Some x -> cfg_get (keep_old c' mn) n = Some x).
    { intros [p w] G. apply cfg_get_In in G. apply K. left. exists (p, w).
      assert (Hm : In (p, w) mn) by (apply (in_map snd _ (n, (p, w))); auto).
      split; [exact Hm|]. split; [apply (NE _ Hm)|]. split.
      - simpl. eapply in_names_of; eauto.
      - simpl. destruct (keep_name_cases c' mn n p w NU G) as [[_ ->]|[X _]]; [reflexivity|contradiction]. }
    destruct (cfg_get c' n) as [x|] eqn:G; [now apply OWN|].
    destruct (cfg_get (keep_old c' mn) n) as [y|] eqn:G'; auto. exfalso.
    destruct (proj1 (K y) eq_refl) as [(v & Hv & A & B & C)|(X & _)]; [|discriminate].
    apply names_of_entry in B. destruct B as (v0 & B). apply (nodup_In_get c' n _ NU) in B. congruence. }
  rewrite KO. apply add_fresh_all_named. intros v Hv. right.
  apply in_map_iff in Hv. destruct Hv as ([n x] & E & Hx). simpl in E. subst x.
  intros X. destruct v as [p w]. pose proof (in_names_of c' n p w Hx) as Y. simpl in X. rewrite X in Y. exact Y.
Qed.

Lemma reachable_wf U rr n : wf_universe U -> wf_reqs rr -> reachable_from U rr n -> n = target \/ wf_node n.
Proof.
  intros WU WR H. apply greach_reachable in H.
  eapply (greach_wf (u_required U rr) None); eauto.
  - intros m l El. eapply u_required_wf; eauto.
  - intros u m um X. discriminate.
Qed.

Lemma build_list_of_dawn pick fuel U c bl :
  (u_fuel U (map snd c) <= fuel)%nat -> dawn_build_list pick fuel U c = Ok bl ->
  build_list pick fuel U (map snd c) = Ok bl.
Proof.
  intros Hf H. unfold dawn_build_list in H.
  destruct (build_list pick fuel U (map snd c)) as [l| | |] eqn:E; try discriminate.
  inversion H; subst. f_equal. symmetry. apply to_map_sorted. eapply build_list_sorted; eauto.
Qed.

Theorem tidy_idempotent pick U root c' :
  wf_universe U -> wf_reqs (map snd root) -> names_unique root ->
  apply_op pick U root OpTidy = Ok c' -> apply_op pick U c' OpTidy = Ok c'.
Proof.
  intros WU WR NU H. simpl in *. set (rr := map snd root) in *.
  destruct (transform_ok _ _ _ _ H) as (mn & Etx).
  destruct (tidy_versions_sound pick U rr mn WU WR Etx) as (bl & E & S & I & WN & K).
  assert (Sbl : StronglySorted path_lt bl) by (eapply build_list_sorted; [apply e_fuel_ge | exact E]).
  destruct (transform_spec U root _ c' mn NU (sorted_nodup_keys _ S) (fun x Hx => proj1 (WN x Hx)) Etx H)
    as (CS & SS & _).
  set (rr' := map snd c') in *.
  assert (WR' : wf_reqs rr') by (intros x Hx; apply WN; now apply SS).
  (* the first run's ReqList *)
  assert (RL1 : req_list (u_required U rr) target (e_fuel U rr) bl = Ok mn).
  { pose proof Etx as Etx'. unfold tidy_versions in Etx'. fold rr in Etx'. unfold build_list in E. rewrite E in Etx'. exact Etx'. }
  (* the second run *)
  assert (E' : build_list pick (e_fuel U rr') U rr' = Ok bl).
  { apply build_list_of_dawn; [apply e_fuel_ge|]. eapply dawn_bl_of_values; eauto. apply e_fuel_ge. }
  destruct (explore_then_reqlist_total U rr' (u_required U rr') None pick (e_fuel U rr') (u_nodes U rr') WU WR')
    as [X|(bl2 & mn2 & E2 & RL2 & _)]; auto.
  - apply greach_u_nodes.
  - apply e_fuel_u_nodes.
  - intros m l El n Hn. right. eapply u_required_wf; eauto.
  - intros u m um X. discriminate.
  - intros n Hn. eapply root_reqs_reach; eauto. reflexivity.
  - unfold build_list in E'. congruence.
  - unfold build_list in E'. rewrite E' in E2. inversion E2; subst bl2.
    (* both ReqList runs agree *)
    assert (OKN : forall m, In m bl -> okn m).
    { intros m Hm. assert (Sol : mvs_solution (reachable_from U rr) bl).
      { pose proof (dawn_bl_solution pick (e_fuel U rr) U (cfg_of rr) bl) as X. rewrite cfg_of_values in X.
        apply X; [apply e_fuel_ge|]. unfold dawn_build_list. rewrite cfg_of_values, E. f_equal. now apply to_map_sorted. }
      destruct Sol as (_ & M & _). destruct m as [p v]. destruct (M p v Hm) as [Rm _].
      destruct (reachable_wf U rr _ WU WR Rm) as [X|[X _]]; [left; auto | right; auto]. }
    assert (EXT : forall f, req_list (u_required U rr') target f bl = req_list (u_required U rr) target f bl).
    { intros f. apply req_list_ext; auto.
      - intros x Hx. now apply u_required_nonroot.
      - intros x l Hx El y Hy. eapply (u_required_wf U rr' x l WU WR' El y Hy). }
    rewrite EXT in RL2.
    assert (mn2 = mn).
    { pose proof (req_list_fuel_le _ target _ (Nat.max (e_fuel U rr) (e_fuel U rr')) bl mn (Nat.le_max_l _ _) RL1) as A1.
      pose proof (req_list_fuel_le _ target _ (Nat.max (e_fuel U rr) (e_fuel U rr')) bl mn2 (Nat.le_max_r _ _) RL2) as A2.
      congruence. }
    subst mn2.
    apply (transform_fixpoint U c' _ mn); auto.
    + apply sorted_nodup_keys; auto.
    + intros x Hx. apply (WN x Hx).
    + unfold tidy_versions. fold rr'. rewrite E'. simpl. rewrite EXT. exact RL2.
Qed.

(** ** Get: when the build list already has the project at the version the query resolves to, get changes
    nothing.  This is the repeat of a get whose first application selected the resolved version. *)
Theorem get_noop_when_selected pick U (c' : config) q k bl1 version :
  csorted c' -> wf_reqs (map snd c') -> wf_node version ->
  build_list pick (e_fuel U (map snd c')) U (map snd c') = Ok bl1 ->
  resolve_query U bl1 q k = Ok version ->
  find_path (fst version) bl1 = Some (snd version) ->
  apply_op pick U c' (OpGet q k) = Ok c'.
Proof.
  intros CS WR WV E EQ SEL. simpl. apply (transform_fixpoint_self U c'); auto.
  - intros x Hx. apply (WR x Hx).
  - unfold get_versions. unfold build_list in E. rewrite E. simpl. rewrite EQ. simpl. rewrite SEL.
    destruct WV as [_ [s Es]]. rewrite Es. simpl. now rewrite (good_refl _ good_sv).
Qed.

(** latest / range / ref queries resolve independently of the build list, so the repeat resolves to the
    same version; upgrade and patch queries read the build list (finding get-patch-absent lives there) *)
Theorem resolve_query_bl_independent U bl bl' q k :
  match k with QUpgrade | QPatch => False | _ => True end ->
  resolve_query U bl q k = resolve_query U bl' q k.
Proof. destruct k; simpl; tauto || reflexivity. Qed.
