(** C10 — Resolved build list is the minimal-version-selection solution.

    Vocabulary (Mvs/Spec.v, Mvs/Model.v):
      [dawn_build_list pick fuel U root]   dawn's BuildList over the universe [U] (what the resolver can see) for the
                                           root requirements [root] (name -> (path, version)); [pick] is the order in
                                           which the library's work list hands out pending items (any function);
      [reachable_from U rootreqs n]        project version [n] is the root or is required by a reachable one;
      [unresolvable ...]                   some reachable project version cannot be resolved (no such tag, ...);
      [mvs_solution R l]                   [l] is strictly sorted by path (every path once), every member is
                                           reachable, and every reachable (p, v) is covered by the member for p
                                           at a version >= v; mvs_solution_highest: (p, v) is a member exactly
                                           when it is reachable and v is the highest reachable version of p;
      [u_fuel U rootreqs]                  number of nodes of the graph + 1: an explicit sufficient fuel, so the
                                           OutOfFuel outcome (a hang) is excluded, not assumed away.
    Module identity is the path including its "@vN" suffix, so several majors of one project are distinct paths.

    The download cache (Mvs/Cache.v): any number of resolveProject calls, of any number of resolvers and
    processes, run against one cache directory ([wreach deliver W w]: the world [w] = (cache directory, calls) is
    reachable from the empty cache by steps of those calls in any interleaving, each of which may fail, and by
    kills between any two steps); [deliver n] is the sequence of writes the repository's FetchRevision performs
    for project version [n]; [disk_complete]: every directory in the cache is a complete download;
      [dawn_build_list_via obs ...]        BuildList when resolveProject answers [obs n] for project version n.

    The project's own resolution (Mvs/Load.v): [load_build_list obs ...] is Project.buildList after Load
    (project_config.go loadConfigFile: BuildList's error is returned, otherwise its list is kept); [dreach deliver W w]
    adds to the worlds above the damage the cache directory can suffer from outside dawn (an entry whose
    configuration cannot be read any more, an entry that is gone).
    The repository lookup (Mvs/Locate.v): [find_project_repository dial M p] is findProjectRepository with the memo [M]
    of the resolver ([memo_reach]: after any lookups in any order); [locate] what it computes on a miss (the
    well-known host, or dialing ever shorter prefixes of the path); [dial]: the addresses that answer.
    The version strings as they are written (Mvs/Gate.v): [gate v] is the test LoadConfigBytes applies to every
    requirement version of every configuration (semver.IsValid(v) && semver.Canonical(v) == v, on the string);
    [cmp_version_str] is reqs.go cmpVersion (semver.Compare, which orders by precedence) and [max_str] Reqs.Max on
    the strings; [spell p] = 'v' major '.' minor '.' patch prerelease.  The records of Mvs/Version.v stand for gated
    strings only.  [load_config d] (Mvs/Cache.v) is what resolveProject reads out of a project directory [d].
    The root project's two configuration files (Mvs/LoadRoot.v): [load_config_loop obs rne pick fuel toml dot] is
    project_config.go loadConfig on a root directory whose dawn.toml / .dawnconfig are [toml] / [dot] (missing, not a
    configuration, a configuration); [project_config toml dot]: the project's configuration (dawn.toml's when there
    is one); [load_config_loop_former]: loadConfig before 15786e0, where [rne c] (the error mvs.BuildList reports for
    the requirements c unwraps to fs.ErrNotExist) decided.
    Requirement paths as they are written (Mvs/Paths.v): [clean_path_full p] is project.CleanPath, which LoadConfigBytes
    applies to every requirement path of every configuration ([path_clean] = path.Clean; the major suffix is what follows
    the last '@' of the last path element; "", "v0" and "v1" are dropped); [load_universe U] / [load_root root]: the
    configuration files of [U] / the root's, whose requirement paths are as written, after LoadConfigBytes;
    [dawn_build_list_written] = BuildList on those; [plain_elem m]: no '/' and no '@' in [m]. *)
From Dawn Require Import Mvs.Paths Mvs.Proofs_Paths.
From Dawn Require Import Mvs.Spec Mvs.Proofs_C10 Mvs.Cache Mvs.Proofs_Cache Mvs.Load Mvs.Proofs_Load Mvs.Locate
  Mvs.Proofs_Locate Mvs.Gate Mvs.Proofs_Gate Mvs.LoadRoot Mvs.Proofs_LoadRoot.

(** every processing order, every finite universe (cycles included), every root requirement list:
    an error exactly when a reachable requirement cannot be resolved, otherwise exactly the MVS solution *)
Theorem build_list_spec :
  forall (pick : list node -> nat) (U : universe) (root : config) (fuel : nat),
    (u_fuel U (map snd root) <= fuel)%nat ->
    (unresolvable (u_required U (map snd root)) target -> dawn_build_list pick fuel U root = Err) /\
    (~ unresolvable (u_required U (map snd root)) target ->
     exists l, dawn_build_list pick fuel U root = Ok l /\ mvs_solution (reachable_from U (map snd root)) l).
Proof. exact Proofs_C10.build_list_spec. Qed.
Print Assumptions build_list_spec.

(** one of the two always happens (decided by the run itself): no panic, no hang *)
Theorem build_list_decides :
  forall (pick : list node -> nat) (U : universe) (root : config) (fuel : nat),
    (u_fuel U (map snd root) <= fuel)%nat ->
    (dawn_build_list pick fuel U root = Err /\ unresolvable (u_required U (map snd root)) target) \/
    (exists l, dawn_build_list pick fuel U root = Ok l /\ mvs_solution (reachable_from U (map snd root)) l
               /\ ~ unresolvable (u_required U (map snd root)) target).
Proof. exact Proofs_C10.build_list_decides. Qed.
Print Assumptions build_list_decides.

(** the MVS solution of a graph is unique: "the" build list *)
Theorem mvs_solution_unique :
  forall (R : node -> Prop) (l1 l2 : list node), mvs_solution R l1 -> mvs_solution R l2 -> l1 = l2.
Proof. exact Proofs_C10.mvs_solution_unique. Qed.
Print Assumptions mvs_solution_unique.

(** the member for a path is the highest version demanded by a reachable requirement *)
Theorem mvs_solution_highest :
  forall (R : node -> Prop) (l : list node), mvs_solution R l ->
    forall p v, In (p, v) l <-> (R (p, v) /\ v <> VNone /\ forall v', R (p, v') -> vle v' v = true).
Proof. exact Proofs_C10.mvs_solution_highest. Qed.
Print Assumptions mvs_solution_highest.

(** the answer does not depend on the processing order, on the fuel, on the names, the order or the
    multiplicity of the root requirements *)
Theorem build_list_order_independent :
  forall (pick1 pick2 : list node -> nat) (U : universe) (root1 root2 : config) (fuel1 fuel2 : nat),
    same_set (map snd root1) (map snd root2) ->
    (u_fuel U (map snd root1) <= fuel1)%nat -> (u_fuel U (map snd root2) <= fuel2)%nat ->
    dawn_build_list pick1 fuel1 U root1 = dawn_build_list pick2 fuel2 U root2.
Proof. exact Proofs_C10.build_list_order_independent. Qed.
Print Assumptions build_list_order_independent.

Theorem build_list_no_panic_no_hang :
  forall (pick : list node -> nat) (U : universe) (root : config) (fuel : nat),
    (u_fuel U (map snd root) <= fuel)%nat ->
    dawn_build_list pick fuel U root <> Panic /\ dawn_build_list pick fuel U root <> OutOfFuel.
Proof. exact Proofs_C10.build_list_no_panic_no_hang. Qed.
Print Assumptions build_list_no_panic_no_hang.

(** the state of the download cache: whatever resolvers ran or are running against the cache directory, whichever
    of their downloads failed half-way and whichever were killed, a directory found in the cache is a complete
    download (FetchProject publishes with one rename of a private staging directory) *)
Theorem cache_entries_complete :
  forall (U : universe) (deliver : node -> option (list wr)) (W : node -> Prop),
    deliver_sound U deliver W -> key_sound U W ->
    forall (D : disk) (cs : list call), wreach deliver W (D, cs) -> disk_complete deliver W D.
Proof. exact Proofs_Cache.cache_entries_complete. Qed.
Print Assumptions cache_entries_complete.

(** ... so a resolveProject call in which no operation failed returns the project's own configuration, found in
    the cache or downloaded, alone or overtaken by another resolver *)
Theorem resolve_via_cache :
  forall (U : universe) (deliver : node -> option (list wr)) (W : node -> Prop),
    deliver_sound U deliver W -> key_sound U W ->
    forall (D : disk) (cs : list call) (n : node) (r : option summary),
      wreach deliver W (D, cs) -> In (mkCall n (PRet false r)) cs -> r = resolve_project U n.
Proof. exact Proofs_Cache.resolve_via_cache. Qed.
Print Assumptions resolve_via_cache.

(** ... and the build list of a run whose resolveProject calls were answered out of ANY such states of the cache
    is the build list of the universe (the MVS solution, by build_list_spec) *)
Theorem build_list_cache_independent :
  forall (U : universe) (deliver : node -> option (list wr)) (W : node -> Prop),
    deliver_sound U deliver W -> key_sound U W -> requirements_closed U W ->
    forall (obs : node -> option summary) (pick : list node -> nat) (fuel : nat) (root : config),
      observed deliver W obs -> (forall m, In m (map snd root) -> fst m = [] \/ W m) ->
      dawn_build_list_via obs pick fuel root = dawn_build_list pick fuel U root.
Proof. exact Proofs_Cache.build_list_cache_independent. Qed.
Print Assumptions build_list_cache_independent.

(** answers that are each the universe's or an error -- whatever the reason: a cache entry that cannot be read, a
    repository out of reach -- make the run fail or leave its answer unchanged; they never produce another list *)
Theorem build_list_fails_or_same :
  forall (U : universe) (W : node -> Prop), requirements_closed U W ->
    forall (obs : node -> option summary), (forall n, W n -> obs n = resolve_project U n \/ obs n = None) ->
    forall (root : config), (forall m, In m (map snd root) -> fst m = [] \/ W m) ->
    forall (pick : list node -> nat) (fuel : nat), (u_fuel U (map snd root) <= fuel)%nat ->
      dawn_build_list_via obs pick fuel root = Err \/
      dawn_build_list_via obs pick fuel root = dawn_build_list pick fuel U root.
Proof. exact Proofs_Load.via_fails_or_same. Qed.
Print Assumptions build_list_fails_or_same.

(** a cache that resolvers, faults, kills AND damage from outside have worked on: a returned resolveProject call
    answered with the project's own configuration or with an error *)
Theorem resolve_via_damaged_cache :
  forall (U : universe) (deliver : node -> option (list wr)) (W : node -> Prop),
    deliver_sound U deliver W -> key_sound U W ->
    forall (D : disk) (cs : list call) (n : node) (b : bool) (r : option summary),
      dreach deliver W (D, cs) -> In (mkCall n (PRet b r)) cs -> r = resolve_project U n \/ r = None.
Proof. exact Proofs_Load.resolve_via_damaged_cache. Qed.
Print Assumptions resolve_via_damaged_cache.

(** the build list as the project resolves it: over any such cache, Load fails or Project.buildList is the
    minimal-version-selection solution of the requirement graph (the list of the undamaged universe) *)
Theorem load_fails_or_solution :
  forall (U : universe) (deliver : node -> option (list wr)) (W : node -> Prop),
    deliver_sound U deliver W -> key_sound U W -> requirements_closed U W ->
    forall (obs : node -> option summary) (pick : list node -> nat) (fuel : nat) (root : config),
      observed_damaged deliver W obs -> (forall m, In m (map snd root) -> fst m = [] \/ W m) ->
      (u_fuel U (map snd root) <= fuel)%nat ->
      load_build_list obs pick fuel root = Err \/
      (exists l, load_build_list obs pick fuel root = Ok l /\ mvs_solution (reachable_from U (map snd root)) l
                 /\ dawn_build_list pick fuel U root = Ok l).
Proof. exact Proofs_Load.load_fails_or_solution. Qed.
Print Assumptions load_fails_or_solution.

(** the root project, loaded from its own two files (project_config.go loadConfig): over any cache that resolvers,
    faults, kills and damage from outside have worked on, Load fails or Project.buildList is the solution of the graph
    of the project's own configuration -- its dawn.toml when it has one, whatever a left-over .dawnconfig holds *)
Theorem load_root_fails_or_solution :
  forall (U : universe) (deliver : node -> option (list wr)) (W : node -> Prop),
    deliver_sound U deliver W -> key_sound U W -> requirements_closed U W ->
    forall (obs : node -> option summary) (rne : config -> bool) (pick : list node -> nat) (fuel : nat)
           (toml dot : root_file) (c : config),
      project_config toml dot = Some c ->
      observed_damaged deliver W obs -> (forall m, In m (map snd c) -> fst m = [] \/ W m) ->
      (u_fuel U (map snd c) <= fuel)%nat ->
      (exists b, load_config_loop obs rne pick fuel toml dot = FErr b) \/
      (exists l, load_config_loop obs rne pick fuel toml dot = FOk l /\ mvs_solution (reachable_from U (map snd c)) l).
Proof. exact Proofs_LoadRoot.load_root_fails_or_solution. Qed.
Print Assumptions load_root_fails_or_solution.

(** the loadConfig of before 15786e0 (the error of loadConfigFile decided whether to go on to .dawnconfig), REFUTED:
    the root has a dawn.toml and a left-over .dawnconfig and a cache entry has lost its configuration file -- the
    "does not exist" inside mvs.BuildList's error was taken for a missing dawn.toml, the left-over file loaded, and Load
    succeeded with a list that is not the solution of the project's requirement graph; today's loadConfig fails *)
Theorem load_root_former_refuted :
  exists (U : universe) (c c' : config) (keys : list node) (l : list (str * version)),
    let obs := obs_damaged U keys in
    project_config (RConfig c) (RConfig c') = Some c /\
    (forall pick, load_config_loop_former obs (fun _ => true) pick (u_fuel U (map snd c)) (RConfig c) (RConfig c') = FOk l) /\
    ~ mvs_solution (reachable_from U (map snd c)) l /\
    (forall pick, exists b, load_config_loop obs (fun _ => true) pick (u_fuel U (map snd c)) (RConfig c) (RConfig c') = FErr b).
Proof. exact Proofs_LoadRoot.load_root_former_refuted. Qed.
Print Assumptions load_root_former_refuted.

(** the repository lookup does not depend on what the resolver looked up before (in which order the projects of a
    repository were met): a memo hit is what a miss would compute *)
Theorem find_repository_order_independent :
  forall (dial : str -> bool) (M : memo) (p : str),
    memo_reach dial M -> fst (find_project_repository dial M p) = locate dial (trim_path_version p).
Proof. exact Proofs_Locate.find_repository_order_independent. Qed.
Print Assumptions find_repository_order_independent.

(** ... and it names the project that was asked for: the repository answers the dial, and its address joined with the
    project path inside it is the looked-up path (a project is never handed the directory of its neighbour) *)
Theorem find_repository_sound :
  forall (dial : str -> bool) (M : memo) (p : str) (x : str * str),
    memo_reach dial M -> clean_key (trim_path_version p) ->
    fst (find_project_repository dial M p) = Some x -> rejoin x = trim_path_version p /\ dial (fst x) = true.
Proof. exact Proofs_Locate.find_repository_sound. Qed.
Print Assumptions find_repository_sound.

(** "THE highest version": among the version strings that a configuration can carry (the gate of LoadConfigBytes) no two
    different strings are of equal precedence, so the running maximum of Reqs.Max does not depend on which
    requirement it meets first *)
Theorem admitted_versions_never_tie :
  forall a b : str, gate a = true -> gate b = true -> cmp_version_str a b = Eq -> a = b.
Proof. exact Proofs_Gate.admitted_versions_never_tie. Qed.
Print Assumptions admitted_versions_never_tie.

(** what the gate admits: valid, no build metadata, not a short form -- the string is its own canonical spelling *)
Theorem admitted_version_spelling :
  forall v : str, gate v = true ->
    exists p, parse v = Some p /\ p_short p = [] /\ p_build p = [] /\ v = spell p.
Proof. exact Proofs_Gate.gate_spec. Qed.
Print Assumptions admitted_version_spelling.

(** ... and the gate is needed: valid versions it rejects ("v1.2.0+a" / "v1.2.0+b"; "v1.2" next to the admitted
    "v1.2.0") are different strings of equal precedence, and Reqs.Max answers with whichever it is given first *)
Theorem unadmitted_versions_tie :
  exists a b c d : str,
    is_valid a = true /\ is_valid b = true /\ a <> b /\ cmp_version_str a b = Eq /\ max_str a b <> max_str b a /\
    gate c = true /\ is_valid d = true /\ c <> d /\ cmp_version_str c d = Eq /\ max_str c d <> max_str d c /\
    gate a = false /\ gate b = false /\ gate d = false.
Proof. exact Proofs_Gate.unadmitted_versions_tie. Qed.
Print Assumptions unadmitted_versions_tie.

(** which file holds a project's requirements: a project that has a dawn.toml is configured by it, whatever else its
    tree holds -- a left-over .dawnconfig included *)
Theorem config_file_precedence :
  forall d d' : dir, dir_get d s_dawn_toml <> None -> dir_get d' s_dawn_toml = dir_get d s_dawn_toml ->
    load_config d' = load_config d.
Proof. exact Proofs_Gate.config_file_precedence. Qed.
Print Assumptions config_file_precedence.

(** ... and only a project without dawn.toml is configured by its .dawnconfig *)
Theorem config_file_fallback :
  forall d : dir, dir_get d s_dawn_toml = None ->
    load_config d = match dir_get d s_dawnconfig with Some (Cfg r) => r | _ => None end.
Proof. exact Proofs_Gate.config_file_fallback. Qed.
Print Assumptions config_file_fallback.

(** "each once": one project is one vertex however its path is written.  A requirement path written with a major suffix
    loads as JoinPathVersion(path.Clean(path), major), whatever the slash path looks like ... *)
Theorem written_path_loads_as :
  forall p m : str, plain_elem m -> clean_path_full (p ++ c_at :: m) = join_path_version (path_clean p) m.
Proof. exact Proofs_Paths.written_path_loads_as. Qed.
Print Assumptions written_path_loads_as.

(** ... so "lib@", "lib@v0" and "lib@v1" load as the path "lib" loads as (the repository lists v0 and v1 tags without a
    suffix), and two slash paths that path.Clean identifies load alike under every suffix *)
Theorem redundant_major_is_folded :
  forall p m : str, m = [] \/ m = s_v0 \/ m = s_v1 ->
    clean_path_full (p ++ c_at :: m) = path_clean p /\
    (split_path_version p = (p, []) -> clean_path_full p = path_clean p) /\
    (forall q m', plain_elem m' -> path_clean p = path_clean q ->
                  clean_path_full (p ++ c_at :: m') = clean_path_full (q ++ c_at :: m')).
Proof.
  intros p m H. exact (conj (Proofs_Paths.redundant_major_is_folded p m H)
                      (conj (Proofs_Paths.plain_path_loads_clean p)
                            (fun q m' Hm E => Proofs_Paths.spellings_load_alike p q m' Hm E))).
Qed.
Print Assumptions redundant_major_is_folded.

(** the string under which the repository lists a tag (JoinPathVersion of a clean slash path) is written as it loads *)
Theorem listed_path_is_fixed :
  forall a m : str, path_clean a = a -> split_path_version a = (a, []) -> plain_elem m ->
    clean_path_full (join_path_version a m) = join_path_version a m.
Proof. exact Proofs_Paths.listed_path_is_fixed. Qed.
Print Assumptions listed_path_is_fixed.

(** the build list of configuration files as written is the MVS solution of the graph of the LOADED requirements *)
Theorem written_build_list_spec :
  forall (pick : list node -> nat) (U : universe) (root : config) (fuel : nat),
    (written_fuel U root <= fuel)%nat ->
    let req := u_required (load_universe U) (map snd (load_root root)) in
    (unresolvable req target -> dawn_build_list_written pick fuel U root = Err) /\
    (~ unresolvable req target ->
     exists l, dawn_build_list_written pick fuel U root = Ok l /\
               mvs_solution (reachable_from (load_universe U) (map snd (load_root root))) l).
Proof. exact Proofs_Paths.written_build_list_spec. Qed.
Print Assumptions written_build_list_spec.

(** ... hence configuration files that differ only in how requirement paths are spelled have one build list *)
Theorem build_list_spelling_independent :
  forall (pick1 pick2 : list node -> nat) (U1 U2 : universe) (root1 root2 : config) (fuel1 fuel2 : nat),
    load_universe U1 = load_universe U2 ->
    same_set (map snd (load_root root1)) (map snd (load_root root2)) ->
    (written_fuel U1 root1 <= fuel1)%nat -> (written_fuel U2 root2 <= fuel2)%nat ->
    dawn_build_list_written pick1 fuel1 U1 root1 = dawn_build_list_written pick2 fuel2 U2 root2.
Proof. exact Proofs_Paths.build_list_spelling_independent. Qed.
Print Assumptions build_list_spelling_independent.

(** the version order behind "highest": a total order on canonical versions with "none" least and the root's
    empty version greatest *)
Theorem version_order_total :
  (forall a, vle a a = true) /\
  (forall a b c, vle a b = true -> vle b c = true -> vle a c = true) /\
  (forall a b, vle a b = true -> vle b a = true -> a = b) /\
  (forall a b, vle a b = true \/ vle b a = true) /\
  (forall a, vle VNone a = true) /\ (forall a, vle a VRoot = true).
Proof.
  exact (conj VersionProofs.vle_refl (conj VersionProofs.vle_trans (conj VersionProofs.vle_antisym
        (conj VersionProofs.vle_total (conj VersionProofs.vle_none VersionProofs.vle_root))))).
Qed.
Print Assumptions version_order_total.

(** the hypotheses are satisfiable: a diamond with a cycle, two majors of one project *)
Example c10_example :
  let a := [114; 47; 97] in let b := [114; 47; 98] in let c := [114; 47; 99] in let c2 := [114; 47; 99; 64; 118; 50] in
  let v x y z := VSem (mkSV x y z []) in
  let U := mkU [114] [((a, v 1 0 0), 1); ((b, v 1 0 0), 1); ((c, v 1 1 0), 1); ((c, v 1 2 0), 2); ((c2, v 2 0 0), 2)]
               [((a, 1), mkSum [] [(c, v 1 1 0); (c2, v 2 0 0)]); ((b, 1), mkSum [] [(c, v 1 2 0)]);
                ((c, 1), mkSum [] []); ((c, 2), mkSum [] [(a, v 1 0 0)])] [] [] [] in
  dawn_build_list (fun _ => O) 20 U [(a, (a, v 1 0 0)); (b, (b, v 1 0 0))]
  = Ok [([], VRoot); (a, v 1 0 0); (b, v 1 0 0); (c, v 1 2 0); (c2, v 2 0 0)].
Proof. vm_compute. reflexivity. Qed.

(** the hypotheses of the cache theorems are satisfiable: the universe above, every project delivered as BUILD.dawn,
    then dawn.toml created empty, then dawn.toml complete; [W] = the project versions that occur in it *)
Example c10_cache_example :
  let a := [114; 47; 97] in let b := [114; 47; 98] in let c := [114; 47; 99] in let c2 := [114; 47; 99; 64; 118; 50] in
  let v x y z := VSem (mkSV x y z []) in
  let U := mkU [114] [((a, v 1 0 0), 1); ((b, v 1 0 0), 1); ((c, v 1 1 0), 1); ((c, v 1 2 0), 2); ((c2, v 2 0 0), 2)]
               [((a, 1), mkSum [] [(c, v 1 1 0); (c2, v 2 0 0)]); ((b, 1), mkSum [] [(c, v 1 2 0)]);
                ((c, 1), mkSum [] []); ((c, 2), mkSum [] [(a, v 1 0 0)])] [] [] [] in
  let deliver n := match resolve_project U n with
                   | Some s => Some [([66; 85; 73; 76; 68; 46; 100; 97; 119; 110], Blob);
                                     (s_dawn_toml, Cfg (Some (mkSum [] []))); (s_dawn_toml, Cfg (Some s))]
                   | None => None
                   end in
  let W n := In n [(a, v 1 0 0); (b, v 1 0 0); (c, v 1 1 0); (c, v 1 2 0); (c2, v 2 0 0)] in
  deliver_sound U deliver W /\ key_sound U W /\ requirements_closed U W.
Proof.
  cbv zeta. split; [|split].
  - intros n Hn. simpl in Hn. repeat (destruct Hn as [<-|Hn]; [vm_compute; reflexivity|]). contradiction.
  - intros n m Hn Hm. simpl in Hn, Hm.
    repeat (destruct Hn as [<-|Hn]; [repeat (destruct Hm as [<-|Hm]; [vm_compute; congruence|]); contradiction|]).
    contradiction.
  - intros n s m Hn. simpl in Hn.
    repeat (destruct Hn as [<-|Hn]; [vm_compute; intros E; injection E as <-; simpl; intuition congruence|]).
    contradiction.
Qed.

(** the project-load model on the universe above: intact, Load keeps the solution; with the cache entry of c v1.2.0
    unreadable it fails *)
Example c10_load_example :
  let a := [114; 47; 97] in let b := [114; 47; 98] in let c := [114; 47; 99] in let c2 := [114; 47; 99; 64; 118; 50] in
  let v x y z := VSem (mkSV x y z []) in
  let U := mkU [114] [((a, v 1 0 0), 1); ((b, v 1 0 0), 1); ((c, v 1 1 0), 1); ((c, v 1 2 0), 2); ((c2, v 2 0 0), 2)]
               [((a, 1), mkSum [] [(c, v 1 1 0); (c2, v 2 0 0)]); ((b, 1), mkSum [] [(c, v 1 2 0)]);
                ((c, 1), mkSum [] []); ((c, 2), mkSum [] [(a, v 1 0 0)])] [] [] [] in
  let root := [(a, (a, v 1 0 0)); (b, (b, v 1 0 0))] in
  load_build_list (obs_damaged U []) (fun _ => O) 20 root
  = Ok [([], VRoot); (a, v 1 0 0); (b, v 1 0 0); (c, v 1 2 0); (c2, v 2 0 0)] /\
  load_build_list (obs_damaged U [(c, v 1 2 0)]) (fun _ => O) 20 root = Err.
Proof. vm_compute. split; reflexivity. Qed.

(** the repository lookup: a project below the project at the root of a well-known repository, looked up before and
    after its neighbour; a repository on another host found by dialing prefixes *)
Example c10_locate_example :
  let mono := [103; 105; 116; 104; 117; 98; 46; 99; 111; 109; 47; 97; 99; 109; 101; 47; 109; 111; 110; 111] in                     (* "github.com/acme/mono" *)
  let tool := [103; 105; 116; 104; 117; 98; 46; 99; 111; 109; 47; 97; 99; 109; 101; 47; 109; 111; 110; 111; 47; 116; 111; 111; 108; 64; 118; 50] in                     (* "github.com/acme/mono/tool@v2" *)
  let other := [103; 105; 116; 46; 101; 120; 97; 109; 112; 108; 101; 46; 116; 101; 115; 116; 47; 116; 101; 97; 109; 47; 114] in                   (* "git.example.test/team/r" *)
  let pkg := [103; 105; 116; 46; 101; 120; 97; 109; 112; 108; 101; 46; 116; 101; 115; 116; 47; 116; 101; 97; 109; 47; 114; 47; 116; 111; 111; 108; 115; 47; 112; 107; 103] in                       (* "git.example.test/team/r/tools/pkg" *)
  let dial := dial_of [mono; other] in
  let M1 := snd (find_project_repository dial [] tool) in
  let M2 := snd (find_project_repository dial (snd (find_project_repository dial [] mono)) pkg) in
  memo_reach dial M1 /\ memo_reach dial M2 /\
  fst (find_project_repository dial M1 mono) = Some (mono, []) /\
  fst (find_project_repository dial M2 tool) = Some (mono, [116; 111; 111; 108]) /\
  fst (find_project_repository dial M1 pkg) = Some (other, [116; 111; 111; 108; 115; 47; 112; 107; 103]).
Proof.
  cbv zeta. split; [|split]; [repeat constructor..|]. vm_compute. repeat split; reflexivity.
Qed.

(** requirement paths as written: the universe of c10_example with its requirements spelled in other ways -- c under
    "r/c@v1", "r/./c" and "./r/x/../c@v0" at different versions -- has the build list of the plainly written one *)
Example c10_paths_example :
  let a := [114; 47; 97] in let b := [114; 47; 98] in let c := [114; 47; 99] in let c2 := [114; 47; 99; 64; 118; 50] in
  let v x y z := VSem (mkSV x y z []) in
  let U := mkU [114] [((a, v 1 0 0), 1); ((b, v 1 0 0), 1); ((c, v 1 1 0), 1); ((c, v 1 2 0), 2); ((c2, v 2 0 0), 2)]
               [((a, 1), mkSum [] [([114;47;99;64;118;49]%N, v 1 1 0); ([114;47;47;99;47;46;64;118;50]%N, v 2 0 0)]); ((b, 1), mkSum [] [([114;47;46;47;99]%N, v 1 2 0)]);
                ((c, 1), mkSum [] []); ((c, 2), mkSum [] [([46;47;114;47;120;47;46;46;47;97;64;118;48]%N, v 1 0 0)])] [] [] [] in
  dawn_build_list_written (fun _ => O) 20 U [(a, ([114;47;97;47]%N, v 1 0 0)); (b, ([120;47;46;46;47;114;47;98;64]%N, v 1 0 0))]
  = Ok [([], VRoot); (a, v 1 0 0); (b, v 1 0 0); (c, v 1 2 0); (c2, v 2 0 0)]
  /\ clean_path_full [46;47;114;47;120;47;46;46;47;99;64;118;48]%N = c /\ clean_path_full [114;47;99;47;115;117;98;47;46;46;64;118;50]%N = c2 /\ path_clean c = c /\ split_path_version c = (c, []).
Proof. vm_compute. repeat split; reflexivity. Qed.
