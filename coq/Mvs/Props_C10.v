(** C10 — placeholder while the pipeline is brought up. *)
From Dawn Require Import Mvs.Model.

Theorem select_keeps_or_sets : forall s n, select s n = s \/ select s n = sel_set s (fst n) (snd n).
Proof. intros; unfold select; destruct (vlt _ _); auto. Qed.
Print Assumptions select_keeps_or_sets.
