(** Which of its two configuration files the ROOT project is loaded from, and what that does to its build list.
      dawn  project_config.go loadConfig (as of 15786e0): for name in dawn.toml, .dawnconfig: os.Stat(root/name) says
            "does not exist": next name; otherwise err = loadConfigFile(root/name) is the answer (nil or not).
            loadConfigFile: os.ReadFile + LoadConfigBytes (their error as it is), then mvs.BuildList, whose error is
            wrapped with %w ("computing requirements: ...").
      Before 15786e0 loadConfig went on to the next name when errors.Is(err, fs.ErrNotExist) held for the error of
      loadConfigFile -- which also holds when the error BuildList reports is a missing file below the download cache
      (a cache entry that has lost its configuration file: "loading config file: open .../.dawnconfig: no such file or
      directory"); [load_config_loop_former] keeps that version for the record (load_root_former_refuted).
    NO proofs in this file. *)
From Dawn Require Export Mvs.Load.

(** a configuration file of the root directory: not there; there but os.ReadFile/LoadConfigBytes reject it; a
    configuration with these requirements *)
Inductive root_file :=
| RMissing
| RUnreadable
| RConfig (c : config).

(** what loadConfigFile returns: nil (Project.buildList is set) or an error, of which loadConfig only asks whether
    errors.Is(err, fs.ErrNotExist) *)
Inductive file_result :=
| FOk (l : list (str * version))
| FErr (not_exist : bool)
| FPanic
| FHang.

Section LoadRoot.
  (** what resolveProject answers for project version n (Mvs/Load.v) *)
  Variable obs : node -> option summary.
  (** whether the error mvs.BuildList reports for the root requirements c (the error of the failing project version
      that its shortest-path search finds) unwraps to fs.ErrNotExist *)
  Variable reported_not_exist : config -> bool.
  Variable pick : list node -> nat.
  Variable fuel : nat.

  Definition load_config_file (f : root_file) : file_result :=
    match f with
    | RMissing => FErr true
    | RUnreadable => FErr false
    | RConfig c => match load_build_list obs pick fuel c with
                   | Ok l => FOk l
                   | Err => FErr (reported_not_exist c)
                   | Panic => FPanic
                   | OutOfFuel => FHang
                   end
    end.

  (** loadConfig ([toml] = root/dawn.toml, [dot] = root/.dawnconfig): only a file that is not there sends it on *)
  Definition load_config_loop (toml dot : root_file) : file_result :=
    match toml with
    | RMissing => load_config_file dot
    | _ => load_config_file toml
    end.

  (** loadConfig before 15786e0: the error of loadConfigFile decided *)
  Definition load_config_loop_former (toml dot : root_file) : file_result :=
    match load_config_file toml with
    | FErr true => load_config_file dot
    | r => r
    end.
End LoadRoot.

(** the configuration of the root project: its dawn.toml when it has one, else its .dawnconfig *)
Definition project_config (toml dot : root_file) : option config :=
  match toml with
  | RConfig c => Some c
  | RUnreadable => None
  | RMissing => match dot with RConfig c => Some c | _ => None end
  end.
