(** The queries that are defined relative to the current selection (patch, upgrade) never resolve below it:
    get never takes its mvs.Downgrade branch for them, whatever the selected version is (a tag, or the
    pseudo-version of an untagged commit that is ahead of every tag of its series). *)
From Dawn Require Import Mvs.VersionProofs Mvs.Spec Mvs.Proofs_Base Mvs.Proofs_C10 Mvs.Proofs_ReqList Mvs.Proofs_Names
     Mvs.Proofs_C11.

Lemma sem_cmp_refl v : sem_cmp v v = Eq.
Proof. destruct v; simpl; auto. apply (good_refl _ good_sv). Qed.

Lemma sem_cmp_anti a b : sem_cmp b a = CompOpp (sem_cmp a b).
Proof. destruct a, b; simpl; auto. apply (g_anti _ good_sv). Qed.

(** ** the scans return a node of the queried path *)
Lemma tag_matches_path qpath major t : tag_matches qpath major t = true -> fst (fst t) = qpath.
Proof.
  unfold tag_matches. intros H. apply andb_prop in H. destruct H as [_ H].
  now destruct (str_eqb_spec (fst (fst t)) qpath).
Qed.

Lemma latest_scan_path rtags qpath major pre n :
  (forall p, pre = Some p -> fst p = qpath) -> latest_scan rtags qpath major pre = Some n -> fst n = qpath.
Proof.
  revert pre; induction rtags as [|t r IH]; intros pre P H; simpl in H; [now apply P|].
  destruct (tag_matches qpath major t) eqn:M; simpl in H; [|eapply IH; eauto].
  apply tag_matches_path in M.
  destruct (has_prerelease (snd (fst t))); simpl in H.
  - eapply IH; [|exact H]. intros p E. destruct pre as [p0|]; [apply P; congruence|]. now inversion E.
  - now inversion H.
Qed.

Lemma ref_scan_path rtags qpath major anc t : ref_scan rtags qpath major anc = Some t -> fst (fst t) = qpath.
Proof.
  induction rtags as [|x r IH]; simpl; [discriminate|].
  destruct (tag_matches qpath major x) eqn:M; simpl; auto.
  destruct (snd x =? anc); auto. intros H; inversion H; subst. eapply tag_matches_path; eauto.
Qed.

Lemma ref_history_path n rtags qpath major cur t :
  (forall x, cur = Some x -> fst (fst x) = qpath) ->
  ref_history n rtags qpath major cur = Some t -> fst (fst t) = qpath.
Proof.
  revert cur; induction n as [|k IH]; intros cur P H; cbn [ref_history] in H; [now apply P|].
  eapply IH; [|exact H]. intros x E.
  destruct (ref_scan rtags qpath major (N.of_nat (S k))) eqn:R.
  - inversion E; subst. eapply ref_scan_path; eauto.
  - now apply P.
Qed.

Lemma resolve_ref_path U qpath major ref n : resolve_ref U qpath major ref = Ok n -> fst n = qpath.
Proof.
  unfold resolve_ref. destruct (find _ (u_refs U)) as [[x r]|]; [|discriminate].
  destruct (find _ (u_segs U)) as [[y seg]|]; [|discriminate].
  destruct (ref_history _ _ _ _ None) as [[m r']|] eqn:R.
  - apply ref_history_path in R; [|discriminate]. simpl in R.
    destruct (r' =? r); intros H; inversion H; subst; auto.
  - intros H; inversion H; auto.
Qed.

Lemma resolve_latest_path U qpath major n : resolve_latest U qpath major = Ok n -> fst n = qpath.
Proof.
  unfold resolve_latest. destruct (latest_scan _ _ _ None) eqn:L.
  - intros H; inversion H; subst. eapply latest_scan_path; [|exact L]. discriminate.
  - apply resolve_ref_path.
Qed.

(** the patch scan returns the selection itself or a tag of the same path that is strictly newer *)
Lemma patch_scan_spec rtags cur :
  patch_scan rtags cur = cur \/
  (fst (patch_scan rtags cur) = fst cur /\ sem_cmp (snd (patch_scan rtags cur)) (snd cur) = Gt /\
   In (patch_scan rtags cur) (map fst rtags)).
Proof.
  induction rtags as [|t r IH]; simpl; auto.
  destruct (str_eqb_spec (fst (fst t)) (fst cur)) as [E|]; simpl.
  - destruct (optNN_eqb _ _); simpl.
    + destruct (sem_cmp (snd (fst t)) (snd cur)) eqn:C; simpl.
      * destruct IH as [IH|(A & B & D)]; [left|right]; auto.
      * destruct IH as [IH|(A & B & D)]; [left|right]; auto.
      * right; auto.
    + destruct IH as [IH|(A & B & D)]; [left|right]; auto.
  - destruct IH as [IH|(A & B & D)]; [left|right]; auto.
Qed.

Theorem patch_upgrade_not_below_selection U bl q k version :
  match k with QUpgrade | QPatch => True | _ => False end ->
  resolve_query U bl q k = Ok version ->
  forall cur, find_path (fst version) bl = Some cur -> sem_cmp cur (snd version) <> Gt.
Proof.
  intros K H cur F. unfold resolve_query in H. destruct (in_repo U q); simpl in H; [|discriminate].
  set (qpath := clean_path q) in *. set (major := snd (split_path_version qpath)) in *.
  destruct k; try contradiction.
  - (* upgrade *)
    unfold resolve_upgrade in H. destruct (resolve_latest U qpath major) as [nv| | |] eqn:L; simpl in H; try discriminate.
    destruct (find_path (fst nv) bl) as [v|] eqn:Fv.
    + destruct (sem_cmp (snd nv) v) eqn:C; simpl in H; inversion H; subst; simpl in *.
      * rewrite Fv in F. inversion F; subst. rewrite sem_cmp_anti, C. discriminate.
      * rewrite Fv in F. inversion F; subst. rewrite sem_cmp_refl. discriminate.
      * rewrite Fv in F. inversion F; subst. rewrite sem_cmp_anti, C. discriminate.
    + inversion H; subst. congruence.
  - (* patch *)
    unfold resolve_patch in H. destruct (find_path qpath bl) as [v|] eqn:Fv.
    + inversion H; subst. destruct (patch_scan_spec (rev (u_tags U)) (qpath, v)) as [E|(A & B & _)].
      * rewrite E in *. simpl in *. rewrite Fv in F. inversion F; subst. rewrite sem_cmp_refl. discriminate.
      * simpl in A, B. rewrite A, Fv in F. inversion F; subst. rewrite sem_cmp_anti, B. discriminate.
    + apply resolve_latest_path in H. congruence.
Qed.

(** ... hence get by a patch or upgrade query lowers no project and keeps the project at the resolved version
    or above (the hypothesis "not a downgrade" of get_upgrade_contains_and_no_lower always holds) *)
Theorem patch_upgrade_lowers_nothing pick U root q k c' :
  wf_universe U -> wf_reqs (map snd root) -> names_unique root ->
  match k with QUpgrade | QPatch => True | _ => False end ->
  apply_op pick U root (OpGet q k) = Ok c' ->
  exists bl0 version,
    build_list pick (e_fuel U (map snd root)) U (map snd root) = Ok bl0 /\
    resolve_query U bl0 q k = Ok version /\
    (forall cur, find_path (fst version) bl0 = Some cur -> sem_cmp cur (snd version) <> Gt) /\
    (wf_node version ->
     forall pick1 fuel1 bl1,
       (u_fuel U (map snd c') <= fuel1)%nat -> dawn_build_list pick1 fuel1 U c' = Ok bl1 ->
       no_lower bl0 bl1 /\ exists w, In (fst version, w) bl1 /\ vle (snd version) w = true).
Proof.
  intros WU WR NU K H.
  destruct (get_upgrade_contains_and_no_lower pick U root q k c' WU WR NU H) as (bl0 & version & E0 & EQ & R).
  assert (NG : forall cur, find_path (fst version) bl0 = Some cur -> sem_cmp cur (snd version) <> Gt)
    by (eapply patch_upgrade_not_below_selection; eauto).
  exists bl0, version. split; [exact E0|]. split; [exact EQ|]. split; [exact NG|].
  intros WV pick1 fuel1 bl1 F1 E1. exact (R WV NG pick1 fuel1 bl1 F1 E1).
Qed.
