(** Case evaluation for the C10 correspondence on version spellings: the gate of LoadConfigBytes and reqs.go
    cmpVersion on strings (Mvs/Gate.v).  Gate's names are not re-exported. *)
From Dawn Require Import Mvs.Gate.

Definition comparison_eqb (a b : comparison) : bool :=
  match a, b with Eq, Eq => true | Lt, Lt => true | Gt, Gt => true | _, _ => false end.

(** (id, (version string, does a configuration that requires it load?)) *)
Definition mismatches_gate (cases : list (N * (str * bool))) : list N :=
  map fst (filter (fun c => negb (Bool.eqb (gate (fst (snd c))) (snd (snd c)))) cases).

(** (id, ((v1, v2), cmpVersion(v1, v2))) *)
Definition mismatches_cmp (cases : list (N * ((str * str) * comparison))) : list N :=
  map fst (filter (fun c => negb (comparison_eqb (cmp_version_str (fst (fst (snd c))) (snd (fst (snd c)))) (snd (snd c))))
                  cases).

(** the ids of the strings the model's gate admits (for the twins of the universes of the spelling family) *)
Definition admitted_ids (cases : list (N * str)) : list N :=
  map fst (filter (fun c => gate (snd c)) cases).
