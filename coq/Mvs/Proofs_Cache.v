(** The download cache never shows a resolver anything but complete downloads, whatever the interleaving of
    resolvers, faults and kills; hence the build list does not depend on the state of the cache. *)
From Dawn Require Import Mvs.VersionProofs Mvs.Spec Mvs.Proofs_Base Mvs.Proofs_C10 Mvs.Cache.

Section CacheProofs.
  Variable U : universe.
  Variable deliver : node -> option (list wr).
  Variable W : node -> Prop.

  Hypothesis HD : deliver_sound U deliver W.
  Hypothesis HK : key_sound U W.
  Notation disk_complete := (disk_complete deliver W).

  Definition call_ok (D : disk) (c : call) : Prop :=
    W (c_node c) /\
    match c_state c with
    | PStat => True
    | PStage done todo => deliver (c_node c) = Some (rev done ++ todo)
    | PRename d => exists ws, deliver (c_node c) = Some ws /\ d = rev ws
    | PLoad => disk_get D (cache_key (c_node c)) <> None
    | PRet false r => r = resolve_project U (c_node c)
    | PRet true _ => True
    end.

  Definition world_ok (w : disk * list call) : Prop :=
    disk_complete (fst w) /\ Forall (call_ok (fst w)) (snd w).

  Lemma disk_get_cons D k d k' :
    disk_get D k = None -> disk_get ((k, d) :: D) k' = if node_eqb k k' then Some d else disk_get D k'.
  Proof. reflexivity. Qed.

  Lemma disk_get_mono D k d k' :
    disk_get D k = None -> disk_get D k' <> None -> disk_get ((k, d) :: D) k' <> None.
  Proof.
    intros H1 H2. simpl. destruct (node_eqb_spec k k'); [discriminate|exact H2].
  Qed.

  Lemma call_ok_mono D k d c : disk_get D k = None -> call_ok D c -> call_ok ((k, d) :: D) c.
  Proof.
    intros H [Hw Hc]. split; auto. destruct (c_state c); auto. now apply disk_get_mono.
  Qed.

  Lemma loaded_is_resolved D n d :
    disk_complete D -> W n -> disk_get D (cache_key n) = Some d -> load_config d = resolve_project U n.
  Proof.
    intros HC Hn Hd. destruct (HC _ _ Hd) as (m & ws & Hm & Hk & Hdl & ->).
    pose proof (HD m Hm) as H. rewrite Hdl in H. rewrite H. apply HK; auto.
  Qed.

  Lemma cstep_ok n D st D' st' :
    cstep deliver n D st D' st' -> disk_complete D -> call_ok D (mkCall n st) ->
    disk_complete D' /\ call_ok D' (mkCall n st') /\ (forall c, call_ok D c -> call_ok D' c).
  Proof.
    intros S HC [Hw Hc]; simpl in *.
    assert (same : forall st1, (W n -> call_ok D (mkCall n st1)) ->
                   disk_complete D /\ call_ok D (mkCall n st1) /\ (forall c, call_ok D c -> call_ok D c)).
    { intros st1 H1. split; [exact HC|]. split; [auto|auto]. }
    inversion S; subst; simpl in *.
    - (* hit *) apply same. intros _. split; simpl; [auto|congruence].
    - (* unresolvable *) apply same. intros _. split; simpl; auto.
      pose proof (HD n Hw) as H'. match goal with E : deliver n = None |- _ => rewrite E in H' end. auto.
    - (* start *) apply same. intros _. split; simpl; auto.
    - apply same. intros _. split; simpl; auto.
    - (* write *) apply same. intros _. split; simpl; auto. rewrite Hc. now rewrite <- app_assoc.
    - apply same. intros _. split; simpl; auto.
    - (* staged *) apply same. intros _. split; simpl; auto. rewrite app_nil_r in Hc.
      exists (rev done). split; auto. now rewrite rev_involutive.
    - (* publish *)
      destruct Hc as (ws & Hdl & ->). split; [|split].
      + intros k d Hk. rewrite disk_get_cons in Hk by auto.
        destruct (node_eqb_spec (cache_key n) k) as [<-|_]; auto.
        injection Hk as <-. exists n, ws. auto.
      + split; auto. simpl. rewrite node_eqb_refl. discriminate.
      + intros c. now apply call_ok_mono.
    - (* overtaken *) apply same. intros _. split; simpl; [auto|congruence].
    - apply same. intros _. split; simpl; auto.
    - (* load *) apply same. intros _. split; simpl; auto.
      match goal with |- context [disk_get ?X (cache_key n)] => destruct (disk_get X (cache_key n)) as [d0|] eqn:E end;
        [|congruence]. eapply loaded_is_resolved; eauto.
  Qed.

  Lemma wstep_ok w w' : wstep deliver W w w' -> world_ok w -> world_ok w'.
  Proof.
    intros S [HC HF]. inversion S; subst; simpl in *.
    - split; auto. constructor; auto. split; simpl; auto.
    - split; auto. apply Forall_app in HF as [H1 H2]. inversion H2; subst. apply Forall_app; auto.
    - apply Forall_app in HF as [H1 H2]. inversion H2 as [|? ? Hc H3]; subst.
      destruct (cstep_ok _ _ _ _ _ H HC Hc) as (HC' & Hc' & Hm).
      split; auto. simpl. apply Forall_app; split.
      + eapply Forall_impl; [|exact H1]. auto.
      + constructor; auto. eapply Forall_impl; [|exact H3]. auto.
  Qed.

  Theorem wreach_ok w : wreach deliver W w -> world_ok w.
  Proof.
    induction 1.
    - split; simpl; [intros k d; discriminate|constructor].
    - eapply wstep_ok; eauto.
  Qed.

  (** every directory a resolver can ever find in the cache is a complete download *)
  Theorem cache_entries_complete D cs : wreach deliver W (D, cs) -> disk_complete D.
  Proof. intros H. exact (proj1 (wreach_ok _ H)). Qed.

  (** a call in which no operation failed returns what the universe says, whatever else went on *)
  Theorem resolve_via_cache D cs n r :
    wreach deliver W (D, cs) -> In (mkCall n (PRet false r)) cs -> r = resolve_project U n.
  Proof.
    intros H Hin. destruct (wreach_ok _ H) as [_ HF]. simpl in HF.
    rewrite Forall_forall in HF. destruct (HF _ Hin) as [_ Hc]. exact Hc.
  Qed.
End CacheProofs.

(** ** the exploration only looks at [required] on the nodes it reaches *)
Lemma add_new_from l : forall seen pending x,
  In x (snd (add_new l seen pending)) -> In x pending \/ In x l.
Proof.
  induction l as [|n l IH]; intros seen pending x; simpl; auto.
  destruct (mem n seen).
  - intros H. apply IH in H. tauto.
  - intros H. apply IH in H. rewrite in_app_iff in H. simpl in H. tauto.
Qed.

Section ExploreExt.
  Variable r1 r2 : node -> option (list node).
  Variable pick : list node -> nat.
  Variable P : node -> Prop.
  Hypothesis agree : forall m, P m -> r1 m = r2 m.
  Hypothesis closed : forall m l n, P m -> r1 m = Some l -> In n l -> P n.

  Lemma step_reqs_agree m : P m -> step_reqs r1 None m = step_reqs r2 None m.
  Proof. intros H. unfold step_reqs. now rewrite (agree m H). Qed.

  Lemma step_reqs_closed m n : P m -> In n (fst (step_reqs r1 None m)) -> P n.
  Proof.
    intros H. unfold step_reqs. destruct (snd m); simpl; try tauto;
      destruct (r1 m) as [l|] eqn:E; simpl; try tauto; intros Hn; eapply closed; eauto.
  Qed.

  Lemma explore_agree fuel : forall pending seen sel err,
    Forall P pending ->
    explore r1 None pick fuel pending seen sel err = explore r2 None pick fuel pending seen sel err.
  Proof.
    induction fuel as [|f IH]; intros pending seen sel err HP; cbn [explore]; auto.
    destruct pending as [|d pending'] eqn:EP; auto. rewrite <- EP in *.
    set (i := Nat.modulo (pick pending) (length pending)).
    assert (Hm : P (nth i pending d)).
    { rewrite Forall_forall in HP. apply HP. apply nth_In. apply Nat.mod_upper_bound. rewrite EP. simpl. lia. }
    rewrite <- (step_reqs_agree _ Hm). apply IH.
    rewrite Forall_forall. intros x Hx. apply add_new_from in Hx. destruct Hx as [Hx|Hx].
    - rewrite Forall_forall in HP. apply HP. eapply remove_nth_In; eauto.
    - eapply step_reqs_closed; eauto.
  Qed.

  Lemma build_list_gen_agree fuel t : P t ->
    build_list_gen r1 None pick fuel t = build_list_gen r2 None pick fuel t.
  Proof. intros H. unfold build_list_gen. rewrite explore_agree; auto. Qed.
End ExploreExt.

(** ** C10: the state of the download cache *)
Section CacheIndependence.
  Variable U : universe.
  Variable deliver : node -> option (list wr).
  Variable W : node -> Prop.
  Hypothesis HD : deliver_sound U deliver W.
  Hypothesis HK : key_sound U W.
  Hypothesis HW : requirements_closed U W.

  Notation observed := (observed deliver W).

  Theorem build_list_cache_independent obs pick fuel (root : config) :
    observed obs -> (forall m, In m (map snd root) -> fst m = [] \/ W m) ->
    dawn_build_list_via obs pick fuel root = dawn_build_list pick fuel U root.
  Proof.
    intros HO HR. unfold dawn_build_list_via, dawn_build_list, build_list.
    rewrite (build_list_gen_agree (required_via obs (map snd root)) (u_required U (map snd root)) pick
               (fun n => fst n = [] \/ W n)); auto.
    - intros m [Hm|Hm]; unfold required_via, u_required.
      + now rewrite Hm.
      + destruct (fst m); auto. destruct (HO m Hm) as (D & cs & Hr & Hin).
        now rewrite (resolve_via_cache U deliver W HD HK D cs m (obs m) Hr Hin).
    - intros m l n [Hm|Hm]; unfold required_via.
      + rewrite Hm. intros E; injection E as <-. auto.
      + destruct (fst m) eqn:Ef; [intros E; injection E as <-; auto|].
        destruct (HO m Hm) as (D & cs & Hr & Hin).
        rewrite (resolve_via_cache U deliver W HD HK D cs m (obs m) Hr Hin).
        destruct (resolve_project U m) as [s0|] eqn:Es; [|discriminate].
        intros E; injection E as <-. eapply HW; eauto.
  Qed.
End CacheIndependence.
