(** Executable model of build-list resolution:
      github.com/pgavlin/mvs  mvs.go buildList + graph.go Graph.{NewGraph,Require,Selected,BuildList}
      dawn  internal/mvs/reqs.go (Required, Max), resolver.go (resolveProject), get.go (BuildList).
    NO proofs in this file. *)
From Dawn Require Export Mvs.Version.

Definition node := (str * version)%type.          (* module.Version{Path, Version} *)

Definition node_eqb (a b : node) : bool := str_eqb (fst a) (fst b) && version_eqb (snd a) (snd b).

Definition mem (n : node) (l : list node) : bool := existsb (node_eqb n) l.

Inductive outcome (A : Type) :=
| Ok (a : A)
| Err            (* the call returned an error *)
| Panic          (* the library's "mistake: chose versions ..." panic *)
| OutOfFuel.     (* the model ran out of fuel: a hang of the implementation *)
Arguments Ok {A} a.
Arguments Err {A}.
Arguments Panic {A}.
Arguments OutOfFuel {A}.

(** ** Graph.selected : path -> version, "none" when absent *)
Definition smap := list (str * version).

Fixpoint sel_get (s : smap) (p : str) : version :=
  match s with
  | [] => VNone
  | (q, v) :: s' => if str_eqb q p then v else sel_get s' p
  end.

Fixpoint sel_set (s : smap) (p : str) (v : version) : smap :=
  match s with
  | [] => [(p, v)]
  | (q, w) :: s' => if str_eqb q p then (q, v) :: s' else (q, w) :: sel_set s' p v
  end.

(** Graph.Require's update: if cmp(Selected(dep.Path), dep.Version) < 0 then selected[dep.Path] = dep.Version,
    where cmp(v1, v2) < 0 iff reqs.Max(v1, v2) != v1. *)
Definition select (s : smap) (n : node) : smap :=
  if vlt (sel_get s (fst n)) (snd n) then sel_set s (fst n) (snd n) else s.

(** insertion sort by path (module.Sort; paths are unique in a selection) *)
Fixpoint insert_node (n : node) (l : list node) : list node :=
  match l with
  | [] => [n]
  | m :: l' => if str_ltb (fst m) (fst n) then m :: insert_node n l' else n :: l
  end.

Definition sort_nodes (l : list node) : list node := fold_right insert_node [] l.

Fixpoint remove_nth {A} (i : nat) (l : list A) : list A :=
  match l with
  | [] => []
  | x :: l' => match i with O => l' | S j => x :: remove_nth j l' end
  end.

Section BuildList.
  (** Reqs.Required; [None] = it returned an error *)
  Variable required : node -> option (list node).
  (** the [upgrade] callback of buildList ([None] for BuildList); its [None] result = it returned an error *)
  Variable upgrade : option (node -> option node).
  (** par.Work hands the pending items to the workers in an arbitrary order: [pick pending] is the index
      (modulo the length) of the item processed next. *)
  Variable pick : list node -> nat.

  (** the body of work.Do's callback up to g.Require: the requirement list passed to g.Require and whether
      an error was recorded in errs *)
  Definition step_reqs (m : node) : list node * bool :=
    let rq := match snd m with
              | VNone => ([], false)
              | _ => match required m with Some l => (l, false) | None => ([], true) end
              end in
    match upgrade with
    | None => rq
    | Some u => match u m with
                | Some um => if node_eqb um m then rq else (um :: fst rq, snd rq)
                | None => (fst rq, true)
                end
    end.

  (** work.Add for each requirement: items already added once are ignored *)
  Fixpoint add_new (l : list node) (seen pending : list node) : list node * list node :=
    match l with
    | [] => (seen, pending)
    | n :: l' => if mem n seen then add_new l' seen pending
                 else add_new l' (n :: seen) (pending ++ [n])
    end.

  Fixpoint explore (fuel : nat) (pending seen : list node) (sel : smap) (err : bool) : option (smap * bool) :=
    match fuel with
    | O => None
    | S f =>
        match pending with
        | [] => Some (sel, err)
        | d :: _ =>
            let i := Nat.modulo (pick pending) (length pending) in
            let m := nth i pending d in
            let rq := step_reqs m in
            let sel' := fold_left select (fst rq) sel in
            let sp := add_new (fst rq) seen (remove_nth i pending) in
            explore f (snd sp) (fst sp) sel' (err || snd rq)
        end
    end.

  (** Graph.BuildList for a single root *)
  Definition graph_build_list (target : node) (sel : smap) : list node :=
    (match sel_get sel (fst target) with VNone => [] | v => [(fst target, v)] end)
    ++ sort_nodes (filter (fun e => negb (str_eqb (fst e) (fst target))) sel).

  Definition build_list_gen (fuel : nat) (target : node) : outcome (list node) :=
    match explore fuel [target] [target] (select [] target) false with
    | None => OutOfFuel
    | Some (_, true) => Err
    | Some (sel, false) =>
        match graph_build_list target sel with
        | t :: l => if node_eqb t target then Ok (t :: l) else Panic
        | [] => Panic
        end
    end.
End BuildList.

(** ** The universe: what the resolver sees (one repository, as in the package's own fake) *)

Record summary := mkSum { s_name : str; s_reqs : list node }.

Record universe := mkU {
  u_repo : str;                              (* "github.com/org/repo" *)
  u_tags : list (node * N);                  (* tagged versions in repository order, with their revision *)
  u_sums : list ((str * N) * summary);       (* (path without major suffix, revision) -> its dawn.toml *)
  u_refs : list (str * N);                   (* ref -> revision *)
  u_default : str;                           (* default branch *)
  u_segs : list (N * str)                    (* revision -> "yyyymmddhhmmss-id" (history is linear: 1 <- 2 <- ...) *)
}.

(** findProjectRepository succeeds *)
Definition in_repo (U : universe) (p : str) : bool :=
  let k := trim_path_version p in
  str_eqb k (u_repo U) || has_prefix (u_repo U ++ [c_slash]) k.

Fixpoint find_tag (tags : list (node * N)) (n : node) : option N :=
  match tags with
  | [] => None
  | (m, r) :: t => if node_eqb m n then Some r else find_tag t n
  end.

Fixpoint find_seg_rev (segs : list (N * str)) (seg : str) : option N :=
  match segs with
  | [] => None
  | (r, s) :: t => if str_eqb s seg then Some r else find_seg_rev t seg
  end.

Fixpoint find_sum (sums : list ((str * N) * summary)) (k : str) (r : N) : option summary :=
  match sums with
  | [] => None
  | ((k', r'), s) :: t => if str_eqb k' k && (r' =? r) then Some s else find_sum t k r
  end.

(** Resolver.resolveProject (resolveProjectRevision + FetchProject + LoadConfigFile) *)
Definition resolve_project (U : universe) (n : node) : option summary :=
  if negb (in_repo U (fst n)) then None
  else
    let r := match pseudo_seg_of (snd n) with
             | Some seg => find_seg_rev (u_segs U) seg
             | None => find_tag (u_tags U) n
             end in
    match r with
    | None => None
    | Some r => find_sum (u_sums U) (trim_path_version (fst n)) r
    end.

Definition target : node := ([], VRoot).

(** Reqs.Required *)
Definition u_required (U : universe) (rootreqs : list node) (n : node) : option (list node) :=
  match fst n with
  | [] => Some rootreqs
  | _ => match resolve_project U n with Some s => Some (s_reqs s) | None => None end
  end.

(** mvs.BuildList(ctx, {root}, newReqs(root, resolver)) *)
Definition build_list (pick : list node -> nat) (fuel : nat) (U : universe) (rootreqs : list node)
  : outcome (list node) :=
  build_list_gen (u_required U rootreqs) None pick fuel target.

(** ** dawn's BuildList: the path -> version map, rendered sorted by path *)
Fixpoint map_set (m : list (str * version)) (p : str) (v : version) : list (str * version) :=
  match m with
  | [] => [(p, v)]
  | (q, w) :: m' => if str_eqb q p then (q, v) :: m'
                    else if str_ltb q p then (q, w) :: map_set m' p v
                    else (p, v) :: m
  end.

Definition to_map (l : list node) : list (str * version) :=
  fold_left (fun m n => map_set m (fst n) (snd n)) l [].

(** the root configuration: requirement name -> (path, version), in the iteration order of the Go map *)
Definition config := list (str * node).

Definition dawn_build_list (pick : list node -> nat) (fuel : nat) (U : universe) (root : config)
  : outcome (list (str * version)) :=
  match build_list pick fuel U (map snd root) with
  | Ok l => Ok (to_map l)
  | Err => Err
  | Panic => Panic
  | OutOfFuel => OutOfFuel
  end.

(** a fuel that suffices for every exploration over [U] from [rootreqs] (proved in Proofs_C10):
    one more than the number of nodes that can ever be added to the work list *)
Definition all_reqs (U : universe) : list node := flat_map (fun e => s_reqs (snd e)) (u_sums U).

Definition u_nodes (U : universe) (rootreqs : list node) : list node :=
  target :: rootreqs ++ all_reqs U.

Definition u_fuel (U : universe) (rootreqs : list node) : nat := S (length (u_nodes U rootreqs)).
