(** transformReqs: requirement names. *)
From Dawn Require Import Mvs.VersionProofs Mvs.Spec Mvs.Proofs_Base Mvs.Proofs_C10.

Definition key_lt (a b : str * node) : Prop := str_ltb (fst a) (fst b) = true.
Definition csorted (c : config) : Prop := StronglySorted key_lt c.

Lemma cfg_get_set c n v m : cfg_get (cfg_set c n v) m = if str_eqb n m then Some v else cfg_get c m.
Proof.
  induction c as [|[k w] c IH]; simpl.
  - destruct (str_eqb n m); auto.
  - destruct (str_eqb_spec k n).
    + subst. simpl. destruct (str_eqb n m); auto.
    + destruct (str_ltb k n); simpl.
      * rewrite IH. destruct (str_eqb_spec k m), (str_eqb_spec n m); subst; congruence.
      * destruct (str_eqb n m); auto.
Qed.

Lemma cfg_set_In c n v e : In e (cfg_set c n v) -> e = (n, v) \/ In e c.
Proof.
  induction c as [|[k w] c IH]; simpl; [intuition|].
  destruct (str_eqb_spec k n); [subst; simpl; intuition|].
  destruct (str_ltb k n); simpl; intuition.
Qed.

Lemma cfg_set_sorted c n v : csorted c -> csorted (cfg_set c n v).
Proof.
  unfold csorted. induction c as [|[k w] c IH]; simpl; intros S.
  - constructor; constructor.
  - apply StronglySorted_inv in S. destruct S as [S F]. rewrite Forall_forall in F.
    destruct (str_eqb_spec k n).
    + subst. constructor; auto. apply Forall_forall. intros e He. apply (F e He).
    + destruct (str_ltb k n) eqn:L.
      * constructor; auto. apply Forall_forall. intros e He. apply cfg_set_In in He.
        destruct He as [He|He]; [subst; exact L | apply (F e He)].
      * assert (L' : str_ltb n k = true).
        { destruct (str_ltb n k) eqn:L2; auto. exfalso. apply n0. symmetry. now apply str_ltb_total. }
        constructor; [constructor; auto; now apply Forall_forall|]. constructor; [exact L'|].
        apply Forall_forall. intros e He. unfold key_lt in *. simpl. eapply str_ltb_trans; [exact L'|apply (F e He)].
Qed.

Lemma cfg_In_get c n x : csorted c -> (In (n, x) c <-> cfg_get c n = Some x).
Proof.
  unfold csorted. induction c as [|[k w] c IH]; simpl; intros S; [split; [tauto|discriminate]|].
  apply StronglySorted_inv in S. destruct S as [S F]. rewrite Forall_forall in F. specialize (IH S).
  destruct (str_eqb_spec k n).
  - subst. split.
    + intros [H|H]; [congruence|]. pose proof (F _ H) as X. unfold key_lt in X. simpl in X.
      now rewrite str_ltb_irrefl in X.
    + intros H; inversion H; auto.
  - rewrite <- IH. split; [intros [H|H]; [congruence|auto] | auto].
Qed.

Lemma csorted_nodup_keys c : csorted c -> NoDup (map fst c).
Proof.
  unfold csorted. induction c as [|e c IH]; simpl; intros S; [constructor|].
  apply StronglySorted_inv in S. destruct S as [S F]. constructor; auto.
  intros Hin. apply in_map_iff in Hin. destruct Hin as (x & E & Hx).
  rewrite Forall_forall in F. pose proof (F _ Hx) as X. unfold key_lt in X. rewrite E in X.
  now rewrite str_ltb_irrefl in X.
Qed.

(** the inner loop: every name of the path is bound to [v] *)
Lemma fold_names_get names v : forall c m,
  cfg_get (fold_left (fun c n => cfg_set c n v) names c) m
  = if existsb (str_eqb m) names then Some v else cfg_get c m.
Proof.
  induction names as [|n names IH]; intros c m; simpl; auto.
  rewrite IH, cfg_get_set. rewrite (str_eqb_sym m n). destruct (str_eqb n m); simpl; auto.
  destruct (existsb (str_eqb m) names); auto.
Qed.

Lemma fold_names_sorted names v : forall c, csorted c -> csorted (fold_left (fun c n => cfg_set c n v) names c).
Proof. induction names; simpl; auto. intros. apply IHnames. now apply cfg_set_sorted. Qed.

Lemma existsb_str_In m names : existsb (str_eqb m) names = true <-> In m names.
Proof.
  rewrite existsb_exists. split.
  - intros (x & H1 & H2). destruct (str_eqb_spec m x); [subst; auto|discriminate].
  - intros H. exists m. split; auto. apply str_eqb_refl.
Qed.

Definition ko_step (root : config) (c : config) (v : node) : config :=
  match fst v with
  | [] => c
  | _ => fold_left (fun c n => cfg_set c n v) (names_of root (fst v)) c
  end.

Lemma keep_old_fold root newv : keep_old root newv = fold_left (ko_step root) newv [].
Proof. reflexivity. Qed.

Lemma ko_step_get root c v m :
  cfg_get (ko_step root c v) m
  = if (match fst v with [] => false | _ => true end) && existsb (str_eqb m) (names_of root (fst v))
    then Some v else cfg_get c m.
Proof.
  unfold ko_step. destruct (fst v) eqn:E; simpl; auto. now rewrite fold_names_get.
Qed.

Lemma ko_step_sorted root c v : csorted c -> csorted (ko_step root c v).
Proof. unfold ko_step. destruct (fst v); auto. apply fold_names_sorted. Qed.

(** a name of the root configuration belongs to one path *)
Lemma names_of_path root n p q : names_unique root -> In n (names_of root p) -> In n (names_of root q) -> p = q.
Proof.
  unfold names_unique, names_of. intros ND H1 H2.
  apply in_map_iff in H1. destruct H1 as ([n1 [p1 v1]] & E1 & F1). apply filter_In in F1. destruct F1 as [F1 G1].
  apply in_map_iff in H2. destruct H2 as ([n2 [p2 v2]] & E2 & F2). apply filter_In in F2. destruct F2 as [F2 G2].
  simpl in *. subst n1 n2.
  destruct (str_eqb_spec p1 p); [|discriminate]. destruct (str_eqb_spec p2 q); [|discriminate]. subst.
  clear G1 G2. induction root as [|[k w] root IH]; simpl in *; [tauto|]. inversion ND; subst.
  destruct F1 as [F1|F1], F2 as [F2|F2].
  - congruence.
  - inversion F1; subst. exfalso. apply H1. now apply (in_map fst _ (n, (q, v2))).
  - inversion F2; subst. exfalso. apply H1. now apply (in_map fst _ (n, (p, v1))).
  - auto.
Qed.

Lemma keep_old_spec root newv : names_unique root -> NoDup (map fst newv) ->
  forall acc n x,
    cfg_get (fold_left (ko_step root) newv acc) n = Some x <->
    ((In x newv /\ fst x <> [] /\ In n (names_of root (fst x))) \/
     (cfg_get acc n = Some x /\ forall y, In y newv -> fst y <> [] -> ~ In n (names_of root (fst y)))).
Proof.
  intros NU. induction newv as [|v newv IH]; intros ND acc n x; simpl.
  - split; [intros H; right; split; auto | intros [[[] _]|[H _]]; auto].
  - inversion ND; subst. rewrite (IH H2). rewrite ko_step_get.
    destruct (match fst v with [] => false | _ => true end) eqn:NE; simpl.
    + assert (Hv : fst v <> []) by (destruct (fst v); [discriminate | intro; discriminate]).
      destruct (existsb (str_eqb n) (names_of root (fst v))) eqn:EX.
      * apply existsb_str_In in EX. split.
        -- intros [(A & B & C)|(A & B)]; [left; auto|]. inversion A; subst. left. auto.
        -- intros [([A|A] & B & C)|(A & B)].
           ++ subst. right. split; auto. intros y Hy Hne Hn.
              assert (fst y = fst x) by (eapply names_of_path; eauto). apply H1. rewrite <- H. now apply in_map.
           ++ left. auto.
           ++ exfalso. eapply (B v); eauto.
      * assert (EX' : ~ In n (names_of root (fst v))) by (intros X; apply existsb_str_In in X; congruence).
        split.
        -- intros [(A & B & C)|(A & B)]; [left; auto|]. right. split; auto.
           intros y [Hy|Hy]; [subst; auto | auto].
        -- intros [([A|A] & B & C)|(A & B)]; [subst; tauto | left; auto | right; split; auto].
    + assert (Hv : fst v = []) by (destruct (fst v); [auto | discriminate]).
      split.
      * intros [(A & B & C)|(A & B)]; [left; auto|]. right. split; auto.
        intros y [Hy|Hy]; [subst; congruence | auto].
      * intros [([A|A] & B & C)|(A & B)]; [subst; congruence | left; auto | right; split; auto].
Qed.

Lemma keep_old_sorted root newv : forall acc, csorted acc -> csorted (fold_left (ko_step root) newv acc).
Proof. induction newv; simpl; auto. intros. apply IHnewv. now apply ko_step_sorted. Qed.

Lemma fresh_name_free fuel : forall name n suffix c r, fresh_name fuel name n suffix c = Some r -> cfg_get c r = None.
Proof.
  induction fuel as [|f IH]; simpl; intros; [discriminate|].
  destruct (cfg_get c n) eqn:E; [eapply IH; eauto | congruence].
Qed.

Local Opaque fresh_name.
Lemma add_fresh_spec U root newv : forall c c',
  add_fresh U root newv c = Ok c' -> csorted c ->
  csorted c' /\
  (forall n x, cfg_get c n = Some x -> cfg_get c' n = Some x) /\
  (forall n x, cfg_get c' n = Some x ->
               cfg_get c n = Some x \/ (In x newv /\ fst x <> [] /\ names_of root (fst x) = [] /\ cfg_get c n = None)) /\
  (forall x, In x newv -> fst x <> [] -> names_of root (fst x) = [] -> exists n, cfg_get c' n = Some x /\ cfg_get c n = None).
Proof.
  induction newv as [|v newv IH]; intros c c' H S; simpl in H.
  - inversion H; subst. splits; auto. intros x [].
  - destruct (fst v) as [|c0 p0] eqn:Ev.
    + destruct (IH c c' H S) as (A & B & C & D). splits; auto.
      * intros n x Hx. destruct (C n x Hx) as [X|(X1 & X2 & X3 & X4)]; auto. right. splits; auto. now right.
      * intros x [Hx|Hx] Hne; [subst; congruence | auto].
    + rewrite <- Ev in *. assert (Hne : fst v <> []) by (rewrite Ev; discriminate).
      destruct (names_of root (fst v)) as [|nm0 nms] eqn:En.
      * destruct (resolve_project U v) as [pr|]; [|discriminate]. cbv zeta in H.
        match type of H with context [fresh_name ?f ?a ?b ?s c] => destruct (fresh_name f a b s c) as [nm|] eqn:Ef end;
          [|discriminate].
        apply fresh_name_free in Ef.
        destruct (IH _ c' H (cfg_set_sorted c nm v S)) as (A & B & C & D). splits; auto.
        -- intros n x Hx. apply B. rewrite cfg_get_set. destruct (str_eqb_spec nm n); [subst; congruence|auto].
        -- intros n x Hx. destruct (C n x Hx) as [X|(X1 & X2 & X3 & X4)].
           ++ rewrite cfg_get_set in X. destruct (str_eqb_spec nm n); [|auto]. inversion X; subst.
              right. splits; auto. now left.
           ++ rewrite cfg_get_set in X4. destruct (str_eqb_spec nm n); [discriminate|]. right. splits; auto. now right.
        -- intros x [Hx|Hx] Hnx Hno.
           ++ subst x. exists nm. split; auto. apply B. rewrite cfg_get_set. now rewrite str_eqb_refl.
           ++ destruct (D x Hx Hnx Hno) as (n & N1 & N2). exists n. split; auto.
              rewrite cfg_get_set in N2. destruct (str_eqb nm n); [discriminate|auto].
      * destruct (IH c c' H S) as (A & B & C & D). splits; auto.
        -- intros n x Hx. destruct (C n x Hx) as [X|(X1 & X2 & X3 & X4)]; auto. right. splits; auto. now right.
        -- intros x [Hx|Hx] Hnx Hno; [subst; congruence | auto].
Qed.
Local Transparent fresh_name.

Lemma in_names_of root n p v : In (n, (p, v)) root -> In n (names_of root p).
Proof.
  intros H. unfold names_of. apply in_map_iff. exists (n, (p, v)). split; auto.
  apply filter_In. split; auto. simpl. apply str_eqb_refl.
Qed.

Theorem transform_spec U root (tx : list node -> outcome (list node)) c' newv :
  names_unique root -> NoDup (map fst newv) -> (forall x, In x newv -> fst x <> []) ->
  tx (map snd root) = Ok newv -> transform_reqs U root tx = Ok c' ->
  csorted c' /\
  same_set (map snd c') newv /\
  (forall n p v0 v, In (n, (p, v0)) root -> In (p, v) newv -> cfg_get c' n = Some (p, v)) /\
  (forall x, In x newv -> names_of root (fst x) = [] ->
             exists n, cfg_get c' n = Some x /\ cfg_get (keep_old root newv) n = None).
Proof.
  intros NU ND NE Etx H. unfold transform_reqs in H. rewrite Etx in H. simpl in H.
  assert (S0 : csorted (keep_old root newv)) by (rewrite keep_old_fold; apply keep_old_sorted; constructor).
  destruct (add_fresh_spec U root newv _ _ H S0) as (A & B & C & D).
  pose proof (keep_old_spec root newv NU ND []) as K. rewrite <- keep_old_fold in K.
  splits; auto.
  - intros x. split.
    + intros Hx. apply in_map_iff in Hx. destruct Hx as ([n y] & E & Hy). simpl in E. subst y.
      apply (cfg_In_get c' n x A) in Hy. destruct (C n x Hy) as [X|(X & _)]; auto.
      apply K in X. destruct X as [(X & _)|(X & _)]; auto. discriminate.
    + intros Hx. assert (exists n, cfg_get c' n = Some x) as (n & Hn).
      { destruct (names_of root (fst x)) as [|n ns] eqn:En.
        - destruct (D x Hx (NE x Hx) En) as (n & N1 & _). eauto.
        - exists n. apply B. apply K. left. splits; auto. rewrite En. now left. }
      apply (cfg_In_get c' n x A) in Hn. now apply (in_map snd _ (n, x)).
  - intros n p v0 v Hr Hv. apply B. apply K. left. splits; auto; try apply (NE (p, v) Hv).
    simpl. eapply in_names_of; eauto.
Qed.
