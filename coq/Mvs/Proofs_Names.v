(** transformReqs: requirement names. *)
From Dawn Require Import Mvs.VersionProofs Mvs.Spec Mvs.Proofs_Base Mvs.Proofs_C10.

Definition key_lt (a b : str * node) : Prop := str_ltb (fst a) (fst b) = true.
Definition csorted (c : config) : Prop := StronglySorted key_lt c.

Lemma cfg_get_set c n v m : cfg_get (cfg_set c n v) m = if str_eqb n m then Some v else cfg_get c m.
Proof.
  induction c as [|[k w] c IH]; simpl.
  - destruct (str_eqb n m); auto.
  - destruct (str_eqb_spec k n).
    + subst. simpl. destruct (str_eqb n m); auto.
    + destruct (str_ltb k n); simpl.
      * rewrite IH. destruct (str_eqb_spec k m), (str_eqb_spec n m); subst; congruence.
      * destruct (str_eqb n m); auto.
Qed.

Lemma cfg_set_In c n v e : In e (cfg_set c n v) -> e = (n, v) \/ In e c.
Proof.
  induction c as [|[k w] c IH]; simpl; [intuition|].
  destruct (str_eqb_spec k n); [subst; simpl; intuition|].
  destruct (str_ltb k n); simpl; intuition.
Qed.

Lemma cfg_set_sorted c n v : csorted c -> csorted (cfg_set c n v).
Proof.
  unfold csorted. induction c as [|[k w] c IH]; simpl; intros S.
  - constructor; constructor.
  - apply StronglySorted_inv in S. destruct S as [S F]. rewrite Forall_forall in F.
    destruct (str_eqb_spec k n).
    + subst. constructor; auto. apply Forall_forall. intros e He. apply (F e He).
    + destruct (str_ltb k n) eqn:L.
      * constructor; auto. apply Forall_forall. intros e He. apply cfg_set_In in He.
        destruct He as [He|He]; [subst; exact L | apply (F e He)].
      * assert (L' : str_ltb n k = true).
        { destruct (str_ltb n k) eqn:L2; auto. exfalso. apply n0. symmetry. now apply str_ltb_total. }
        constructor; [constructor; auto; now apply Forall_forall|]. constructor; [exact L'|].
        apply Forall_forall. intros e He. unfold key_lt in *. simpl. eapply str_ltb_trans; [exact L'|apply (F e He)].
Qed.

Lemma cfg_In_get c n x : csorted c -> (In (n, x) c <-> cfg_get c n = Some x).
Proof.
  unfold csorted. induction c as [|[k w] c IH]; simpl; intros S; [split; [tauto|discriminate]|].
  apply StronglySorted_inv in S. destruct S as [S F]. rewrite Forall_forall in F. specialize (IH S).
  destruct (str_eqb_spec k n).
  - subst. split.
    + intros [H|H]; [congruence|]. pose proof (F _ H) as X. unfold key_lt in X. simpl in X.
      now rewrite str_ltb_irrefl in X.
    + intros H; inversion H; auto.
  - rewrite <- IH. split; [intros [H|H]; [congruence|auto] | auto].
Qed.

Lemma csorted_nodup_keys c : csorted c -> NoDup (map fst c).
Proof.
  unfold csorted. induction c as [|e c IH]; simpl; intros S; [constructor|].
  apply StronglySorted_inv in S. destruct S as [S F]. constructor; auto.
  intros Hin. apply in_map_iff in Hin. destruct Hin as (x & E & Hx).
  rewrite Forall_forall in F. pose proof (F _ Hx) as X. unfold key_lt in X. rewrite E in X.
  now rewrite str_ltb_irrefl in X.
Qed.

(** the inner loop: every name of the path is bound to [v] *)
Lemma fold_names_get names v : forall c m,
  cfg_get (fold_left (fun c n => cfg_set c n v) names c) m
  = if existsb (str_eqb m) names then Some v else cfg_get c m.
Proof.
  induction names as [|n names IH]; intros c m; simpl; auto.
  rewrite IH, cfg_get_set. rewrite (str_eqb_sym m n). destruct (str_eqb n m); simpl; auto.
  destruct (existsb (str_eqb m) names); auto.
Qed.

Lemma fold_names_sorted names v : forall c, csorted c -> csorted (fold_left (fun c n => cfg_set c n v) names c).
Proof. induction names; simpl; auto. intros. apply IHnames. now apply cfg_set_sorted. Qed.

Lemma existsb_str_In m names : existsb (str_eqb m) names = true <-> In m names.
Proof.
  rewrite existsb_exists. split.
  - intros (x & H1 & H2). destruct (str_eqb_spec m x); [subst; auto|discriminate].
  - intros H. exists m. split; auto. apply str_eqb_refl.
Qed.

Definition ko_step (root : config) (c : config) (v : node) : config :=
  match fst v with
  | [] => c
  | _ => fold_left (fun c n => cfg_set c n v) (names_of root (fst v)) c
  end.

Lemma ko_step_get root c v m :
  cfg_get (ko_step root c v) m
  = if (match fst v with [] => false | _ => true end) && existsb (str_eqb m) (names_of root (fst v))
    then Some v else cfg_get c m.
Proof.
  unfold ko_step. destruct (fst v) eqn:E; simpl; auto. now rewrite fold_names_get.
Qed.

Lemma ko_step_sorted root c v : csorted c -> csorted (ko_step root c v).
Proof. unfold ko_step. destruct (fst v); auto. apply fold_names_sorted. Qed.

(** a name of the root configuration belongs to one path *)
Lemma names_of_path root n p q : names_unique root -> In n (names_of root p) -> In n (names_of root q) -> p = q.
Proof.
  unfold names_unique, names_of. intros ND H1 H2.
  apply in_map_iff in H1. destruct H1 as ([n1 [p1 v1]] & E1 & F1). apply filter_In in F1. destruct F1 as [F1 G1].
  apply in_map_iff in H2. destruct H2 as ([n2 [p2 v2]] & E2 & F2). apply filter_In in F2. destruct F2 as [F2 G2].
  simpl in *. subst n1 n2.
  destruct (str_eqb_spec p1 p); [|discriminate]. destruct (str_eqb_spec p2 q); [|discriminate]. subst.
  clear G1 G2. induction root as [|[k w] root IH]; simpl in *; [tauto|]. inversion ND; subst.
  destruct F1 as [F1|F1], F2 as [F2|F2].
  - congruence.
  - inversion F1; subst. exfalso. apply H1. now apply (in_map fst _ (n, (q, v2))).
  - inversion F2; subst. exfalso. apply H1. now apply (in_map fst _ (n, (p, v1))).
  - auto.
Qed.

Lemma keep_old_spec root newv : names_unique root -> NoDup (map fst newv) ->
  forall acc n x,
    cfg_get (fold_left (ko_step root) newv acc) n = Some x <->
    ((In x newv /\ fst x <> [] /\ In n (names_of root (fst x))) \/
     (cfg_get acc n = Some x /\ forall y, In y newv -> fst y <> [] -> ~ In n (names_of root (fst y)))).
Proof.
  intros NU. induction newv as [|v newv IH]; intros ND acc n x; simpl.
  - split; [intros H; right; split; auto | intros [[[] _]|[H _]]; auto].
  - inversion ND; subst. rewrite (IH H2). rewrite ko_step_get.
    destruct (match fst v with [] => false | _ => true end) eqn:NE; simpl.
    + assert (Hv : fst v <> []) by (destruct (fst v); [discriminate | intro; discriminate]).
      destruct (existsb (str_eqb n) (names_of root (fst v))) eqn:EX.
      * apply existsb_str_In in EX. split.
        -- intros [(A & B & C)|(A & B)]; [left; auto|]. inversion A; subst. left. auto.
        -- intros [([A|A] & B & C)|(A & B)].
           ++ subst. right. split; auto. intros y Hy Hne Hn.
              assert (fst y = fst x) by (eapply names_of_path; eauto). apply H1. rewrite <- H. now apply in_map.
           ++ left. auto.
           ++ exfalso. eapply (B v); eauto.
      * assert (EX' : ~ In n (names_of root (fst v))) by (intros X; apply existsb_str_In in X; congruence).
        split.
        -- intros [(A & B & C)|(A & B)]; [left; auto|]. right. split; auto.
           intros y [Hy|Hy]; [subst; auto | auto].
        -- intros [([A|A] & B & C)|(A & B)]; [subst; tauto | left; auto | right; split; auto].
    + assert (Hv : fst v = []) by (destruct (fst v); [auto | discriminate]).
      split.
      * intros [(A & B & C)|(A & B)]; [left; auto|]. right. split; auto.
        intros y [Hy|Hy]; [subst; congruence | auto].
      * intros [([A|A] & B & C)|(A & B)]; [subst; congruence | left; auto | right; split; auto].
Qed.

Lemma keep_old_sorted root newv : forall acc, csorted acc -> csorted (fold_left (ko_step root) newv acc).
Proof. induction newv; simpl; auto. intros. apply IHnewv. now apply ko_step_sorted. Qed.

(** ** the [highest] map *)
Lemma sem_cmp_refl v : sem_cmp v v = Eq.
Proof. destruct v; simpl; auto. apply (good_refl _ good_sv). Qed.

Lemma sem_cmp_vlt a b x y : a = VSem x -> b = VSem y -> is_lt (sem_cmp a b) = vlt a b.
Proof. intros; subst; reflexivity. Qed.

(** [highest_from] never invents a version *)
Lemma highest_from_in p l : forall cur h,
  highest_from p l cur = Some h -> cur = Some h \/ In (p, h) l.
Proof.
  induction l as [|[q w] l IH]; simpl; intros cur h H; auto.
  apply IH in H. destruct H as [H|H]; [|auto].
  destruct (str_eqb_spec q p); [subst q|auto].
  destruct cur as [c|].
  - destruct (is_lt (sem_cmp c w)); auto. inversion H; subst. auto.
  - inversion H; subst. auto.
Qed.

Lemma highest_from_some p l : forall cur, cur <> None -> highest_from p l cur <> None.
Proof.
  induction l as [|[q w] l IH]; simpl; intros cur H; auto. apply IH.
  destruct (str_eqb q p); auto. destruct cur as [c|]; [|discriminate].
  destruct (is_lt (sem_cmp c w)); discriminate.
Qed.

Lemma highest_from_present p l v : In (p, v) l -> forall cur, highest_from p l cur <> None.
Proof.
  induction l as [|[q w] l IH]; simpl; [tauto|]. intros [H|H] cur.
  - inversion H; subst. rewrite str_eqb_refl. apply highest_from_some.
    destruct cur as [c|]; [destruct (is_lt (sem_cmp c v))|]; discriminate.
  - now apply IH.
Qed.

(** with semantic versions throughout, the result is an upper bound of [cur] and of every entry of the path *)
Lemma highest_from_ge p l : (forall x, In x l -> exists s, snd x = VSem s) ->
  forall cur h, (forall c, cur = Some c -> exists s, c = VSem s) ->
  highest_from p l cur = Some h ->
  (forall c, cur = Some c -> vle c h = true) /\ (forall v, In (p, v) l -> vle v h = true).
Proof.
  induction l as [|[q w] l IH]; simpl; intros WF cur h WC H.
  - subst cur. split; [intros c E; inversion E; apply vle_refl | tauto].
  - assert (WF' : forall x, In x l -> exists s, snd x = VSem s) by (intros; apply WF; auto).
    destruct (WF (q, w) (or_introl eq_refl)) as [sw Esw]. simpl in Esw.
    destruct (str_eqb_spec q p) as [E|NE].
    + subst q. destruct cur as [c|].
      * destruct (WC c eq_refl) as [sc Esc].
        rewrite (sem_cmp_vlt c w sc sw Esc Esw) in H.
        destruct (vlt c w) eqn:L.
        -- destruct (IH WF' (Some w) h) as [A B]; auto. { intros c0 E0; inversion E0; subst; eauto. }
           split.
           ++ intros c0 E0; inversion E0; subst c0. eapply vle_trans; [apply vlt_vle; exact L | now apply A].
           ++ intros v [Hv|Hv]; [inversion Hv; subst; now apply A | now apply B].
        -- destruct (IH WF' (Some c) h) as [A B]; auto.
           split; auto. intros v [Hv|Hv]; [|now apply B]. inversion Hv; subst v.
           eapply vle_trans; [|apply (A c eq_refl)]. rewrite vle_iff. now rewrite L.
      * destruct (IH WF' (Some w) h) as [A B]; auto. { intros c0 E0; inversion E0; subst; eauto. }
        split; [discriminate|]. intros v [Hv|Hv]; [inversion Hv; subst; now apply A | now apply B].
    + destruct (IH WF' cur h WC H) as [A B]. split; auto.
      intros v [Hv|Hv]; [inversion Hv; congruence | now apply B].
Qed.

(** the characterisation: the highest version of [p] in [l] is an entry of [p] that no entry of [p] exceeds *)
Theorem highest_spec p l h : (forall x, In x l -> exists s, snd x = VSem s) ->
  highest_from p l None = Some h <-> (In (p, h) l /\ forall v, In (p, v) l -> vle v h = true).
Proof.
  intros WF. split.
  - intros H. split.
    + apply highest_from_in in H. destruct H; [discriminate|auto].
    + apply (highest_from_ge p l WF None h); [discriminate|auto].
  - intros [Hin Hmax]. destruct (highest_from p l None) as [h'|] eqn:E.
    + f_equal. apply vle_antisym.
      * pose proof E as E'. apply highest_from_in in E'. destruct E' as [E'|E']; [discriminate|]. now apply Hmax.
      * destruct (highest_from_ge p l WF None h') as [_ B]; [discriminate|auto|]. now apply B.
    + exfalso. eapply highest_from_present; eauto.
Qed.

Lemma highest_of_in l p v : In (p, v) l -> In (p, highest_of l p) l.
Proof.
  intros H. unfold highest_of. destruct (highest_from p l None) as [h|] eqn:E.
  - apply highest_from_in in E. destruct E; [discriminate|auto].
  - exfalso. eapply highest_from_present; eauto.
Qed.

(** one version per path: that version *)
Lemma highest_from_fun p w l : forall cur,
  (forall x, In x l -> fst x = p -> snd x = w) -> (cur = None \/ cur = Some w) ->
  (cur = None -> exists x, In x l /\ fst x = p) ->
  highest_from p l cur = Some w.
Proof.
  induction l as [|[q u] l IH]; simpl; intros cur F C N.
  - destruct C as [C|C]; auto. destruct (N C) as (x & [] & _).
  - destruct (str_eqb_spec q p) as [E|NE].
    + subst q. assert (u = w) by (apply (F (p, u)); auto). subst u.
      apply IH; auto.
      * right. destruct C as [C|C]; subst cur; auto. now rewrite sem_cmp_refl.
      * intros X. destruct C as [C|C]; subst cur; [discriminate|]. rewrite sem_cmp_refl in X. discriminate.
    + apply IH; auto. intros X. destruct (N X) as (x & [Hx|Hx] & Ex); [subst x; simpl in Ex; congruence|eauto].
Qed.

Lemma nodup_path_fun l : NoDup (map fst l) -> path_fun l.
Proof.
  induction l as [|a l IH]; simpl; intros ND x y Hx Hy E; [destruct Hx|]. inversion ND; subst.
  destruct Hx as [Hx|Hx], Hy as [Hy|Hy]; subst; auto.
  - exfalso. apply H1. rewrite E. now apply in_map.
  - exfalso. apply H1. rewrite <- E. now apply in_map.
  - apply IH; auto.
Qed.

Lemma highest_of_fun l p v : path_fun l -> In (p, v) l -> highest_of l p = v.
Proof.
  intros PF H. unfold highest_of. rewrite (highest_from_fun p v l None); auto.
  - intros x Hx Ex. assert (x = (p, v)) by (apply PF; auto). now subst x.
  - intros _. exists (p, v). auto.
Qed.

(** ** the first loop of transformReqs for an arbitrary computed list *)
Definition kstep (root : config) (g : str -> str -> node) (c : config) (v : node) : config :=
  match fst v with
  | [] => c
  | _ => fold_left (fun c n => cfg_set c n (g (fst v) n)) (names_of root (fst v)) c
  end.

Lemma keep_old_kfold root newv : keep_old root newv = fold_left (kstep root (keep_name root newv)) newv [].
Proof. reflexivity. Qed.

Lemma fold_names_get_gen names (h : str -> node) : forall c m,
  cfg_get (fold_left (fun c n => cfg_set c n (h n)) names c) m
  = if existsb (str_eqb m) names then Some (h m) else cfg_get c m.
Proof.
  induction names as [|n names IH]; intros c m; simpl; auto.
  rewrite IH, cfg_get_set. rewrite (str_eqb_sym m n). destruct (str_eqb_spec n m); simpl; auto.
  subst. destruct (existsb (str_eqb m) names); auto.
Qed.

Lemma fold_names_sorted_gen names (h : str -> node) :
  forall c, csorted c -> csorted (fold_left (fun c n => cfg_set c n (h n)) names c).
Proof. induction names; simpl; auto. intros. apply IHnames. now apply cfg_set_sorted. Qed.

Lemma kstep_get root g c v m :
  cfg_get (kstep root g c v) m
  = if (match fst v with [] => false | _ => true end) && existsb (str_eqb m) (names_of root (fst v))
    then Some (g (fst v) m) else cfg_get c m.
Proof.
  unfold kstep. destruct (fst v) as [|a0 p0] eqn:E; simpl; auto. now rewrite (fold_names_get_gen _ (g (a0 :: p0))).
Qed.

Lemma kstep_sorted root g c v : csorted c -> csorted (kstep root g c v).
Proof. unfold kstep. destruct (fst v) as [|a0 p0]; auto. apply (fold_names_sorted_gen _ (g (a0 :: p0))). Qed.

Lemma kfold_sorted root g l : forall acc, csorted acc -> csorted (fold_left (kstep root g) l acc).
Proof. induction l; simpl; auto. intros. apply IHl. now apply kstep_sorted. Qed.

Lemma keep_old_csorted root newv : csorted (keep_old root newv).
Proof. rewrite keep_old_kfold. apply kfold_sorted. constructor. Qed.

Definition names_n (root : config) (n : str) (y : node) : bool :=
  (match fst y with [] => false | _ => true end) && existsb (str_eqb n) (names_of root (fst y)).

Lemma names_n_true root n y : names_n root n y = true <-> (fst y <> [] /\ In n (names_of root (fst y))).
Proof.
  unfold names_n. rewrite andb_true_iff, existsb_str_In. split; intros [A B]; split; auto.
  - destruct (fst y); [discriminate | intro; discriminate].
  - destruct (fst y); [contradiction | reflexivity].
Qed.

(** a name is bound iff some entry of the list has its path; the value depends on the path and the name only *)
Lemma kfold_spec root g : names_unique root -> forall l acc n x,
  cfg_get (fold_left (kstep root g) l acc) n = Some x <->
  ((exists v, In v l /\ fst v <> [] /\ In n (names_of root (fst v)) /\ x = g (fst v) n) \/
   (cfg_get acc n = Some x /\ forall y, In y l -> fst y <> [] -> ~ In n (names_of root (fst y)))).
Proof.
  intros NU. induction l as [|v l IH]; intros acc n x; simpl.
  - split; [intros H; right; split; auto | intros [(v & [] & _)|[H _]]; auto].
  - rewrite IH. rewrite kstep_get. fold (names_n root n v). split.
    + intros [(y & Hy & A & B & C)|(A & B)].
      * left. exists y. splits; auto.
      * destruct (names_n root n v) eqn:Ev.
        -- apply names_n_true in Ev. destruct Ev as [E1 E2]. inversion A; subst x.
           left. exists v. splits; auto.
        -- right. split; auto. intros y [Hy|Hy] Hne Hn; [subst y|eapply B; eauto].
           assert (names_n root n v = true) by (apply names_n_true; auto). congruence.
    + intros [(y & [Hy|Hy] & A & B & C)|(A & B)].
      * subst y. destruct (existsb (names_n root n) l) eqn:EX.
        -- apply existsb_exists in EX. destruct EX as (z & Hz & Ez). apply names_n_true in Ez. destruct Ez as [Z1 Z2].
           left. exists z. splits; auto. rewrite C. f_equal. eapply names_of_path; eauto.
        -- right. split.
           ++ assert (names_n root n v = true) as -> by (apply names_n_true; auto). now rewrite C.
           ++ intros z Hz Z1 Z2. assert (names_n root n z = true) by (apply names_n_true; auto).
              assert (existsb (names_n root n) l = true) by (apply existsb_exists; eauto). congruence.
      * left. exists y. splits; auto.
      * right. split.
        -- destruct (names_n root n v) eqn:Ev; auto. apply names_n_true in Ev. destruct Ev. exfalso. eapply (B v); eauto.
        -- intros; eapply B; eauto.
Qed.

Lemma nodup_In_get (c : config) n x : NoDup (map fst c) -> In (n, x) c -> cfg_get c n = Some x.
Proof.
  induction c as [|[k w] c IH]; simpl; [tauto|]. intros ND [H|H]; inversion ND; subst.
  - inversion H; subst. now rewrite str_eqb_refl.
  - destruct (str_eqb_spec k n); [|auto]. subst. exfalso. apply H2. now apply (in_map fst _ (n, x)).
Qed.

Lemma cfg_get_In (c : config) n x : cfg_get c n = Some x -> In (n, x) c.
Proof.
  induction c as [|[k w] c IH]; simpl; [discriminate|].
  destruct (str_eqb_spec k n); [intros H; inversion H; subst; auto | auto].
Qed.

Lemma names_of_entry root n p : In n (names_of root p) -> exists v, In (n, (p, v)) root.
Proof.
  unfold names_of. intros H. apply in_map_iff in H. destruct H as ([n' [q v]] & E & F). simpl in E. subst n'.
  apply filter_In in F. destruct F as [F G]. simpl in G. destruct (str_eqb_spec q p); [subst; eauto | discriminate].
Qed.

Lemma mem_true n l : mem n l = true <-> In n l.
Proof. apply mem_In. Qed.

(** what [keep_name] yields for an old name of the path *)
Lemma keep_name_cases root newv n p v0 : names_unique root -> In (n, (p, v0)) root ->
  (In (p, v0) newv /\ keep_name root newv p n = (p, v0)) \/
  (~ In (p, v0) newv /\ keep_name root newv p n = (p, highest_of newv p)).
Proof.
  intros NU H. unfold keep_name. rewrite (nodup_In_get root n (p, v0) NU H).
  destruct (mem (p, v0) newv) eqn:M.
  - left. split; auto. now apply mem_In.
  - right. split; auto. now apply mem_false.
Qed.

(** the computed list holds one version per path: every old name of a path is bound to that entry *)
Lemma keep_name_fun root newv n v : names_unique root -> path_fun newv -> In v newv ->
  In n (names_of root (fst v)) -> keep_name root newv (fst v) n = v.
Proof.
  intros NU PF Hv Hn. apply names_of_entry in Hn. destruct Hn as (v0 & Hn). destruct v as [p w]. simpl in *.
  destruct (keep_name_cases root newv n p v0 NU Hn) as [[A ->]|[A ->]].
  - apply (PF (p, v0) (p, w)); auto.
  - f_equal. now apply highest_of_fun.
Qed.

Lemma fold_left_ext_in {A B} (f f' : A -> B -> A) l : (forall a b, In b l -> f a b = f' a b) ->
  forall acc, fold_left f l acc = fold_left f' l acc.
Proof.
  induction l as [|b l IH]; simpl; intros H acc; auto. rewrite H by auto. apply IH. intros; apply H; auto.
Qed.

(** ... so the loop is the plain "bind every old name of the entry's path to the entry" loop *)
Lemma keep_old_fold root newv : names_unique root -> NoDup (map fst newv) ->
  keep_old root newv = fold_left (ko_step root) newv [].
Proof.
  intros NU ND. rewrite keep_old_kfold. apply fold_left_ext_in. intros c v Hv.
  unfold kstep, ko_step. destruct (fst v) as [|a0 p0] eqn:E; auto. rewrite <- E.
  apply fold_left_ext_in. intros c0 n Hn. f_equal. apply keep_name_fun; auto. now apply nodup_path_fun.
Qed.

Lemma fresh_name_free fuel : forall name n suffix c r, fresh_name fuel name n suffix c = Some r -> cfg_get c r = None.
Proof.
  induction fuel as [|f IH]; simpl; intros; [discriminate|].
  destruct (cfg_get c n) eqn:E; [eapply IH; eauto | congruence].
Qed.

Local Opaque fresh_name.
Lemma add_fresh_spec U root newv : forall c c',
  add_fresh U root newv c = Ok c' -> csorted c ->
  csorted c' /\
  (forall n x, cfg_get c n = Some x -> cfg_get c' n = Some x) /\
  (forall n x, cfg_get c' n = Some x ->
               cfg_get c n = Some x \/ (In x newv /\ fst x <> [] /\ names_of root (fst x) = [] /\ cfg_get c n = None)) /\
  (forall x, In x newv -> fst x <> [] -> names_of root (fst x) = [] -> exists n, cfg_get c' n = Some x /\ cfg_get c n = None).
Proof.
  induction newv as [|v newv IH]; intros c c' H S; simpl in H.
  - inversion H; subst. splits; auto. intros x [].
  - destruct (fst v) as [|c0 p0] eqn:Ev.
    + destruct (IH c c' H S) as (A & B & C & D). splits; auto.
      * intros n x Hx. destruct (C n x Hx) as [X|(X1 & X2 & X3 & X4)]; auto. right. splits; auto. now right.
      * intros x [Hx|Hx] Hne; [subst; congruence | auto].
    + rewrite <- Ev in *. assert (Hne : fst v <> []) by (rewrite Ev; discriminate).
      destruct (names_of root (fst v)) as [|nm0 nms] eqn:En.
      * destruct (resolve_project U v) as [pr|]; [|discriminate]. cbv zeta in H.
        match type of H with context [fresh_name ?f ?a ?b ?s c] => destruct (fresh_name f a b s c) as [nm|] eqn:Ef end;
          [|discriminate].
        apply fresh_name_free in Ef.
        destruct (IH _ c' H (cfg_set_sorted c nm v S)) as (A & B & C & D). splits; auto.
        -- intros n x Hx. apply B. rewrite cfg_get_set. destruct (str_eqb_spec nm n); [subst; congruence|auto].
        -- intros n x Hx. destruct (C n x Hx) as [X|(X1 & X2 & X3 & X4)].
           ++ rewrite cfg_get_set in X. destruct (str_eqb_spec nm n); [|auto]. inversion X; subst.
              right. splits; auto. now left.
           ++ rewrite cfg_get_set in X4. destruct (str_eqb_spec nm n); [discriminate|]. right. splits; auto. now right.
        -- intros x [Hx|Hx] Hnx Hno.
           ++ subst x. exists nm. split; auto. apply B. rewrite cfg_get_set. now rewrite str_eqb_refl.
           ++ destruct (D x Hx Hnx Hno) as (n & N1 & N2). exists n. split; auto.
              rewrite cfg_get_set in N2. destruct (str_eqb nm n); [discriminate|auto].
      * destruct (IH c c' H S) as (A & B & C & D). splits; auto.
        -- intros n x Hx. destruct (C n x Hx) as [X|(X1 & X2 & X3 & X4)]; auto. right. splits; auto. now right.
        -- intros x [Hx|Hx] Hnx Hno; [subst; congruence | auto].
Qed.
Local Transparent fresh_name.

Lemma in_names_of root n p v : In (n, (p, v)) root -> In n (names_of root p).
Proof.
  intros H. unfold names_of. apply in_map_iff. exists (n, (p, v)). split; auto.
  apply filter_In. split; auto. simpl. apply str_eqb_refl.
Qed.

Theorem transform_spec U root (tx : list node -> outcome (list node)) c' newv :
  names_unique root -> NoDup (map fst newv) -> (forall x, In x newv -> fst x <> []) ->
  tx (map snd root) = Ok newv -> transform_reqs U root tx = Ok c' ->
  csorted c' /\
  same_set (map snd c') newv /\
  (forall n p v0 v, In (n, (p, v0)) root -> In (p, v) newv -> cfg_get c' n = Some (p, v)) /\
  (forall x, In x newv -> names_of root (fst x) = [] ->
             exists n, cfg_get c' n = Some x /\ cfg_get (keep_old root newv) n = None).
Proof.
  intros NU ND NE Etx H. unfold transform_reqs in H. rewrite Etx in H. simpl in H.
  assert (S0 : csorted (keep_old root newv)) by apply keep_old_csorted.
  destruct (add_fresh_spec U root newv _ _ H S0) as (A & B & C & D).
  pose proof (keep_old_spec root newv NU ND []) as K. rewrite <- (keep_old_fold root newv NU ND) in K.
  splits; auto.
  - intros x. split.
    + intros Hx. apply in_map_iff in Hx. destruct Hx as ([n y] & E & Hy). simpl in E. subst y.
      apply (cfg_In_get c' n x A) in Hy. destruct (C n x Hy) as [X|(X & _)]; auto.
      apply K in X. destruct X as [(X & _)|(X & _)]; auto. discriminate.
    + intros Hx. assert (exists n, cfg_get c' n = Some x) as (n & Hn).
      { destruct (names_of root (fst x)) as [|n ns] eqn:En.
        - destruct (D x Hx (NE x Hx) En) as (n & N1 & _). eauto.
        - exists n. apply B. apply K. left. splits; auto. rewrite En. now left. }
      apply (cfg_In_get c' n x A) in Hn. now apply (in_map snd _ (n, x)).
  - intros n p v0 v Hr Hv. apply B. apply K. left. splits; auto; try apply (NE (p, v) Hv).
    simpl. eapply in_names_of; eauto.
Qed.

(** ** the same for ANY computed list (paths may repeat - a root that names one path under several names with
    different versions, handed back unmerged by get's early returns):
    nothing is invented; every old name of a path that remains is bound to its own old requirement when the list
    holds exactly that, else to the path at the highest version the list holds for it; an old requirement that is
    handed back stays; a requirement on a new path gets a fresh name *)
Theorem transform_spec_any U root (tx : list node -> outcome (list node)) c' newv :
  names_unique root -> (forall x, In x newv -> fst x <> []) ->
  tx (map snd root) = Ok newv -> transform_reqs U root tx = Ok c' ->
  csorted c' /\
  incl (map snd c') newv /\
  (forall n p v0, In (n, (p, v0)) root -> In p (map fst newv) ->
                  cfg_get c' n = Some (if mem (p, v0) newv then (p, v0) else (p, highest_of newv p))) /\
  (forall n x, In (n, x) root -> In x newv -> cfg_get c' n = Some x) /\
  (forall x, In x newv -> names_of root (fst x) = [] ->
             exists n, cfg_get c' n = Some x /\ cfg_get (keep_old root newv) n = None).
Proof.
  intros NU NE Etx H. unfold transform_reqs in H. rewrite Etx in H. simpl in H.
  pose proof (keep_old_csorted root newv) as S0.
  destruct (add_fresh_spec U root newv _ _ H S0) as (A & B & C & D).
  pose proof (kfold_spec root (keep_name root newv) NU newv []) as K. rewrite <- keep_old_kfold in K.
  assert (P3 : forall n p v0, In (n, (p, v0)) root -> In p (map fst newv) ->
                  cfg_get c' n = Some (if mem (p, v0) newv then (p, v0) else (p, highest_of newv p))).
  { intros n p v0 Hr Hp. apply B. apply K. left.
    apply in_map_iff in Hp. destruct Hp as ([q w] & E & Hw). simpl in E. subst q.
    exists (p, w). splits; auto; try apply (NE (p, w) Hw).
    - simpl. eapply in_names_of; eauto.
    - simpl. unfold keep_name. now rewrite (nodup_In_get root n (p, v0) NU Hr). }
  splits; auto.
  - intros x Hx. apply in_map_iff in Hx. destruct Hx as ([n y] & E & Hy). simpl in E. subst y.
    apply (cfg_In_get c' n x A) in Hy. destruct (C n x Hy) as [X|(X & _)]; auto.
    apply K in X. destruct X as [(v & Hv & Hne & Hn & ->)|(X & _)]; [|discriminate].
    apply names_of_entry in Hn. destruct Hn as (v0 & Hn).
    destruct (keep_name_cases root newv n (fst v) v0 NU Hn) as [[I ->]|[I ->]]; auto.
    destruct v as [p w]. simpl. eapply highest_of_in; eauto.
  - intros n [p v0] Hr Hx. rewrite (P3 n p v0 Hr) by (apply (in_map fst _ (p, v0)); auto).
    assert (mem (p, v0) newv = true) as -> by (now apply mem_In). reflexivity.
Qed.

(** get's early returns hand the root's own requirement list back, possibly with one requirement on a new path in
    front: the old configuration is kept as it is (whatever versions its aliases carry) *)
Corollary transform_spec_unmerged U root (tx : list node -> outcome (list node)) c' extra :
  names_unique root -> (forall x, In x (extra ++ map snd root) -> fst x <> []) ->
  (forall x, In x extra -> names_of root (fst x) = []) ->
  tx (map snd root) = Ok (extra ++ map snd root) -> transform_reqs U root tx = Ok c' ->
  csorted c' /\ same_set (map snd c') (extra ++ map snd root) /\
  (forall n x, In (n, x) root -> cfg_get c' n = Some x).
Proof.
  intros NU NE EX Etx H.
  destruct (transform_spec_any U root tx c' _ NU NE Etx H) as (A & B & _ & D & F).
  assert (OLD : forall n x, In (n, x) root -> cfg_get c' n = Some x).
  { intros n x Hr. apply D; auto. apply in_app_iff. right. now apply (in_map snd _ (n, x)). }
  splits; auto. intros x. split; [apply B|]. intros Hx. apply in_app_iff in Hx. destruct Hx as [Hx|Hx].
  - destruct (F x) as (n & Hn & _); [apply in_app_iff; auto | auto |].
    apply (cfg_In_get c' n x A) in Hn. now apply (in_map snd _ (n, x)).
  - apply in_map_iff in Hx. destruct Hx as ([n y] & E & Hy). simpl in E. subst y.
    pose proof (OLD n x Hy) as G. apply (cfg_In_get c' n x A) in G. now apply (in_map snd _ (n, x)).
Qed.

(** the bindings of the old names do not depend on the order in which the computed list is scanned *)
Lemma csorted_ext_get (a b : config) : csorted a -> csorted b ->
  (forall n, cfg_get a n = cfg_get b n) -> a = b.
Proof.
  unfold csorted. revert b. induction a as [|[k w] a IH]; intros b SA SB E.
  - destruct b as [|[k' w'] b]; auto. specialize (E k'). simpl in E. rewrite str_eqb_refl in E. discriminate.
  - destruct b as [|[k' w'] b].
    + specialize (E k). simpl in E. rewrite str_eqb_refl in E. discriminate.
    + apply StronglySorted_inv in SA, SB. destruct SA as [SA FA], SB as [SB FB].
      rewrite Forall_forall in FA, FB.
      assert (HA : forall n x, In (n, x) a -> str_ltb k n = true) by (intros n x Hx; apply (FA _ Hx)).
      assert (HB : forall n x, In (n, x) b -> str_ltb k' n = true) by (intros n x Hx; apply (FB _ Hx)).
      assert (k = k').
      { pose proof (E k) as E1. pose proof (E k') as E2. simpl in E1, E2. rewrite !str_eqb_refl in *.
        destruct (str_eqb_spec k' k); [auto|]. destruct (str_eqb_spec k k'); [auto|].
        symmetry in E1. apply cfg_get_In in E1. apply cfg_get_In in E2.
        pose proof (HB _ _ E1) as L1. pose proof (HA _ _ E2) as L2.
        rewrite (str_ltb_asym _ _ L1) in L2. discriminate. }
      subst k'. pose proof (E k) as E1. simpl in E1. rewrite !str_eqb_refl in E1. inversion E1; subst w'.
      f_equal. apply IH; auto. intros n. specialize (E n). simpl in E.
      destruct (str_eqb_spec k n); [|auto]. subst n.
      destruct (cfg_get a k) eqn:GA.
      { apply cfg_get_In in GA. apply HA in GA. now rewrite str_ltb_irrefl in GA. }
      destruct (cfg_get b k) eqn:GB; auto.
      apply cfg_get_In in GB. apply HB in GB. now rewrite str_ltb_irrefl in GB.
Qed.

Lemma highest_of_perm l l' p : (forall x, In x l -> exists s, snd x = VSem s) -> Permutation l l' ->
  highest_of l p = highest_of l' p.
Proof.
  intros WF P. unfold highest_of.
  assert (WF' : forall x, In x l' -> exists s, snd x = VSem s).
  { intros x Hx. apply WF. eapply Permutation_in; [apply Permutation_sym; exact P | exact Hx]. }
  destruct (highest_from p l None) as [h|] eqn:E.
  - apply (highest_spec p l h WF) in E. destruct E as [E1 E2].
    assert (E' : highest_from p l' None = Some h).
    { apply (highest_spec p l' h WF'). split; [eapply Permutation_in; eauto|].
      intros v Hv. apply E2. eapply Permutation_in; [apply Permutation_sym; exact P | exact Hv]. }
    now rewrite E'.
  - destruct (highest_from p l' None) as [h'|] eqn:E'; auto.
    apply (highest_spec p l' h' WF') in E'. destruct E' as [E1 _].
    exfalso. eapply (highest_from_present p l h'); [|exact E].
    eapply Permutation_in; [apply Permutation_sym; exact P | exact E1].
Qed.

Theorem keep_old_order_independent root newv newv' :
  names_unique root -> (forall x, In x newv -> exists s, snd x = VSem s) -> Permutation newv newv' ->
  keep_old root newv = keep_old root newv'.
Proof.
  intros NU WF P. apply csorted_ext_get; try apply keep_old_csorted.
  assert (KN : forall p n, keep_name root newv p n = keep_name root newv' p n).
  { intros p n. unfold keep_name. rewrite (highest_of_perm newv newv' p WF P).
    destruct (cfg_get root n) as [old|]; auto.
    assert (mem old newv = mem old newv') as ->; auto.
    destruct (mem old newv) eqn:M1, (mem old newv') eqn:M2; auto.
    - apply mem_In in M1. apply mem_false in M2. exfalso. apply M2. eapply Permutation_in; eauto.
    - apply mem_In in M2. apply mem_false in M1. exfalso. apply M1.
      eapply Permutation_in; [apply Permutation_sym; exact P | exact M2]. }
  intros n.
  pose proof (kfold_spec root (keep_name root newv) NU newv [] n) as K1. rewrite <- keep_old_kfold in K1.
  pose proof (kfold_spec root (keep_name root newv') NU newv' [] n) as K2. rewrite <- keep_old_kfold in K2.
  assert (T : forall x, cfg_get (keep_old root newv) n = Some x <-> cfg_get (keep_old root newv') n = Some x).
  { intros x. rewrite K1, K2. split.
    - intros [(v & Hv & A & B & C)|(X & _)]; [|discriminate]. left. exists v. splits; auto.
      + eapply Permutation_in; eauto.
      + now rewrite <- KN.
    - intros [(v & Hv & A & B & C)|(X & _)]; [|discriminate]. left. exists v. splits; auto.
      + eapply Permutation_in; [apply Permutation_sym; exact P | exact Hv].
      + now rewrite KN. }
  destruct (cfg_get (keep_old root newv) n) as [x|] eqn:G1.
  - symmetry. now apply T.
  - destruct (cfg_get (keep_old root newv') n) as [x|] eqn:G2; auto. pose proof (proj2 (T x) eq_refl) as X. discriminate.
Qed.
