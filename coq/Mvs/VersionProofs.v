(** Order properties of the version comparison of Mvs/Version.v. *)
From Dawn Require Import Mvs.Version.

Record good {A} (c : A -> A -> comparison) : Prop := mkGood {
  g_eq : forall a b, c a b = Eq <-> a = b;
  g_anti : forall a b, c b a = CompOpp (c a b);
  g_trans : forall a b d, c a b = Lt -> c b d = Lt -> c a d = Lt }.

Lemma good_N : good N.compare.
Proof.
  split; intros.
  - apply N.compare_eq_iff.
  - apply N.compare_antisym.
  - rewrite N.compare_lt_iff in *. lia.
Qed.

Lemma good_refl {A} (c : A -> A -> comparison) : good c -> forall a, c a a = Eq.
Proof. intros G a. now apply (g_eq c G). Qed.

Lemma good_lex {A} (c : A -> A -> comparison) : good c -> good (lex_cmp c).
Proof.
  intros G. split.
  - induction a as [|x a IH]; intros [|y b]; simpl; split; intros H; try congruence; auto.
    + destruct (c x y) eqn:E; try discriminate. apply (g_eq c G) in E. apply IH in H. congruence.
    + inversion H; subst. rewrite (good_refl c G). now apply IH.
  - induction a as [|x a IH]; intros [|y b]; simpl; auto.
    rewrite (g_anti c G x y). destruct (c x y); simpl; auto.
  - induction a as [|x a IH]; intros [|y b] [|z d]; simpl; intros H1 H2; try congruence.
    destruct (c x y) eqn:E1; try discriminate.
    + apply (g_eq c G) in E1; subst y. destruct (c x z); auto. eapply IH; eauto.
    + destruct (c y z) eqn:E2; try discriminate.
      * apply (g_eq c G) in E2; subst z. now rewrite E1.
      * now rewrite (g_trans c G _ _ _ E1 E2).
Qed.

Lemma good_str : good str_cmp.
Proof. apply good_lex, good_N. Qed.

Lemma good_preid : good preid_cmp.
Proof.
  split.
  - intros [x|x] [y|y]; simpl; split; intros H; try congruence.
    + apply N.compare_eq_iff in H; congruence.
    + inversion H; apply N.compare_refl.
    + apply (g_eq _ good_str) in H; congruence.
    + inversion H; now apply (g_eq _ good_str).
  - intros [x|x] [y|y]; simpl; auto. apply N.compare_antisym. apply (g_anti _ good_str).
  - intros [x|x] [y|y] [z|z]; simpl; intros H1 H2; try congruence.
    + eapply (g_trans _ good_N); eauto.
    + eapply (g_trans _ good_str); eauto.
Qed.

Lemma good_ids : good ids_cmp.
Proof. apply good_lex, good_preid. Qed.

Lemma good_pre : good pre_cmp.
Proof.
  pose proof good_ids as G. split.
  - intros [|x a] [|y b]; simpl; split; intros H; try congruence; auto.
    + now apply (g_eq _ G) in H.
    + now apply (g_eq _ G).
  - intros [|x a] [|y b]; simpl; auto. apply (g_anti _ G (x :: a) (y :: b)).
  - intros [|x a] [|y b] [|z d]; simpl; intros H1 H2; try congruence.
    eapply (g_trans _ G (x :: a) (y :: b) (z :: d)); eauto.
Qed.

(** lexicographic product *)
Definition pair_cmp {A B} (ca : A -> A -> comparison) (cb : B -> B -> comparison) (x y : A * B) : comparison :=
  match ca (fst x) (fst y) with Eq => cb (snd x) (snd y) | r => r end.

Lemma good_pair {A B} (ca : A -> A -> comparison) (cb : B -> B -> comparison) :
  good ca -> good cb -> good (pair_cmp ca cb).
Proof.
  intros GA GB. unfold pair_cmp. split.
  - intros [a1 b1] [a2 b2]; simpl. split; intros H.
    + destruct (ca a1 a2) eqn:E; try discriminate. apply (g_eq _ GA) in E. apply (g_eq _ GB) in H. congruence.
    + inversion H; subst. rewrite (good_refl _ GA). now apply (g_eq _ GB).
  - intros [a1 b1] [a2 b2]; simpl. rewrite (g_anti _ GA a1 a2). destruct (ca a1 a2); simpl; auto. apply (g_anti _ GB).
  - intros [a1 b1] [a2 b2] [a3 b3]; simpl. intros H1 H2.
    destruct (ca a1 a2) eqn:E1; try discriminate.
    + apply (g_eq _ GA) in E1; subst. destruct (ca a2 a3); auto. eapply (g_trans _ GB); eauto.
    + destruct (ca a2 a3) eqn:E2; try discriminate.
      * apply (g_eq _ GA) in E2; subst. now rewrite E1.
      * now rewrite (g_trans _ GA _ _ _ E1 E2).
Qed.

Definition sv_tuple (s : semver) := (sv_major s, (sv_minor s, (sv_patch s, sv_pre s))).

Lemma sv_cmp_tuple a b :
  sv_cmp a b = pair_cmp N.compare (pair_cmp N.compare (pair_cmp N.compare pre_cmp)) (sv_tuple a) (sv_tuple b).
Proof. reflexivity. Qed.

Lemma sv_tuple_inj a b : sv_tuple a = sv_tuple b -> a = b.
Proof. destruct a, b; unfold sv_tuple; simpl; congruence. Qed.

Lemma good_sv : good sv_cmp.
Proof.
  assert (G : good (pair_cmp N.compare (pair_cmp N.compare (pair_cmp N.compare pre_cmp)))).
  { repeat apply good_pair; auto using good_N, good_pre. }
  split; intros; rewrite ?sv_cmp_tuple in *.
  - rewrite (g_eq _ G). split; [apply sv_tuple_inj | congruence].
  - apply (g_anti _ G).
  - eapply (g_trans _ G); eauto.
Qed.

Lemma good_version : good cmp_version.
Proof.
  pose proof good_sv as G. split.
  - intros [| x |] [| y |]; simpl; split; intros H; try congruence; auto.
    + apply (g_eq _ G) in H; congruence.
    + inversion H; now apply (g_eq _ G).
  - intros [| x |] [| y |]; simpl; auto. apply (g_anti _ G).
  - intros [| x |] [| y |] [| z |]; simpl; intros H1 H2; try congruence. eapply (g_trans _ G); eauto.
Qed.

(** ** the derived boolean order *)
Lemma vlt_irrefl a : vlt a a = false.
Proof. unfold vlt. now rewrite (good_refl _ good_version). Qed.

Lemma vlt_trans a b c : vlt a b = true -> vlt b c = true -> vlt a c = true.
Proof.
  unfold vlt, is_lt. intros H1 H2.
  destruct (cmp_version a b) eqn:E1; try discriminate. destruct (cmp_version b c) eqn:E2; try discriminate.
  now rewrite (g_trans _ good_version _ _ _ E1 E2).
Qed.

Lemma vlt_asym a b : vlt a b = true -> vlt b a = false.
Proof.
  unfold vlt, is_lt. rewrite (g_anti _ good_version a b). destruct (cmp_version a b); simpl; congruence.
Qed.

Lemma vlt_total a b : vlt a b = false -> vlt b a = false -> a = b.
Proof.
  unfold vlt, is_lt. rewrite (g_anti _ good_version a b). intros H1 H2.
  apply (g_eq _ good_version). destruct (cmp_version a b); simpl in *; congruence.
Qed.

Lemma vle_iff a b : vle a b = negb (vlt b a).
Proof.
  unfold vle, vlt, is_gt, is_lt. rewrite (g_anti _ good_version a b). now destruct (cmp_version a b).
Qed.

Lemma vle_refl a : vle a a = true.
Proof. now rewrite vle_iff, vlt_irrefl. Qed.

Lemma vle_trans a b c : vle a b = true -> vle b c = true -> vle a c = true.
Proof.
  rewrite !vle_iff. intros H1 H2. apply negb_true_iff in H1, H2. apply negb_true_iff.
  destruct (vlt c a) eqn:E; auto.
  destruct (vlt a b) eqn:E2.
  - pose proof (vlt_trans _ _ _ E E2). congruence.
  - pose proof (vlt_total _ _ E2 H1). subst. congruence.
Qed.

Lemma vle_antisym a b : vle a b = true -> vle b a = true -> a = b.
Proof. rewrite !vle_iff. intros H1 H2. apply negb_true_iff in H1, H2. now apply vlt_total. Qed.

Lemma vle_total a b : vle a b = true \/ vle b a = true.
Proof.
  rewrite !vle_iff. destruct (vlt b a) eqn:E; auto. right. now rewrite (vlt_asym _ _ E).
Qed.

Lemma vlt_vle a b : vlt a b = true -> vle a b = true.
Proof. intros H. rewrite vle_iff. now rewrite (vlt_asym _ _ H). Qed.

Lemma vle_none a : vle VNone a = true.
Proof. now destruct a. Qed.

Lemma vle_root a : vle a VRoot = true.
Proof. now destruct a. Qed.

Lemma vmax_l a b : vle a (vmax a b) = true.
Proof. unfold vmax. destruct (vlt a b) eqn:E; [now apply vlt_vle | apply vle_refl]. Qed.

Lemma vmax_r a b : vle b (vmax a b) = true.
Proof. unfold vmax. destruct (vlt a b) eqn:E; [apply vle_refl | now rewrite vle_iff, E]. Qed.

Lemma version_eqb_spec a b : reflect (a = b) (version_eqb a b).
Proof.
  assert (P : forall x y, reflect (x = y) (preid_eqb x y)).
  { intros [x|x] [y|y]; simpl; try (constructor; congruence).
    - destruct (N.eqb_spec x y); constructor; congruence.
    - destruct (str_eqb_spec x y); constructor; congruence. }
  assert (I : forall x y, reflect (x = y) (ids_eqb x y)).
  { induction x as [|h x IH]; intros [|k y]; simpl; try (constructor; congruence).
    destruct (P h k); simpl; [destruct (IH y); constructor; congruence | constructor; congruence]. }
  destruct a as [|[a1 a2 a3 a4]|], b as [|[b1 b2 b3 b4]|]; simpl; try (constructor; congruence).
  unfold sv_eqb; simpl.
  destruct (N.eqb_spec a1 b1), (N.eqb_spec a2 b2), (N.eqb_spec a3 b3), (I a4 b4); simpl; constructor; congruence.
Qed.
