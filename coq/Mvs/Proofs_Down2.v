(** Downgrade, completed: the add / exclude / previous phase ([down_list]) of mvs.Downgrade.

    1. exclude is a depth-first closure of the excluded set under rdeps ([exclude_spec]);
    2. add keeps the invariant [dinv] of the three maps (added, excluded, rdeps), finishes every node it adds
       ([dfin]: unless excluded, the node respects [max] and all its requirements are registered in rdeps, hence
       - by closure - not excluded), and only ever excludes nodes it added itself ([dpost]);
    3. hence a node appended to the downgraded list is never excluded later, and at the end everything that list
       reaches was added, is not excluded, and respects [max] ([down_list_total]);
    4. the for-excluded loop descends strictly in the finite candidate set "tags of the path + the requested
       version" ([rank]); the two walks are bounded by the number of nodes not yet visited ([cnt]).
    Then the instance for a universe, mvs.Downgrade as a whole, and get's downgrade branch. *)
From Coq Require Import Lia.
From Dawn Require Import Mvs.VersionProofs Mvs.Spec Mvs.Proofs_Base Mvs.Proofs_C10 Mvs.Proofs_ReqList Mvs.Proofs_Names
     Mvs.Proofs_C11 Mvs.Proofs_Idem Mvs.Proofs_Idem2 Mvs.Proofs_Down.

Lemma filter_len_le {A} (f g : A -> bool) l :
  (forall x, In x l -> f x = true -> g x = true) -> (length (filter f l) <= length (filter g l))%nat.
Proof.
  induction l as [|a l IH]; intros H; simpl; auto.
  assert (IH' := IH (fun x Hx => H x (or_intror Hx))).
  destruct (f a) eqn:Fa.
  - rewrite (H a (or_introl eq_refl) Fa). simpl. lia.
  - destruct (g a); simpl; lia.
Qed.

Lemma filter_len_lt {A} (f g : A -> bool) l y :
  (forall x, In x l -> f x = true -> g x = true) -> In y l -> f y = false -> g y = true ->
  (length (filter f l) < length (filter g l))%nat.
Proof.
  induction l as [|a l IH]; intros H Hy Fy Gy; simpl; [destruct Hy|].
  assert (LE := filter_len_le f g l (fun x Hx => H x (or_intror Hx))).
  destruct Hy as [Hy|Hy].
  - subst a. rewrite Fy, Gy. simpl. lia.
  - assert (IH' := IH (fun x Hx => H x (or_intror Hx)) Hy Fy Gy).
    destruct (f a) eqn:Fa.
    + rewrite (H a (or_introl eq_refl) Fa). simpl. lia.
    + destruct (g a); simpl; lia.
Qed.

(** the number of nodes of [N] not yet in [A]: the measure of the two depth-first walks *)
Section Cnt.
  Variable N : list node.
  Definition cnt (A : list node) : nat := length (filter (fun x => negb (mem x A)) N).

  Lemma cnt_mono A B : incl A B -> (cnt B <= cnt A)%nat.
  Proof.
    intros H. apply filter_len_le. intros x _ Hx. apply negb_true_iff in Hx. apply negb_true_iff.
    apply mem_false in Hx. apply mem_false. auto.
  Qed.

  Lemma cnt_cons m A : In m N -> ~ In m A -> (cnt (m :: A) < cnt A)%nat.
  Proof.
    intros Hm Hn. apply filter_len_lt with (y := m); auto.
    - intros x _ Hx. apply negb_true_iff in Hx. apply negb_true_iff.
      apply mem_false in Hx. apply mem_false. intros X. apply Hx. now right.
    - apply negb_false_iff. apply mem_In. now left.
    - apply negb_true_iff. now apply mem_false.
  Qed.

  Lemma cnt_le A : (cnt A <= length N)%nat.
  Proof. unfold cnt. induction N as [|a l IH]; simpl; auto. destruct (negb (mem a A)); simpl; lia. Qed.
End Cnt.

Lemma pair_dec (a b : node * node) : {a = b} + {a <> b}.
Proof. destruct a as [a1 a2], b as [b1 b2]. destruct (node_dec a1 b1), (node_dec a2 b2); subst; auto; right; congruence. Qed.

(** ** exclude *)
Section Excl.
  Variable N : list node.
  Variable rd : list (node * node).
  Hypothesis HrdN : forall r m, In (r, m) rd -> In m N.

  Lemma rdeps_of_In m x : In x (rdeps_of rd m) <-> In (m, x) rd.
  Proof.
    unfold rdeps_of. rewrite in_map_iff. split.
    - intros ([a b] & E & H). simpl in E. subst b. apply filter_In in H. destruct H as [H1 H2]. simpl in H2.
      destruct (node_eqb_spec a m); [subst; auto | discriminate].
    - intros H. exists (m, x). split; auto. apply filter_In. split; auto. simpl. apply node_eqb_refl.
  Qed.

  (** what one call of exclude establishes *)
  Definition ex_post (l : list node) (ex ex' : list node) : Prop :=
    incl ex ex' /\ incl l ex' /\
    (forall G : list node,
        (forall x y, In x ex -> ~ In x G -> In (x, y) rd -> In y ex) ->
        (forall x y, In x ex' -> ~ In x G -> In (x, y) rd -> In y ex')) /\
    (forall S : node -> Prop, (forall y, In y l -> S y) -> (forall x y, In (x, y) rd -> S x -> S y) ->
                              forall y, In y ex' -> In y ex \/ S y).

  Lemma fold_exclude_spec f :
    (forall m ex, In m N -> (cnt N ex < f)%nat -> exists ex', exclude f rd m ex = Some ex' /\ ex_post [m] ex ex') ->
    forall l ex, incl l N -> (cnt N ex < f)%nat ->
                 exists ex', fold_opt (exclude f rd) l ex = Some ex' /\ ex_post l ex ex'.
  Proof.
    intros IH. induction l as [|c l IHl]; intros ex Hl Hf; simpl.
    - exists ex. split; auto. unfold ex_post. splits; auto.
      + apply incl_refl.
      + intros x [].
    - destruct (IH c ex (Hl c (or_introl eq_refl)) Hf) as (ex1 & E1 & I1 & C1 & G1 & S1). rewrite E1.
      assert (Hf1 : (cnt N ex1 < f)%nat) by (pose proof (cnt_mono N ex ex1 I1); lia).
      destruct (IHl ex1 (fun x Hx => Hl x (or_intror Hx)) Hf1) as (ex2 & E2 & I2 & C2 & G2 & S2).
      exists ex2. split; auto. unfold ex_post. splits.
      + eapply incl_tran; eauto.
      + intros x [Hx|Hx]; [subst; apply I2, C1; now left | now apply C2].
      + intros G HG. apply G2. now apply G1.
      + intros S HS CS y Hy. destruct (S2 S (fun y Hy => HS y (or_intror Hy)) CS y Hy) as [X|X]; auto.
        destruct (S1 S) with (y := y) as [Y|Y]; auto. intros z [Hz|[]]. subst. apply HS. now left.
  Qed.

  Lemma exclude_spec f : forall m ex, In m N -> (cnt N ex < f)%nat ->
    exists ex', exclude f rd m ex = Some ex' /\ ex_post [m] ex ex'.
  Proof.
    induction f as [|f IH]; intros m ex Hm Hf; [lia|]. simpl.
    destruct (mem m ex) eqn:M.
    - apply mem_In in M. exists ex. split; auto. unfold ex_post. splits; auto.
      + apply incl_refl.
      + intros x [Hx|[]]. now subst.
    - apply mem_false in M.
      assert (Hf1 : (cnt N (m :: ex) < f)%nat) by (pose proof (cnt_cons N m ex Hm M); lia).
      assert (Hl : incl (rdeps_of rd m) N).
      { intros x Hx. apply rdeps_of_In in Hx. eapply HrdN; eauto. }
      destruct (fold_exclude_spec f IH (rdeps_of rd m) (m :: ex) Hl Hf1) as (ex' & E & I & C & G & S).
      exists ex'. split; auto. unfold ex_post. splits.
      + intros x Hx. apply I. now right.
      + intros x [Hx|[]]. subst. apply I. now left.
      + intros G0 HG x y Hx HnG Hxy.
        destruct (node_dec x m) as [X|X].
        * subst x. apply C. now apply rdeps_of_In.
        * apply (G (m :: G0)) with (x := x); auto.
          -- intros x0 y0 [H0|H0] H1 H2; [subst; exfalso; apply H1; now left|].
             right. apply (HG x0 y0); auto. intros Z. apply H1. now right.
          -- intros [Z|Z]; [now apply X | now apply HnG].
      + intros S0 HS CS y Hy.
        destruct (S S0) with (y := y) as [Y|Y]; auto.
        * intros z Hz. apply rdeps_of_In in Hz. apply (CS m z); auto. apply HS. now left.
        * destruct Y as [Y|Y]; auto. subst. right. apply HS. now left.
  Qed.
End Excl.

Section Down.
  Variable required : node -> option (list node).
  Variable previous : node -> option node.
  Variable maxm : list (str * version).
  Variable N : list node.
  Variable P : node -> Prop.
  Hypothesis HPN : forall n, P n -> In n N.
  Hypothesis HPreq : forall m l r, P m -> required m = Some l -> In r l -> P r.

  Definition is_above (m : node) : bool :=
    match find_path (fst m) maxm with Some v => above (snd m) v | None => false end.

  Record dinv (st : dstate) : Prop := mkInv {
    k_rd : forall r m, In (r, m) (d_rdeps st) -> In r (d_added st) /\ In m (d_added st);
    k_cl : forall r m, In (r, m) (d_rdeps st) -> In r (d_excl st) -> In m (d_excl st);
    k_P : forall m, In m (d_added st) -> P m;
    k_ex : forall m, In m (d_excl st) -> In m (d_added st) }.

  (** [m] has been added, and unless it is excluded it respects [max] and each of its requirements is
      registered in rdeps (hence, by k_cl, not excluded either) *)
  Definition dfin (st : dstate) (m : node) : Prop :=
    In m (d_added st) /\
    (~ In m (d_excl st) ->
     is_above m = false /\ exists l, required m = Some l /\ forall r, In r l -> In (r, m) (d_rdeps st)).

  Definition le_st (a b : dstate) : Prop :=
    incl (d_added a) (d_added b) /\ incl (d_excl a) (d_excl b) /\ incl (d_rdeps a) (d_rdeps b).

  Lemma le_st_refl a : le_st a a.
  Proof. unfold le_st; splits; apply incl_refl. Qed.

  Lemma le_st_trans a b c : le_st a b -> le_st b c -> le_st a c.
  Proof. intros (A1 & A2 & A3) (B1 & B2 & B3). unfold le_st; splits; eapply incl_tran; eauto. Qed.

  Lemma fin_mono a b m : le_st a b -> dfin a m -> dfin b m.
  Proof.
    intros (A1 & A2 & A3) [F1 F2]. split; [auto|]. intros Hn.
    destruct F2 as (F2 & l & F3 & F4); [auto|]. split; auto. exists l. split; auto.
  Qed.

  (** what a call of add that started in [st] has established in [st'] *)
  Definition dpost (st st' : dstate) : Prop :=
    dinv st' /\ le_st st st' /\
    (forall x, In x (d_added st') -> ~ In x (d_added st) -> dfin st' x) /\
    (forall r m, In (r, m) (d_rdeps st') -> ~ In (r, m) (d_rdeps st) -> ~ In m (d_added st)) /\
    (forall x, In x (d_excl st') -> ~ In x (d_excl st) -> ~ In x (d_added st)).

  Lemma post_refl st : dinv st -> dpost st st.
  Proof. intros I. unfold dpost. splits; auto; try (intros; contradiction). apply le_st_refl. Qed.

  (** the state inside add(m), between two requirements of m *)
  Definition dmid (st : dstate) (m : node) (cur : dstate) : Prop :=
    dinv cur /\ le_st (mkD (m :: d_added st) (d_excl st) (d_rdeps st)) cur /\
    (forall x, In x (d_added cur) -> ~ In x (d_added st) -> x <> m -> dfin cur x) /\
    (forall r m', In (r, m') (d_rdeps cur) -> ~ In (r, m') (d_rdeps st) -> ~ In m' (d_added st)) /\
    (forall x, In x (d_excl cur) -> ~ In x (d_excl st) -> ~ In x (d_added st)).

  Lemma mid_init st m : dinv st -> P m -> dmid st m (mkD (m :: d_added st) (d_excl st) (d_rdeps st)).
  Proof.
    intros I Pm. unfold dmid. splits; try (simpl; intros; contradiction).
    - constructor; simpl.
      + intros r m' H. destruct (k_rd st I r m' H). auto.
      + apply (k_cl st I).
      + intros x [Hx|Hx]; [now subst | now apply (k_P st I)].
      + intros x Hx. right. now apply (k_ex st I).
    - apply le_st_refl.
    - simpl. intros x [Hx|Hx] H1 H2; [now elim H2 | contradiction].
  Qed.

  Variable xf : nat.
  Hypothesis Hxf : (length N < xf)%nat.

  Lemma mid_exclude st m cur : dinv st -> ~ In m (d_added st) -> dmid st m cur ->
    exists st', exclude_st xf m cur = Some st' /\ dpost st st' /\ In m (d_added st').
  Proof.
    intros I Hm (Ic & (L1 & L2 & L3) & FF & NN & XX). simpl in L1, L2, L3.
    assert (HmA : In m (d_added cur)) by (apply L1; now left).
    assert (HrdN : forall r m0, In (r, m0) (d_rdeps cur) -> In m0 N).
    { intros r m0 H. apply HPN, (k_P cur Ic). now destruct (k_rd cur Ic r m0 H). }
    destruct (exclude_spec N (d_rdeps cur) HrdN xf m (d_excl cur)) as (ex' & E & I1 & C1 & G1 & S1).
    { apply HPN, (k_P cur Ic), HmA. }
    { pose proof (cnt_le N (d_excl cur)). lia. }
    unfold exclude_st. rewrite E. eexists; split; [reflexivity|]. simpl. split; [|exact HmA].
    assert (LE : le_st cur (mkD (d_added cur) ex' (d_rdeps cur))).
    { unfold le_st; simpl; splits; auto; apply incl_refl. }
    unfold dpost; simpl. splits.
    - constructor; simpl.
      + apply (k_rd cur Ic).
      + intros r m0 H1 H2. apply (G1 []) with (x := r); auto. intros x y Hx _ Hxy. eapply (k_cl cur Ic); eauto.
      + apply (k_P cur Ic).
      + intros y Hy. destruct (S1 (fun y => In y (d_added cur))) with (y := y) as [Y|Y]; auto.
        * intros z [Hz|[]]. now subst.
        * intros x y0 H _. now destruct (k_rd cur Ic x y0 H).
        * now apply (k_ex cur Ic).
    - unfold le_st; simpl; splits.
      + intros x Hx. apply L1. now right.
      + intros x Hx. apply I1. now apply L2.
      + auto.
    - intros x Hx Hn. destruct (node_dec x m) as [X|X].
      + subst x. split; simpl; auto. intros Z. exfalso. apply Z. apply C1. now left.
      + eapply fin_mono; [exact LE|]. now apply FF.
    - exact NN.
    - intros y Hy Hn.
      destruct (S1 (fun y => ~ In y (d_added st))) with (y := y) as [Y|Y]; auto.
      + intros z [Hz|[]]. now subst.
      + intros x y0 Hxy Hx. destruct (in_dec pair_dec (x, y0) (d_rdeps st)) as [D|D].
        * exfalso. apply Hx. now destruct (k_rd st I x y0 D).
        * now apply NN with (r := x).
  Qed.

  Definition add_ok (f : nat) (addf : node -> dstate -> option dstate) : Prop :=
    forall m st, dinv st -> P m -> (cnt N (d_added st) < f)%nat ->
                 exists st', addf m st = Some st' /\ dpost st st' /\ In m (d_added st').

  Lemma add_children_spec f addf st m full :
    add_ok f addf -> dinv st -> P m -> ~ In m (d_added st) -> (cnt N (m :: d_added st) < f)%nat ->
    required m = Some full -> is_above m = false ->
    forall l done cur, full = done ++ l -> dmid st m cur -> (forall r, In r done -> In (r, m) (d_rdeps cur)) ->
      exists st', add_children xf addf m l cur = Some st' /\ dpost st st' /\ In m (d_added st').
  Proof.
    intros AO I Pm Hm Hf Er Ab. induction l as [|r l IHl]; intros done cur Ef M RG; simpl.
    - destruct M as (Ic & (L1 & L2 & L3) & FF & NN & XX). simpl in L1, L2, L3.
      assert (HmA : In m (d_added cur)) by (apply L1; now left).
      exists cur. split; auto. split; auto. unfold dpost. splits; auto.
      + unfold le_st; splits; auto. intros x Hx. apply L1. now right.
      + intros x Hx Hn. destruct (node_dec x m) as [X|X]; [|now apply FF].
        subst x. split; auto. intros _. split; auto. exists full. split; auto.
        intros r Hr. apply RG. rewrite Ef, app_nil_r in Hr. exact Hr.
    - assert (Pr : P r). { eapply HPreq; eauto. rewrite Ef. apply in_or_app. right. now left. }
      pose proof M as (Ic & (L1 & L2 & L3) & FF & NN & XX). simpl in L1, L2, L3.
      assert (Hfc : (cnt N (d_added cur) < f)%nat).
      { pose proof (cnt_mono N (m :: d_added st) (d_added cur) L1). lia. }
      destruct (AO r cur Ic Pr Hfc) as (st2 & E2 & (I2 & LE2 & F2 & N2 & X2) & Hr2). rewrite E2.
      assert (M2 : dmid st m st2).
      { unfold dmid. splits; auto.
        - eapply le_st_trans; [|exact LE2]. unfold le_st; simpl; splits; auto.
        - intros x Hx Hn Hne. destruct (in_dec node_dec x (d_added cur)) as [D|D].
          + eapply fin_mono; [exact LE2|]. now apply FF.
          + now apply F2.
        - intros r0 m' Hp Hn. destruct (in_dec pair_dec (r0, m') (d_rdeps cur)) as [D|D].
          + now apply NN with (r := r0).
          + intros Z. apply (N2 r0 m' Hp D). apply L1. now right.
        - intros x Hx Hn. destruct (in_dec node_dec x (d_excl cur)) as [D|D].
          + now apply XX.
          + intros Z. apply (X2 x Hx D). apply L1. now right. }
      destruct (mem r (d_excl st2)) eqn:MX.
      + now apply mid_exclude.
      + apply mem_false in MX.
        set (st3 := mkD (d_added st2) (d_excl st2) (d_rdeps st2 ++ [(r, m)])).
        assert (LE3 : le_st st2 st3).
        { unfold le_st, st3; simpl; splits; try apply incl_refl. apply incl_appl, incl_refl. }
        destruct M2 as (_ & LE2' & FF2 & NN2 & XX2).
        assert (HmA2 : In m (d_added st2)) by (destruct LE2' as (Z & _); apply Z; now left).
        apply (IHl (done ++ [r]) st3).
        * rewrite <- app_assoc. exact Ef.
        * unfold dmid. splits.
          -- constructor; unfold st3; simpl.
             ++ intros r0 m0 H. apply in_app_or in H. destruct H as [H|[H|[]]]; [now apply (k_rd st2 I2)|].
                inversion H; subst. auto.
             ++ intros r0 m0 H Hx. apply in_app_or in H. destruct H as [H|[H|[]]]; [eapply (k_cl st2 I2); eauto|].
                inversion H; subst. contradiction.
             ++ apply (k_P st2 I2).
             ++ apply (k_ex st2 I2).
          -- eapply le_st_trans; eauto.
          -- intros x Hx Hn Hne. eapply fin_mono; [exact LE3|]. now apply FF2.
          -- unfold st3; simpl. intros r0 m' H Hn. apply in_app_or in H. destruct H as [H|[H|[]]]; [now apply NN2 with (r := r0)|].
             inversion H; subst. exact Hm.
          -- exact XX2.
        * unfold st3; simpl. intros r0 H. apply in_or_app. apply in_app_or in H. destruct H as [H|[H|[]]].
          -- left. destruct LE2 as (_ & _ & Z). apply Z. now apply RG.
          -- right. subst. now left.
  Qed.

  Lemma add_spec f : add_ok f (add required maxm f xf).
  Proof.
    induction f as [|f IH]; intros m st I Pm Hf; [lia|]. simpl.
    destruct (mem m (d_added st)) eqn:MA.
    - apply mem_In in MA. exists st. split; auto. split; auto. now apply post_refl.
    - apply mem_false in MA.
      assert (Hf1 : (cnt N (m :: d_added st) < f)%nat).
      { pose proof (cnt_cons N m (d_added st) (HPN m Pm) MA). lia. }
      fold (is_above m). destruct (is_above m) eqn:AB.
      + apply mid_exclude; auto. now apply mid_init.
      + destruct (required m) as [l|] eqn:ER.
        * apply (add_children_spec f (add required maxm f xf) st m l IH I Pm MA Hf1 ER AB l [] _ eq_refl).
          -- now apply mid_init.
          -- intros r [].
        * apply mid_exclude; auto. now apply mid_init.
  Qed.
End Down.

Section Top.
  Variable required : node -> option (list node).
  Variable previous : node -> option node.
  Variable maxm : list (str * version).
  Variable N : list node.
  Variable P : node -> Prop.
  Hypothesis HPN : forall n, P n -> In n N.
  Hypothesis HPreq : forall m l r, P m -> required m = Some l -> In r l -> P r.
  Variable fuel xf : nat.
  Hypothesis Hfuel : (length N < fuel)%nat.
  Hypothesis Hxf : (length N < xf)%nat.

  (** the candidate that the for-excluded loop tries after [r] *)
  Definition next_of (r p0 : node) : node :=
    let v := match find_path (fst r) maxm with Some v => v | None => VNone end in
    if vlt v (snd r) && vlt (snd p0) v then (fst p0, v) else p0.

  Variable rank : node -> nat.
  Hypothesis Hnext : forall r p0, P r -> previous r = Some p0 -> snd (next_of r p0) <> VNone ->
                                  P (next_of r p0) /\ (rank (next_of r p0) < rank r)%nat.

  Notation dinv := (dinv P).
  Notation dfin := (dfin required maxm).

  (** between two top-level calls of add *)
  Definition quiet (st : dstate) : Prop := dinv st /\ forall x, In x (d_added st) -> dfin st x.

  Definition kept (st : dstate) (x : node) : Prop := In x (d_added st) /\ ~ In x (d_excl st).

  Definition pres (st st' : dstate) : Prop := forall x, kept st x -> kept st' x.

  Lemma add_top m st : quiet st -> P m ->
    exists st', add required maxm fuel xf m st = Some st' /\ quiet st' /\ pres st st' /\ In m (d_added st').
  Proof.
    intros [I F] Pm.
    destruct (add_spec required maxm N P HPN HPreq xf Hxf fuel m st I Pm) as (st' & E & (I' & LE & F' & _ & X') & Hm).
    { pose proof (cnt_le N (d_added st)). lia. }
    exists st'. split; [exact E|]. split; [split; [exact I'|]|split; [|exact Hm]].
    - intros x Hx. destruct (in_dec node_dec x (d_added st)) as [D|D]; [|now apply F'].
      eapply fin_mono; [exact LE|]. now apply F.
    - intros x [H1 H2]. split; [destruct LE as (Z & _); now apply Z|].
      intros H3. now apply (X' x H3 H2).
  Qed.

  Lemma down_loop_eq lf r st :
    down_loop required previous maxm (S lf) fuel xf r st =
    if negb (mem r (d_excl st)) then Ok (Some r, st)
    else match previous r with
         | None => Err
         | Some p0 =>
             match snd (next_of r p0) with
             | VNone => Ok (None, st)
             | _ => match add required maxm fuel xf (next_of r p0) st with
                    | None => OutOfFuel
                    | Some st' => down_loop required previous maxm lf fuel xf (next_of r p0) st'
                    end
             end
         end.
  Proof. reflexivity. Qed.

  Lemma down_loop_spec : forall lf r st, quiet st -> P r -> In r (d_added st) -> (rank r < lf)%nat ->
    down_loop required previous maxm lf fuel xf r st = Err \/
    exists o st', down_loop required previous maxm lf fuel xf r st = Ok (o, st') /\ quiet st' /\ pres st st' /\
                  forall r', o = Some r' -> kept st' r'.
  Proof.
    induction lf as [|lf IH]; intros r st Q Pr Hr Hl; [lia|]. rewrite down_loop_eq.
    destruct (mem r (d_excl st)) eqn:MX; simpl negb; cbv iota.
    - destruct (previous r) as [p0|] eqn:EP; [|now left].
      assert (STEP : snd (next_of r p0) <> VNone ->
                     match add required maxm fuel xf (next_of r p0) st with
                     | Some st' => down_loop required previous maxm lf fuel xf (next_of r p0) st'
                     | None => OutOfFuel
                     end = Err \/
                     exists o st', match add required maxm fuel xf (next_of r p0) st with
                                   | Some st' => down_loop required previous maxm lf fuel xf (next_of r p0) st'
                                   | None => OutOfFuel
                                   end = Ok (o, st') /\ quiet st' /\ pres st st' /\ forall r', o = Some r' -> kept st' r').
      { intros Hn. destruct (Hnext r p0 Pr EP Hn) as [Pp Hrk].
        destruct (add_top (next_of r p0) st Q Pp) as (st1 & E1 & Q1 & PR1 & H1). rewrite E1.
        destruct (IH (next_of r p0) st1 Q1 Pp H1) as [E|(o & st' & E & Q' & PR' & G')]; [lia|now left|].
        right. exists o, st'. split; [exact E|]. split; [exact Q'|]. split; [|exact G']. intros x Hx. now apply PR', PR1. }
      destruct (snd (next_of r p0)) eqn:EV.
      + right. exists None, st. split; [reflexivity|]. split; [exact Q|]. split; [intros x Hx; exact Hx|]. intros r' H; discriminate.
      + apply STEP. discriminate.
      + apply STEP. discriminate.
    - right. apply mem_false in MX. exists (Some r), st. split; [reflexivity|]. split; [exact Q|].
      split; [intros x Hx; exact Hx|]. intros r' H. inversion H; subst. split; auto.
  Qed.

  Lemma down_list_inv lf : forall l st acc, quiet st -> (forall r, In r l -> P r) ->
    (forall x, In x acc -> x = target \/ kept st x) -> (forall r, In r l -> rank r < lf)%nat ->
    down_list required previous maxm lf fuel xf l st acc = Err \/
    exists dgd st', down_list required previous maxm lf fuel xf l st acc = Ok dgd /\ quiet st' /\
                    forall x, In x dgd -> x = target \/ kept st' x.
  Proof.
    induction l as [|r l IHl]; intros st acc Q Pl Hacc Hrk; simpl.
    - right. exists acc, st. auto.
    - assert (Pr : P r) by (apply Pl; now left).
      destruct (add_top r st Q Pr) as (st1 & E1 & Q1 & PR1 & H1). rewrite E1.
      destruct (down_loop_spec lf r st1 Q1 Pr H1) as [E|(o & st2 & E & Q2 & PR2 & G2)]; [apply Hrk; now left| |];
        rewrite E; simpl; [now left|].
      assert (Hacc2 : forall x, In x acc -> x = target \/ kept st2 x).
      { intros x Hx. destruct (Hacc x Hx) as [Y|Y]; [now left|]. right. now apply PR2, PR1. }
      destruct o as [r'|]; simpl.
      + apply IHl; auto.
        * intros x Hx. apply Pl. now right.
        * intros x Hx. apply in_app_or in Hx. destruct Hx as [Hx|[Hx|[]]]; auto. subst. right. now apply G2.
        * intros x Hx. apply Hrk. now right.
      + apply IHl; auto.
        * intros x Hx. apply Pl. now right.
        * intros x Hx. apply Hrk. now right.
  Qed.

  (** everything the computed list reaches is the target or was added and never excluded *)
  Lemma good_closed st : quiet st -> forall dgd, (forall x, In x dgd -> x = target \/ kept st x) ->
    forall n, greach (override required target dgd) None target n -> n = target \/ kept st n.
  Proof.
    intros [I F] dgd Hd. induction 1 as [|m n Hm IH Hs]; auto.
    apply succs_plain in Hs. destruct Hs as (_ & l & El & Hl). unfold override in El.
    destruct (node_eqb_spec m target) as [X|X].
    - inversion El; subst l. auto.
    - destruct IH as [Y|[G1 G2]]; [contradiction|].
      destruct (F m G1) as [_ F2]. destruct (F2 G2) as (_ & l' & El' & R). rewrite El in El'. inversion El'; subst l'.
      right. specialize (R n Hl). destruct (k_rd P st I n m R) as [A _]. split; auto.
      intros Z. apply G2. eapply (k_cl P st I); eauto.
  Qed.

  Lemma good_facts st : quiet st -> forall n, kept st n -> P n /\ is_above maxm n = false.
  Proof.
    intros [I F] n [G1 G2]. split; [now apply (k_P P st I)|]. destruct (F n G1) as [_ F2]. now destruct (F2 G2).
  Qed.

  Lemma quiet_init : quiet (mkD [] [] []).
  Proof. split; [constructor; simpl; intros; contradiction | simpl; intros; contradiction]. Qed.

  Theorem down_list_total lf lst :
    (forall r, In r lst -> P r) -> (forall r, In r lst -> rank r < lf)%nat ->
    down_list required previous maxm lf fuel xf lst (mkD [] [] []) [target] = Err \/
    exists dgd, down_list required previous maxm lf fuel xf lst (mkD [] [] []) [target] = Ok dgd /\
      forall n, greach (override required target dgd) None target n -> n = target \/ (P n /\ is_above maxm n = false).
  Proof.
    intros Pl Hrk.
    destruct (down_list_inv lf lst (mkD [] [] []) [target] quiet_init Pl) as [E|(dgd & st' & E & Q & G)]; auto.
    { intros x [Hx|[]]. now left. }
    right. exists dgd. split; auto. intros n Hn.
    destruct (good_closed st' Q dgd G n Hn) as [X|X]; auto. right. now apply good_facts with (st := st').
  Qed.
End Top.

(** ** the [max] map after the request has been applied *)
Lemma find_path_app p a b : find_path p (a ++ b) = match find_path p a with Some v => Some v | None => find_path p b end.
Proof. induction a as [|m a IH]; simpl; auto. destruct (str_eqb (fst m) p); auto. Qed.

Lemma not_above_vle a b : above a b = false -> vle a b = true.
Proof.
  unfold above. intros H. apply andb_false_iff in H. destruct H as [H|H]; apply negb_false_iff in H.
  - now apply vlt_vle.
  - destruct (version_eqb_spec a b); [subst; apply vle_refl | discriminate].
Qed.

Lemma down_max_request lst d : exists v, find_path (fst d) (down_max lst d) = Some v /\ vle v (snd d) = true.
Proof.
  unfold down_max. destruct (find_path (fst d) lst) as [v|] eqn:E.
  - destruct (above v (snd d)) eqn:A.
    + exists (snd d). split; [|apply vle_refl]. clear A. revert E. induction lst as [|m l IH]; simpl; [discriminate|].
      destruct (str_eqb (fst m) (fst d)) eqn:S; simpl; [now rewrite S | rewrite S; auto].
    + exists v. split; auto. now apply not_above_vle.
  - exists (snd d). split; [|apply vle_refl]. rewrite find_path_app, E. simpl. now rewrite str_eqb_refl.
Qed.

Lemma down_max_entries lst d p v : find_path p (down_max lst d) = Some v -> In (p, v) lst \/ (p, v) = d.
Proof.
  unfold down_max. destruct (find_path (fst d) lst) as [w|] eqn:E.
  - destruct (above w (snd d)).
    + clear E. induction lst as [|m l IH]; simpl; [discriminate|].
      destruct (str_eqb (fst m) (fst d)) eqn:S; simpl.
      * destruct (str_eqb (fst m) p) eqn:S2.
        -- intros H; inversion H; subst. right. destruct (str_eqb_spec (fst m) (fst d)); [|discriminate].
           destruct (str_eqb_spec (fst m) p); [|discriminate]. destruct d; simpl in *; congruence.
        -- intros H. destruct (IH H); auto.
      * destruct (str_eqb (fst m) p) eqn:S2.
        -- intros H; inversion H; subst. left. left. destruct (str_eqb_spec (fst m) p); [|discriminate].
           destruct m; simpl in *; congruence.
        -- intros H. destruct (IH H); auto.
    + intros H. left. now apply find_path_In.
  - rewrite find_path_app. destruct (find_path p lst) as [w|] eqn:E2.
    + intros H; inversion H; subst. left. now apply find_path_In.
    + simpl. destruct (str_eqb_spec (fst d) p); [|discriminate]. intros H; inversion H; subst. right. now destruct d.
Qed.

(** Reqs.Previous of a project version proper: "none" or a strictly earlier tagged version of the same path *)
Lemma previous_proper U r q : fst r <> [] -> reqs_previous U r = Some q ->
  fst q = fst r /\ (snd q = VNone \/ (In q (map fst (u_tags U)) /\ sem_cmp (snd q) (snd r) = Lt)).
Proof.
  unfold reqs_previous. destruct r as [pp pv]. cbn [fst snd]. destruct pp as [|c0 p0]; [intros H; now elim H|]. intros _.
  destruct (list_versions U (c0 :: p0)) as [vs|] eqn:E; [|discriminate]. intros H; inversion H; subst. split; auto.
  destruct (fold_prev_inv (major_of pv) pv vs VNone) as [X|[X1 X2]]; cbv zeta in *.
  - left. simpl. exact X.
  - right. simpl. split; auto. eapply list_versions_in; eauto.
Qed.

Section Inst.
  Variable U : universe.
  Variable rr : list node.
  Variable d : node.
  Hypothesis WU : wf_universe U.
  Hypothesis WR : wf_reqs rr.
  Hypothesis WD : wf_node d.
  Variable lst : list node.
  Hypothesis Hlst : forall r, In r lst -> In r (u_nodes U rr) /\ wf_node r.

  Notation required := (u_required U rr).
  Notation maxm := (down_max lst d).
  Notation Nn := (e_nodes U rr [d]).

  Definition Pn (n : node) : Prop := In n Nn /\ wf_node n.

  Lemma Pn_N n : Pn n -> In n Nn.
  Proof. now intros []. Qed.

  Lemma in_u_e n : In n (u_nodes U rr) -> In n Nn.
  Proof. intros H. unfold e_nodes. apply in_or_app. now left. Qed.

  Lemma Pn_req m l r : Pn m -> required m = Some l -> In r l -> Pn r.
  Proof.
    intros _ E H. split.
    - apply in_u_e. unfold u_nodes. right. eapply u_required_in; eauto.
    - eapply u_required_wf; eauto.
  Qed.

  Definition maxv (p : str) : version := match find_path p maxm with Some v => v | None => VNone end.
  Definition cand (p : str) : list version := maxv p :: map (fun t => snd (fst t)) (u_tags U).
  Definition rank (n : node) : nat := length (filter (fun c => vlt c (snd n)) (cand (fst n))).

  Lemma rank_bound n : (rank n < l_fuel U)%nat.
  Proof.
    unfold rank, l_fuel.
    assert (forall (f : version -> bool) l, length (filter f l) <= length l)%nat.
    { intros f l. induction l as [|a l IH]; simpl; auto. destruct (f a); simpl; lia. }
    pose proof (H (fun c => vlt c (snd n)) (cand (fst n))) as H1.
    assert (H2 : length (cand (fst n)) = S (length (u_tags U))) by (unfold cand; simpl; now rewrite map_length).
    lia.
  Qed.

  Lemma rank_step p r : fst p = fst r -> vlt (snd p) (snd r) = true -> In (snd p) (cand (fst r)) -> (rank p < rank r)%nat.
  Proof.
    intros E L C. unfold rank. rewrite E. apply filter_len_lt with (y := snd p); auto.
    - intros x _ Hx. eapply vlt_trans; eauto.
    - apply vlt_irrefl.
  Qed.

  Lemma Pn_max p v : find_path p maxm = Some v -> Pn (p, v).
  Proof.
    intros H. apply down_max_entries in H. destruct H as [H|H].
    - destruct (Hlst _ H). split; auto. now apply in_u_e.
    - rewrite H. split; auto. unfold e_nodes. apply in_or_app. right. apply in_or_app. right. now left.
  Qed.

  Lemma Pn_next r p0 : Pn r -> reqs_previous U r = Some p0 -> snd (next_of maxm r p0) <> VNone ->
    Pn (next_of maxm r p0) /\ (rank (next_of maxm r p0) < rank r)%nat.
  Proof.
    intros [Hr [Hr1 [sr Hr2]]] EP. destruct (previous_proper U r p0 Hr1 EP) as [Ef Hs].
    unfold next_of. fold (maxv (fst r)).
    destruct (vlt (maxv (fst r)) (snd r) && vlt (snd p0) (maxv (fst r))) eqn:C.
    - apply andb_true_iff in C. destruct C as [C1 C2]. simpl. intros Hn. split.
      + rewrite Ef. unfold maxv in *. destruct (find_path (fst r) maxm) as [v|] eqn:EM; [now apply Pn_max | now elim Hn].
      + apply rank_step; simpl; auto.
    - intros Hn. destruct Hs as [Hs|[Ht Hc]]; [contradiction|].
      assert (Wp : wf_node p0).
      { apply in_map_iff in Ht. destruct Ht as (t & Et & Ht). subst p0. now apply (proj2 WU). }
      split.
      + split; auto. unfold e_nodes. apply in_or_app. right. apply in_or_app. now left.
      + apply rank_step; auto.
        * destruct Wp as [_ [sp Hp]]. clear - Hp Hr2 Hc. destruct r as [rp rv], p0 as [pp pv]. simpl in *. subst.
          unfold vlt. simpl in *. now rewrite Hc.
        * right. apply in_map_iff in Ht. destruct Ht as (t & Et & Ht). apply in_map_iff. exists t. split; auto.
          now subst p0.
  Qed.

  Lemma e_fuel_Nn : (length Nn < e_fuel U rr)%nat.
  Proof. unfold e_fuel, e_nodes. rewrite !app_length. simpl. lia. Qed.

  Lemma down_list_inst :
    down_list required (reqs_previous U) maxm (l_fuel U) (e_fuel U rr) (e_fuel U rr) lst (mkD [] [] []) [target] = Err \/
    exists dgd, down_list required (reqs_previous U) maxm (l_fuel U) (e_fuel U rr) (e_fuel U rr) lst (mkD [] [] []) [target] = Ok dgd /\
      forall n, greach (override required target dgd) None target n ->
                In n Nn /\ (n = target \/ wf_node n) /\ (fst n = fst d -> vle (snd n) (snd d) = true).
  Proof.
    destruct (down_list_total required (reqs_previous U) maxm Nn Pn Pn_N Pn_req (e_fuel U rr) (e_fuel U rr) e_fuel_Nn e_fuel_Nn
                              rank Pn_next (l_fuel U) lst) as [E|(dgd & E & H)]; auto.
    - intros r Hr. destruct (Hlst r Hr). split; auto. now apply in_u_e.
    - intros r _. apply rank_bound.
    - right. exists dgd. split; auto. intros n Hn. destruct (H n Hn) as [X|[[P1 P2] AB]].
      + subst n. split; [apply in_u_e; now left|]. split; [now left|]. intros E0. exfalso. apply (proj1 WD). now rewrite <- E0.
      + split; auto. split; auto. intros E0. unfold is_above in AB. rewrite E0 in AB.
        destruct (down_max_request lst d) as (v & V1 & V2). rewrite V1 in AB.
        eapply vle_trans; [|exact V2]. now apply not_above_vle.
  Qed.
End Inst.

(** the last BuildList of mvs.Downgrade reaches nothing the one before it did not reach *)
Lemma dg_sub required downgraded lst l1 :
  mvs_solution (greach (override required target downgraded) None target) (target :: l1) ->
  forall n, greach (override required target (dg_of lst (target :: l1))) None target n ->
            greach (override required target downgraded) None target n.
Proof.
  intros S1. induction 1; [constructor|]. apply succs_plain in H0. destruct H0 as (Hn & l & El & Hl).
  unfold override in El. destruct (node_eqb_spec m target).
  - inversion El; subst l. unfold dg_of in Hl. apply in_flat_map in Hl. destruct Hl as (m' & _ & Hm').
    destruct (find_path (fst m') (target :: l1)) as [w|] eqn:Ef; [|destruct Hm'].
    destruct Hm' as [Hm'|[]]. subst n. apply find_path_In in Ef.
    destruct S1 as (_ & M & _). now apply M.
  - eapply gr_step; [exact IHgreach|]. apply succs_plain. split; auto. exists l. split; auto.
    unfold override. destruct (node_eqb_spec m target); [contradiction|auto].
Qed.

Section Main.
  Variable U : universe.
  Variable rr : list node.
  Variable d : node.
  Variable pick : list node -> nat.
  Hypothesis WU : wf_universe U.
  Hypothesis WR : wf_reqs rr.
  Hypothesis WD : wf_node d.

  Notation required := (u_required U rr).
  Notation fuel := (e_fuel U rr).
  Notation Nn := (e_nodes U rr [d]).

  Lemma first_bl :
    build_list_gen required None pick fuel target = Err \/
    exists l, build_list_gen required None pick fuel target = Ok (target :: l) /\
              forall r, In r l -> In r (u_nodes U rr) /\ wf_node r.
  Proof.
    destruct (build_list_gen_spec required None pick (u_nodes U rr) fuel (greach_u_nodes U rr) (e_fuel_u_nodes U rr))
      as [[E _]|(l & E & (S & M & _) & _)]; [now left|right].
    exists l. split; auto. intros [p v] Hr. destruct (M p v (or_intror Hr)) as [R _].
    split; [now apply greach_u_nodes|].
    destruct (reachable_wf U rr (p, v) WU WR) as [X|X]; auto.
    - apply greach_reachable. exact R.
    - exfalso. inversion S as [|a l' S' F]; subst. rewrite Forall_forall in F. specialize (F _ Hr).
      unfold path_lt in F. rewrite X in F. simpl in F. discriminate.
  Qed.

  (** the add / exclude / previous phase: no hang, and what its result reaches *)
  Lemma down_phase bl :
    build_list_gen required None pick fuel target = Ok bl ->
    down_list required (reqs_previous U) (down_max (tl bl) d) (l_fuel U) fuel fuel (tl bl) (mkD [] [] []) [target] = Err \/
    exists dgd, down_list required (reqs_previous U) (down_max (tl bl) d) (l_fuel U) fuel fuel (tl bl) (mkD [] [] []) [target] = Ok dgd /\
      forall n, greach (override required target dgd) None target n ->
                In n Nn /\ (n = target \/ wf_node n) /\ (fst n = fst d -> vle (snd n) (snd d) = true).
  Proof.
    intros E0. destruct first_bl as [E|(l & E & Hl)]; rewrite E in E0; [discriminate|]. inversion E0; subst bl. simpl tl.
    apply down_list_inst; auto.
  Qed.

  Theorem down_list_spec_holds : down_list_spec required (reqs_previous U) pick fuel (l_fuel U) d Nn.
  Proof.
    intros bl dgd E0 E1 n Hn. destruct (down_phase bl E0) as [E|(dgd' & E & H)]; rewrite E in E1; [discriminate|].
    inversion E1; subst dgd'. destruct (H n Hn) as (A & _ & B). auto.
  Qed.

  Theorem downgrade_at_or_below_mvs final :
    mvs_downgrade required (reqs_previous U) pick fuel (l_fuel U) d = Ok final ->
    forall v, In (fst d, v) final -> vle v (snd d) = true.
  Proof.
    apply (downgrade_at_or_below_partial required (reqs_previous U) pick fuel (l_fuel U) d Nn final (proj1 WD)).
    - apply e_fuel_Nn.
    - apply down_list_spec_holds.
  Qed.

  (** the shape of a result of mvs.Downgrade: the build list of a well-formed requirement list [dg] whose
      graph stays inside the finite node set *)
  Lemma downgrade_cases :
    match mvs_downgrade required (reqs_previous U) pick fuel (l_fuel U) d with
    | Ok final => exists dg, wf_reqs dg /\
                    build_list_gen (override required target dg) None pick fuel target = Ok final /\
                    mvs_solution (greach (override required target dg) None target) final /\
                    (forall n, greach (override required target dg) None target n ->
                               In n Nn /\ (n = target \/ wf_node n) /\ (fst n = fst d -> vle (snd n) (snd d) = true))
    | Err => True
    | Panic => False
    | OutOfFuel => False
    end.
  Proof.
    unfold mvs_downgrade.
    destruct first_bl as [E|(l & E & Hl)]; rewrite E; cbn [bind tl]; cbv zeta; auto.
    destruct (down_phase _ E) as [E1|(dgd & E1 & H1)]; simpl tl in E1; rewrite E1; cbn [bind]; auto.
    assert (HN1 : forall n, greach (override required target dgd) None target n -> In n Nn) by (intros n Hn; now apply H1).
    destruct (build_list_gen_spec (override required target dgd) None pick Nn fuel HN1 (e_fuel_Nn U rr d))
      as [[E2 _]|(l1 & E2 & S1 & _)]; rewrite E2; cbn [bind]; auto.
    change (flat_map _ l) with (dg_of l (target :: l1)).
    pose proof (dg_sub required dgd l l1 S1) as SUB.
    assert (H2 : forall n, greach (override required target (dg_of l (target :: l1))) None target n ->
                 In n Nn /\ (n = target \/ wf_node n) /\ (fst n = fst d -> vle (snd n) (snd d) = true)).
    { intros n Hn. apply H1. now apply SUB. }
    assert (HN2 : forall n, greach (override required target (dg_of l (target :: l1))) None target n -> In n Nn)
      by (intros n Hn; now apply H2).
    destruct (build_list_gen_spec (override required target (dg_of l (target :: l1))) None pick Nn fuel HN2 (e_fuel_Nn U rr d))
      as [[E3 _]|(l2 & E3 & S2 & _)]; rewrite E3; auto.
    exists (dg_of l (target :: l1)). splits; auto.
    intros x Hx. unfold dg_of in Hx. apply in_flat_map in Hx. destruct Hx as (m & Hm & Hx).
    destruct (find_path (fst m) (target :: l1)) as [w|] eqn:Ef; [|destruct Hx]. destruct Hx as [Hx|[]]. subst x.
    apply find_path_In in Ef. destruct S1 as (_ & M & _). destruct (M _ _ Ef) as [R _].
    destruct (H1 _ R) as (_ & [X|X] & _); auto. exfalso. destruct (Hl m Hm) as [_ [Y _]]. apply Y.
    inversion X. reflexivity.
  Qed.

  Theorem downgrade_terminates :
    mvs_downgrade required (reqs_previous U) pick fuel (l_fuel U) d <> OutOfFuel.
  Proof. pose proof downgrade_cases as H. intros E. now rewrite E in H. Qed.

  Theorem downgrade_no_panic :
    mvs_downgrade required (reqs_previous U) pick fuel (l_fuel U) d <> Panic.
  Proof. pose proof downgrade_cases as H. intros E. now rewrite E in H. Qed.
End Main.

(** the downgrade branch of get: Downgrade, then ReqList *)
Lemma get_downgrade_versions_sound pick U rr version :
  wf_universe U -> wf_reqs rr -> wf_node version ->
  match bind (mvs_downgrade (u_required U rr) (reqs_previous U) pick (e_fuel U rr) (l_fuel U) version)
             (req_list (u_required U (set_first_path rr version)) target (e_fuel U rr)) with
  | Ok newv => exists bl,
      StronglySorted path_lt newv /\ wf_reqs newv /\
      (forall pick' fuel', (u_fuel U newv <= fuel')%nat -> build_list pick' fuel' U newv = Ok bl) /\
      StronglySorted path_lt bl /\
      (forall v, In (fst version, v) bl -> vle v (snd version) = true)
  | Err => True
  | Panic => False
  | OutOfFuel => False
  end.
Proof.
  intros WU WR WV.
  pose proof (downgrade_cases U rr version pick WU WR WV) as DC.
  pose proof (downgrade_at_or_below_mvs U rr version pick WU WR WV) as AB.
  destruct (mvs_downgrade (u_required U rr) (reqs_previous U) pick (e_fuel U rr) (l_fuel U) version)
    as [final| | |] eqn:ED; simpl; auto.
  destruct DC as (dg & Wdg & EB & SOL & RE).
  set (req0 := override (u_required U rr) target dg) in *.
  assert (OKN : forall m, In m final -> okn m).
  { intros [p v] Hm. destruct SOL as (_ & M & _). destruct (M p v Hm) as [R _]. destruct (RE _ R) as (_ & [X|X] & _).
    - now left.
    - right. apply X. }
  assert (WS : wf_reqs (set_first_path rr version)) by now apply set_first_path_wf.
  rewrite (req_list_ext (u_required U (set_first_path rr version)) (u_required U dg)).
  - destruct (explore_then_reqlist_total U dg req0 None pick (e_fuel U rr) (e_nodes U rr [version]) WU Wdg)
      as [E|(bl & newv & E & Em & SOL' & _ & S & I & NT & WN & K)].
    + intros n Hn. now apply RE.
    + apply e_fuel_Nn.
    + intros m l El n Hn. right. unfold req0, override in El. destruct (node_eqb m target).
      * inversion El; subst. now apply Wdg.
      * apply (u_required_wf U rr m l WU WR El n Hn).
    + intros u m um X. discriminate.
    + intros x Hx. unfold req0, override. destruct (node_eqb_spec x target) as [X|X]; [subst; now elim Hx|].
      now apply u_required_nonroot.
    + intros n Hn. eapply root_reqs_reach; eauto. unfold req0, override. now rewrite node_eqb_refl.
    + rewrite EB in E. discriminate.
    + rewrite EB in E. inversion E; subst bl. rewrite Em. exists final. splits; auto.
      * destruct SOL as (X & _). exact X.
      * now apply AB.
  - intros x Hx. now apply u_required_nonroot.
  - intros x l Hx El y Hy. apply (u_required_wf U _ x l WU WS El y Hy).
  - exact OKN.
Qed.

(** FULL: get in its downgrade branch.  The new requirements resolve, and in their build list the project is
    absent or at a version at or below the one the query resolved to. *)
Theorem get_downgrade_at_or_below pick U root q k c' :
  wf_universe U -> wf_reqs (map snd root) -> names_unique root ->
  apply_op pick U root (OpGet q k) = Ok c' ->
  exists bl0 version,
    build_list pick (e_fuel U (map snd root)) U (map snd root) = Ok bl0 /\
    resolve_query U bl0 q k = Ok version /\
    (wf_node version ->
     forall cur, find_path (fst version) bl0 = Some cur -> sem_cmp cur (snd version) = Gt ->
     forall pick1 fuel1, (u_fuel U (map snd c') <= fuel1)%nat ->
       exists bl1, dawn_build_list pick1 fuel1 U c' = Ok bl1 /\
                   forall v, In (fst version, v) bl1 -> vle v (snd version) = true).
Proof.
  intros WU WR NU H. simpl in H. set (rr := map snd root) in *.
  destruct (transform_ok _ _ _ _ H) as (newv & Etx).
  destruct (get_versions_cases pick U rr q k newv Etx) as (bl0 & version & E0 & EQ & CASES).
  exists bl0, version. splits; auto. intros WV cur Hcur Hgt pick1 fuel1 F1.
  destruct CASES as [(Hnone & _)|[(cur' & Hcur' & Hc & _)|[(cur' & Hcur' & Hc & _)|(cur' & _ & _ & Hdown)]]];
    try congruence.
  pose proof (get_downgrade_versions_sound pick U rr version WU WR WV) as G. rewrite Hdown in G.
  destruct G as (bl & S & WN & K & Sbl & AB).
  destruct (transform_spec U root _ c' newv NU (sorted_nodup_keys _ S) (fun x Hx => proj1 (WN x Hx)) Etx H)
    as (_ & SS & _).
  exists bl. split; auto. eapply dawn_bl_of_values; eauto.
Qed.

(** FULL: neither mvs.Downgrade nor get's downgrade branch as a whole (Downgrade, then ReqList) hangs or panics *)
Theorem downgrade_no_hang_no_panic pick U rr version :
  wf_universe U -> wf_reqs rr -> wf_node version ->
  mvs_downgrade (u_required U rr) (reqs_previous U) pick (e_fuel U rr) (l_fuel U) version <> OutOfFuel /\
  mvs_downgrade (u_required U rr) (reqs_previous U) pick (e_fuel U rr) (l_fuel U) version <> Panic /\
  bind (mvs_downgrade (u_required U rr) (reqs_previous U) pick (e_fuel U rr) (l_fuel U) version)
       (req_list (u_required U (set_first_path rr version)) target (e_fuel U rr)) <> OutOfFuel /\
  bind (mvs_downgrade (u_required U rr) (reqs_previous U) pick (e_fuel U rr) (l_fuel U) version)
       (req_list (u_required U (set_first_path rr version)) target (e_fuel U rr)) <> Panic.
Proof.
  intros WU WR WV. pose proof (get_downgrade_versions_sound pick U rr version WU WR WV) as G.
  split; [now apply downgrade_terminates|]. split; [now apply downgrade_no_panic|].
  split; intros E; now rewrite E in G.
Qed.

(** the lemma that was missing, in plain terms *)
Theorem down_list_reach pick U rr d bl dgd :
  wf_universe U -> wf_reqs rr -> wf_node d ->
  build_list_gen (u_required U rr) None pick (e_fuel U rr) target = Ok bl ->
  down_list (u_required U rr) (reqs_previous U) (down_max (tl bl) d) (l_fuel U) (e_fuel U rr) (e_fuel U rr) (tl bl)
            (mkD [] [] []) [target] = Ok dgd ->
  forall n, greach (override (u_required U rr) target dgd) None target n ->
            In n (e_nodes U rr [d]) /\ (fst n = fst d -> vle (snd n) (snd d) = true).
Proof. intros WU WR WD. apply (down_list_spec_holds U rr d pick WU WR WD). Qed.

Theorem down_list_no_hang pick U rr d bl :
  wf_universe U -> wf_reqs rr -> wf_node d ->
  build_list_gen (u_required U rr) None pick (e_fuel U rr) target = Ok bl ->
  down_list (u_required U rr) (reqs_previous U) (down_max (tl bl) d) (l_fuel U) (e_fuel U rr) (e_fuel U rr) (tl bl)
            (mkD [] [] []) [target] <> OutOfFuel.
Proof.
  intros WU WR WD E0 E. destruct (down_phase U rr d pick WU WR WD bl E0) as [X|(dgd & X & _)]; rewrite X in E; discriminate.
Qed.
