(** A cache that was damaged from outside, or a repository out of reach, can make the resolution of the build list
    FAIL; it can never change the list the project ends up with. *)
From Dawn Require Import Mvs.VersionProofs Mvs.Spec Mvs.Proofs_Base Mvs.Proofs_C10 Mvs.Cache Mvs.Proofs_Cache.
From Dawn Require Import Mvs.Load.

(** ** the exploration only looks at [required] on the reached nodes whose version is not "none" *)
Section ExploreExt2.
  Variable r1 r2 : node -> option (list node).
  Variable pick : list node -> nat.
  Variable P : node -> Prop.
  Hypothesis agree : forall m, P m -> snd m <> VNone -> r1 m = r2 m.
  Hypothesis closed : forall m l n, P m -> snd m <> VNone -> r1 m = Some l -> In n l -> P n.

  Lemma step_reqs_agree2 m : P m -> step_reqs r1 None m = step_reqs r2 None m.
  Proof.
    intros H. unfold step_reqs. destruct (snd m) eqn:E; auto; rewrite (agree m H); auto; congruence.
  Qed.

  Lemma step_reqs_closed2 m n : P m -> In n (fst (step_reqs r1 None m)) -> P n.
  Proof.
    intros H. unfold step_reqs. destruct (snd m) eqn:E; simpl; try tauto;
      destruct (r1 m) as [l|] eqn:E1; simpl; try tauto; intros Hn; eapply closed; eauto; congruence.
  Qed.

  Lemma explore_agree2 fuel : forall pending seen sel err,
    Forall P pending ->
    explore r1 None pick fuel pending seen sel err = explore r2 None pick fuel pending seen sel err.
  Proof.
    induction fuel as [|f IH]; intros pending seen sel err HP; cbn [explore]; auto.
    destruct pending as [|d pending'] eqn:EP; auto. rewrite <- EP in *.
    set (i := Nat.modulo (pick pending) (length pending)).
    assert (Hm : P (nth i pending d)).
    { rewrite Forall_forall in HP. apply HP. apply nth_In. apply Nat.mod_upper_bound. rewrite EP. simpl. lia. }
    rewrite <- (step_reqs_agree2 _ Hm). apply IH.
    rewrite Forall_forall. intros x Hx. apply add_new_from in Hx. destruct Hx as [Hx|Hx].
    - rewrite Forall_forall in HP. apply HP. eapply remove_nth_In; eauto.
    - eapply step_reqs_closed2; eauto.
  Qed.

  Lemma build_list_gen_agree2 fuel t : P t ->
    build_list_gen r1 None pick fuel t = build_list_gen r2 None pick fuel t.
  Proof. intros H. unfold build_list_gen. rewrite explore_agree2; auto. Qed.
End ExploreExt2.

(** ** answers that are the universe's or an error: the run fails or computes the universe's build list *)
Section FailsOrSame.
  Variable U : universe.
  Variable W : node -> Prop.
  Hypothesis HW : requirements_closed U W.
  Variable obs : node -> option summary.
  Hypothesis Hobs : forall n, W n -> obs n = resolve_project U n \/ obs n = None.
  Variable root : config.
  Hypothesis Hroot : forall m, In m (map snd root) -> fst m = [] \/ W m.

  Notation rr := (map snd root).
  Notation r1 := (required_via obs rr).
  Notation r2 := (u_required U rr).

  Lemma via_some m l : (fst m = [] \/ W m) -> r1 m = Some l -> r2 m = Some l.
  Proof.
    intros Hm. unfold required_via, u_required. destruct m as [p v]. simpl in *. destruct p; auto.
    destruct Hm as [Hm|Hm]; [discriminate|].
    destruct (Hobs _ Hm) as [H|H]; rewrite H; [auto|discriminate].
  Qed.

  Lemma greach_via n : greach r1 None target n -> (fst n = [] \/ W n) /\ reachable r2 target n.
  Proof.
    induction 1 as [|m n Hm [IW IR] Hn].
    - split; [left; reflexivity|constructor].
    - apply succs_plain in Hn. destruct Hn as (Hv & l & Hl & Hin).
      pose proof (via_some m l IW Hl) as Hl2. split.
      + destruct IW as [IW|IW].
        * unfold required_via in Hl. rewrite IW in Hl. simpl in Hl. injection Hl as <-. auto.
        * unfold u_required in Hl2. destruct (fst m) eqn:Ef.
          -- injection Hl2 as <-. auto.
          -- destruct (resolve_project U m) as [s0|] eqn:Es; [|discriminate]. injection Hl2 as <-.
             eapply HW; eauto.
      + eapply r_dep; eauto.
  Qed.

  Theorem via_fails_or_same pick fuel :
    (u_fuel U rr <= fuel)%nat ->
    dawn_build_list_via obs pick fuel root = Err \/
    dawn_build_list_via obs pick fuel root = dawn_build_list pick fuel U root.
  Proof.
    intros Hf.
    assert (HN : forall n, greach r1 None target n -> In n (u_nodes U rr)).
    { intros n H. apply reachable_in_nodes. apply (greach_via n H). }
    assert (Hf' : (length (u_nodes U rr) < fuel)%nat) by (unfold u_fuel in Hf; lia).
    unfold dawn_build_list_via, dawn_build_list, build_list.
    destruct (build_list_gen_spec r1 None pick (u_nodes U rr) fuel HN Hf') as [(E & _)|(l & E & _ & NB)].
    - left. now rewrite E.
    - right.
      rewrite (build_list_gen_agree2 r1 r2 pick (greach r1 None target)); auto.
      + intros m Hm Hv. pose proof (NB m Hm) as B.
        destruct (r1 m) as [l1|] eqn:E1.
        * symmetry. apply via_some; auto. apply (greach_via m Hm).
        * exfalso. assert (X : bad r1 None m = true) by (apply bad_plain; auto). congruence.
      + intros m l1 n Hm Hv E1 Hin. eapply gr_step; eauto. apply succs_plain. eauto.
      + constructor.
  Qed.
End FailsOrSame.

(** ** the damaged world: a directory in the cache is a complete download or unreadable; a returned call
    answered with the universe's configuration or with an error *)
Section DamagedProofs.
  Variable U : universe.
  Variable deliver : node -> option (list wr).
  Variable W : node -> Prop.
  Hypothesis HD : deliver_sound U deliver W.
  Hypothesis HK : key_sound U W.

  Definition entry_ok (k : node) (d : dir) : Prop :=
    (exists n ws, W n /\ cache_key n = k /\ deliver n = Some ws /\ d = rev ws) \/ load_config d = None.

  Definition disk_ok (D : disk) : Prop := forall k d, disk_get D k = Some d -> entry_ok k d.

  Definition dcall_ok (c : call) : Prop :=
    W (c_node c) /\
    match c_state c with
    | PStage done todo => deliver (c_node c) = Some (rev done ++ todo)
    | PRename d => exists ws, deliver (c_node c) = Some ws /\ d = rev ws
    | PRet _ r => r = resolve_project U (c_node c) \/ r = None
    | _ => True
    end.

  Lemma loaded_ok D n d :
    disk_ok D -> W n -> disk_get D (cache_key n) = Some d -> load_config d = resolve_project U n \/ load_config d = None.
  Proof.
    intros HC Hn Hd. destruct (HC _ _ Hd) as [(m & ws & Hm & Hk & Hdl & ->)|H]; auto.
    left. pose proof (HD m Hm) as H. rewrite Hdl in H. rewrite H. apply HK; auto.
  Qed.

  Lemma dcstep_ok n D st D' st' :
    cstep deliver n D st D' st' -> disk_ok D -> dcall_ok (mkCall n st) -> disk_ok D' /\ dcall_ok (mkCall n st').
  Proof.
    intros S HC [Hw Hc]; simpl in *.
    assert (same : forall st1, (dcall_ok (mkCall n st1)) -> disk_ok D /\ dcall_ok (mkCall n st1)) by (intros; split; auto).
    inversion S; subst; simpl in *.
    - (* hit *) apply same. split; simpl; auto.
    - (* unresolvable *) apply same. split; simpl; auto.
    - (* start *) apply same. split; simpl; auto.
    - apply same. split; simpl; auto.
    - (* write *) apply same. split; simpl; auto. rewrite Hc. now rewrite <- app_assoc.
    - apply same. split; simpl; auto.
    - (* staged *) apply same. split; simpl; auto. rewrite app_nil_r in Hc.
      exists (rev done). split; auto. now rewrite rev_involutive.
    - (* publish *) destruct Hc as (ws & Hdl & ->). split; [|split; simpl; auto].
      intros k d Hk. simpl in Hk. destruct (node_eqb_spec (cache_key n) k) as [<-|_]; [|eapply HC; eauto].
      injection Hk as <-. left. exists n, ws. auto.
    - (* overtaken *) apply same. split; simpl; auto.
    - apply same. split; simpl; auto.
    - (* load *) apply same. split; simpl; auto.
      match goal with |- context [disk_get ?X (cache_key n)] => destruct (disk_get X (cache_key n)) as [d0|] eqn:E end;
        auto. eapply loaded_ok; eauto.
  Qed.

  Lemma disk_get_remove D k k' : disk_get (disk_remove D k) k' = if node_eqb k k' then None else disk_get D k'.
  Proof.
    induction D as [|[k0 d0] D IH]; simpl.
    - now destruct (node_eqb k k').
    - destruct (node_eqb_spec k0 k) as [->|Hne]; simpl.
      + rewrite IH. destruct (node_eqb_spec k k'); auto.
      + rewrite IH. destruct (node_eqb_spec k0 k') as [->|Hne']; auto.
        destruct (node_eqb_spec k k'); auto. congruence.
  Qed.

  Lemma damage_ok D D' : damage D D' -> disk_ok D -> disk_ok D'.
  Proof.
    intros S HC. inversion S; subst; intros k' d' Hk.
    - simpl in Hk. destruct (node_eqb_spec k k').
      + injection Hk as <-. right. auto.
      + eapply HC; eauto.
    - rewrite disk_get_remove in Hk. destruct (node_eqb k k'); [discriminate|]. eapply HC; eauto.
  Qed.

  Definition dworld_ok (w : disk * list call) : Prop := disk_ok (fst w) /\ Forall dcall_ok (snd w).

  Lemma dstep_ok w w' : dstep deliver W w w' -> dworld_ok w -> dworld_ok w'.
  Proof.
    intros S [HC HF]. inversion S as [? ? S'|]; subst; simpl in *.
    - inversion S'; subst; simpl in *.
      + split; auto. constructor; auto. split; simpl; auto.
      + split; auto. apply Forall_app in HF as [H1 H2]. inversion H2; subst. apply Forall_app; auto.
      + apply Forall_app in HF as [H1 H2]. inversion H2 as [|? ? Hc H3]; subst.
        destruct (dcstep_ok _ _ _ _ _ H HC Hc) as (HC' & Hc').
        split; auto. simpl. apply Forall_app; split; auto.
    - split; simpl; auto. eapply damage_ok; eauto.
  Qed.

  Theorem dreach_ok w : dreach deliver W w -> dworld_ok w.
  Proof.
    induction 1.
    - split; simpl; [intros k d; discriminate|constructor].
    - eapply dstep_ok; eauto.
  Qed.

  Theorem damaged_cache_entries D cs : dreach deliver W (D, cs) -> disk_ok D.
  Proof. intros H. exact (proj1 (dreach_ok _ H)). Qed.

  Theorem resolve_via_damaged_cache D cs n b r :
    dreach deliver W (D, cs) -> In (mkCall n (PRet b r)) cs -> r = resolve_project U n \/ r = None.
  Proof.
    intros H Hin. destruct (dreach_ok _ H) as [_ HF]. simpl in HF.
    rewrite Forall_forall in HF. destruct (HF _ Hin) as [_ Hc]. exact Hc.
  Qed.

  (** ** Load: fails, or the project's build list is the minimal-version-selection solution *)
  Hypothesis HW : requirements_closed U W.

  Theorem load_fails_or_solution obs pick fuel (root : config) :
    observed_damaged deliver W obs -> (forall m, In m (map snd root) -> fst m = [] \/ W m) ->
    (u_fuel U (map snd root) <= fuel)%nat ->
    load_build_list obs pick fuel root = Err \/
    (exists l, load_build_list obs pick fuel root = Ok l /\ mvs_solution (reachable_from U (map snd root)) l
               /\ dawn_build_list pick fuel U root = Ok l).
  Proof.
    intros HO HR Hf.
    assert (Hobs : forall n, W n -> obs n = resolve_project U n \/ obs n = None).
    { intros n Hn. destruct (HO n Hn) as (D & cs & b & Hr & Hin). eapply resolve_via_damaged_cache; eauto. }
    unfold load_build_list.
    destruct (via_fails_or_same U W HW obs Hobs root HR pick fuel Hf) as [E|E]; rewrite E; auto.
    destruct (build_list_decides pick U root fuel Hf) as [[E2 _]|(l & E2 & S & _)]; rewrite E2; auto.
    right. exists l. auto.
  Qed.
End DamagedProofs.

(** the damage the check applies (entries of the given keys unreadable or out of reach) is such an [obs] *)
Lemma obs_damaged_spec U keys n : obs_damaged U keys n = resolve_project U n \/ obs_damaged U keys n = None.
Proof. unfold obs_damaged. destruct (existsb _ keys); auto. Qed.
