(** Executable model of the resolver's lookup of the repository that hosts a project:
      dawn  internal/mvs/resolver.go findProjectRepository (the projectRepositories memo, the well-known branch, the
            loop that dials ever shorter prefixes of the project path), internal/vcs/repo.go IsWellKnown / isGitHub.
    Project paths are clean (project.LoadConfigBytes applies CleanPath): for such paths path.Join is joining with "/".
    A dial that fails is "no repository here" for the loop and an error for a well-known path; [dial] says which
    addresses answer, and is taken to be stable over the life of one resolver.
    NO proofs in this file. *)
From Dawn Require Export Mvs.Model.

Definition s_github : str := [103; 105; 116; 104; 117; 98; 46; 99; 111; 109].      (* "github.com" *)

Definition join_path (l : list str) : str := join_with c_slash l.

(** vcs.IsWellKnown: "github.com/org/repo[/dir...]" -> (address, path inside the repository) *)
Definition is_well_known (key : str) : option (str * str) :=
  match split_on c_slash key with
  | h :: o :: r :: rest => if str_eqb h s_github then Some (join_path [h; o; r], join_path rest) else None
  | _ => None
  end.

(** the loop: address, relPath = key, ""; dial address; otherwise cut the last component off the address and put it
    in front of relPath; stop when there is no separator left.  [pre_rev]: the components of the address, last first *)
Fixpoint walk_up (dial : str -> bool) (pre_rev rel : list str) : option (str * str) :=
  match pre_rev with
  | [] => None
  | c :: pre' =>
      let addr := join_path (rev pre_rev) in
      if dial addr then Some (addr, join_path rel) else walk_up dial pre' (c :: rel)
  end.

(** what findProjectRepository computes on a memo miss; [None]: an error *)
Definition locate (dial : str -> bool) (key : str) : option (str * str) :=
  match is_well_known key with
  | Some (addr, rel) => if dial addr then Some (addr, rel) else None
  | None => match key with
            | [] => None                                  (* for address != "" *)
            | _ => walk_up dial (rev (split_on c_slash key)) []
            end
  end.

(** Resolver.projectRepositories: key -> (repository address, project path inside it) *)
Definition memo := list (str * (str * str)).

Fixpoint memo_get (M : memo) (key : str) : option (str * str) :=
  match M with
  | [] => None
  | (k, x) :: M' => if str_eqb k key then Some x else memo_get M' key
  end.

(** findProjectRepository(projectPath): the answer and the memo afterwards (LoadOrStore keeps the first entry) *)
Definition find_project_repository (dial : str -> bool) (M : memo) (project_path : str) : option (str * str) * memo :=
  let key := trim_path_version project_path in
  match memo_get M key with
  | Some x => (Some x, M)
  | None => match locate dial key with
            | Some x => (Some x, (key, x) :: M)
            | None => (None, M)
            end
  end.

(** the memo of a resolver that has looked up any project paths in any order *)
Inductive memo_reach (dial : str -> bool) : memo -> Prop :=
| mr_init : memo_reach dial []
| mr_find M p : memo_reach dial M -> memo_reach dial (snd (find_project_repository dial M p)).

(** the check: the repositories that answer are the listed addresses *)
Definition dial_of (addrs : list str) (a : str) : bool := existsb (str_eqb a) addrs.

Definition opt_pair_eqb (a b : option (str * str)) : bool :=
  match a, b with
  | Some (x, y), Some (x', y') => str_eqb x x' && str_eqb y y'
  | None, None => true
  | _, _ => false
  end.

(** cases: (id, (project path, observed (address, project path in the repository) or error)) *)
Definition mismatches_locate (groups : list (list str * list (N * (str * option (str * str))))) : list N :=
  flat_map (fun g => map fst (filter (fun c => negb (opt_pair_eqb
                                       (fst (find_project_repository (dial_of (fst g)) [] (fst (snd c)))) (snd (snd c))))
                                     (snd g))) groups.
