(** Idempotence of UpgradeAll. *)
From Coq Require Import Lia.
From Dawn Require Import Mvs.VersionProofs Mvs.Spec Mvs.Proofs_Base Mvs.Proofs_C10 Mvs.Proofs_ReqList Mvs.Proofs_Names
     Mvs.Proofs_C11 Mvs.Proofs_Idem Mvs.Proofs_Idem2.

(** a node with the root's (empty) path is never a failure of the UpgradeAll exploration: Reqs.Required answers
    with the root's requirements and the upgrade callback with the target *)
Lemma bad_rootpath U rr m : fst m = [] -> bad (u_required U rr) (Some (upg_all U)) m = false.
Proof.
  destruct m as [p v]. simpl. intros E. subst p. unfold bad, step_reqs, upg_all, u_required. simpl.
  destruct v; reflexivity.
Qed.

Lemma bad_nonroot U rr1 rr2 up m : fst m <> [] -> bad (u_required U rr1) up m = bad (u_required U rr2) up m.
Proof. intros H. unfold bad, step_reqs. now rewrite (u_required_nonroot U rr1 rr2 m H). Qed.

Theorem upgrade_all_idempotent pick U root c' :
  wf_universe U -> wf_reqs (map snd root) -> names_unique root ->
  apply_op pick U root OpUpgradeAll = Ok c' -> apply_op pick U c' OpUpgradeAll = Ok c'.
Proof.
  intros WU WR NU H. simpl in *. set (rr := map snd root) in *.
  destruct (transform_ok _ _ _ _ H) as (mn & Etx).
  pose proof Etx as Etx0. unfold upgrade_all_versions, mvs_upgrade_all in Etx0.
  change (fun m : node => if str_eqb (fst m) (fst target) then Some target else reqs_upgrade U m) with (upg_all U) in Etx0.
  assert (Hbig : (length (e_nodes U rr []) < e_fuel U rr)%nat) by (unfold e_fuel; lia).
  destruct (explore_then_reqlist U rr (u_required U rr) (Some (upg_all U)) pick (e_fuel U rr) (e_nodes U rr []) mn WU WR)
    as (bl & E & SOL & NB & S & I & NT & WN & K); auto.
  { apply greach_upg_all_nodes. }
  { intros m l El n Hn. right. eapply u_required_wf; eauto. }
  { intros u m um. now apply upg_all_wf. }
  { intros n Hn. eapply root_reqs_reach; eauto. reflexivity. }
  assert (RL1 : req_list (u_required U rr) target (e_fuel U rr) bl = Ok mn) by (change (bind (build_list_gen (u_required U rr) (Some (upg_all U)) pick (e_fuel U rr) target)
                   (req_list (u_required U rr) target (e_fuel U rr)) = Ok mn) in Etx0; rewrite E in Etx0; exact Etx0).
  assert (Sbl : StronglySorted path_lt bl) by apply SOL.
  destruct (transform_spec U root _ c' mn NU (sorted_nodup_keys _ S) (fun x Hx => proj1 (WN x Hx)) Etx H)
    as (CS & SS & _).
  set (rr' := map snd c') in *.
  assert (WR' : wf_reqs rr') by (intros x Hx; apply WN; now apply SS).
  set (R1 := greach (u_required U rr) (Some (upg_all U)) target) in *.
  set (R2 := greach (u_required U rr') (Some (upg_all U)) target).
  (* the second exploration stays inside the first *)
  assert (SUB : forall n, R2 n -> R1 n).
  { induction 1 as [|m n Hm IH Hs]; [constructor|]. apply succs_cases in Hs.
    destruct Hs as [(Hn & l & El & Hl)|(u & Eu & Em & Hne)].
    - destruct m as [[|c0 p0] mv].
      + unfold u_required in El. simpl in El. inversion El; subst l.
        destruct n as [p v]. destruct SOL as (_ & M & _). apply (M p v). apply I. now apply SS.
      + eapply gr_step; [exact IH|]. eapply succs_required; [exact Hn | exact El | exact Hl].
    - eapply gr_step; [exact IH|]. eapply succs_upgrade; eauto. }
  (* the plain build list of the new requirements is [bl] *)
  assert (SolP : mvs_solution (reachable_from U mn) bl).
  { pose proof (dawn_bl_solution pick (u_fuel U mn) U (cfg_of mn) bl) as X. rewrite cfg_of_values in X.
    apply X; [lia|]. unfold dawn_build_list. rewrite cfg_of_values, (K pick (u_fuel U mn)) by lia. f_equal. now apply to_map_sorted. }
  assert (Sol2 : mvs_solution R2 bl).
  { split; [exact Sbl|split].
    - intros p v Hin. destruct SolP as (_ & M & _). destruct (M p v Hin) as [Rp Hv]. split; auto.
      apply (greach_plain_sub _ (Some (upg_all U))). apply greach_reachable.
      apply (reachable_same_set U mn rr'); auto. now apply same_set_sym.
    - intros p v Hr Hv. destruct SOL as (_ & _ & C). apply C; auto. }
  assert (Hbig' : (length (e_nodes U rr' []) < e_fuel U rr')%nat) by (unfold e_fuel; lia).
  assert (NB2 : forall m, R2 m -> bad (u_required U rr') (Some (upg_all U)) m = false).
  { intros m Hm. destruct m as [[|c0 p0] mv]; [now apply bad_rootpath|].
    rewrite (bad_nonroot U rr' rr) by (simpl; discriminate). apply NB. now apply SUB. }
  destruct (explore_then_reqlist_total U rr' (u_required U rr') (Some (upg_all U)) pick (e_fuel U rr') (e_nodes U rr' []) WU WR')
    as [X|(bl2 & mn2 & E2 & RL2 & SOL2 & _)]; auto.
  - apply greach_upg_all_nodes.
  - intros m l El n Hn. right. eapply u_required_wf; eauto.
  - intros u m um. now apply upg_all_wf.
  - intros n Hn. eapply root_reqs_reach; eauto. reflexivity.
  - exfalso.
    destruct (build_list_gen_spec (u_required U rr') (Some (upg_all U)) pick (e_nodes U rr' []) (e_fuel U rr')
                                  (greach_upg_all_nodes U rr') Hbig') as [[_ (m & M1 & M2)]|(l & El & _)].
    + rewrite (NB2 m M1) in M2. discriminate.
    + congruence.
  - assert (bl2 = bl) by (eapply mvs_solution_unique; eauto). subst bl2.
    assert (OKN : forall m, In m bl -> okn m).
    { intros [p v] Hm. destruct SOL as (_ & M & _). destruct (M p v Hm) as [Rm _].
      destruct (greach_wf (u_required U rr) (Some (upg_all U))) with (n := (p, v)) as [X|[X _]]; auto.
      - intros m l El. exact (u_required_wf U rr m l WU WR El).
      - intros u m um. now apply upg_all_wf.
      - now left.
      - now right. }
    assert (EXT : forall f, req_list (u_required U rr') target f bl = req_list (u_required U rr) target f bl).
    { intros f. apply req_list_ext; auto.
      - intros x Hx. now apply u_required_nonroot.
      - intros x l Hx El y Hy. eapply (u_required_wf U rr' x l WU WR' El y Hy). }
    rewrite EXT in RL2.
    assert (mn2 = mn).
    { pose proof (req_list_fuel_le _ target _ (Nat.max (e_fuel U rr) (e_fuel U rr')) bl mn (Nat.le_max_l _ _) RL1) as A1.
      pose proof (req_list_fuel_le _ target _ (Nat.max (e_fuel U rr) (e_fuel U rr')) bl mn2 (Nat.le_max_r _ _) RL2) as A2.
      congruence. }
    subst mn2.
    apply (transform_fixpoint U c' _ mn); auto.
    + apply sorted_nodup_keys; auto.
    + intros x Hx. apply (WN x Hx).
    + change (bind (build_list_gen (u_required U rr') (Some (upg_all U)) pick (e_fuel U rr') target)
                   (req_list (u_required U rr') target (e_fuel U rr')) = Ok mn).
      rewrite E2. simpl. rewrite EXT. exact RL2.
Qed.
