(** Proofs about the root project's two configuration files (Mvs/LoadRoot.v). *)
From Dawn Require Import Mvs.VersionProofs Mvs.Spec Mvs.Proofs_Base Mvs.Proofs_C10 Mvs.Cache Mvs.Proofs_Cache.
From Dawn Require Import Mvs.Load Mvs.Proofs_Load.
From Dawn Require Import Mvs.LoadRoot.

Section LoadRootProofs.
  Variable U : universe.
  Variable deliver : node -> option (list wr).
  Variable W : node -> Prop.
  Hypothesis HD : deliver_sound U deliver W.
  Hypothesis HK : key_sound U W.
  Hypothesis HW : requirements_closed U W.

  (** Load fails or Project.buildList is the solution of the graph of the project's own configuration (its dawn.toml
      when it has one, whatever its .dawnconfig holds), over any cache that resolvers, faults, kills and damage from
      outside have worked on *)
  Theorem load_root_fails_or_solution obs rne pick fuel (toml dot : root_file) (c : config) :
    project_config toml dot = Some c ->
    observed_damaged deliver W obs -> (forall m, In m (map snd c) -> fst m = [] \/ W m) ->
    (u_fuel U (map snd c) <= fuel)%nat ->
    (exists b, load_config_loop obs rne pick fuel toml dot = FErr b) \/
    (exists l, load_config_loop obs rne pick fuel toml dot = FOk l /\ mvs_solution (reachable_from U (map snd c)) l).
  Proof.
    intros HP HO HR Hf.
    pose proof (load_fails_or_solution U deliver W HD HK HW obs pick fuel c HO HR Hf) as HL.
    unfold load_config_loop. destruct toml as [| |c0]; simpl in HP; try discriminate.
    - destruct dot as [| |c1]; try discriminate. injection HP as ->. simpl.
      destruct HL as [E|(l & E & S & _)]; rewrite E; eauto.
    - injection HP as ->. simpl.
      destruct HL as [E|(l & E & S & _)]; rewrite E; eauto.
  Qed.

  (** the left-over file takes no part: the answer is that of a root that has the dawn.toml alone *)
  Theorem load_root_ignores_left_over obs rne pick fuel (c : config) (dot : root_file) :
    load_config_loop obs rne pick fuel (RConfig c) dot = load_config_loop obs rne pick fuel (RConfig c) RMissing.
  Proof. reflexivity. Qed.
End LoadRootProofs.

(** The former loadConfig (before 15786e0), REFUTED for a root with both files: project r/a (v1.0.0, no requirements); the root's dawn.toml requires it, its
    left-over .dawnconfig requires nothing; the cache entry of r/a v1.0.0 has lost its configuration file, so
    resolveProject fails with a "does not exist".  loadConfig takes that for a missing dawn.toml, loads .dawnconfig and
    Load succeeds with a build list that is not the solution of the project's requirement graph. *)
Theorem load_root_former_refuted :
  exists (U : universe) (c c' : config) (keys : list node) (l : list (str * version)),
    let obs := obs_damaged U keys in
    project_config (RConfig c) (RConfig c') = Some c /\
    (forall pick, load_config_loop_former obs (fun _ => true) pick (u_fuel U (map snd c)) (RConfig c) (RConfig c') = FOk l) /\
    ~ mvs_solution (reachable_from U (map snd c)) l /\
    (forall pick, exists b, load_config_loop obs (fun _ => true) pick (u_fuel U (map snd c)) (RConfig c) (RConfig c') = FErr b).
Proof.
  set (a := [114; 47; 97]). set (v := VSem (mkSV 1 0 0 [])).
  exists (mkU [114] [((a, v), 1)] [((a, 1), mkSum [] [])] [] [] []), [(a, (a, v))], [], [(a, v)], [([], VRoot)].
  cbv zeta. split; [reflexivity|]. split; [|split].
  - intros pick. vm_compute. reflexivity.
  - intros (_ & _ & H). destruct (H a v) as (w & Hin & _).
    + eapply r_dep with (m := target) (l := [(a, v)]); [apply r_target|discriminate|reflexivity|left; reflexivity].
    + discriminate.
    + simpl in Hin. destruct Hin as [E|[]]. inversion E.
  - intros pick. exists true. vm_compute. reflexivity.
Qed.
