(** Requirement paths AS THEY ARE WRITTEN in a configuration file, and what the build-list graph is built from:
      path (Go standard library)            Clean
      dawn  internal/project/version.go     CleanPath = JoinPathVersion(path.Clean(p), v) after SplitPathVersion
      dawn  internal/project/config.go      LoadConfigBytes: every requirement path of every configuration -- the
                                            root's and every dependency's (resolver.go resolveProject reads them with
                                            LoadConfigFile) -- is replaced by its CleanPath
    The vertices of the requirement graph are (path, version) pairs compared as strings (module.Version), the download
    cache is keyed on the path without its major suffix, and the repository lists its tags under
    JoinPathVersion(path.Join(repository, directory), major): a project has ONE path string there, while a configuration
    may write it in many ways ("lib", "lib@v1", "lib@v0", "./lib", "lib/", "x/../lib", "lib/.@v2").  CleanPath maps all of
    them to the one string; the other files of Mvs/ start from there (their universes hold loaded paths).
    NO proofs in this file. *)
From Dawn Require Export Mvs.Model.

Definition s_dot : str := [c_dot].
Definition s_dotdot : str := [c_dot; c_dot].

Definition empty_str (s : str) : bool := match s with [] => true | _ => false end.

(** One round of the loop of path.Clean, element by element (the loop reads up to the next '/').
    [out]: the elements written so far, the last one first; [locked]: how many of them, the oldest, are ".." elements
    that a later ".." must not remove (the variable dotdot: the buffer position up to which nothing is backed out). *)
Definition clean_step (rooted : bool) (st : list str * nat) (e : str) : list str * nat :=
  let (out, locked) := st in
  if empty_str e || str_eqb e s_dot then st                          (* empty element, "." : skipped *)
  else if str_eqb e s_dotdot then
    if (locked <? length out)%nat then (tl out, locked)               (* back out the last element *)
    else if rooted then st                                            (* "/.." is "/" *)
    else (s_dotdot :: out, S (length out))                            (* cannot back out: keep "..", dotdot = out.w *)
  else (e :: out, locked).

(** path.Clean *)
Definition path_clean (p : str) : str :=
  match p with
  | [] => s_dot
  | c :: _ =>
      let rooted := c =? c_slash in
      let out := fst (fold_left (clean_step rooted) (split_on c_slash p) ([], O)) in
      match out, rooted with
      | [], false => s_dot
      | _, _ => (if rooted then [c_slash] else []) ++ join_with c_slash (rev out)
      end
  end.

(** project.CleanPath *)
Definition clean_path_full (p : str) : str :=
  let (a, v) := split_path_version p in join_path_version (path_clean a) v.

(** LoadConfigBytes on the requirements of one configuration (versions: Mvs/Gate.v) *)
Definition load_reqs (l : list node) : list node := map (fun n => (clean_path_full (fst n), snd n)) l.

Definition load_root (c : config) : config := map (fun e => (fst e, (clean_path_full (fst (snd e)), snd (snd e)))) c.

(** the universe whose configuration files hold requirement paths as written, as the resolver sees it: every
    configuration it reads went through LoadConfigBytes *)
Definition load_universe (U : universe) : universe :=
  mkU (u_repo U) (u_tags U)
      (map (fun e => (fst e, mkSum (s_name (snd e)) (load_reqs (s_reqs (snd e))))) (u_sums U))
      (u_refs U) (u_default U) (u_segs U).

(** dawn's BuildList for a root configuration file and a universe of configuration files as written *)
Definition dawn_build_list_written (pick : list node -> nat) (fuel : nat) (U : universe) (root : config)
  : outcome (list (str * version)) :=
  dawn_build_list pick fuel (load_universe U) (load_root root).

Definition written_fuel (U : universe) (root : config) : nat :=
  u_fuel (load_universe U) (map snd (load_root root)).

(** no path separator and no '@' in a major suffix *)
Definition plain_elem (m : str) : Prop := forall c, In c m -> c <> c_slash /\ c <> c_at.
