(** Proofs about requirement paths as written (Mvs/Paths.v). *)
From Dawn Require Import Mvs.Spec Mvs.Proofs_C10.
From Dawn Require Import Mvs.Paths.

Lemma spv_rev_app : forall r acc rest,
  plain_elem r -> spv_rev (r ++ c_at :: rest) acc = Some (rev rest, rev r ++ acc).
Proof.
  induction r as [|c r IH]; intros acc rest H; simpl.
  - unfold c_at, c_slash. reflexivity.
  - destruct (H c (or_introl eq_refl)) as [Hs Ha].
    destruct (N.eqb_spec c c_slash); [contradiction|].
    destruct (N.eqb_spec c c_at); [contradiction|].
    rewrite IH.
    + rewrite <- app_assoc. reflexivity.
    + intros d Hd. apply H. right. exact Hd.
Qed.

Lemma plain_elem_rev m : plain_elem m -> plain_elem (rev m).
Proof. intros H c Hc. apply H. apply in_rev. exact Hc. Qed.

Lemma split_written p m : plain_elem m -> split_path_version (p ++ c_at :: m) = (p, m).
Proof.
  intros H. unfold split_path_version.
  rewrite rev_app_distr. simpl. rewrite <- app_assoc. simpl.
  rewrite spv_rev_app by (apply plain_elem_rev; exact H).
  rewrite !rev_involutive, app_nil_r. reflexivity.
Qed.

(** a path written with a major suffix loads as JoinPathVersion(path.Clean(path), major) *)
Lemma written_path_loads_as p m :
  plain_elem m -> clean_path_full (p ++ c_at :: m) = join_path_version (path_clean p) m.
Proof. intros H. unfold clean_path_full. rewrite split_written by exact H. reflexivity. Qed.

Lemma redundant_major_is_folded p m :
  m = [] \/ m = s_v0 \/ m = s_v1 -> clean_path_full (p ++ c_at :: m) = path_clean p.
Proof.
  intros H. rewrite written_path_loads_as.
  - destruct H as [-> | [-> | ->]]; reflexivity.
  - destruct H as [-> | [-> | ->]]; intros c Hc; simpl in Hc;
      repeat (destruct Hc as [<- | Hc]; [split; discriminate|]); contradiction.
Qed.

Lemma plain_path_loads_clean p :
  split_path_version p = (p, []) -> clean_path_full p = path_clean p.
Proof. intros H. unfold clean_path_full. rewrite H. reflexivity. Qed.

Lemma other_major_is_kept p m :
  plain_elem m -> m <> [] -> m <> s_v0 -> m <> s_v1 ->
  clean_path_full (p ++ c_at :: m) = path_clean p ++ c_at :: m.
Proof.
  intros H H0 H1 H2. rewrite written_path_loads_as by exact H.
  unfold join_path_version. destruct m as [|c m]; [congruence|].
  destruct (str_eqb_spec (c :: m) s_v0); [congruence|].
  destruct (str_eqb_spec (c :: m) s_v1); [congruence|]. reflexivity.
Qed.

Lemma spellings_load_alike a b m :
  plain_elem m -> path_clean a = path_clean b ->
  clean_path_full (a ++ c_at :: m) = clean_path_full (b ++ c_at :: m).
Proof. intros H E. rewrite !written_path_loads_as by exact H. rewrite E. reflexivity. Qed.

(** the path under which the repository lists a tag is written as it loads *)
Lemma listed_path_is_fixed a m :
  path_clean a = a -> split_path_version a = (a, []) -> plain_elem m ->
  clean_path_full (join_path_version a m) = join_path_version a m.
Proof.
  intros Hc Hs Hm. unfold join_path_version at 1.
  destruct m as [|c m].
  - rewrite plain_path_loads_clean by exact Hs. exact Hc.
  - destruct (str_eqb (c :: m) s_v0 || str_eqb (c :: m) s_v1) eqn:E.
    + rewrite plain_path_loads_clean by exact Hs. rewrite Hc.
      unfold join_path_version. rewrite E. reflexivity.
    + rewrite written_path_loads_as by exact Hm. rewrite Hc. reflexivity.
Qed.

(** ** the build list of configuration files as written *)

Lemma written_build_list_spec :
  forall (pick : list node -> nat) (U : universe) (root : config) (fuel : nat),
    (written_fuel U root <= fuel)%nat ->
    let req := u_required (load_universe U) (map snd (load_root root)) in
    (unresolvable req target -> dawn_build_list_written pick fuel U root = Err) /\
    (~ unresolvable req target ->
     exists l, dawn_build_list_written pick fuel U root = Ok l /\
               mvs_solution (reachable_from (load_universe U) (map snd (load_root root))) l).
Proof.
  intros pick U root fuel Hf. exact (build_list_spec pick (load_universe U) (load_root root) fuel Hf).
Qed.

(** two sets of configuration files that load alike have one build list, whatever the spellings, the processing
    order, the names and the order of the root requirements *)
Lemma build_list_spelling_independent :
  forall (pick1 pick2 : list node -> nat) (U1 U2 : universe) (root1 root2 : config) (fuel1 fuel2 : nat),
    load_universe U1 = load_universe U2 ->
    same_set (map snd (load_root root1)) (map snd (load_root root2)) ->
    (written_fuel U1 root1 <= fuel1)%nat -> (written_fuel U2 root2 <= fuel2)%nat ->
    dawn_build_list_written pick1 fuel1 U1 root1 = dawn_build_list_written pick2 fuel2 U2 root2.
Proof.
  intros pick1 pick2 U1 U2 root1 root2 fuel1 fuel2 HU HR H1 H2.
  unfold dawn_build_list_written, written_fuel in *. rewrite HU in *.
  apply build_list_order_independent; assumption.
Qed.

(** requirement lists that are written differently but pointwise denote the same (path, version) load alike *)
Lemma load_reqs_alike l1 l2 :
  Forall2 (fun a b => clean_path_full (fst a) = clean_path_full (fst b) /\ snd a = snd b) l1 l2 ->
  load_reqs l1 = load_reqs l2.
Proof.
  induction 1 as [|a b l1 l2 [Hp Hv] _ IH]; simpl; [reflexivity|].
  rewrite Hp, Hv, IH. reflexivity.
Qed.
