(** C11 — placeholder while the pipeline is brought up. *)
From Dawn Require Import Mvs.Edit.

Theorem cfg_set_get : forall c n v, cfg_get (cfg_set c n v) n = Some v.
Proof.
  induction c as [|[k w] c IH]; intros; simpl.
  - now rewrite str_eqb_refl.
  - destruct (str_eqb k n) eqn:E; simpl.
    + now rewrite E.
    + destruct (str_ltb k n); simpl; [rewrite E; apply IH | now rewrite str_eqb_refl].
Qed.
Print Assumptions cfg_set_get.
