(** C11 — Requirement edits keep the requirement graph consistent.

    Vocabulary (Mvs/Edit.v, Mvs/Spec.v):
      [apply_op pick U root o]    the model of Get / Tidy / UpgradeAll of internal/mvs/get.go applied to the root
                                  configuration [root] (name -> (path, version)) over the universe [U];
      [dawn_build_list ...]       dawn's BuildList (Props_C10: the MVS solution of the reachable graph);
      [op_versions ...]           the requirement list the operation computes before names are attached;
      [no_lower bl0 bl1]          every project of bl0 is in bl1 at the same or a higher version;
      [wf_universe], [wf_reqs]    every requirement names a non-empty path at a canonical semantic version
                                  (what project.LoadConfigBytes enforces);
      [names_unique root]         requirement names are unique (a Go map).  Several names MAY share a path, at equal
                                  or different versions ("aliases"): no theorem below assumes otherwise;
      [highest_of l p]            the highest version the requirement list [l] holds for path [p] (highest_spec);
      [keep_old root l]           transformReqs' first loop: the old names re-bound over the computed list [l];
      [u_fuel], [e_fuel]          explicit sufficient fuels (number of nodes + constant).  *)
From Dawn Require Import Mvs.Spec Mvs.Proofs_Names Mvs.Proofs_C11 Mvs.Proofs_Idem2 Mvs.Proofs_Down Mvs.Proofs_Query.
From Dawn Require Mvs.Proofs_Down2 Mvs.Proofs_Idem3.

(** Tidy returns requirements whose build list equals the original one (and both exist) *)
Theorem tidy_preserves_build_list :
  forall pick U root c',
    wf_universe U -> wf_reqs (map snd root) -> names_unique root ->
    apply_op pick U root OpTidy = Ok c' ->
    forall pick1 fuel1 pick2 fuel2,
      (u_fuel U (map snd c') <= fuel1)%nat -> (u_fuel U (map snd root) <= fuel2)%nat ->
      exists bl, dawn_build_list pick2 fuel2 U root = Ok bl /\ dawn_build_list pick1 fuel1 U c' = Ok bl.
Proof. exact Proofs_C11.tidy_preserves_build_list. Qed.
Print Assumptions tidy_preserves_build_list.

(** Get of a version that is not below the selected one (add / already there / upgrade, every query class: the
    theorem is about whatever version the query resolved to): the new build list contains the project at the
    resolved version or above, and lowers no project *)
Theorem upgrade_contains_and_no_lower :
  forall pick U root q k c',
    wf_universe U -> wf_reqs (map snd root) -> names_unique root ->
    apply_op pick U root (OpGet q k) = Ok c' ->
    exists bl0 version,
      build_list pick (e_fuel U (map snd root)) U (map snd root) = Ok bl0 /\
      resolve_query U bl0 q k = Ok version /\
      (wf_node version ->
       (forall cur, find_path (fst version) bl0 = Some cur -> sem_cmp cur (snd version) <> Gt) ->
       forall pick1 fuel1 bl1,
         (u_fuel U (map snd c') <= fuel1)%nat -> dawn_build_list pick1 fuel1 U c' = Ok bl1 ->
         no_lower bl0 bl1 /\ exists w, In (fst version, w) bl1 /\ vle (snd version) w = true).
Proof. exact Proofs_C11.get_upgrade_contains_and_no_lower. Qed.
Print Assumptions upgrade_contains_and_no_lower.

(** ... and in the upgrade case proper the new requirements do resolve, to the list mvs.Upgrade computed *)
Theorem upgrade_resolves :
  forall pick U rr version newv,
    wf_universe U -> wf_reqs rr -> wf_node version ->
    bind (mvs_upgrade (u_required U rr) pick (e_fuel U rr) version)
         (req_list (u_required U (set_first_path rr version)) target (e_fuel U rr)) = Ok newv ->
    exists bl0 bl,
      build_list pick (e_fuel U rr) U rr = Ok bl0 /\
      StronglySorted path_lt newv /\ wf_reqs newv /\
      (forall pick' fuel', (u_fuel U newv <= fuel')%nat -> build_list pick' fuel' U newv = Ok bl) /\
      no_lower bl0 bl /\ (exists w, In (fst version, w) bl /\ vle (snd version) w = true).
Proof. exact Proofs_C11.get_upgrade_versions_sound. Qed.
Print Assumptions upgrade_resolves.

(** The two queries that are defined relative to the current selection never resolve below it, whatever the
    selected version is (a tag, or the pseudo-version of an untagged commit ahead of every tag of its series):
    get never takes its mvs.Downgrade branch for a patch or upgrade query *)
Theorem patch_upgrade_not_below_selection :
  forall U bl q k version,
    match k with QUpgrade | QPatch => True | _ => False end ->
    resolve_query U bl q k = Ok version ->
    forall cur, find_path (fst version) bl = Some cur -> sem_cmp cur (snd version) <> Gt.
Proof. exact Proofs_Query.patch_upgrade_not_below_selection. Qed.
Print Assumptions patch_upgrade_not_below_selection.

(** ... hence get by a patch or upgrade query lowers no project and has the project at the resolved version or
    above: upgrade_contains_and_no_lower without its "not a downgrade" premise *)
Theorem patch_upgrade_lowers_nothing :
  forall pick U root q k c',
    wf_universe U -> wf_reqs (map snd root) -> names_unique root ->
    match k with QUpgrade | QPatch => True | _ => False end ->
    apply_op pick U root (OpGet q k) = Ok c' ->
    exists bl0 version,
      build_list pick (e_fuel U (map snd root)) U (map snd root) = Ok bl0 /\
      resolve_query U bl0 q k = Ok version /\
      (forall cur, find_path (fst version) bl0 = Some cur -> sem_cmp cur (snd version) <> Gt) /\
      (wf_node version ->
       forall pick1 fuel1 bl1,
         (u_fuel U (map snd c') <= fuel1)%nat -> dawn_build_list pick1 fuel1 U c' = Ok bl1 ->
         no_lower bl0 bl1 /\ exists w, In (fst version, w) bl1 /\ vle (snd version) w = true).
Proof. exact Proofs_Query.patch_upgrade_lowers_nothing. Qed.
Print Assumptions patch_upgrade_lowers_nothing.

(** UpgradeAll: the new build list exists, lowers no project, and contains every project at (or above) the
    version Reqs.Upgrade resolves for it *)
Theorem upgrade_all_no_lower :
  forall pick U root c',
    wf_universe U -> wf_reqs (map snd root) -> names_unique root ->
    apply_op pick U root OpUpgradeAll = Ok c' ->
    forall pick1 fuel1 pick2 fuel2,
      (u_fuel U (map snd c') <= fuel1)%nat -> (u_fuel U (map snd root) <= fuel2)%nat ->
      exists bl0 bl, dawn_build_list pick2 fuel2 U root = Ok bl0 /\ dawn_build_list pick1 fuel1 U c' = Ok bl /\
                     no_lower bl0 bl /\
                     (forall p v w, In (p, v) bl0 -> p <> [] -> reqs_upgrade U (p, v) = Some (p, w) ->
                                    exists w', In (p, w') bl /\ vle w w' = true).
Proof. exact Proofs_C11.upgrade_all_no_lower. Qed.
Print Assumptions upgrade_all_no_lower.

(** Algorithm R behind all three: the minimal requirement list of a build list regenerates it *)
Theorem tidy_versions_sound :
  forall pick U rr newv,
    wf_universe U -> wf_reqs rr -> tidy_versions pick U rr = Ok newv ->
    exists bl, build_list pick (e_fuel U rr) U rr = Ok bl /\
               StronglySorted path_lt newv /\ incl newv bl /\ wf_reqs newv /\
               forall pick' fuel', (u_fuel U newv <= fuel')%nat -> build_list pick' fuel' U newv = Ok bl.
Proof. exact Proofs_C11.tidy_versions_sound. Qed.
Print Assumptions tidy_versions_sound.

(** names: for every operation whose computed requirement list has one entry per (non-empty) path *)
Theorem names_preserved_new_names_unique :
  forall pick U root o c' newv,
    names_unique root -> apply_op pick U root o = Ok c' -> op_versions pick U o (map snd root) = Ok newv ->
    NoDup (map fst newv) -> (forall x, In x newv -> fst x <> []) ->
    same_set (map snd c') newv /\
    NoDup (map fst c') /\
    (forall n p v0 v, In (n, (p, v0)) root -> In (p, v) newv -> cfg_get c' n = Some (p, v)) /\
    (forall x, In x newv -> names_of root (fst x) = [] ->
               exists n, cfg_get c' n = Some x /\ cfg_get (keep_old root newv) n = None).
Proof. exact Proofs_C11.names_spec. Qed.
Print Assumptions names_preserved_new_names_unique.

(** names, for ANY computed requirement list - one path may occur in it several times, which is what get's two
    early returns produce for a root that names one path under several names at different versions: names stay
    unique, no requirement is invented, every name of a path that remains keeps the path - at its OWN old version
    when the list holds exactly that requirement, else at the highest version the list holds for the path -, an
    old requirement that is handed back is kept under its name, and a requirement on a new path gets a fresh name *)
Theorem names_preserved_any_list :
  forall pick U root o c' newv,
    names_unique root -> apply_op pick U root o = Ok c' -> op_versions pick U o (map snd root) = Ok newv ->
    (forall x, In x newv -> fst x <> []) ->
    NoDup (map fst c') /\
    incl (map snd c') newv /\
    (forall n p v0, In (n, (p, v0)) root -> In p (map fst newv) ->
                    cfg_get c' n = Some (if mem (p, v0) newv then (p, v0) else (p, highest_of newv p))) /\
    (forall n x, In (n, x) root -> In x newv -> cfg_get c' n = Some x) /\
    (forall x, In x newv -> names_of root (fst x) = [] ->
               exists n, cfg_get c' n = Some x /\ cfg_get (keep_old root newv) n = None).
Proof. exact Proofs_C11.names_spec_any. Qed.
Print Assumptions names_preserved_any_list.

(** "the highest version the list holds for the path": an entry of the path that no entry of the path exceeds *)
Theorem highest_is_the_maximum :
  forall p l h, (forall x, In x l -> exists s, snd x = VSem s) ->
    highest_from p l None = Some h <-> (In (p, h) l /\ forall v, In (p, v) l -> vle v h = true).
Proof. exact Proofs_Names.highest_spec. Qed.
Print Assumptions highest_is_the_maximum.

(** the old names' new bindings do not depend on the order of the computed list (the root's requirements reach
    transformReqs in Go-map iteration order) *)
Theorem old_names_order_independent :
  forall root newv newv',
    names_unique root -> (forall x, In x newv -> exists s, snd x = VSem s) -> Permutation newv newv' ->
    keep_old root newv = keep_old root newv'.
Proof. exact Proofs_Names.keep_old_order_independent. Qed.
Print Assumptions old_names_order_independent.

(** the hypotheses hold together on an aliased root: lib v1.1.0 requires z v1.0.0, lib v1.3.0 requires nothing, the
    root names lib twice (core = lib v1.1.0, lib = lib v1.3.0), so its build list has lib v1.3.0 and - through the
    lower entry - z v1.0.0.  "get tool" (add) and "get lib@v1.3.0" (already selected) keep both entries as they
    are, so z stays; tidy moves core to the returned lib v1.3.0 and names z; nothing is lowered *)
Example aliased_root_example :
  let lib := [114; 47; 108] in let z := [114; 47; 122] in let tool := [114; 47; 116] in
  let v x y z := VSem (mkSV x y z []) in
  let U := mkU [114]
               [((lib, v 1 1 0), 1); ((z, v 1 0 0), 1); ((tool, v 1 1 0), 1); ((lib, v 1 3 0), 2)]
               [((lib, 1), mkSum [] [(z, v 1 0 0)]); ((lib, 2), mkSum [] []); ((z, 1), mkSum [] []); ((z, 2), mkSum [] []);
                ((tool, 1), mkSum [] []); ((tool, 2), mkSum [] [])] [] [] [] in
  let root := [([99], (lib, v 1 1 0)); ([108], (lib, v 1 3 0))] in
  let bl0 := [([], VRoot); (lib, v 1 3 0); (z, v 1 0 0)] in
  names_unique root /\ ~ paths_unique root /\
  dawn_build_list (fun _ => O) 20 U root = Ok bl0 /\
  apply_op (fun _ => O) U root (OpGet tool QLatest)
  = Ok [([99], (lib, v 1 1 0)); ([108], (lib, v 1 3 0)); ([116], (tool, v 1 1 0))] /\
  dawn_build_list (fun _ => O) 20 U [([99], (lib, v 1 1 0)); ([108], (lib, v 1 3 0)); ([116], (tool, v 1 1 0))]
  = Ok [([], VRoot); (lib, v 1 3 0); (tool, v 1 1 0); (z, v 1 0 0)] /\
  apply_op (fun _ => O) U root (OpGet lib (QRange (RExact (v 1 3 0)))) = Ok root /\
  apply_op (fun _ => O) U root OpTidy
  = Ok [([99], (lib, v 1 3 0)); ([108], (lib, v 1 3 0)); ([122], (z, v 1 0 0))] /\
  dawn_build_list (fun _ => O) 20 U [([99], (lib, v 1 3 0)); ([108], (lib, v 1 3 0)); ([122], (z, v 1 0 0))] = Ok bl0.
Proof.
  cbv zeta. split; [|split].
  - unfold names_unique. simpl. repeat constructor; simpl; intuition discriminate.
  - unfold paths_unique. simpl. intros H. inversion H; subst. apply H2. now left.
  - repeat split; vm_compute; reflexivity.
Qed.

(** ** repeating an operation changes nothing *)

Theorem tidy_idempotent :
  forall pick U root c',
    wf_universe U -> wf_reqs (map snd root) -> names_unique root ->
    apply_op pick U root OpTidy = Ok c' -> apply_op pick U c' OpTidy = Ok c'.
Proof. exact Proofs_Idem2.tidy_idempotent. Qed.
Print Assumptions tidy_idempotent.

(** UpgradeAll: the second run explores a subgraph of the first run's graph that still contains the plain graph of
    the new requirements, so it selects the same versions, Algorithm R returns the same requirement list, and the
    names are re-attached unchanged *)
Theorem upgrade_all_idempotent :
  forall pick U root c',
    wf_universe U -> wf_reqs (map snd root) -> names_unique root ->
    apply_op pick U root OpUpgradeAll = Ok c' -> apply_op pick U c' OpUpgradeAll = Ok c'.
Proof. exact Proofs_Idem3.upgrade_all_idempotent. Qed.
Print Assumptions upgrade_all_idempotent.

(** an instance where UpgradeAll changes the configuration (c v1.0.0 and d v1.1.0 become c v1.2.0, which implies
    d v1.2.0 and e v1.0.0 - two projects that require each other) and the repeat changes nothing *)
Example upgrade_all_idempotent_example :
  let c := [114; 47; 99] in let d := [114; 47; 100] in let e := [114; 47; 101] in
  let v x y z := VSem (mkSV x y z []) in
  let U := mkU [114]
               [((c, v 1 0 0), 1); ((d, v 1 0 0), 1); ((e, v 1 0 0), 1); ((c, v 1 1 0), 2); ((d, v 1 1 0), 2);
                ((c, v 1 2 0), 3); ((d, v 1 2 0), 3)]
               [((c, 1), mkSum [] [(d, v 1 0 0)]); ((c, 2), mkSum [] [(d, v 1 1 0)]); ((c, 3), mkSum [] [(d, v 1 2 0)]);
                ((d, 1), mkSum [] []); ((d, 2), mkSum [] []); ((d, 3), mkSum [] [(e, v 1 0 0)]);
                ((e, 1), mkSum [] [(d, v 1 2 0)])] [] [] [] in
  apply_op (fun _ => O) U [([99], (c, v 1 0 0)); ([100], (d, v 1 1 0))] OpUpgradeAll = Ok [([99], (c, v 1 2 0))] /\
  apply_op (fun _ => O) U [([99], (c, v 1 2 0))] OpUpgradeAll = Ok [([99], (c, v 1 2 0))] /\
  dawn_build_list (fun _ => O) 20 U [([99], (c, v 1 2 0))] = Ok [([], VRoot); (c, v 1 2 0); (d, v 1 2 0); (e, v 1 0 0)].
Proof. cbv zeta. repeat split; vm_compute; reflexivity. Qed.

(** get: HONEST HYPOTHESIS (reported, not hidden): the configuration's build list has the project at the
    version the query resolves to - i.e. the first application selected the resolved version and the query
    resolves to the same version again.  Then the repeat is a no-op.  Without it the statement is false:
    get_idempotent_refuted below (known finding get-downgrade-overshoot), and for "patch" queries of an absent
    project the repeat resolves differently (known finding get-patch-absent). *)
Theorem get_idempotent :
  forall pick U (c' : config) q k bl1 version,
    Proofs_Names.csorted c' -> wf_reqs (map snd c') -> wf_node version ->
    build_list pick (e_fuel U (map snd c')) U (map snd c') = Ok bl1 ->
    resolve_query U bl1 q k = Ok version ->
    find_path (fst version) bl1 = Some (snd version) ->
    apply_op pick U c' (OpGet q k) = Ok c'.
Proof. exact Proofs_Idem2.get_noop_when_selected. Qed.
Print Assumptions get_idempotent.

(** ... and for latest / version / range / ref queries the repeat does resolve to the same version *)
Theorem resolve_query_bl_independent :
  forall U bl bl' q k,
    match k with QUpgrade | QPatch => False | _ => True end ->
    resolve_query U bl q k = resolve_query U bl' q k.
Proof. exact Proofs_Idem2.resolve_query_bl_independent. Qed.
Print Assumptions resolve_query_bl_independent.

(** F16 in the model: c v1.1.0 requires d v1.1.0, the root holds c v1.2.0 and d v1.0.0; "get c@v1.1.0" cannot
    reach v1.1.0 without upgrading d, lands on c v1.0.0, and the same get then upgrades to c v1.1.0 *)
Theorem get_idempotent_refuted :
  exists U root q k c1 c2,
    apply_op (fun _ => O) U root (OpGet q k) = Ok c1 /\
    apply_op (fun _ => O) U c1 (OpGet q k) = Ok c2 /\ c1 <> c2.
Proof.
  pose (c := [114; 47; 99]). pose (d := [114; 47; 100]).
  pose (v := fun x y z => VSem (mkSV x y z [])).
  exists (mkU [114]
              [((c, v 1 0 0), 1); ((d, v 1 0 0), 1); ((c, v 1 1 0), 2); ((d, v 1 1 0), 2); ((c, v 1 2 0), 3)]
              [((c, 1), mkSum [] []); ((c, 2), mkSum [] [(d, v 1 1 0)]); ((c, 3), mkSum [] []);
               ((d, 1), mkSum [] []); ((d, 2), mkSum [] [])] [] [] []),
         [([99], (c, v 1 2 0)); ([100], (d, v 1 0 0))], c, (QRange (RExact (v 1 1 0))),
         [([99], (c, v 1 0 0)); ([100], (d, v 1 0 0))], [([99], (c, v 1 1 0))].
  split; [vm_compute; reflexivity|]. split; [vm_compute; reflexivity|]. discriminate.
Qed.
Print Assumptions get_idempotent_refuted.

(** ** downgrade (Proofs_Down.v: the three BuildList phases; Proofs_Down2.v: the add / exclude / previous phase)

    [mvs_downgrade required previous pick fuel lfuel d] is the model of mvs.Downgrade(target, reqs, d): BuildList,
    then for every project of the build list add (which excludes what would exceed [max], what cannot be loaded, and
    - through rdeps - everything that requires something excluded) and the for-excluded loop over Reqs.Previous
    ([down_list]), then two more BuildLists.  [e_fuel U rr] = number of nodes + 4 bounds the recursion depth of add
    and of exclude, [l_fuel U] = number of tags + 3 bounds the for-excluded loop. *)

(** Reqs.Previous returns the root itself, "none", or a strictly earlier tagged version of the same path *)
Theorem previous_strictly_lower :
  forall U p q,
    reqs_previous U p = Some q ->
    q = p \/ (fst q = fst p /\ (snd q = VNone \/ (In q (map fst (u_tags U)) /\ sem_cmp (snd q) (snd p) = Lt))).
Proof. exact Proofs_Down.previous_strictly_lower. Qed.
Print Assumptions previous_strictly_lower.

(** The add / exclude / previous phase (the lemma that was missing, down_list_spec): the requirement list it computes
    only reaches nodes of the finite node set "everything any project requires + every tag + the request", and
    none of them is a version of the requested project above the requested version *)
Theorem down_list_reach :
  forall pick U rr d bl dgd,
    wf_universe U -> wf_reqs rr -> wf_node d ->
    build_list_gen (u_required U rr) None pick (e_fuel U rr) target = Ok bl ->
    down_list (u_required U rr) (reqs_previous U) (down_max (tl bl) d) (l_fuel U) (e_fuel U rr) (e_fuel U rr) (tl bl)
              (mkD [] [] []) [target] = Ok dgd ->
    forall n, Proofs_C10.greach (override (u_required U rr) target dgd) None target n ->
              In n (e_nodes U rr [d]) /\ (fst n = fst d -> vle (snd n) (snd d) = true).
Proof. exact Proofs_Down2.down_list_reach. Qed.
Print Assumptions down_list_reach.

(** ... and that phase exhausts neither the depth fuel of add / exclude nor the fuel of the for-excluded loop *)
Theorem down_list_no_hang :
  forall pick U rr d bl,
    wf_universe U -> wf_reqs rr -> wf_node d ->
    build_list_gen (u_required U rr) None pick (e_fuel U rr) target = Ok bl ->
    down_list (u_required U rr) (reqs_previous U) (down_max (tl bl) d) (l_fuel U) (e_fuel U rr) (e_fuel U rr) (tl bl)
              (mkD [] [] []) [target] <> OutOfFuel.
Proof. exact Proofs_Down2.down_list_no_hang. Qed.
Print Assumptions down_list_no_hang.

(** mvs.Downgrade: in the build list it returns the requested project is absent or at a version at or below the
    requested one *)
Theorem mvs_downgrade_at_or_below :
  forall U rr d pick,
    wf_universe U -> wf_reqs rr -> wf_node d ->
    forall final,
    mvs_downgrade (u_required U rr) (reqs_previous U) pick (e_fuel U rr) (l_fuel U) d = Ok final ->
    forall v, In (fst d, v) final -> vle v (snd d) = true.
Proof. exact Proofs_Down2.downgrade_at_or_below_mvs. Qed.
Print Assumptions mvs_downgrade_at_or_below.

(** Get of a version below the selected one (get's mvs.Downgrade branch, every query class: the theorem is about
    whatever version the query resolved to): the new requirements resolve, and in their build list the project is
    absent or at a version at or below the resolved one *)
Theorem downgrade_at_or_below :
  forall pick U root q k c',
    wf_universe U -> wf_reqs (map snd root) -> names_unique root ->
    apply_op pick U root (OpGet q k) = Ok c' ->
    exists bl0 version,
      build_list pick (e_fuel U (map snd root)) U (map snd root) = Ok bl0 /\
      resolve_query U bl0 q k = Ok version /\
      (wf_node version ->
       forall cur, find_path (fst version) bl0 = Some cur -> sem_cmp cur (snd version) = Gt ->
       forall pick1 fuel1, (u_fuel U (map snd c') <= fuel1)%nat ->
         exists bl1, dawn_build_list pick1 fuel1 U c' = Ok bl1 /\
                     forall v, In (fst version, v) bl1 -> vle v (snd version) = true).
Proof. exact Proofs_Down2.get_downgrade_at_or_below. Qed.
Print Assumptions downgrade_at_or_below.

(** mvs.Downgrade never hangs and never panics, and neither does get's downgrade branch as a whole (Downgrade
    followed by ReqList): with the explicit fuels the model returns a build list or an error *)
Theorem downgrade_terminates :
  forall pick U rr version,
    wf_universe U -> wf_reqs rr -> wf_node version ->
    mvs_downgrade (u_required U rr) (reqs_previous U) pick (e_fuel U rr) (l_fuel U) version <> OutOfFuel /\
    mvs_downgrade (u_required U rr) (reqs_previous U) pick (e_fuel U rr) (l_fuel U) version <> Panic /\
    bind (mvs_downgrade (u_required U rr) (reqs_previous U) pick (e_fuel U rr) (l_fuel U) version)
         (req_list (u_required U (set_first_path rr version)) target (e_fuel U rr)) <> OutOfFuel /\
    bind (mvs_downgrade (u_required U rr) (reqs_previous U) pick (e_fuel U rr) (l_fuel U) version)
         (req_list (u_required U (set_first_path rr version)) target (e_fuel U rr)) <> Panic.
Proof. exact Proofs_Down2.downgrade_no_hang_no_panic. Qed.
Print Assumptions downgrade_terminates.

(** The hypotheses of the downgrade theorems hold together on an instance that goes through every part of the
    phase: c vX requires d vX for X = 1.0.0, 1.1.0, 1.2.0, e v1.0.0 and d v1.2.0 require each other (a cycle), the
    root holds c v1.2.0 and e v1.0.0.  "get d@v1.0.0" is a downgrade (d v1.2.0 is selected); add excludes d v1.2.0,
    and through rdeps c v1.2.0 and e v1.0.0; the for-excluded loop walks c down to v1.0.0 and e to "none".  The
    result requires c v1.0.0 only, and its build list has d at v1.0.0. *)
Example downgrade_example :
  let c := [114; 47; 99] in let d := [114; 47; 100] in let e := [114; 47; 101] in
  let v x y z := VSem (mkSV x y z []) in
  let U := mkU [114]
               [((c, v 1 0 0), 1); ((d, v 1 0 0), 1); ((e, v 1 0 0), 1); ((c, v 1 1 0), 2); ((d, v 1 1 0), 2);
                ((c, v 1 2 0), 3); ((d, v 1 2 0), 3)]
               [((c, 1), mkSum [] [(d, v 1 0 0)]); ((c, 2), mkSum [] [(d, v 1 1 0)]); ((c, 3), mkSum [] [(d, v 1 2 0)]);
                ((d, 1), mkSum [] []); ((d, 2), mkSum [] []); ((d, 3), mkSum [] [(e, v 1 0 0)]);
                ((e, 1), mkSum [] [(d, v 1 2 0)])] [] [] [] in
  let root := [([99], (c, v 1 2 0)); ([101], (e, v 1 0 0))] in
  let bl0 := [([], VRoot); (c, v 1 2 0); (d, v 1 2 0); (e, v 1 0 0)] in
  wf_universe U /\ wf_reqs (map snd root) /\ names_unique root /\ wf_node (d, v 1 0 0) /\
  build_list (fun _ => O) (e_fuel U (map snd root)) U (map snd root) = Ok bl0 /\
  resolve_query U bl0 d (QRange (RExact (v 1 0 0))) = Ok (d, v 1 0 0) /\
  find_path d bl0 = Some (v 1 2 0) /\ sem_cmp (v 1 2 0) (v 1 0 0) = Gt /\
  mvs_downgrade (u_required U (map snd root)) (reqs_previous U) (fun _ => O) (e_fuel U (map snd root)) (l_fuel U) (d, v 1 0 0)
  = Ok [([], VRoot); (c, v 1 0 0); (d, v 1 0 0)] /\
  apply_op (fun _ => O) U root (OpGet d (QRange (RExact (v 1 0 0)))) = Ok [([99], (c, v 1 0 0))] /\
  dawn_build_list (fun _ => O) 20 U [([99], (c, v 1 0 0))] = Ok [([], VRoot); (c, v 1 0 0); (d, v 1 0 0)].
Proof.
  cbv zeta. split; [split|split; [|split; [|split]]].
  - intros x H. simpl in H. repeat (destruct H as [H|H]; [subst x; intros n Hn; simpl in Hn; repeat (destruct Hn as [Hn|Hn]; [subst; (split; [simpl; discriminate | simpl; eexists; reflexivity])|]); try contradiction|]). contradiction.
  - intros x H. simpl in H; repeat (destruct H as [H|H]; [subst; (split; [simpl; discriminate | simpl; eexists; reflexivity])|]); try contradiction.
  - intros n Hn. simpl in Hn; repeat (destruct Hn as [Hn|Hn]; [subst; (split; [simpl; discriminate | simpl; eexists; reflexivity])|]); try contradiction.
  - unfold names_unique. simpl. repeat constructor; simpl; intuition discriminate.
  - split; [simpl; discriminate | simpl; eexists; reflexivity].
  - repeat split; vm_compute; reflexivity.
Qed.
