(** C11 — Requirement edits keep the requirement graph consistent.

    Vocabulary (Mvs/Edit.v, Mvs/Spec.v):
      [apply_op pick U root o]    the model of Get / Tidy / UpgradeAll of internal/mvs/get.go applied to the root
                                  configuration [root] (name -> (path, version)) over the universe [U];
      [dawn_build_list ...]       dawn's BuildList (Props_C10: the MVS solution of the reachable graph);
      [op_versions ...]           the requirement list the operation computes before names are attached;
      [no_lower bl0 bl1]          every project of bl0 is in bl1 at the same or a higher version;
      [wf_universe], [wf_reqs]    every requirement names a non-empty path at a canonical semantic version
                                  (what project.LoadConfigBytes enforces);
      [names_unique root]         requirement names are unique (a Go map);
      [paths_unique root]         HYPOTHESIS "no two requirement names share a path" (needed where get returns
                                  the root's requirement list unchanged; see the report);
      [u_fuel], [e_fuel]          explicit sufficient fuels (number of nodes + constant).  *)
From Dawn Require Import Mvs.Spec Mvs.Proofs_Names Mvs.Proofs_C11 Mvs.Proofs_Idem2 Mvs.Proofs_Down Mvs.Proofs_Query.

(** Tidy returns requirements whose build list equals the original one (and both exist) *)
Theorem tidy_preserves_build_list :
  forall pick U root c',
    wf_universe U -> wf_reqs (map snd root) -> names_unique root ->
    apply_op pick U root OpTidy = Ok c' ->
    forall pick1 fuel1 pick2 fuel2,
      (u_fuel U (map snd c') <= fuel1)%nat -> (u_fuel U (map snd root) <= fuel2)%nat ->
      exists bl, dawn_build_list pick2 fuel2 U root = Ok bl /\ dawn_build_list pick1 fuel1 U c' = Ok bl.
Proof. exact Proofs_C11.tidy_preserves_build_list. Qed.
Print Assumptions tidy_preserves_build_list.

(** Get of a version that is not below the selected one (add / already there / upgrade, every query class: the
    theorem is about whatever version the query resolved to): the new build list contains the project at the
    resolved version or above, and lowers no project *)
Theorem upgrade_contains_and_no_lower :
  forall pick U root q k c',
    wf_universe U -> wf_reqs (map snd root) -> names_unique root -> paths_unique root ->
    apply_op pick U root (OpGet q k) = Ok c' ->
    exists bl0 version,
      build_list pick (e_fuel U (map snd root)) U (map snd root) = Ok bl0 /\
      resolve_query U bl0 q k = Ok version /\
      (wf_node version ->
       (forall cur, find_path (fst version) bl0 = Some cur -> sem_cmp cur (snd version) <> Gt) ->
       forall pick1 fuel1 bl1,
         (u_fuel U (map snd c') <= fuel1)%nat -> dawn_build_list pick1 fuel1 U c' = Ok bl1 ->
         no_lower bl0 bl1 /\ exists w, In (fst version, w) bl1 /\ vle (snd version) w = true).
Proof. exact Proofs_C11.get_upgrade_contains_and_no_lower. Qed.
Print Assumptions upgrade_contains_and_no_lower.

(** ... and in the upgrade case proper the new requirements do resolve, to the list mvs.Upgrade computed *)
Theorem upgrade_resolves :
  forall pick U rr version newv,
    wf_universe U -> wf_reqs rr -> wf_node version ->
    bind (mvs_upgrade (u_required U rr) pick (e_fuel U rr) version)
         (req_list (u_required U (set_first_path rr version)) target (e_fuel U rr)) = Ok newv ->
    exists bl0 bl,
      build_list pick (e_fuel U rr) U rr = Ok bl0 /\
      StronglySorted path_lt newv /\ wf_reqs newv /\
      (forall pick' fuel', (u_fuel U newv <= fuel')%nat -> build_list pick' fuel' U newv = Ok bl) /\
      no_lower bl0 bl /\ (exists w, In (fst version, w) bl /\ vle (snd version) w = true).
Proof. exact Proofs_C11.get_upgrade_versions_sound. Qed.
Print Assumptions upgrade_resolves.

(** The two queries that are defined relative to the current selection never resolve below it, whatever the
    selected version is (a tag, or the pseudo-version of an untagged commit ahead of every tag of its series):
    get never takes its mvs.Downgrade branch for a patch or upgrade query *)
Theorem patch_upgrade_not_below_selection :
  forall U bl q k version,
    match k with QUpgrade | QPatch => True | _ => False end ->
    resolve_query U bl q k = Ok version ->
    forall cur, find_path (fst version) bl = Some cur -> sem_cmp cur (snd version) <> Gt.
Proof. exact Proofs_Query.patch_upgrade_not_below_selection. Qed.
Print Assumptions patch_upgrade_not_below_selection.

(** ... hence get by a patch or upgrade query lowers no project and has the project at the resolved version or
    above: upgrade_contains_and_no_lower without its "not a downgrade" premise *)
Theorem patch_upgrade_lowers_nothing :
  forall pick U root q k c',
    wf_universe U -> wf_reqs (map snd root) -> names_unique root -> paths_unique root ->
    match k with QUpgrade | QPatch => True | _ => False end ->
    apply_op pick U root (OpGet q k) = Ok c' ->
    exists bl0 version,
      build_list pick (e_fuel U (map snd root)) U (map snd root) = Ok bl0 /\
      resolve_query U bl0 q k = Ok version /\
      (forall cur, find_path (fst version) bl0 = Some cur -> sem_cmp cur (snd version) <> Gt) /\
      (wf_node version ->
       forall pick1 fuel1 bl1,
         (u_fuel U (map snd c') <= fuel1)%nat -> dawn_build_list pick1 fuel1 U c' = Ok bl1 ->
         no_lower bl0 bl1 /\ exists w, In (fst version, w) bl1 /\ vle (snd version) w = true).
Proof. exact Proofs_Query.patch_upgrade_lowers_nothing. Qed.
Print Assumptions patch_upgrade_lowers_nothing.

(** UpgradeAll: the new build list exists, lowers no project, and contains every project at (or above) the
    version Reqs.Upgrade resolves for it *)
Theorem upgrade_all_no_lower :
  forall pick U root c',
    wf_universe U -> wf_reqs (map snd root) -> names_unique root ->
    apply_op pick U root OpUpgradeAll = Ok c' ->
    forall pick1 fuel1 pick2 fuel2,
      (u_fuel U (map snd c') <= fuel1)%nat -> (u_fuel U (map snd root) <= fuel2)%nat ->
      exists bl0 bl, dawn_build_list pick2 fuel2 U root = Ok bl0 /\ dawn_build_list pick1 fuel1 U c' = Ok bl /\
                     no_lower bl0 bl /\
                     (forall p v w, In (p, v) bl0 -> p <> [] -> reqs_upgrade U (p, v) = Some (p, w) ->
                                    exists w', In (p, w') bl /\ vle w w' = true).
Proof. exact Proofs_C11.upgrade_all_no_lower. Qed.
Print Assumptions upgrade_all_no_lower.

(** Algorithm R behind all three: the minimal requirement list of a build list regenerates it *)
Theorem tidy_versions_sound :
  forall pick U rr newv,
    wf_universe U -> wf_reqs rr -> tidy_versions pick U rr = Ok newv ->
    exists bl, build_list pick (e_fuel U rr) U rr = Ok bl /\
               StronglySorted path_lt newv /\ incl newv bl /\ wf_reqs newv /\
               forall pick' fuel', (u_fuel U newv <= fuel')%nat -> build_list pick' fuel' U newv = Ok bl.
Proof. exact Proofs_C11.tidy_versions_sound. Qed.
Print Assumptions tidy_versions_sound.

(** names: for every operation whose computed requirement list has one entry per (non-empty) path *)
Theorem names_preserved_new_names_unique :
  forall pick U root o c' newv,
    names_unique root -> apply_op pick U root o = Ok c' -> op_versions pick U o (map snd root) = Ok newv ->
    NoDup (map fst newv) -> (forall x, In x newv -> fst x <> []) ->
    same_set (map snd c') newv /\
    NoDup (map fst c') /\
    (forall n p v0 v, In (n, (p, v0)) root -> In (p, v) newv -> cfg_get c' n = Some (p, v)) /\
    (forall x, In x newv -> names_of root (fst x) = [] ->
               exists n, cfg_get c' n = Some x /\ cfg_get (keep_old root newv) n = None).
Proof. exact Proofs_C11.names_spec. Qed.
Print Assumptions names_preserved_new_names_unique.

(** ** repeating an operation changes nothing *)

Theorem tidy_idempotent :
  forall pick U root c',
    wf_universe U -> wf_reqs (map snd root) -> names_unique root ->
    apply_op pick U root OpTidy = Ok c' -> apply_op pick U c' OpTidy = Ok c'.
Proof. exact Proofs_Idem2.tidy_idempotent. Qed.
Print Assumptions tidy_idempotent.

(** get: HONEST HYPOTHESIS (reported, not hidden): the configuration's build list has the project at the
    version the query resolves to - i.e. the first application selected the resolved version and the query
    resolves to the same version again.  Then the repeat is a no-op.  Without it the statement is false:
    get_idempotent_refuted below (known finding get-downgrade-overshoot), and for "patch" queries of an absent
    project the repeat resolves differently (known finding get-patch-absent). *)
Theorem get_idempotent :
  forall pick U (c' : config) q k bl1 version,
    Proofs_Names.csorted c' -> paths_unique c' -> wf_reqs (map snd c') -> wf_node version ->
    build_list pick (e_fuel U (map snd c')) U (map snd c') = Ok bl1 ->
    resolve_query U bl1 q k = Ok version ->
    find_path (fst version) bl1 = Some (snd version) ->
    apply_op pick U c' (OpGet q k) = Ok c'.
Proof. exact Proofs_Idem2.get_noop_when_selected. Qed.
Print Assumptions get_idempotent.

(** ... and for latest / version / range / ref queries the repeat does resolve to the same version *)
Theorem resolve_query_bl_independent :
  forall U bl bl' q k,
    match k with QUpgrade | QPatch => False | _ => True end ->
    resolve_query U bl q k = resolve_query U bl' q k.
Proof. exact Proofs_Idem2.resolve_query_bl_independent. Qed.
Print Assumptions resolve_query_bl_independent.

(** F16 in the model: c v1.1.0 requires d v1.1.0, the root holds c v1.2.0 and d v1.0.0; "get c@v1.1.0" cannot
    reach v1.1.0 without upgrading d, lands on c v1.0.0, and the same get then upgrades to c v1.1.0 *)
Theorem get_idempotent_refuted :
  exists U root q k c1 c2,
    apply_op (fun _ => O) U root (OpGet q k) = Ok c1 /\
    apply_op (fun _ => O) U c1 (OpGet q k) = Ok c2 /\ c1 <> c2.
Proof.
  pose (c := [114; 47; 99]). pose (d := [114; 47; 100]).
  pose (v := fun x y z => VSem (mkSV x y z [])).
  exists (mkU [114]
              [((c, v 1 0 0), 1); ((d, v 1 0 0), 1); ((c, v 1 1 0), 2); ((d, v 1 1 0), 2); ((c, v 1 2 0), 3)]
              [((c, 1), mkSum [] []); ((c, 2), mkSum [] [(d, v 1 1 0)]); ((c, 3), mkSum [] []);
               ((d, 1), mkSum [] []); ((d, 2), mkSum [] [])] [] [] []),
         [([99], (c, v 1 2 0)); ([100], (d, v 1 0 0))], c, (QRange (RExact (v 1 1 0))),
         [([99], (c, v 1 0 0)); ([100], (d, v 1 0 0))], [([99], (c, v 1 1 0))].
  split; [vm_compute; reflexivity|]. split; [vm_compute; reflexivity|]. discriminate.
Qed.
Print Assumptions get_idempotent_refuted.

(** ** downgrade

    Full statements (NOT proved; kept here as the target):
      downgrade_at_or_below : get_versions ... = Ok newv in the downgrade branch  ->  the build list of newv has the
        project absent or at a version <= the resolved one;
      downgrade_terminates  : mvs_downgrade ... (e_fuel U rr) (l_fuel U) version <> OutOfFuel.
    Proved: the part of the argument that follows the add/exclude phase, and the fact whose failure was F13.
    MISSING LEMMA (named [down_list_spec] in Proofs_Down.v): the list returned by the add/exclude/previous phase
    [down_list] only reaches nodes of the finite node set, none of them above the request, and that phase does not
    exhaust the fuels (|nodes|+1 for add/exclude, |tags|+3 for the previous-loop).  The correspondence check
    exercises the whole of mvs.Downgrade against the model on every generated downgrade, with a watchdog. *)

(** Reqs.Previous returns the root itself, "none", or a strictly earlier tagged version of the same path *)
Theorem previous_strictly_lower :
  forall U p q,
    reqs_previous U p = Some q ->
    q = p \/ (fst q = fst p /\ (snd q = VNone \/ (In q (map fst (u_tags U)) /\ sem_cmp (snd q) (snd p) = Lt))).
Proof. exact Proofs_Down.previous_strictly_lower. Qed.
Print Assumptions previous_strictly_lower.

Theorem downgrade_at_or_below_partial :
  forall required previous pick fuel lfuel (d : node) N final,
    fst d <> [] -> (length N < fuel)%nat ->
    Proofs_Down.down_list_spec required previous pick fuel lfuel d N ->
    mvs_downgrade required previous pick fuel lfuel d = Ok final ->
    forall v, In (fst d, v) final -> vle v (snd d) = true.
Proof. exact Proofs_Down.downgrade_at_or_below_partial. Qed.
Print Assumptions downgrade_at_or_below_partial.

(** if Downgrade runs out of fuel, it is inside the add/exclude/previous phase: the three BuildList phases
    never exhaust a fuel above the number of nodes *)
Theorem downgrade_terminates_partial :
  forall required previous pick fuel lfuel (d : node) N,
    (length N < fuel)%nat ->
    (forall n, Proofs_C10.greach required None target n -> In n N) ->
    (forall dgd n, Proofs_C10.greach (override required target dgd) None target n -> In n N) ->
    mvs_downgrade required previous pick fuel lfuel d = OutOfFuel ->
    exists bl, build_list_gen required None pick fuel target = Ok bl /\
               down_list required previous (down_max (tl bl) d) lfuel fuel fuel (tl bl) (mkD [] [] []) [target] = OutOfFuel.
Proof. exact Proofs_Down.downgrade_terminates_partial. Qed.
Print Assumptions downgrade_terminates_partial.
