(** C11 — Requirement edits keep the requirement graph consistent.

    Vocabulary (Mvs/Edit.v, Mvs/Spec.v):
      [apply_op pick U root o]    the model of Get / Tidy / UpgradeAll of internal/mvs/get.go applied to the root
                                  configuration [root] (name -> (path, version)) over the universe [U];
      [dawn_build_list ...]       dawn's BuildList (Props_C10: the MVS solution of the reachable graph);
      [op_versions ...]           the requirement list the operation computes before names are attached;
      [no_lower bl0 bl1]          every project of bl0 is in bl1 at the same or a higher version;
      [wf_universe], [wf_reqs]    every requirement names a non-empty path at a canonical semantic version
                                  (what project.LoadConfigBytes enforces);
      [names_unique root]         requirement names are unique (a Go map);
      [paths_unique root]         HYPOTHESIS "no two requirement names share a path" (needed where get returns
                                  the root's requirement list unchanged; see the report);
      [u_fuel], [e_fuel]          explicit sufficient fuels (number of nodes + constant).  *)
From Dawn Require Import Mvs.Spec Mvs.Proofs_Names Mvs.Proofs_C11.

(** Tidy returns requirements whose build list equals the original one (and both exist) *)
Theorem tidy_preserves_build_list :
  forall pick U root c',
    wf_universe U -> wf_reqs (map snd root) -> names_unique root ->
    apply_op pick U root OpTidy = Ok c' ->
    forall pick1 fuel1 pick2 fuel2,
      (u_fuel U (map snd c') <= fuel1)%nat -> (u_fuel U (map snd root) <= fuel2)%nat ->
      exists bl, dawn_build_list pick2 fuel2 U root = Ok bl /\ dawn_build_list pick1 fuel1 U c' = Ok bl.
Proof. exact Proofs_C11.tidy_preserves_build_list. Qed.
Print Assumptions tidy_preserves_build_list.

(** Get of a version that is not below the selected one (add / already there / upgrade, every query class: the
    theorem is about whatever version the query resolved to): the new build list contains the project at the
    resolved version or above, and lowers no project *)
Theorem upgrade_contains_and_no_lower :
  forall pick U root q k c',
    wf_universe U -> wf_reqs (map snd root) -> names_unique root -> paths_unique root ->
    apply_op pick U root (OpGet q k) = Ok c' ->
    exists bl0 version,
      build_list pick (e_fuel U (map snd root)) U (map snd root) = Ok bl0 /\
      resolve_query U bl0 q k = Ok version /\
      (wf_node version ->
       (forall cur, find_path (fst version) bl0 = Some cur -> sem_cmp cur (snd version) <> Gt) ->
       forall pick1 fuel1 bl1,
         (u_fuel U (map snd c') <= fuel1)%nat -> dawn_build_list pick1 fuel1 U c' = Ok bl1 ->
         no_lower bl0 bl1 /\ exists w, In (fst version, w) bl1 /\ vle (snd version) w = true).
Proof. exact Proofs_C11.get_upgrade_contains_and_no_lower. Qed.
Print Assumptions upgrade_contains_and_no_lower.

(** ... and in the upgrade case proper the new requirements do resolve, to the list mvs.Upgrade computed *)
Theorem upgrade_resolves :
  forall pick U rr version newv,
    wf_universe U -> wf_reqs rr -> wf_node version ->
    bind (mvs_upgrade (u_required U rr) pick (e_fuel U rr) version)
         (req_list (u_required U (set_first_path rr version)) target (e_fuel U rr)) = Ok newv ->
    exists bl0 bl,
      build_list pick (e_fuel U rr) U rr = Ok bl0 /\
      StronglySorted path_lt newv /\ wf_reqs newv /\
      (forall pick' fuel', (u_fuel U newv <= fuel')%nat -> build_list pick' fuel' U newv = Ok bl) /\
      no_lower bl0 bl /\ (exists w, In (fst version, w) bl /\ vle (snd version) w = true).
Proof. exact Proofs_C11.get_upgrade_versions_sound. Qed.
Print Assumptions upgrade_resolves.

(** UpgradeAll: the new build list exists, lowers no project, and contains every project at (or above) the
    version Reqs.Upgrade resolves for it *)
Theorem upgrade_all_no_lower :
  forall pick U root c',
    wf_universe U -> wf_reqs (map snd root) -> names_unique root ->
    apply_op pick U root OpUpgradeAll = Ok c' ->
    forall pick1 fuel1 pick2 fuel2,
      (u_fuel U (map snd c') <= fuel1)%nat -> (u_fuel U (map snd root) <= fuel2)%nat ->
      exists bl0 bl, dawn_build_list pick2 fuel2 U root = Ok bl0 /\ dawn_build_list pick1 fuel1 U c' = Ok bl /\
                     no_lower bl0 bl /\
                     (forall p v w, In (p, v) bl0 -> p <> [] -> reqs_upgrade U (p, v) = Some (p, w) ->
                                    exists w', In (p, w') bl /\ vle w w' = true).
Proof. exact Proofs_C11.upgrade_all_no_lower. Qed.
Print Assumptions upgrade_all_no_lower.

(** Algorithm R behind all three: the minimal requirement list of a build list regenerates it *)
Theorem tidy_versions_sound :
  forall pick U rr newv,
    wf_universe U -> wf_reqs rr -> tidy_versions pick U rr = Ok newv ->
    exists bl, build_list pick (e_fuel U rr) U rr = Ok bl /\
               StronglySorted path_lt newv /\ incl newv bl /\ wf_reqs newv /\
               forall pick' fuel', (u_fuel U newv <= fuel')%nat -> build_list pick' fuel' U newv = Ok bl.
Proof. exact Proofs_C11.tidy_versions_sound. Qed.
Print Assumptions tidy_versions_sound.

(** names: for every operation whose computed requirement list has one entry per (non-empty) path *)
Theorem names_preserved_new_names_unique :
  forall pick U root o c' newv,
    names_unique root -> apply_op pick U root o = Ok c' -> op_versions pick U o (map snd root) = Ok newv ->
    NoDup (map fst newv) -> (forall x, In x newv -> fst x <> []) ->
    same_set (map snd c') newv /\
    NoDup (map fst c') /\
    (forall n p v0 v, In (n, (p, v0)) root -> In (p, v) newv -> cfg_get c' n = Some (p, v)) /\
    (forall x, In x newv -> names_of root (fst x) = [] ->
               exists n, cfg_get c' n = Some x /\ cfg_get (keep_old root newv) n = None).
Proof. exact Proofs_C11.names_spec. Qed.
Print Assumptions names_preserved_new_names_unique.
