(** Executable/relational model of the download cache of dawn's resolver:
      internal/mvs/resolver.go  FetchProject (os.Stat, doFetch: FetchRevision into a private staging directory,
                                os.Rename into the cache directory, "already exists" tolerated), resolveProject
                                (LoadConfigFile dawn.toml, then .dawnconfig).
    Any number of resolveProject calls -- of one resolver, of several resolvers, of several processes -- run
    against ONE cache directory; their steps interleave arbitrarily, every step that talks to the network or
    the disk can fail, and a process can be killed between any two steps.
    NO proofs in this file. *)
From Dawn Require Export Mvs.Model.

(** what LoadConfigFile makes of a file: a file that is not a configuration, or a configuration file whose
    current contents parse to [Some summary] / do not parse ([None]).  A download writes a file in several
    steps, so one name can be written more than once: the latest write is what the file holds. *)
Inductive fdata :=
| Blob
| Cfg (r : option summary).

Definition wr := (str * fdata)%type.
Definition dir := list wr.                       (* the writes so far, latest first *)

Fixpoint dir_get (d : dir) (name : str) : option fdata :=
  match d with
  | [] => None
  | (f, x) :: d' => if str_eqb f name then Some x else dir_get d' name
  end.

Definition s_dawn_toml : str := [100; 97; 119; 110; 46; 116; 111; 109; 108].                 (* "dawn.toml" *)
Definition s_dawnconfig : str := [46; 100; 97; 119; 110; 99; 111; 110; 102; 105; 103].       (* ".dawnconfig" *)

(** resolveProject's two LoadConfigFile calls: only "does not exist" falls through to .dawnconfig; any other
    failure of either is the error "loading config file" *)
Definition load_config (d : dir) : option summary :=
  match dir_get d s_dawn_toml with
  | Some (Cfg r) => r
  | Some Blob => None
  | None => match dir_get d s_dawnconfig with
            | Some (Cfg r) => r
            | _ => None
            end
  end.

(** the cache directory of a project version: filepath.Join(cacheDir, TrimPathVersion(path) + "@" + version) *)
Definition cache_key (n : node) : node := (trim_path_version (fst n), snd n).

Definition disk := list (node * dir).            (* cache key -> directory; entries are only ever added *)

Fixpoint disk_get (D : disk) (k : node) : option dir :=
  match D with
  | [] => None
  | (k', d) :: D' => if node_eqb k' k then Some d else disk_get D' k
  end.

(** one resolveProject call (after a miss in the resolver's in-memory summaries) *)
Inductive pstate :=
| PStat                                (* FetchProject: os.Stat(cacheDir) is next *)
| PStage (done : dir) (todo : list wr) (* doFetch: FetchRevision is writing into its own staging directory *)
| PRename (d : dir)                    (* FetchRevision returned nil: os.Rename(staging, cacheDir) is next *)
| PLoad                                (* FetchProject returned cacheDir: LoadConfigFile is next *)
| PRet (faulted : bool) (r : option summary).
                                       (* resolveProject returned; [faulted]: because an operation failed *)

Record call := mkCall { c_node : node; c_state : pstate }.

Section Cache.
  (** what the repository delivers for a project version, as the sequence of writes FetchRevision performs;
      [None]: the version cannot be resolved (no repository, no such tag, no such revision) *)
  Variable deliver : node -> option (list wr).

  (** one step of one call against the shared cache directory *)
  Inductive cstep (n : node) : disk -> pstate -> disk -> pstate -> Prop :=
  | s_hit D d : disk_get D (cache_key n) = Some d -> cstep n D PStat D PLoad
  | s_unresolvable D : disk_get D (cache_key n) = None -> deliver n = None -> cstep n D PStat D (PRet false None)
  | s_start D ws : disk_get D (cache_key n) = None -> deliver n = Some ws -> cstep n D PStat D (PStage [] ws)
  | s_fault_early D : cstep n D PStat D (PRet true None)       (* dial / list versions / get revision / mkdir fails *)
  | s_write D done w todo : cstep n D (PStage done (w :: todo)) D (PStage (w :: done) todo)
  | s_fault_write D done todo : cstep n D (PStage done todo) D (PRet true None)
                                                               (* FetchRevision fails; the staging directory is removed *)
  | s_staged D done : cstep n D (PStage done []) D (PRename done)
  | s_publish D d : disk_get D (cache_key n) = None -> cstep n D (PRename d) ((cache_key n, d) :: D) PLoad
  | s_overtaken D d d' : disk_get D (cache_key n) = Some d' -> cstep n D (PRename d) D PLoad
                                                               (* ErrExist and os.Stat succeeds *)
  | s_fault_rename D d : cstep n D (PRename d) D (PRet true None)
  | s_load D : cstep n D PLoad D (PRet false (match disk_get D (cache_key n) with
                                              | Some d => load_config d
                                              | None => None
                                              end)).

  (** the world: the cache directory and the calls in flight (or returned).  [W]: the project versions anybody
      ever asks for. *)
  Variable W : node -> Prop.

  Inductive wstep : disk * list call -> disk * list call -> Prop :=
  | w_spawn D cs n : W n -> wstep (D, cs) (D, mkCall n PStat :: cs)
  | w_kill D l1 c l2 : wstep (D, l1 ++ c :: l2) (D, l1 ++ l2)   (* the process dies; its staging area is not in the cache *)
  | w_step D l1 n st l2 D' st' :
      cstep n D st D' st' -> wstep (D, l1 ++ mkCall n st :: l2) (D', l1 ++ mkCall n st' :: l2).

  Inductive wreach : disk * list call -> Prop :=
  | wr_init : wreach ([], [])
  | wr_step w w' : wreach w -> wstep w w' -> wreach w'.
End Cache.

(** Reqs.Required when the summaries come out of such calls: [obs n] is what resolveProject returned for n *)
Definition required_via (obs : node -> option summary) (rootreqs : list node) (n : node) : option (list node) :=
  match fst n with
  | [] => Some rootreqs
  | _ => match obs n with Some s => Some (s_reqs s) | None => None end
  end.

Definition dawn_build_list_via (obs : node -> option summary) (pick : list node -> nat) (fuel : nat) (root : config)
  : outcome (list (str * version)) :=
  match build_list_gen (required_via obs (map snd root)) None pick fuel target with
  | Ok l => Ok (to_map l)
  | Err => Err
  | Panic => Panic
  | OutOfFuel => OutOfFuel
  end.

(** ** Specification vocabulary for the cache theorems (definitions only) *)

(** a complete download holds the project's configuration; what cannot be downloaded cannot be resolved *)
Definition deliver_sound (U : universe) (deliver : node -> option (list wr)) (W : node -> Prop) : Prop :=
  forall n, W n -> match deliver n with
                   | Some ws => load_config (rev ws) = resolve_project U n
                   | None => resolve_project U n = None
                   end.

(** two project versions anybody asks for that share a cache directory are the same project version as far as
    the resolver can tell (so it is when every requirement path carries the major suffix of its version; the
    hypothesis marks the observation of DESIGN section 5 about suffix-less requirement paths) *)
Definition key_sound (U : universe) (W : node -> Prop) : Prop :=
  forall n m, W n -> W m -> cache_key n = cache_key m -> resolve_project U n = resolve_project U m.

(** [W] contains whatever the projects in it require *)
Definition requirements_closed (U : universe) (W : node -> Prop) : Prop :=
  forall n s m, W n -> resolve_project U n = Some s -> In m (s_reqs s) -> fst m = [] \/ W m.

(** every directory in the cache is a complete download of a project version with that key *)
Definition disk_complete (deliver : node -> option (list wr)) (W : node -> Prop) (D : disk) : Prop :=
  forall k d, disk_get D k = Some d ->
    exists n ws, W n /\ cache_key n = k /\ deliver n = Some ws /\ d = rev ws.

(** [obs] is what the resolveProject calls of one BuildList run returned: each taken from some world that the
    cache, the other resolvers, the faults and the kills can have produced; in none of THESE calls an operation
    failed (a failed operation is an error of the run, which is reported) *)
Definition observed (deliver : node -> option (list wr)) (W : node -> Prop) (obs : node -> option summary) : Prop :=
  forall n, W n -> exists D cs, wreach deliver W (D, cs) /\ In (mkCall n (PRet false (obs n))) cs.
