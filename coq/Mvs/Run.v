(** Case evaluation for the C10/C11 correspondence checks: the harness writes the implementation's answers,
    this file recomputes them with the model and returns the indices of disagreeing cases. *)
From Dawn Require Import Mvs.Edit.

Definition pick_fifo (l : list node) : nat := O.
Definition pick_lifo (l : list node) : nat := pred (length l).
(** a third schedule: middle of the pending list *)
Definition pick_mid (l : list node) : nat := Nat.div (length l) 2.

Fixpoint list_eqb {A} (eqb : A -> A -> bool) (a b : list A) : bool :=
  match a, b with
  | [], [] => true
  | x :: a', y :: b' => eqb x y && list_eqb eqb a' b'
  | _, _ => false
  end.

Definition outcome_eqb {A} (eqb : A -> A -> bool) (a b : outcome A) : bool :=
  match a, b with
  | Ok x, Ok y => eqb x y
  | Err, Err => true
  | Panic, Panic => true
  | OutOfFuel, OutOfFuel => true
  | _, _ => false
  end.

Definition cfg_entry_eqb (a b : str * node) : bool := str_eqb (fst a) (fst b) && node_eqb (snd a) (snd b).

(** C10: the build-list map (sorted by path) for a root configuration, under three schedules *)
Definition check_c10 (U : universe) (root : config) (exp : outcome (list (str * version))) : bool :=
  let fuel := u_fuel U (map snd root) in
  outcome_eqb (list_eqb node_eqb) (dawn_build_list pick_fifo fuel U root) exp
  && outcome_eqb (list_eqb node_eqb) (dawn_build_list pick_lifo fuel U root) exp
  && outcome_eqb (list_eqb node_eqb) (dawn_build_list pick_mid fuel U root) exp.

Definition mismatches_c10 (groups : list (universe * list (N * (config * outcome (list (str * version))))))
  : list N :=
  flat_map (fun g => map fst (filter (fun c => negb (check_c10 (fst g) (fst (snd c)) (snd (snd c)))) (snd g)))
           groups.

(** C11: one operation applied to a configuration; the resulting configuration sorted by name *)
Definition check_c11 (U : universe) (root : config) (o : op) (exp : outcome config) : bool :=
  outcome_eqb (list_eqb cfg_entry_eqb) (apply_op pick_fifo U root o) exp
  && outcome_eqb (list_eqb cfg_entry_eqb) (apply_op pick_lifo U root o) exp.

Definition mismatches_c11 (groups : list (universe * list (N * (config * op * outcome config)))) : list N :=
  flat_map (fun g => map fst (filter (fun c => negb (check_c11 (fst g) (fst (fst (snd c))) (snd (fst (snd c)))
                                                               (snd (snd c)))) (snd g)))
           groups.
