(** The build list as the PROJECT resolves it, and the states of the download cache in which the requirement
    graph cannot be walked.
      dawn  project_config.go loadConfigFile: mvs.BuildList(ctx, config, proj.resolver); an error is returned
            ("computing requirements: ..."), otherwise Project.buildList := the list (module_fetch.go resolves
            every label into another project with it).
    The cache directory is also written from OUTSIDE dawn -- a disk that loses the tail of a file, a user who
    deletes or overwrites something below ~/.dawn/modules/cache, an entry that is a file -- and a repository can
    be out of reach.  Such states are added to the world of Mvs/Cache.v as [damage] steps.
    NO proofs in this file. *)
From Dawn Require Export Mvs.Cache.

(** Project.buildList after Load, when resolveProject answers [obs n] for project version [n]:
    [Ok l] = Load succeeded and the project's build list is [l]; [Err] = Load failed. *)
Definition load_build_list (obs : node -> option summary) (pick : list node -> nat) (fuel : nat) (root : config)
  : outcome (list (str * version)) :=
  match dawn_build_list_via obs pick fuel root with
  | Ok l => Ok l                 (* proj.buildList = buildList; return nil *)
  | Err => Err                   (* return fmt.Errorf("computing requirements: %w", err) *)
  | Panic => Panic
  | OutOfFuel => OutOfFuel
  end.

(** remove every directory with key [k] *)
Fixpoint disk_remove (D : disk) (k : node) : disk :=
  match D with
  | [] => []
  | (k', d) :: D' => if node_eqb k' k then disk_remove D' k else (k', d) :: disk_remove D' k
  end.

(** what can happen to the cache directory from outside dawn *)
Inductive damage : disk -> disk -> Prop :=
| dm_unreadable D k d : load_config d = None -> damage D ((k, d) :: D)
    (* the entry of key k now is a directory whose configuration LoadConfigFile rejects: dawn.toml torn or
       overwritten, no configuration file left, a file where the directory was (ENOTDIR is not "does not exist") *)
| dm_removed D k : damage D (disk_remove D k).
    (* the entry is gone; the next call downloads it again -- or fails when the repository is out of reach
       (the early fault of Mvs/Cache.v) *)

Section DamagedWorld.
  Variable deliver : node -> option (list wr).
  Variable W : node -> Prop.

  Inductive dstep : disk * list call -> disk * list call -> Prop :=
  | d_step w w' : wstep deliver W w w' -> dstep w w'
  | d_damage D D' cs : damage D D' -> dstep (D, cs) (D', cs).

  Inductive dreach : disk * list call -> Prop :=
  | dr_init : dreach ([], [])
  | dr_step w w' : dreach w -> dstep w w' -> dreach w'.
End DamagedWorld.

(** [obs] is what the resolveProject calls of one BuildList run returned, each in some world that resolvers,
    faults, kills AND damage can have produced; a call in which an operation failed counts (it returned an error) *)
Definition observed_damaged (deliver : node -> option (list wr)) (W : node -> Prop) (obs : node -> option summary) : Prop :=
  forall n, W n -> exists D cs b, dreach deliver W (D, cs) /\ In (mkCall n (PRet b (obs n))) cs.

(** the model evaluated by the check: the entries with the given cache keys are unreadable or out of reach *)
Definition obs_damaged (U : universe) (keys : list node) (n : node) : option summary :=
  if existsb (node_eqb (cache_key n)) keys then None else resolve_project U n.
