(** Executable model of the requirement edits:
      github.com/pgavlin/mvs mvs.go  Req/ReqList, Upgrade, UpgradeAll, Downgrade
      dawn internal/mvs  reqs.go (Upgrade, Previous), query.go (the query resolver),
                         get.go (get, Get, UpgradeAll, Tidy, transformReqs).
    NO proofs in this file. *)
From Dawn Require Export Mvs.Model.

Definition bind {A B} (o : outcome A) (f : A -> outcome B) : outcome B :=
  match o with
  | Ok a => f a
  | Err => Err
  | Panic => Panic
  | OutOfFuel => OutOfFuel
  end.

Definition path_in (p : str) (l : list node) : bool := existsb (fun m => str_eqb (fst m) p) l.

(** first element with the given path (slices.IndexFunc) / the value of a Go map built by assigning in order *)
Fixpoint find_path (p : str) (l : list node) : option version :=
  match l with
  | [] => None
  | m :: l' => if str_eqb (fst m) p then Some (snd m) else find_path p l'
  end.

Definition max_of_list (l : list node) (p : str) : option version := find_path p (rev l).

Definition optv_eqb (a : option version) (b : version) : bool :=
  match a with Some v => version_eqb v b | None => false end.

(** ** ReqList(mainModule, list, nil, reqs) *)
Section ReqList.
  Variable required : node -> option (list node).
  Variable main : node.

  (** fold a walk over the children, threading the state *)
  Fixpoint fold_walk {S} (w : node -> S -> outcome S) (l : list node) (s : S) : outcome S :=
    match l with
    | [] => Ok s
    | c :: l' => bind (w c s) (fold_walk w l')
    end.

  (** first walk: [fst st] = keys of reqCache, [snd st] = postorder.  The fuel bounds the recursion depth. *)
  Fixpoint walk1 (fuel : nat) (m : node) (st : list node * list node) : outcome (list node * list node) :=
    match fuel with
    | O => OutOfFuel
    | S f =>
        if mem m (fst st) then Ok st
        else match required m with
             | None => Err
             | Some rq =>
                 bind (fold_walk (walk1 f) rq (m :: fst st, snd st))
                      (fun st' => Ok (fst st', snd st' ++ [m]))
             end
    end.

  (** reqCache[m] as read by the second walk *)
  Definition cache (m : node) : list node :=
    if node_eqb m main then [] else match required m with Some l => l | None => [] end.

  (** second walk: [have] *)
  Fixpoint walk2 (fuel : nat) (m : node) (have : list node) : outcome (list node) :=
    match fuel with
    | O => OutOfFuel
    | S f => if mem m have then Ok have else fold_walk (walk2 f) (cache m) (m :: have)
    end.

  (** the reverse-postorder loop; [rpost] is the postorder reversed; returns min in append order *)
  Fixpoint pick_min (fuel : nat) (maxl : list node) (rpost : list node) (have mn : list node)
    : outcome (list node) :=
    match rpost with
    | [] => Ok mn
    | m :: r =>
        if negb (optv_eqb (max_of_list maxl (fst m)) (snd m)) then pick_min fuel maxl r have mn
        else if mem m have then pick_min fuel maxl r have mn
        else bind (walk2 fuel m have) (fun have' => pick_min fuel maxl r have' (mn ++ [m]))
    end.

  Definition req_list (fuel : nat) (bl : list node) : outcome (list node) :=
    bind (fold_walk (walk1 fuel) bl ([main], []))
         (fun st => bind (pick_min fuel bl (rev (snd st)) [] [])
                         (fun mn => Ok (sort_nodes mn))).
End ReqList.

Definition override (required : node -> option (list node)) (tgt : node) (l : list node) (m : node)
  : option (list node) :=
  if node_eqb m tgt then Some l else required m.

(** ** mvs.Upgrade(target, reqs, u) *)
Definition mvs_upgrade (required : node -> option (list node)) (pick : list node -> nat) (fuel : nat)
           (u : node) : outcome (list node) :=
  match required target with
  | None => Err
  | Some l =>
      let l' := if path_in (fst u) l then l else l ++ [(fst u, VNone)] in
      build_list_gen (override required target l')
                     (Some (fun m => Some (if str_eqb (fst m) (fst u) then (fst m, snd u) else m)))
                     pick fuel target
  end.

(** ** Resolver.listVersions, Reqs.Upgrade, Reqs.Previous *)
Definition list_versions (U : universe) (p : str) : option (list version) :=
  if in_repo U p
  then Some (map (fun t => snd (fst t)) (filter (fun t => str_eqb (fst (fst t)) p) (u_tags U)))
  else None.

Definition reqs_upgrade (U : universe) (p : node) : option node :=
  match fst p with
  | [] => Some p
  | _ => match list_versions U (fst p) with
         | None => None
         | Some vs =>
             Some (fst p, fold_left (fun sel v => if optN_eqb (major_of v) (major_of (snd p)) && is_gt (sem_cmp v sel)
                                                  then v else sel) vs (snd p))
         end
  end.

(** [selected] starts as "" (modelled by VNone: semver.Compare treats both as invalid) and "" becomes "none" *)
Definition reqs_previous (U : universe) (p : node) : option node :=
  match fst p with
  | [] => Some p
  | _ => match list_versions U (fst p) with
         | None => None
         | Some vs =>
             Some (fst p, fold_left (fun sel v => if optN_eqb (major_of v) (major_of (snd p))
                                                     && is_lt (sem_cmp v (snd p)) && is_gt (sem_cmp v sel)
                                                  then v else sel) vs VNone)
         end
  end.

(** ** mvs.UpgradeAll(target, reqs) *)
Definition mvs_upgrade_all (U : universe) (required : node -> option (list node)) (pick : list node -> nat)
           (fuel : nat) : outcome (list node) :=
  build_list_gen required
                 (Some (fun m => if str_eqb (fst m) (fst target) then Some target else reqs_upgrade U m))
                 pick fuel target.

(** ** mvs.Downgrade(target, reqs, d) *)
Record dstate := mkD { d_added : list node; d_excl : list node; d_rdeps : list (node * node) }.

Section Downgrade.
  Variable required : node -> option (list node).
  Variable previous : node -> option node.
  Variable maxm : list (str * version).      (* the [max] map *)

  Definition rdeps_of (rd : list (node * node)) (m : node) : list node :=
    map snd (filter (fun e => node_eqb (fst e) m) rd).

  Fixpoint fold_opt {S} (w : node -> S -> option S) (l : list node) (s : S) : option S :=
    match l with
    | [] => Some s
    | c :: l' => match w c s with Some s' => fold_opt w l' s' | None => None end
    end.

  (** exclude(m); [None] = out of fuel *)
  Fixpoint exclude (fuel : nat) (rd : list (node * node)) (m : node) (ex : list node) : option (list node) :=
    match fuel with
    | O => None
    | S f => if mem m ex then Some ex else fold_opt (exclude f rd) (rdeps_of rd m) (m :: ex)
    end.

  Definition exclude_st (fuel : nat) (m : node) (st : dstate) : option dstate :=
    match exclude fuel (d_rdeps st) m (d_excl st) with
    | Some ex => Some (mkD (d_added st) ex (d_rdeps st))
    | None => None
    end.

  (** Max(m.Version, v) != v : m.Version is not below v and is a different string *)
  Definition above (mv v : version) : bool := negb (vlt mv v) && negb (version_eqb mv v).

  (** the loop over the requirements of [m] inside add *)
  Fixpoint add_children (xfuel : nat) (addf : node -> dstate -> option dstate) (m : node) (l : list node)
           (st : dstate) : option dstate :=
    match l with
    | [] => Some st
    | r :: l' =>
        match addf r st with
        | None => None
        | Some st' =>
            if mem r (d_excl st') then exclude_st xfuel m st'
            else add_children xfuel addf m l' (mkD (d_added st') (d_excl st') (d_rdeps st' ++ [(r, m)]))
        end
    end.

  (** add(m); [fuel] bounds the recursion depth, [xfuel] is the fuel of exclude *)
  Fixpoint add (fuel xfuel : nat) (m : node) (st : dstate) : option dstate :=
    match fuel with
    | O => None
    | S f =>
        if mem m (d_added st) then Some st
        else
          let st1 := mkD (m :: d_added st) (d_excl st) (d_rdeps st) in
          if (match find_path (fst m) maxm with Some v => above (snd m) v | None => false end)
          then exclude_st xfuel m st1
          else match required m with
               | None => exclude_st xfuel m st1
               | Some l => add_children xfuel (add f xfuel) m l st1
               end
    end.

  (** for excluded[r] { ... }: result [Some (Some r)] = append r, [Some None] = continue List *)
  Fixpoint down_loop (lfuel fuel xfuel : nat) (r : node) (st : dstate) : outcome (option node * dstate) :=
    match lfuel with
    | O => OutOfFuel
    | S lf =>
        if negb (mem r (d_excl st)) then Ok (Some r, st)
        else match previous r with
             | None => Err
             | Some p =>
                 let v := match find_path (fst r) maxm with Some v => v | None => VNone end in
                 let p := if vlt v (snd r) && vlt (snd p) v then (fst p, v) else p in
                 match snd p with
                 | VNone => Ok (None, st)
                 | _ => match add fuel xfuel p st with
                        | None => OutOfFuel
                        | Some st' => down_loop lf fuel xfuel p st'
                        end
                 end
             end
    end.

  Fixpoint down_list (lfuel fuel xfuel : nat) (l : list node) (st : dstate) (acc : list node)
    : outcome (list node) :=
    match l with
    | [] => Ok acc
    | r :: l' =>
        match add fuel xfuel r st with
        | None => OutOfFuel
        | Some st1 =>
            bind (down_loop lfuel fuel xfuel r st1)
                 (fun x => match fst x with
                           | Some r' => down_list lfuel fuel xfuel l' (snd x) (acc ++ [r'])
                           | None => down_list lfuel fuel xfuel l' (snd x) acc
                           end)
        end
    end.
End Downgrade.

(** [max] after the downgrade request has been applied *)
Definition down_max (bl : list node) (d : node) : list (str * version) :=
  match find_path (fst d) bl with
  | None => bl ++ [d]
  | Some v => if above v (snd d)
              then map (fun e => if str_eqb (fst e) (fst d) then (fst e, snd d) else e) bl
              else bl
  end.

Definition mvs_downgrade (required : node -> option (list node)) (previous : node -> option node)
           (pick : list node -> nat) (fuel lfuel : nat) (d : node) : outcome (list node) :=
  bind (build_list_gen required None pick fuel target)
       (fun bl =>
          let lst := tl bl in
          let maxm := down_max lst d in
          bind (down_list required previous maxm lfuel fuel fuel lst (mkD [] [] []) [target])
               (fun downgraded =>
                  bind (build_list_gen (override required target downgraded) None pick fuel target)
                       (fun actual =>
                          let dg := flat_map (fun m => match find_path (fst m) actual with
                                                       | Some v => [(fst m, v)]
                                                       | None => []
                                                       end) lst in
                          build_list_gen (override required target dg) None pick fuel target))).

(** ** The query resolver (query.go).  The syntactic classification of the query string
    (parseVersionQuery and the switch in resolveVersionQuery) is done by the driver. *)
Inductive range :=
| RExact (v : version)      (* vX.Y.Z[-pre]  : Compare(canon, v) == 0 *)
| RFrom (v : version)       (* vX or vX.Y   : Compare(canon, v) <= 0 *)
| RGt (v : version) | RGe (v : version) | RLt (v : version) | RLe (v : version).

Inductive qkind := QLatest | QUpgrade | QPatch | QRange (r : range) | QRef (ref : str)
| QBad.  (* a range query whose version text is not valid semver: "invalid query" *)

Definition accepts (r : range) (v : version) : bool :=
  match r with
  | RExact c => is_eq (sem_cmp c v)
  | RFrom c => negb (is_gt (sem_cmp c v))
  | RGt c => is_lt (sem_cmp c v)
  | RGe c => negb (is_gt (sem_cmp c v))
  | RLt c => is_gt (sem_cmp c v)
  | RLe c => negb (is_lt (sem_cmp c v))
  end.

(** CleanPath on a path whose slash-separated part is already clean *)
Definition clean_path (p : str) : str :=
  let (a, v) := split_path_version p in join_path_version a v.

Fixpoint parse_dec (s : str) (acc : N) : option N :=
  match s with
  | [] => Some acc
  | c :: s' => if is_digit c then parse_dec s' (acc * 10 + (c - 48)) else None
  end.

(** the base version semver.Canonical(majorVersion) used for a pseudo-version without a tagged ancestor *)
Definition major_base (major : str) : option semver :=
  match major with
  | c :: d :: ds => if c =? c_v then match parse_dec (d :: ds) 0 with
                                     | Some n => Some (mkSV n 0 0 [])
                                     | None => None
                                     end
                    else None
  | _ => None
  end.

Section Query.
  Variable U : universe.

  Definition tag_matches (qpath major : str) (t : node * N) : bool :=
    major_version_match major (snd (fst t)) && str_eqb (fst (fst t)) qpath.

  (** resolveRefQuery *)
  Fixpoint ref_scan (rtags : list (node * N)) (qpath major : str) (anc : N) : option (node * N) :=
    match rtags with
    | [] => None
    | t :: r => if tag_matches qpath major t && (snd t =? anc) then Some t else ref_scan r qpath major anc
    end.

  (** the history loop: ancestors rev, rev-1, ..., 1; a later (older) match overwrites an earlier one *)
  Fixpoint ref_history (n : nat) (rtags : list (node * N)) (qpath major : str) (cur : option (node * N))
    : option (node * N) :=
    match n with
    | O => cur
    | S k => let cur' := match ref_scan rtags qpath major (N.of_nat n) with Some t => Some t | None => cur end in
             ref_history k rtags qpath major cur'
    end.

  Definition resolve_ref (qpath major ref : str) : outcome node :=
    match find (fun e => str_eqb (fst e) ref) (u_refs U) with
    | None => Err
    | Some (_, r) =>
        match find (fun e => fst e =? r) (u_segs U) with
        | None => Err
        | Some (_, seg) =>
            match ref_history (N.to_nat r) (rev (u_tags U)) qpath major None with
            | Some (n, r') => if r' =? r then Ok n
                              else Ok (qpath, pseudo_version (match snd n with VSem s => Some s | _ => None end) seg)
            | None => Ok (qpath, pseudo_version (major_base major) seg)
            end
        end
    end.

  (** resolveLatestQuery *)
  Fixpoint latest_scan (rtags : list (node * N)) (qpath major : str) (pre : option node) : option node :=
    match rtags with
    | [] => pre
    | t :: r =>
        if negb (tag_matches qpath major t) then latest_scan r qpath major pre
        else if negb (has_prerelease (snd (fst t))) then Some (fst t)
        else latest_scan r qpath major (match pre with None => Some (fst t) | _ => pre end)
    end.

  Definition resolve_latest (qpath major : str) : outcome node :=
    match latest_scan (rev (u_tags U)) qpath major None with
    | Some n => Ok n
    | None => resolve_ref qpath major (u_default U)
    end.

  Definition resolve_upgrade (bl : list node) (qpath major : str) : outcome node :=
    bind (resolve_latest qpath major)
         (fun nv => match find_path (fst nv) bl with
                    | Some v => if is_lt (sem_cmp (snd nv) v) then Ok (fst nv, v) else Ok nv
                    | None => Ok nv
                    end).

  Fixpoint patch_scan (rtags : list (node * N)) (cur : node) : node :=
    match rtags with
    | [] => cur
    | t :: r => if str_eqb (fst (fst t)) (fst cur)
                   && optNN_eqb (major_minor_of (snd (fst t))) (major_minor_of (snd cur))
                   && is_gt (sem_cmp (snd (fst t)) (snd cur))
                then fst t else patch_scan r cur
    end.

  Definition resolve_patch (bl : list node) (qpath major : str) : outcome node :=
    match find_path qpath bl with
    | None => resolve_latest qpath major
    | Some v => Ok (patch_scan (rev (u_tags U)) (qpath, v))
    end.

  Fixpoint range_scan (rtags : list (node * N)) (qpath major : str) (r : range) : option node :=
    match rtags with
    | [] => None
    | t :: rt => if tag_matches qpath major t && accepts r (snd (fst t)) then Some (fst t)
                 else range_scan rt qpath major r
    end.

  (** resolveVersionQuery *)
  Definition resolve_query (bl : list node) (qpath0 : str) (k : qkind) : outcome node :=
    if negb (in_repo U qpath0) then Err
    else
      let qpath := clean_path qpath0 in
      let major := snd (split_path_version qpath) in
      match k with
      | QLatest => resolve_latest qpath major
      | QUpgrade => resolve_upgrade bl qpath major
      | QPatch => resolve_patch bl qpath major
      | QRange r => match range_scan (rev (u_tags U)) qpath major r with Some n => Ok n | None => Err end
      | QRef ref => resolve_ref qpath major ref
      | QBad => Err
      end.
End Query.

(** ** get.go *)

(** root.Requirements[i].Version = version.Version for the first i with that path, else append *)
Fixpoint set_first_path (l : list node) (u : node) : list node :=
  match l with
  | [] => [u]
  | m :: l' => if str_eqb (fst m) (fst u) then (fst m, snd u) :: l' else m :: set_first_path l' u
  end.

(** fuel for the walks over everything the resolver can ever return *)
Definition e_nodes (U : universe) (rootreqs : list node) (extra : list node) : list node :=
  u_nodes U rootreqs ++ map fst (u_tags U) ++ extra.

Definition e_fuel (U : universe) (rootreqs : list node) : nat :=
  S (S (S (S (length (e_nodes U rootreqs []))))).

Definition l_fuel (U : universe) : nat := S (S (S (length (u_tags U)))).

Definition get_versions (pick : list node -> nat) (U : universe) (rootreqs : list node) (qpath : str) (k : qkind)
  : outcome (list node) :=
  let fuel := e_fuel U rootreqs in
  let reqs := u_required U rootreqs in
  bind (build_list_gen reqs None pick fuel target)
       (fun bl =>
          bind (resolve_query U bl qpath k)
               (fun version =>
                  match find_path (fst version) bl with
                  | None => Ok (version :: rootreqs)
                  | Some cur =>
                      match sem_cmp cur (snd version) with
                      | Eq => Ok rootreqs
                      | Lt => bind (mvs_upgrade reqs pick fuel version)
                                   (fun bl' => req_list (u_required U (set_first_path rootreqs version)) target fuel bl')
                      | Gt => bind (mvs_downgrade reqs (reqs_previous U) pick fuel (l_fuel U) version)
                                   (fun bl' => req_list (u_required U (set_first_path rootreqs version)) target fuel bl')
                      end
                  end)).

Definition tidy_versions (pick : list node -> nat) (U : universe) (rootreqs : list node) : outcome (list node) :=
  let fuel := e_fuel U rootreqs in
  let reqs := u_required U rootreqs in
  bind (build_list_gen reqs None pick fuel target) (req_list reqs target fuel).

Definition upgrade_all_versions (pick : list node -> nat) (U : universe) (rootreqs : list node)
  : outcome (list node) :=
  let fuel := e_fuel U rootreqs in
  let reqs := u_required U rootreqs in
  bind (mvs_upgrade_all U reqs pick fuel) (req_list reqs target fuel).

(** ** transformReqs *)
Fixpoint cfg_get (c : config) (n : str) : option node :=
  match c with
  | [] => None
  | (k, v) :: c' => if str_eqb k n then Some v else cfg_get c' n
  end.

(** Go map assignment; the result is kept sorted by name (the driver sorts the implementation's map) *)
Fixpoint cfg_set (c : config) (n : str) (v : node) : config :=
  match c with
  | [] => [(n, v)]
  | (k, w) :: c' => if str_eqb k n then (k, v) :: c'
                    else if str_ltb k n then (k, w) :: cfg_set c' n v
                    else (n, v) :: c
  end.

Definition names_of (root : config) (p : str) : list str :=
  map fst (filter (fun e => str_eqb (fst (snd e)) p) root).

Fixpoint fresh_name (fuel : nat) (name n : str) (suffix : N) (c : config) : option str :=
  match fuel with
  | O => None
  | S f => match cfg_get c n with
           | None => Some n
           | Some _ => fresh_name f name (name ++ c_dash :: dec suffix) (suffix + 1) c
           end
  end.

(** the [highest] map of transformReqs after all of [l] has been scanned, read at path [p]: the greatest version
    (semver.Compare; of versions that compare equal the first) among the entries of [l] with that path.  [cur] is
    the value of highest[p] so far ([None]: no entry yet). *)
Fixpoint highest_from (p : str) (l : list node) (cur : option version) : option version :=
  match l with
  | [] => cur
  | v :: l' =>
      highest_from p l' (if str_eqb (fst v) p
                         then match cur with
                              | Some c => if is_lt (sem_cmp c (snd v)) then Some (snd v) else cur
                              | None => Some (snd v)
                              end
                         else cur)
  end.

(** highest[p] (the zero value for a path without entry; never read for such a path) *)
Definition highest_of (newv : list node) (p : str) : version :=
  match highest_from p newv None with Some h => h | None => VNone end.

(** what an old name [n] of path [p] is bound to: its own old requirement when the computed list holds exactly that
    (path, version) - returned[old] -, else the path at the highest version the list holds for it *)
Definition keep_name (root : config) (newv : list node) (p n : str) : node :=
  match cfg_get root n with
  | Some old => if mem old newv then old else (p, highest_of newv p)
  | None => (p, highest_of newv p)
  end.

(** first loop of transformReqs, over the computed list: every old name of an entry's path is (re)bound; the value
    depends on the name and the path only, so neither repeated paths nor the order of the list matter *)
Definition keep_old (root : config) (newv : list node) : config :=
  fold_left (fun c v => match fst v with
                        | [] => c
                        | _ => fold_left (fun c n => cfg_set c n (keep_name root newv (fst v) n)) (names_of root (fst v)) c
                        end) newv [].

Fixpoint add_fresh (U : universe) (root : config) (newv : list node) (c : config) : outcome config :=
  match newv with
  | [] => Ok c
  | v :: r =>
      match fst v with
      | [] => add_fresh U root r c
      | _ => match names_of root (fst v) with
             | _ :: _ => add_fresh U root r c
             | [] =>
                 match resolve_project U v with
                 | None => Err
                 | Some pr =>
                     let name := match s_name pr with
                                 | [] => path_base (fst v)
                                 | nm => join_path_version nm (snd (split_path_version (fst v)))
                                 end in
                     match fresh_name (S (length c)) name name 1 c with
                     | None => OutOfFuel
                     | Some n => add_fresh U root r (cfg_set c n v)
                     end
                 end
             end
      end
  end.

Definition transform_reqs (U : universe) (root : config) (tx : list node -> outcome (list node)) : outcome config :=
  bind (tx (map snd root)) (fun newv => add_fresh U root newv (keep_old root newv)).

Inductive op := OpGet (qpath : str) (k : qkind) | OpTidy | OpUpgradeAll.

Definition apply_op (pick : list node -> nat) (U : universe) (root : config) (o : op) : outcome config :=
  match o with
  | OpGet qpath k => transform_reqs U root (fun rr => get_versions pick U rr qpath k)
  | OpTidy => transform_reqs U root (fun rr => tidy_versions pick U rr)
  | OpUpgradeAll => transform_reqs U root (fun rr => upgrade_all_versions pick U rr)
  end.
