(** Specification vocabulary for C10/C11 (definitions only, no proofs). *)
From Coq Require Export Sorted Permutation.
From Dawn Require Export Mvs.Edit.

(** ** Reachability in the requirement graph seen by the resolver.
    [req m = Some l]: project version [m] declares the requirements [l]; [None]: it cannot be resolved.
    The library does not ask for the requirements of a "none" version. *)
Section Reach.
  Variable req : node -> option (list node).

  Inductive reachable (t : node) : node -> Prop :=
  | r_target : reachable t t
  | r_dep m n l : reachable t m -> snd m <> VNone -> req m = Some l -> In n l -> reachable t n.

  (** some reachable project version cannot be resolved *)
  Definition unresolvable (t : node) : Prop :=
    exists m, reachable t m /\ snd m <> VNone /\ req m = None.
End Reach.

(** strictly increasing paths: in particular every path occurs once *)
Definition path_lt (a b : node) : Prop := str_ltb (fst a) (fst b) = true.

(** [l] is the minimal-version-selection solution of the set [R] of reachable project versions:
    strictly sorted by path (so every path occurs once), every member is a reachable project version,
    and every reachable project version (p, v) is covered by the member for p at a version >= v.
    Hence: exactly the reachable paths, each once, each at the highest version demanded by a reachable
    requirement (Props_C10.mvs_solution_highest spells this out). *)
Definition mvs_solution (R : node -> Prop) (l : list node) : Prop :=
  StronglySorted path_lt l /\
  (forall p v, In (p, v) l -> R (p, v) /\ v <> VNone) /\
  (forall p v, R (p, v) -> v <> VNone -> exists w, In (p, w) l /\ vle v w = true).

(** the graph of a root requirement list over a universe *)
Definition reachable_from (U : universe) (rootreqs : list node) : node -> Prop :=
  reachable (u_required U rootreqs) target.

Definition same_set (a b : list node) : Prop := forall x, In x a <-> In x b.

(** ** Well-formed inputs (what project.LoadConfigBytes and the tag scanner guarantee):
    every requirement names a non-empty path at a canonical semantic version *)
Definition wf_node (n : node) : Prop := fst n <> [] /\ exists s, snd n = VSem s.
Definition wf_reqs (l : list node) : Prop := forall n, In n l -> wf_node n.
Definition wf_universe (U : universe) : Prop :=
  (forall e, In e (u_sums U) -> wf_reqs (s_reqs (snd e))) /\
  (forall t, In t (u_tags U) -> wf_node (fst t)).

(** the version selected for a path in a build list / "absent" *)
Definition selected (bl : list node) (p : str) : option version := find_path p bl.

(** no project of [bl1] is missing from or lower in [bl2] *)
Definition no_lower (bl1 bl2 : list node) : Prop :=
  forall p v, In (p, v) bl1 -> exists w, In (p, w) bl2 /\ vle v w = true.

(** requirement names: a configuration is a Go map, so names are unique; "no two names share a path" *)
Definition names_unique (c : config) : Prop := NoDup (map fst c).
Definition paths_unique (c : config) : Prop := NoDup (map (fun e => fst (snd e)) c).

(** several names may share a path ("aliases"); [aliases_agree]: the names of one path carry one version *)
Definition aliases_agree (c : config) : Prop :=
  forall n1 n2 p v1 v2, In (n1, (p, v1)) c -> In (n2, (p, v2)) c -> v1 = v2.

(** a requirement list holds one version per path (an entry may be repeated) *)
Definition path_fun (l : list node) : Prop := forall x y, In x l -> In y l -> fst x = fst y -> x = y.

(** the requirement list an operation computes before names are attached (the [tx] callback of transformReqs) *)
Definition op_versions (pick : list node -> nat) (U : universe) (o : op) (rootreqs : list node)
  : outcome (list node) :=
  match o with
  | OpGet qpath k => get_versions pick U rootreqs qpath k
  | OpTidy => tidy_versions pick U rootreqs
  | OpUpgradeAll => upgrade_all_versions pick U rootreqs
  end.
