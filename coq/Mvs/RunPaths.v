(** Case evaluation for the C10 correspondence on requirement paths as written (Mvs/Paths.v). *)
From Dawn Require Import Mvs.Run.
From Dawn Require Import Mvs.Paths.

(** (id, (path as written in a configuration file, path LoadConfigFile answers with)) *)
Definition mismatches_clean (cases : list (N * (str * str))) : list N :=
  map fst (filter (fun c => negb (str_eqb (clean_path_full (fst (snd c))) (snd (snd c)))) cases).

(** the build-list map for a root configuration and a universe whose configurations are given as written *)
Definition check_c10_written (U : universe) (root : config) (exp : outcome (list (str * version))) : bool :=
  let fuel := written_fuel U root in
  outcome_eqb (list_eqb node_eqb) (dawn_build_list_written pick_fifo fuel U root) exp
  && outcome_eqb (list_eqb node_eqb) (dawn_build_list_written pick_lifo fuel U root) exp
  && outcome_eqb (list_eqb node_eqb) (dawn_build_list_written pick_mid fuel U root) exp.

Definition mismatches_c10_written (groups : list (universe * list (N * (config * outcome (list (str * version))))))
  : list N :=
  flat_map (fun g => map fst (filter (fun c => negb (check_c10_written (fst g) (fst (snd c)) (snd (snd c)))) (snd g)))
           groups.
