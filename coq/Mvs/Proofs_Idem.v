(** Determinism of ReqList: the result does not depend on the (sufficient) fuel, nor on what the requirement
    function answers for the root or for nodes with an empty path.  Used for idempotence. *)
From Dawn Require Import Mvs.VersionProofs Mvs.Spec Mvs.Proofs_Base Mvs.Proofs_C10 Mvs.Proofs_ReqList Mvs.Proofs_Names.

Section FuelMono.
  Variable required : node -> option (list node).

  Lemma fold_walk_ext {S} (w1 w2 : node -> S -> outcome S) l : forall s r,
    (forall c s r, In c l -> w1 c s = Ok r -> w2 c s = Ok r) ->
    fold_walk w1 l s = Ok r -> fold_walk w2 l s = Ok r.
  Proof.
    induction l as [|c l IH]; intros s r H E; simpl in *; auto.
    destruct (w1 c s) as [s1| | |] eqn:E1; simpl in E; try discriminate.
    rewrite (H c s s1 (or_introl eq_refl) E1). simpl. apply IH; auto.
  Qed.

  Lemma walk1_fuel_mono f : forall m st r, walk1 required f m st = Ok r -> walk1 required (S f) m st = Ok r.
  Proof.
    induction f as [|f IH]; intros m st r H; [discriminate|].
    simpl in H. simpl. destruct (mem m (fst st)); auto.
    destruct (required m) as [rq|]; auto.
    destruct (fold_walk (walk1 required f) rq (m :: fst st, snd st)) as [s1| | |] eqn:E; simpl in H; try discriminate.
    rewrite (fold_walk_ext (walk1 required f) (walk1 required (S f)) rq _ s1); auto.
  Qed.

  Lemma walk1_fuel_le f f' m st r : (f <= f')%nat -> walk1 required f m st = Ok r -> walk1 required f' m st = Ok r.
  Proof. induction 1; auto. intros. apply walk1_fuel_mono. auto. Qed.

  Variable main : node.

  Lemma walk2_fuel_mono f : forall m st r, walk2 required main f m st = Ok r -> walk2 required main (S f) m st = Ok r.
  Proof.
    induction f as [|f IH]; intros m st r H; [discriminate|].
    simpl in H. simpl. destruct (mem m st); auto.
    eapply fold_walk_ext; [|exact H]. intros c s r0 _ X. now apply IH.
  Qed.

  Lemma walk2_fuel_le f f' m st r : (f <= f')%nat -> walk2 required main f m st = Ok r -> walk2 required main f' m st = Ok r.
  Proof. induction 1; auto. intros. apply walk2_fuel_mono. auto. Qed.

  Lemma pick_min_fuel_le f f' maxl : (f <= f')%nat -> forall rpost have mn r,
    pick_min required main f maxl rpost have mn = Ok r -> pick_min required main f' maxl rpost have mn = Ok r.
  Proof.
    intros Hle. induction rpost as [|m rp IH]; intros have mn r H; simpl in *; auto.
    destruct (negb _); auto. destruct (mem m have); auto.
    destruct (walk2 required main f m have) as [h1| | |] eqn:E; simpl in H; try discriminate.
    rewrite (walk2_fuel_le f f' m have h1 Hle E). simpl. auto.
  Qed.

  Lemma req_list_fuel_le f f' bl r : (f <= f')%nat ->
    req_list required main f bl = Ok r -> req_list required main f' bl = Ok r.
  Proof.
    intros Hle H. unfold req_list in *.
    destruct (fold_walk (walk1 required f) bl ([main], [])) as [s1| | |] eqn:E; simpl in H; try discriminate.
    rewrite (fold_walk_ext (walk1 required f) (walk1 required f') bl _ s1); auto.
    - simpl. destruct (pick_min required main f bl (rev (snd s1)) [] []) as [mn| | |] eqn:E2; simpl in H; try discriminate.
      now rewrite (pick_min_fuel_le f f' bl Hle _ _ _ _ E2).
    - intros c s r0 _. now apply walk1_fuel_le.
  Qed.
End FuelMono.

Section Ext.
  Variable req1 req2 : node -> option (list node).
  Hypothesis A : forall x, fst x <> [] -> req1 x = req2 x.
  Hypothesis B : forall x l, fst x <> [] -> req1 x = Some l -> forall y, In y l -> fst y <> [].

  Definition okn (m : node) : Prop := m = target \/ fst m <> [].
  Definition P (m : node) : Prop := fst m <> [].

  Lemma walk1_mono f : forall m st r,
    walk1 req1 f m st = Ok r -> In target (fst st) -> okn m ->
    incl (fst st) (fst r) /\ (Forall P (snd st) -> Forall P (snd r)).
  Proof.
    induction f as [|f IH]; intros m st r H Ht Hm; [discriminate|]. simpl in H.
    destruct (mem m (fst st)) eqn:Em; [inversion H; subst; split; auto; apply incl_refl|].
    apply mem_false in Em.
    assert (Pm : P m) by (destruct Hm as [X|X]; [subst; contradiction | exact X]).
    destruct (req1 m) as [rq|] eqn:Er; [|discriminate].
    assert (FW : forall l st r, fold_walk (walk1 req1 f) l st = Ok r -> In target (fst st) -> (forall c, In c l -> P c) ->
                                incl (fst st) (fst r) /\ (Forall P (snd st) -> Forall P (snd r))).
    { induction l as [|c l IHl]; intros s0 r0 E T Hc; simpl in E.
      - inversion E; subst. split; auto. apply incl_refl.
      - destruct (walk1 req1 f c s0) as [s1| | |] eqn:E1; simpl in E; try discriminate.
        destruct (IH c s0 s1 E1 T (or_intror (Hc c (or_introl eq_refl)))) as [I1 F1].
        destruct (IHl s1 r0 E (I1 _ T) (fun x Hx => Hc x (or_intror Hx))) as [I2 F2].
        split; [eapply incl_tran; eauto | auto]. }
    destruct (fold_walk (walk1 req1 f) rq (m :: fst st, snd st)) as [s1| | |] eqn:E; simpl in H; try discriminate.
    inversion H; subst. simpl.
    destruct (FW rq _ s1 E (or_intror Ht) (B m rq Pm Er)) as [I1 F1]. simpl in *. split.
    - intros x Hx. apply I1. now right.
    - intros Fp. apply Forall_app. split; auto.
  Qed.

  Lemma walk1_ext f : forall m st, In target (fst st) -> okn m -> walk1 req1 f m st = walk1 req2 f m st.
  Proof.
    induction f as [|f IH]; intros m st Ht Hm; auto. simpl.
    destruct (mem m (fst st)) eqn:Em; auto. apply mem_false in Em.
    assert (Pm : P m) by (destruct Hm as [X|X]; [subst; contradiction | exact X]).
    rewrite <- (A m Pm). destruct (req1 m) as [rq|] eqn:Er; auto.
    assert (FW : forall l st, In target (fst st) -> (forall c, In c l -> P c) ->
                              fold_walk (walk1 req1 f) l st = fold_walk (walk1 req2 f) l st).
    { induction l as [|c l IHl]; intros s0 T Hc; simpl; auto.
      rewrite <- (IH c s0 T (or_intror (Hc c (or_introl eq_refl)))).
      destruct (walk1 req1 f c s0) as [s1| | |] eqn:E1; simpl; auto.
      apply IHl; [|intros x Hx; apply Hc; now right].
      apply (proj1 (walk1_mono f c s0 s1 E1 T (or_intror (Hc c (or_introl eq_refl))))). exact T. }
    rewrite (FW rq (m :: fst st, snd st)); auto. now right. exact (B m rq Pm Er).
  Qed.

  Lemma cache_ext m : okn m -> cache req1 target m = cache req2 target m.
  Proof.
    intros [X|X]; unfold cache.
    - subst. now rewrite node_eqb_refl.
    - destruct (node_eqb m target); auto. now rewrite (A m X).
  Qed.

  Lemma cache_wf m y : okn m -> In y (cache req1 target m) -> P y.
  Proof.
    unfold cache. intros Hm. destruct (node_eqb_spec m target); [intros []|].
    destruct Hm as [X|X]; [contradiction|]. destruct (req1 m) as [l|] eqn:E; [|intros []]. intros Hy. eapply B; eauto.
  Qed.

  Lemma walk2_ext f : forall m have, okn m -> walk2 req1 target f m have = walk2 req2 target f m have.
  Proof.
    induction f as [|f IH]; intros m have Hm; auto. simpl. destruct (mem m have); auto.
    rewrite <- (cache_ext m Hm).
    assert (FW : forall l have, (forall c, In c l -> P c) ->
                                fold_walk (walk2 req1 target f) l have = fold_walk (walk2 req2 target f) l have).
    { induction l as [|c l IHl]; intros h Hc; simpl; auto.
      rewrite <- (IH c h (or_intror (Hc c (or_introl eq_refl)))).
      destruct (walk2 req1 target f c h); simpl; auto. apply IHl. intros x Hx. apply Hc. now right. }
    apply FW. intros c Hc. eapply cache_wf; eauto.
  Qed.

  Lemma pick_min_ext f maxl : forall rpost have mn, Forall P rpost ->
    pick_min req1 target f maxl rpost have mn = pick_min req2 target f maxl rpost have mn.
  Proof.
    induction rpost as [|m rp IH]; intros have mn F; simpl; auto. inversion F; subst.
    destruct (negb _); auto. destruct (mem m have); auto.
    rewrite <- (walk2_ext f m have (or_intror H1)).
    destruct (walk2 req1 target f m have); simpl; auto.
  Qed.

  Lemma req_list_ext f bl : (forall m, In m bl -> okn m) ->
    req_list req1 target f bl = req_list req2 target f bl.
  Proof.
    intros Hbl. unfold req_list.
    assert (FW : forall l st, In target (fst st) -> (forall c, In c l -> okn c) ->
                fold_walk (walk1 req1 f) l st = fold_walk (walk1 req2 f) l st /\
                forall r, fold_walk (walk1 req1 f) l st = Ok r -> Forall P (snd st) -> Forall P (snd r)).
    { induction l as [|c l IHl]; intros s0 T Hc; simpl.
      - split; auto. intros r E; inversion E; subst; auto.
      - rewrite <- (walk1_ext f c s0 T (Hc c (or_introl eq_refl))).
        destruct (walk1 req1 f c s0) as [s1| | |] eqn:E1; simpl; try (split; [auto|intros; discriminate]).
        destruct (walk1_mono f c s0 s1 E1 T (Hc c (or_introl eq_refl))) as [I1 F1].
        destruct (IHl s1 (I1 _ T) (fun x Hx => Hc x (or_intror Hx))) as [E2 F2]. split; auto. }
    destruct (FW bl ([target], []) (or_introl eq_refl) Hbl) as [E F]. rewrite <- E.
    destruct (fold_walk (walk1 req1 f) bl ([target], [])) as [s1| | |] eqn:E1; simpl; auto.
    rewrite (pick_min_ext f bl (rev (snd s1)) [] []); auto.
    apply Forall_rev. apply (F s1 eq_refl). constructor.
  Qed.
End Ext.
