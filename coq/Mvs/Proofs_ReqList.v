(** ReqList (Algorithm R): the minimal requirement list regenerates the build list it was computed from. *)
From Dawn Require Import Mvs.VersionProofs Mvs.Spec Mvs.Proofs_Base Mvs.Proofs_C10.

Section RL.
  Variable required : node -> option (list node).
  Variable main : node.
  (** a finite set of nodes closed under the requirement relation, all of them resolvable *)
  Variable N : list node.
  Hypothesis HN : forall x, In x N -> exists l, required x = Some l /\ incl l N.

  Definition dep (m n : node) : Prop := exists l, required m = Some l /\ In n l.

  Inductive path (a : node) : node -> Prop :=
  | p_refl : path a a
  | p_step k n : path a k -> dep k n -> path a n.

  Lemma path_trans a b c : path a b -> path b c -> path a c.
  Proof. intros H1 H2. induction H2; auto. eapply p_step; eauto. Qed.

  Lemma path_first a b c : dep a b -> path b c -> path a c.
  Proof. intros H1 H2. eapply path_trans; [|exact H2]. eapply p_step; [constructor|exact H1]. Qed.

  Lemma incl_length_nodup (a b : list node) : NoDup a -> incl a b -> (length a <= length b)%nat.
  Proof. intros. now apply NoDup_incl_length. Qed.

  Definition w1_post (vis : list node) (vis' new : list node) (roots : list node) : Prop :=
    NoDup vis' /\ incl vis' N /\ incl vis vis' /\
    (forall x, In x new <-> In x vis' /\ ~ In x vis) /\
    (forall x l, In x new -> required x = Some l -> incl l vis') /\
    (forall x, In x new -> exists c, In c roots /\ path c x).

  Lemma walk1_spec f : forall m vis post,
    NoDup vis -> incl vis N -> In m N -> (length N < f + length vis)%nat ->
    exists vis' new, walk1 required f m (vis, post) = Ok (vis', post ++ new) /\ In m vis' /\
                     w1_post vis vis' new [m].
  Proof.
    induction f as [|f IH]; intros m vis post ND IN Hm Hf.
    - exfalso. pose proof (incl_length_nodup _ _ ND IN). lia.
    - assert (FW : forall l vis post, NoDup vis -> incl vis N -> incl l N -> (length N < f + length vis)%nat ->
                exists vis' new, fold_walk (walk1 required f) l (vis, post) = Ok (vis', post ++ new) /\ incl l vis' /\
                                 w1_post vis vis' new l).
      { clear m vis post ND IN Hm Hf. induction l as [|c l IHl]; intros vis post ND IN Hl Hf.
        - exists vis, []. simpl. rewrite app_nil_r. repeat split; auto; try easy; try tauto.
        - simpl.
          destruct (IH c vis post ND IN (Hl c (or_introl eq_refl)) Hf) as (v1 & n1 & E1 & C1 & ND1 & IN1 & S1 & NEW1 & CL1 & P1).
          rewrite E1. simpl.
          assert (Hf1 : (length N < f + length v1)%nat).
          { pose proof (incl_length_nodup _ _ ND S1). lia. }
          destruct (IHl v1 (post ++ n1) ND1 IN1 (fun x H => Hl x (or_intror H)) Hf1)
            as (v2 & n2 & E2 & C2 & ND2 & IN2 & S2 & NEW2 & CL2 & P2).
          exists v2, (n1 ++ n2). rewrite E2, app_assoc. split; [reflexivity|]. split.
          { intros x [H|H]; [subst; auto | auto]. }
          repeat split; auto.
          + eapply incl_tran; eauto.
          + rewrite in_app_iff in H. destruct H as [H|H]; [apply NEW1 in H; destruct H; auto | apply NEW2 in H; tauto].
          + rewrite in_app_iff in H. destruct H as [H|H]; [apply NEW1 in H; tauto|].
            apply NEW2 in H. intros X. apply H. auto.
          + intros [H1 H2]. rewrite in_app_iff. destruct (in_dec node_dec x v1).
            * left. apply NEW1. auto. * right. apply NEW2. auto.
          + intros x l0 H Hr. rewrite in_app_iff in H. destruct H as [H|H].
            * eapply incl_tran; [eapply CL1; eauto | auto]. * eapply CL2; eauto.
          + intros x H. rewrite in_app_iff in H. destruct H as [H|H].
            * destruct (P1 x H) as (c0 & [X|[]] & Y). subst c0. exists c. split; [now left|auto].
            * destruct (P2 x H) as (c0 & X & Y). exists c0. split; [now right|auto]. }
      simpl. destruct (mem m vis) eqn:E.
      + apply mem_In in E. exists vis, []. rewrite app_nil_r. repeat split; auto; try easy; try tauto.
      + apply mem_false in E. destruct (HN m Hm) as (rq & Hrq & Hin). rewrite Hrq.
        assert (ND' : NoDup (m :: vis)) by (constructor; auto).
        assert (IN' : incl (m :: vis) N) by (intros x [H|H]; subst; auto).
        assert (Hf' : (length N < f + length (m :: vis))%nat) by (simpl; lia).
        destruct (FW rq (m :: vis) post ND' IN' Hin Hf') as (v1 & n1 & E1 & C1 & ND1 & IN1 & S1 & NEW1 & CL1 & P1).
        change (fst (m :: vis, post)) with (m :: vis). change (snd (m :: vis, post)) with post.
        rewrite E1. simpl. exists v1, (n1 ++ [m]). rewrite app_assoc. split; [reflexivity|].
        assert (Hmv : In m v1) by (apply S1; now left).
        split; auto. repeat split; auto.
        * intros x H. apply S1. now right.
        * rewrite in_app_iff in H. destruct H as [H|[H|[]]]; [apply NEW1 in H; tauto | subst; auto].
        * rewrite in_app_iff in H. destruct H as [H|[H|[]]]; [|subst; auto].
          apply NEW1 in H. intros X. apply H. now right.
        * intros [H1 H2]. rewrite in_app_iff. destruct (node_dec m x); [right; left; auto|].
          left. apply NEW1. split; auto. intros [X|X]; auto.
        * intros x l0 H Hr. rewrite in_app_iff in H. destruct H as [H|[H|[]]].
          -- eapply CL1; eauto. -- subst x. rewrite Hrq in Hr. inversion Hr; subst. auto.
        * intros x H. exists m. split; [now left|]. rewrite in_app_iff in H. destruct H as [H|[H|[]]]; [|subst; constructor].
          destruct (P1 x H) as (c0 & X & Y). eapply path_first; eauto. exists rq; auto.
  Qed.

  Lemma fold_walk1_spec f : forall l vis post,
    NoDup vis -> incl vis N -> incl l N -> (length N < f + length vis)%nat ->
    exists vis' new, fold_walk (walk1 required f) l (vis, post) = Ok (vis', post ++ new) /\ incl l vis' /\
                     w1_post vis vis' new l.
  Proof.
    induction l as [|c l IHl]; intros vis post ND IN Hl Hf.
    - exists vis, []. simpl. rewrite app_nil_r. repeat split; auto; try easy; try tauto.
    - simpl.
      destruct (walk1_spec f c vis post ND IN (Hl c (or_introl eq_refl)) Hf) as (v1 & n1 & E1 & C1 & ND1 & IN1 & S1 & NEW1 & CL1 & P1).
      rewrite E1. simpl.
      assert (Hf1 : (length N < f + length v1)%nat).
      { pose proof (incl_length_nodup _ _ ND S1). lia. }
      destruct (IHl v1 (post ++ n1) ND1 IN1 (fun x H => Hl x (or_intror H)) Hf1)
        as (v2 & n2 & E2 & C2 & ND2 & IN2 & S2 & NEW2 & CL2 & P2).
      exists v2, (n1 ++ n2). rewrite E2, app_assoc. split; [reflexivity|]. split.
      { intros x [H|H]; [subst; auto | auto]. }
      repeat split; auto.
      + eapply incl_tran; eauto.
      + rewrite in_app_iff in H. destruct H as [H|H]; [apply NEW1 in H; destruct H; auto | apply NEW2 in H; tauto].
      + rewrite in_app_iff in H. destruct H as [H|H]; [apply NEW1 in H; tauto|].
        apply NEW2 in H. intros X. apply H. auto.
      + intros [H1 H2]. rewrite in_app_iff. destruct (in_dec node_dec x v1).
        * left. apply NEW1. auto. * right. apply NEW2. auto.
      + intros x l0 H Hr. rewrite in_app_iff in H. destruct H as [H|H].
        * eapply incl_tran; [eapply CL1; eauto | auto]. * eapply CL2; eauto.
      + intros x H. rewrite in_app_iff in H. destruct H as [H|H].
        * destruct (P1 x H) as (c0 & [X|[]] & Y). subst c0. exists c. split; [now left|auto].
        * destruct (P2 x H) as (c0 & X & Y). exists c0. split; [now right|auto].
  Qed.
End RL.

(** the second walk is the first one over [cache] without the postorder *)
Definition fst_outcome {A B} (o : outcome (A * B)) : outcome A :=
  match o with Ok st => Ok (fst st) | Err => Err | Panic => Panic | OutOfFuel => OutOfFuel end.

Lemma walk2_walk1 required main f : forall m have post,
  walk2 required main f m have = fst_outcome (walk1 (fun x => Some (cache required main x)) f m (have, post)).
Proof.
  induction f as [|f IH]; intros m have post; simpl; auto.
  destruct (mem m have); simpl; auto.
  assert (FW : forall l have post,
             fold_walk (walk2 required main f) l have
             = fst_outcome (fold_walk (walk1 (fun x => Some (cache required main x)) f) l (have, post))).
  { induction l as [|c l IHl]; intros h p; simpl; auto.
    rewrite (IH c h p). destruct (walk1 _ f c (h, p)) as [[h' p']| | |]; simpl; auto. }
  rewrite (FW _ _ post).
  destruct (fold_walk _ _ _) as [[h' p']| | |]; simpl; auto.
Qed.

Section RL2.
  Variable required : node -> option (list node).
  Variable main : node.
  Variable N : list node.
  Hypothesis HN : forall x, In x N -> exists l, required x = Some l /\ incl l N.

  Notation creq := (fun x => Some (cache required main x)).

  Lemma HNc : forall x, In x N -> exists l, creq x = Some l /\ incl l N.
  Proof.
    intros x Hx. eexists; split; [reflexivity|]. unfold cache. destruct (node_eqb x main); [intros y []|].
    destruct (HN x Hx) as (l & E & I). now rewrite E.
  Qed.

  Lemma cache_dep x y : In y (cache required main x) -> dep required x y.
  Proof.
    unfold cache, dep. destruct (node_eqb x main); [intros []|].
    destruct (required x) as [l|]; [eauto|intros []].
  Qed.

  Lemma cpath_path a b : path creq a b -> path required a b.
  Proof.
    induction 1; [constructor|]. eapply p_step; eauto. destruct H0 as (l & E & I). inversion E; subst.
    now apply cache_dep.
  Qed.

  (** the state of the reverse-postorder loop *)
  Record pm_inv (maxl have mn : list node) : Prop := mkPM {
    pm_nodup : NoDup have;
    pm_in : incl have N;
    pm_closed : forall x, In x have -> incl (cache required main x) have;
    pm_from : forall x, In x have -> exists c, In c mn /\ path required c x;
    pm_sel : forall x, In x mn -> max_of_list maxl (fst x) = Some (snd x);
    pm_mn_have : incl mn have;
    pm_mn_nodup : NoDup mn }.

  Lemma pick_min_spec fuel maxl : (length N < fuel)%nat ->
    forall rpost have mn, incl rpost N -> pm_inv maxl have mn ->
    exists have' mn', pick_min required main fuel maxl rpost have mn = Ok (mn ++ mn') /\
                      pm_inv maxl have' (mn ++ mn') /\ incl have have' /\ incl mn' rpost /\
                      (forall x, In x rpost -> max_of_list maxl (fst x) = Some (snd x) -> In x have').
  Proof.
    intros Hf. induction rpost as [|m r IH]; intros have mn Hr I; simpl.
    - exists have, []. rewrite app_nil_r. splits; auto.
      + apply incl_refl.
      + apply incl_refl.
      + intros x [].
    - assert (Hr' : incl r N) by (intros x H; apply Hr; now right).
      destruct (optv_eqb (max_of_list maxl (fst m)) (snd m)) eqn:E; simpl.
      + destruct (mem m have) eqn:Em.
        * apply mem_In in Em. destruct (IH have mn Hr' I) as (h' & mn' & E1 & I1 & S1 & S2 & C).
          exists h', mn'. splits; auto.
          -- intros x H; right; auto.
          -- intros x [H|H] Hs; [subst; auto | auto].
        * apply mem_false in Em.
          assert (Hf' : (length N < fuel + length have)%nat) by lia.
          destruct (walk1_spec creq N HNc fuel m have [] (pm_nodup _ _ _ I) (pm_in _ _ _ I) (Hr m (or_introl eq_refl)) Hf')
            as (v1 & n1 & E1 & C1 & ND1 & IN1 & S1 & NEW1 & CL1 & P1).
          rewrite (walk2_walk1 required main fuel m have []), E1. simpl.
          assert (Esel : max_of_list maxl (fst m) = Some (snd m)).
          { unfold optv_eqb in E. destruct (max_of_list maxl (fst m)) as [w|]; [|discriminate].
            destruct (version_eqb_spec w (snd m)); congruence. }
          assert (I' : pm_inv maxl v1 (mn ++ [m])).
          { split; auto.
            - intros x Hx. destruct (in_dec node_dec x have) as [Hh|Hh].
              + eapply incl_tran; [apply (pm_closed _ _ _ I); auto | auto].
              + eapply CL1; [apply NEW1; eauto | reflexivity].
            - intros x Hx. destruct (in_dec node_dec x have) as [Hh|Hh].
              + destruct (pm_from _ _ _ I x Hh) as (c & Hc1 & Hc2). exists c. rewrite in_app_iff. auto.
              + destruct (P1 x (proj2 (NEW1 x) (conj Hx Hh))) as (c & [Hc|[]] & Hp). subst c.
                exists m. rewrite in_app_iff. split; [right; now left|]. now apply cpath_path.
            - intros x Hx. rewrite in_app_iff in Hx. destruct Hx as [Hx|[Hx|[]]]; [apply (pm_sel _ _ _ I); auto | subst; auto].
            - intros x Hx. rewrite in_app_iff in Hx. destruct Hx as [Hx|[Hx|[]]]; [apply S1, (pm_mn_have _ _ _ I); auto | subst; auto].
            - apply NoDup_snoc; [apply (pm_mn_nodup _ _ _ I)|]. intros X. apply Em. now apply (pm_mn_have _ _ _ I). }
          destruct (IH v1 (mn ++ [m]) Hr' I') as (h' & mn' & E2 & I2 & S2 & S3 & C).
          exists h', (m :: mn'). rewrite E2. rewrite <- app_assoc. simpl. splits; auto.
          -- replace (mn ++ m :: mn') with ((mn ++ [m]) ++ mn') by (rewrite <- app_assoc; reflexivity). auto.
          -- eapply incl_tran; eauto.
          -- intros x [H|H]; [now left | right; auto].
          -- intros x [H|H] Hs; [subst; auto | auto].
      + destruct (IH have mn Hr' I) as (h' & mn' & E1 & I1 & S1 & S2 & C).
        exists h', mn'. splits; auto.
        * intros x H; right; auto.
        * intros x [H|H] Hs; [|auto]. subst x. rewrite Hs in E. simpl in E.
          destruct (version_eqb_spec (snd m) (snd m)); [discriminate|congruence].
  Qed.
End RL2.

Lemma find_path_In p l v : find_path p l = Some v -> In (p, v) l.
Proof.
  induction l as [|[q w] l IH]; simpl; [discriminate|].
  destruct (str_eqb_spec q p); [intros H; inversion H; subst; auto | auto].
Qed.

Lemma In_find_path p l v : NoDup (map fst l) -> In (p, v) l -> find_path p l = Some v.
Proof.
  induction l as [|[q w] l IH]; simpl; [tauto|]. intros ND [H|H].
  - inversion H; subst. now rewrite str_eqb_refl.
  - inversion ND; subst. destruct (str_eqb_spec q p); auto. subst. exfalso. apply H2.
    now apply (in_map fst _ (p, v)).
Qed.

Lemma max_of_list_In l p v : NoDup (map fst l) -> (max_of_list l p = Some v <-> In (p, v) l).
Proof.
  intros ND. unfold max_of_list. split.
  - intros H. apply find_path_In in H. now apply (proj2 (in_rev l (p, v))).
  - intros H. apply In_find_path; [|now apply (proj1 (in_rev l (p, v)))].
    rewrite map_rev. apply NoDup_rev. auto.
Qed.

Lemma nodup_keys_sub (l bl : list node) : NoDup l -> incl l bl -> NoDup (map fst bl) -> NoDup (map fst l).
Proof.
  induction l as [|[p v] l IH]; simpl; intros ND I K; [constructor|]. inversion ND; subst.
  constructor; [|apply IH; auto; intros x Hx; apply I; now right].
  intros Hin. apply in_map_iff in Hin. destruct Hin as ([q w] & E & Hx). simpl in E. subst q.
  assert (v = w).
  { assert (A : In (p, v) bl) by (apply I; now left). assert (B : In (p, w) bl) by (apply I; now right).
    apply (In_find_path _ _ _ K) in A. apply (In_find_path _ _ _ K) in B. congruence. }
  subst. auto.
Qed.

Section RL3.
  Variable required : node -> option (list node).
  Variable N : list node.
  Hypothesis HN : forall x, In x N -> exists l, required x = Some l /\ incl l N.

  Theorem req_list_spec fuel bl :
    (length N < fuel)%nat -> In target N -> incl bl N -> NoDup (map fst bl) ->
    exists mn, req_list required target fuel bl = Ok mn /\ StronglySorted path_lt mn /\
               incl mn bl /\ ~ In target mn /\
               forall m, In m bl -> m <> target -> exists c, In c mn /\ path required c m.
  Proof.
    intros Hf Ht Hbl ND. unfold req_list.
    assert (ND0 : NoDup [target]) by (repeat constructor; simpl; tauto).
    assert (IN0 : incl [target] N) by (intros x [H|[]]; subst; auto).
    assert (Hf0 : (length N < fuel + length [target])%nat) by (simpl; lia).
    destruct (fold_walk1_spec required N HN fuel bl [target] [] ND0 IN0 Hbl Hf0)
      as (vis & post & E1 & C1 & ND1 & IN1 & S1 & NEW1 & CL1 & P1).
    rewrite E1. simpl.
    assert (Hpost : incl (rev post) N).
    { intros x Hx. apply (proj2 (in_rev post x)) in Hx. apply IN1. now apply NEW1. }
    assert (I0 : pm_inv required target N bl [] []).
    { split; try easy; constructor. }
    destruct (pick_min_spec required target N HN fuel bl Hf (rev post) [] [] Hpost I0)
      as (have & mn & E2 & I2 & _ & S2 & C2).
    simpl in E2, I2. rewrite E2. simpl. exists (sort_nodes mn).
    assert (Hsel : forall x, In x mn -> In x bl).
    { intros [p v] Hx. apply (max_of_list_In bl p v ND). apply (pm_sel _ _ _ _ _ _ I2 _ Hx). }
    splits; auto.
    - apply sort_nodes_sorted. eapply nodup_keys_sub; [apply (pm_mn_nodup _ _ _ _ _ _ I2) | exact Hsel | exact ND].
    - intros x Hx. apply (proj1 (sort_nodes_In mn x)) in Hx. auto.
    - intros Hx. apply (proj1 (sort_nodes_In mn target)) in Hx. apply S2 in Hx. apply (proj2 (in_rev post target)) in Hx. apply NEW1 in Hx.
      destruct Hx as [_ Hx]. apply Hx. now left.
    - intros [p v] Hm Hne.
      assert (Hp : In (p, v) (rev post)).
      { apply (proj1 (in_rev post (p, v))). apply NEW1. split; [apply C1; auto|]. intros [X|[]]. congruence. }
      assert (Hh : In (p, v) have) by (apply C2; auto; now apply (max_of_list_In bl p v ND)).
      destruct (pm_from _ _ _ _ _ _ I2 _ Hh) as (c & Hc1 & Hc2). exists c. split; auto. now apply (proj2 (sort_nodes_In mn c)).
  Qed.

  (** nobody requires the root project, and no version in the closed set is "none" *)
  Hypothesis no_main_dep : forall x l, In x N -> required x = Some l -> ~ In target l.
  Hypothesis no_none_N : forall x, In x N -> snd x <> VNone.

  (** Algorithm R is sound: a build list that is the MVS solution of a set [R] containing the closed set [N]
      is the MVS solution of the graph rooted at its minimal requirement list *)
  Theorem req_list_sound (R : node -> Prop) fuel bl :
    (length N < fuel)%nat -> In target N -> incl bl N -> (forall x, In x N -> R x) ->
    mvs_solution R bl ->
    exists mn, req_list required target fuel bl = Ok mn /\
               StronglySorted path_lt mn /\ incl mn bl /\ ~ In target mn /\
               forall required' : node -> option (list node),
                 required' target = Some mn -> (forall x, In x N -> x <> target -> required' x = required x) ->
                 mvs_solution (greach required' None target) bl /\
                 (forall m, greach required' None target m -> In m N /\ bad required' None m = false).
  Proof.
    intros Hf Ht Hbl HR SOL.
    assert (ND : NoDup (map fst bl)) by (apply sorted_nodup_keys, SOL).
    destruct (req_list_spec fuel bl Hf Ht Hbl ND) as (mn & E & S & I & NT & C).
    exists mn. splits; auto. intros required' Et Eo.
    set (R' := greach required' None target).
    assert (RN : forall n, R' n -> In n N).
    { induction 1; auto. apply succs_plain in H0. destruct H0 as (_ & l & El & Hl).
      destruct (node_dec m target) as [X|X].
      - subst m. rewrite Et in El. inversion El; subst. apply Hbl, I, Hl.
      - rewrite (Eo m IHgreach X) in El. destruct (HN m IHgreach) as (l' & El' & Il'). rewrite El' in El.
        inversion El; subst. auto. }
    assert (PATH : forall c m, In c N -> c <> target -> R' c -> path required c m -> R' m /\ In m N /\ m <> target).
    { intros c m Hc Hne Hr Hp. induction Hp; [auto|]. destruct IHHp as (A & B & D).
      destruct H as (l & El & Hl). splits.
      - eapply gr_step; [exact A|]. apply succs_plain. split; [now apply no_none_N|].
        exists l. split; auto. now rewrite (Eo k B D).
      - destruct (HN k B) as (l' & El' & Il'). rewrite El' in El. inversion El; subst. auto.
      - intros X. subst n. eapply no_main_dep; eauto. }
    split.
    - destruct SOL as (SS & M & CV). split; [auto|split].
      + intros p v Hin. split; [|apply (M p v Hin)].
        destruct (node_dec (p, v) target) as [X|X]; [rewrite X; constructor|].
        destruct (C _ Hin X) as (c & Hc1 & Hc2).
        assert (Rc : R' c).
        { eapply gr_step; [constructor|]. apply succs_plain. split; [discriminate|]. exists mn. auto. }
        assert (Hcne : c <> target) by (intros Y; apply NT; rewrite <- Y; exact Hc1).
        destruct (PATH c (p, v) (Hbl c (I c Hc1)) Hcne Rc Hc2) as (A & _). exact A.
      + intros p v Hr Hv. apply CV; auto.
    - intros m Hm. split; [auto|]. destruct (bad required' None m) eqn:B; auto. exfalso.
      apply bad_plain in B. destruct B as [_ B].
      destruct (node_dec m target) as [X|X]; [subst; congruence|].
      rewrite (Eo m (RN m Hm) X) in B. destruct (HN m (RN m Hm)) as (l' & El' & _). congruence.
  Qed.
End RL3.
