(** ReqList (Algorithm R): the minimal requirement list regenerates the build list it was computed from. *)
From Dawn Require Import Mvs.VersionProofs Mvs.Spec Mvs.Proofs_Base Mvs.Proofs_C10.

Section RL.
  Variable required : node -> option (list node).
  Variable main : node.
  (** a finite set of nodes closed under the requirement relation, all of them resolvable *)
  Variable N : list node.
  Hypothesis HN : forall x, In x N -> exists l, required x = Some l /\ incl l N.

  Definition dep (m n : node) : Prop := exists l, required m = Some l /\ In n l.

  Inductive path (a : node) : node -> Prop :=
  | p_refl : path a a
  | p_step k n : path a k -> dep k n -> path a n.

  Lemma path_trans a b c : path a b -> path b c -> path a c.
  Proof. intros H1 H2. induction H2; auto. eapply p_step; eauto. Qed.

  Lemma path_first a b c : dep a b -> path b c -> path a c.
  Proof. intros H1 H2. eapply path_trans; [|exact H2]. eapply p_step; [constructor|exact H1]. Qed.

  Lemma incl_length_nodup (a b : list node) : NoDup a -> incl a b -> (length a <= length b)%nat.
  Proof. intros. now apply NoDup_incl_length. Qed.

  Definition w1_post (vis : list node) (vis' new : list node) (roots : list node) : Prop :=
    NoDup vis' /\ incl vis' N /\ incl vis vis' /\
    (forall x, In x new <-> In x vis' /\ ~ In x vis) /\
    (forall x l, In x new -> required x = Some l -> incl l vis') /\
    (forall x, In x new -> exists c, In c roots /\ path c x).

  Lemma walk1_spec f : forall m vis post,
    NoDup vis -> incl vis N -> In m N -> (length N < f + length vis)%nat ->
    exists vis' new, walk1 required f m (vis, post) = Ok (vis', post ++ new) /\ In m vis' /\
                     w1_post vis vis' new [m].
  Proof.
    induction f as [|f IH]; intros m vis post ND IN Hm Hf.
    - exfalso. pose proof (incl_length_nodup _ _ ND IN). lia.
    - assert (FW : forall l vis post, NoDup vis -> incl vis N -> incl l N -> (length N < f + length vis)%nat ->
                exists vis' new, fold_walk (walk1 required f) l (vis, post) = Ok (vis', post ++ new) /\ incl l vis' /\
                                 w1_post vis vis' new l).
      { clear m vis post ND IN Hm Hf. induction l as [|c l IHl]; intros vis post ND IN Hl Hf.
        - exists vis, []. simpl. rewrite app_nil_r. repeat split; auto; try easy; try tauto.
        - simpl.
          destruct (IH c vis post ND IN (Hl c (or_introl eq_refl)) Hf) as (v1 & n1 & E1 & C1 & ND1 & IN1 & S1 & NEW1 & CL1 & P1).
          rewrite E1. simpl.
          assert (Hf1 : (length N < f + length v1)%nat).
          { pose proof (incl_length_nodup _ _ ND S1). lia. }
          destruct (IHl v1 (post ++ n1) ND1 IN1 (fun x H => Hl x (or_intror H)) Hf1)
            as (v2 & n2 & E2 & C2 & ND2 & IN2 & S2 & NEW2 & CL2 & P2).
          exists v2, (n1 ++ n2). rewrite E2, app_assoc. split; [reflexivity|]. split.
          { intros x [H|H]; [subst; auto | auto]. }
          repeat split; auto.
          + eapply incl_tran; eauto.
          + rewrite in_app_iff in H. destruct H as [H|H]; [apply NEW1 in H; destruct H; auto | apply NEW2 in H; tauto].
          + rewrite in_app_iff in H. destruct H as [H|H]; [apply NEW1 in H; tauto|].
            apply NEW2 in H. intros X. apply H. auto.
          + intros [H1 H2]. rewrite in_app_iff. destruct (in_dec node_dec x v1).
            * left. apply NEW1. auto. * right. apply NEW2. auto.
          + intros x l0 H Hr. rewrite in_app_iff in H. destruct H as [H|H].
            * eapply incl_tran; [eapply CL1; eauto | auto]. * eapply CL2; eauto.
          + intros x H. rewrite in_app_iff in H. destruct H as [H|H].
            * destruct (P1 x H) as (c0 & [X|[]] & Y). subst c0. exists c. split; [now left|auto].
            * destruct (P2 x H) as (c0 & X & Y). exists c0. split; [now right|auto]. }
      simpl. destruct (mem m vis) eqn:E.
      + apply mem_In in E. exists vis, []. rewrite app_nil_r. repeat split; auto; try easy; try tauto.
      + apply mem_false in E. destruct (HN m Hm) as (rq & Hrq & Hin). rewrite Hrq.
        assert (ND' : NoDup (m :: vis)) by (constructor; auto).
        assert (IN' : incl (m :: vis) N) by (intros x [H|H]; subst; auto).
        assert (Hf' : (length N < f + length (m :: vis))%nat) by (simpl; lia).
        destruct (FW rq (m :: vis) post ND' IN' Hin Hf') as (v1 & n1 & E1 & C1 & ND1 & IN1 & S1 & NEW1 & CL1 & P1).
        change (fst (m :: vis, post)) with (m :: vis). change (snd (m :: vis, post)) with post.
        rewrite E1. simpl. exists v1, (n1 ++ [m]). rewrite app_assoc. split; [reflexivity|].
        assert (Hmv : In m v1) by (apply S1; now left).
        split; auto. repeat split; auto.
        * intros x H. apply S1. now right.
        * rewrite in_app_iff in H. destruct H as [H|[H|[]]]; [apply NEW1 in H; tauto | subst; auto].
        * rewrite in_app_iff in H. destruct H as [H|[H|[]]]; [|subst; auto].
          apply NEW1 in H. intros X. apply H. now right.
        * intros [H1 H2]. rewrite in_app_iff. destruct (node_dec m x); [right; left; auto|].
          left. apply NEW1. split; auto. intros [X|X]; auto.
        * intros x l0 H Hr. rewrite in_app_iff in H. destruct H as [H|[H|[]]].
          -- eapply CL1; eauto. -- subst x. rewrite Hrq in Hr. inversion Hr; subst. auto.
        * intros x H. exists m. split; [now left|]. rewrite in_app_iff in H. destruct H as [H|[H|[]]]; [|subst; constructor].
          destruct (P1 x H) as (c0 & X & Y). eapply path_first; eauto. exists rq; auto.
  Qed.
End RL.
