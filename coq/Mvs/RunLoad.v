(** Case evaluation for the C10 correspondence on the project-load family (Project.buildList after Load, with the
    cache entries of some keys unreadable or out of reach) and on the repository lookup. *)
From Dawn Require Import Mvs.Run Mvs.Load Mvs.Locate Mvs.LoadRoot.

Definition check_c10_load (U : universe) (root : config) (keys : list node) (exp : outcome (list (str * version))) : bool :=
  let fuel := u_fuel U (map snd root) in
  let obs := obs_damaged U keys in
  outcome_eqb (list_eqb node_eqb) (load_build_list obs pick_fifo fuel root) exp
  && outcome_eqb (list_eqb node_eqb) (load_build_list obs pick_lifo fuel root) exp
  && outcome_eqb (list_eqb node_eqb) (load_build_list obs pick_mid fuel root) exp.

(** groups: a universe with its cases (id, (root configuration, (damaged cache keys, Project.buildList or failure))) *)
Definition mismatches_c10_load
  (groups : list (universe * list (N * (config * (list node * outcome (list (str * version))))))) : list N :=
  flat_map (fun g => map fst (filter (fun c => negb (check_c10_load (fst g) (fst (snd c)) (fst (snd (snd c)))
                                                                    (snd (snd (snd c))))) (snd g)))
           groups.

(** ** the same with the root project's two configuration files (Mvs/LoadRoot.v): [None] = the file is not there,
    [Some None] = it is there and is not a configuration, [Some (Some c)] = a configuration with requirements c *)
Definition root_file_of (x : option (option config)) : root_file :=
  match x with
  | None => RMissing
  | Some None => RUnreadable
  | Some (Some c) => RConfig c
  end.

Definition file_result_matches (r : file_result) (exp : outcome (list (str * version))) : bool :=
  match r, exp with
  | FOk l, Ok l' => list_eqb node_eqb l l'
  | FErr _, Err => true
  | FPanic, Panic => true
  | FHang, OutOfFuel => true
  | _, _ => false
  end.

Definition reqs_of (x : option (option config)) : list node :=
  match x with Some (Some c) => map snd c | _ => [] end.

(** [ne]: the failure of the damaged entries is a "does not exist" (their configuration files are gone) *)
Definition check_c10_load_root (U : universe) (toml dot : option (option config)) (keys : list node) (ne : bool)
  (exp : outcome (list (str * version))) : bool :=
  let fuel := u_fuel U (reqs_of toml ++ reqs_of dot) in
  let obs := obs_damaged U keys in
  let run pick := load_config_loop obs (fun _ => ne) pick fuel (root_file_of toml) (root_file_of dot) in
  file_result_matches (run pick_fifo) exp && file_result_matches (run pick_lifo) exp && file_result_matches (run pick_mid) exp.

(** groups: a universe with its cases (id, ((dawn.toml, .dawnconfig), (damaged cache keys, (ne, Project.buildList or failure)))) *)
Definition mismatches_c10_load_root
  (groups : list (universe * list (N * ((option (option config) * option (option config))
                                        * (list node * (bool * outcome (list (str * version)))))))) : list N :=
  flat_map (fun g => map fst (filter (fun c =>
              let files := fst (snd c) in let rest := snd (snd c) in
              negb (check_c10_load_root (fst g) (fst files) (snd files) (fst rest) (fst (snd rest)) (snd (snd rest))))
              (snd g))) groups.
