(** Case evaluation for the C10 correspondence on the project-load family (Project.buildList after Load, with the
    cache entries of some keys unreadable or out of reach) and on the repository lookup. *)
From Dawn Require Import Mvs.Run Mvs.Load Mvs.Locate.

Definition check_c10_load (U : universe) (root : config) (keys : list node) (exp : outcome (list (str * version))) : bool :=
  let fuel := u_fuel U (map snd root) in
  let obs := obs_damaged U keys in
  outcome_eqb (list_eqb node_eqb) (load_build_list obs pick_fifo fuel root) exp
  && outcome_eqb (list_eqb node_eqb) (load_build_list obs pick_lifo fuel root) exp
  && outcome_eqb (list_eqb node_eqb) (load_build_list obs pick_mid fuel root) exp.

(** groups: a universe with its cases (id, (root configuration, (damaged cache keys, Project.buildList or failure))) *)
Definition mismatches_c10_load
  (groups : list (universe * list (N * (config * (list node * outcome (list (str * version))))))) : list N :=
  flat_map (fun g => map fst (filter (fun c => negb (check_c10_load (fst g) (fst (snd c)) (fst (snd (snd c)))
                                                                    (snd (snd (snd c))))) (snd g)))
           groups.
