(** The work-list exploration computes the reachable-maximum selection, for every processing order. *)
From Dawn Require Import Mvs.VersionProofs Mvs.Spec Mvs.Proofs_Base.

Lemma node_dec (a b : node) : {a = b} + {a <> b}.
Proof. destruct (node_eqb_spec a b); auto. Qed.

Lemma remove_nth_In {A} (l : list A) i x : In x (remove_nth i l) -> In x l.
Proof.
  revert i; induction l as [|y l IH]; intros i; destruct i as [|i]; simpl; try tauto.
  intros [H|H]; eauto.
Qed.

Lemma remove_nth_or {A} (l : list A) i d x : In x l -> x = nth i l d \/ In x (remove_nth i l).
Proof.
  revert i; induction l as [|y l IH]; intros i; destruct i as [|i]; simpl; try tauto.
  - intros [H|H]; auto.
  - intros [H|H]; auto. destruct (IH i H); auto.
Qed.

Lemma remove_nth_length {A} (l : list A) i : (i < length l)%nat -> S (length (remove_nth i l)) = length l.
Proof.
  revert i; induction l as [|y l IH]; intros i; destruct i as [|i]; simpl; try lia.
  intros H. rewrite IH; auto. lia.
Qed.

Section Explore.
  Variable required : node -> option (list node).
  Variable upgrade : option (node -> option node).
  Variable pick : list node -> nat.
  Variable t : node.

  Definition succs (m : node) : list node := fst (step_reqs required upgrade m).
  Definition bad (m : node) : bool := snd (step_reqs required upgrade m).

  (** reachability along the requirement lists handed to g.Require *)
  Inductive greach : node -> Prop :=
  | gr_root : greach t
  | gr_step m n : greach m -> In n (succs m) -> greach n.

  Lemma add_new_spec l : forall seen pending,
    (forall x, In x (fst (add_new l seen pending)) <-> In x seen \/ In x l) /\
    (forall x, In x (snd (add_new l seen pending)) <-> In x pending \/ (In x l /\ ~ In x seen)) /\
    (NoDup seen -> NoDup (fst (add_new l seen pending))) /\
    (length (fst (add_new l seen pending)) + length pending
     = length (snd (add_new l seen pending)) + length seen)%nat.
  Proof.
    induction l as [|n l IH]; intros seen pending; simpl.
    - repeat split; intros; simpl in *; try tauto; try lia.
    - destruct (mem n seen) eqn:E.
      + apply mem_In in E. destruct (IH seen pending) as (A & B & C & D). repeat split; auto.
        * intros H. apply A in H. tauto.
        * intros [H|[H|H]]; apply A; subst; auto.
        * intros H. apply B in H. tauto.
        * intros [H|[[H|H] H']]; apply B; subst; tauto.
      + apply mem_false in E. destruct (IH (n :: seen) (pending ++ [n])) as (A & B & C & D).
        repeat split.
        * intros H. apply A in H. simpl in H. tauto.
        * intros H. apply A. simpl. tauto.
        * intros H. apply B in H. rewrite in_app_iff in H. simpl in H.
          destruct H as [[H|[H|[]]]|[H H']]; subst; auto. right. split; auto.
        * intros H. apply B. rewrite in_app_iff. simpl.
          destruct H as [H|[[H|H] H']]; subst; auto.
          destruct (node_dec n x); subst; auto. right. split; auto. intros [X|X]; auto.
        * intros ND. apply C. constructor; auto.
        * rewrite app_length in D. simpl in D. lia.
  Qed.

  (** the state invariant of the exploration *)
  Record inv (pending seen : list node) (sel : smap) (err : bool) : Prop := mkInv {
    i_reach : forall n, In n seen -> greach n;
    i_root : In t seen;
    i_pend : forall n, In n pending -> In n seen;
    i_closed : forall m, In m seen -> ~ In m pending -> forall n, In n (succs m) -> In n seen;
    i_upper : forall n, In n seen -> vle (snd n) (sel_get sel (fst n)) = true;
    i_attain : forall p, sel_get sel p = VNone \/ In (p, sel_get sel p) seen;
    i_err1 : err = true -> exists m, greach m /\ bad m = true;
    i_err2 : forall m, In m seen -> ~ In m pending -> bad m = true -> err = true;
    i_keys : NoDup (map fst sel);
    i_nonone : no_none sel;
    i_nodup : NoDup seen }.

  Lemma inv_step pending seen sel err i d :
    inv pending seen sel err -> (i < length pending)%nat ->
    let m := nth i pending d in
    let sp := add_new (succs m) seen (remove_nth i pending) in
    inv (snd sp) (fst sp) (fold_left select (succs m) sel) (err || bad m).
  Proof.
    intros I Hi m sp.
    assert (Hm : In m pending) by (apply nth_In; auto).
    destruct (add_new_spec (succs m) seen (remove_nth i pending)) as (A & B & C & D).
    fold sp in A, B, C, D.
    assert (Hms : In m seen) by (apply (i_pend _ _ _ _ I); auto).
    split.
    - intros n H. apply A in H. destruct H as [H|H]; [apply (i_reach _ _ _ _ I); auto|].
      eapply gr_step; eauto. apply (i_reach _ _ _ _ I); auto.
    - apply A. left. apply (i_root _ _ _ _ I).
    - intros n H. apply B in H. apply A. destruct H as [H|[H _]]; auto.
      left. apply (i_pend _ _ _ _ I). eapply remove_nth_In; eauto.
    - intros x Hx Hnp n Hn. apply A. apply A in Hx.
      assert (Hxs : In x seen).
      { destruct Hx as [Hx|Hx]; auto. destruct (in_dec node_dec x seen); auto.
        exfalso. apply Hnp. apply B. auto. }
      destruct (in_dec node_dec x pending) as [Hp|Hp].
      + destruct (remove_nth_or _ i d _ Hp) as [E|E].
        * fold m in E. subst x. auto.
        * exfalso. apply Hnp. apply B. auto.
      + left. eapply (i_closed _ _ _ _ I); eauto.
    - intros n H. apply A in H. destruct H as [H|H].
      + eapply vle_trans; [apply (i_upper _ _ _ _ I); auto | apply fold_select_mono].
      + now apply fold_select_covers.
    - intros p. destruct (fold_select_from (succs m) sel p) as [H|H].
      + rewrite H. destruct (i_attain _ _ _ _ I p) as [H'|H']; auto. right. apply A. auto.
      + right. apply A. auto.
    - intros H. apply orb_true_iff in H. destruct H as [H|H].
      + apply (i_err1 _ _ _ _ I H).
      + exists m. split; auto. apply (i_reach _ _ _ _ I); auto.
    - intros x Hx Hnp Hb. apply orb_true_iff. apply A in Hx.
      assert (Hxs : In x seen).
      { destruct Hx as [Hx|Hx]; auto. destruct (in_dec node_dec x seen); auto.
        exfalso. apply Hnp. apply B. auto. }
      destruct (in_dec node_dec x pending) as [Hp|Hp].
      + destruct (remove_nth_or _ i d _ Hp) as [E|E].
        * fold m in E. subst x. auto.
        * exfalso. apply Hnp. apply B. auto.
      + left. eapply (i_err2 _ _ _ _ I); eauto.
    - apply fold_select_nodup, (i_keys _ _ _ _ I).
    - apply fold_select_no_none, (i_nonone _ _ _ _ I).
    - apply C, (i_nodup _ _ _ _ I).
  Qed.

  (** what the invariant says when the work list is empty *)
  Lemma inv_final seen sel err :
    inv [] seen sel err ->
    (forall n, greach n -> vle (snd n) (sel_get sel (fst n)) = true) /\
    (forall p, sel_get sel p = VNone \/ greach (p, sel_get sel p)) /\
    (err = true <-> exists m, greach m /\ bad m = true).
  Proof.
    intros I.
    assert (R : forall n, greach n -> In n seen).
    { induction 1; [apply (i_root _ _ _ _ I)|]. eapply (i_closed _ _ _ _ I); eauto. }
    repeat split.
    - intros n H. apply (i_upper _ _ _ _ I). auto.
    - intros p. destruct (i_attain _ _ _ _ I p); auto. right. apply (i_reach _ _ _ _ I). auto.
    - apply (i_err1 _ _ _ _ I).
    - intros (m & H1 & H2). eapply (i_err2 _ _ _ _ I); eauto.
  Qed.

  (** fuel: the measure (|N| - |seen|) + |pending| decreases by one at every step *)
  Lemma explore_inv N : (forall n, greach n -> In n N) ->
    forall fuel pending seen sel err,
      inv pending seen sel err ->
      (length N + length pending < fuel + length seen)%nat ->
      exists seen' sel' err', explore required upgrade pick fuel pending seen sel err = Some (sel', err')
                              /\ inv [] seen' sel' err'.
  Proof.
    intros HN. induction fuel as [|f IH]; intros pending seen sel err I Hf.
    - exfalso.
      assert (length seen <= length N)%nat.
      { apply NoDup_incl_length; [apply (i_nodup _ _ _ _ I)|]. intros x Hx. apply HN, (i_reach _ _ _ _ I), Hx. }
      lia.
    - simpl. destruct pending as [|d pending'] eqn:EP.
      + eauto.
      + rewrite <- EP in *.
        assert (Hlen : (length pending <> 0)%nat) by (rewrite EP; simpl; lia).
        set (i := Nat.modulo (pick pending) (length pending)).
        assert (Hi : (i < length pending)%nat) by (apply Nat.mod_upper_bound; auto).
        pose proof (inv_step _ _ _ _ i d I Hi) as I'. cbv zeta in I'.
        fold (succs (nth i pending d)). fold (bad (nth i pending d)).
        apply IH in I'; auto.
        destruct (add_new_spec (succs (nth i pending d)) seen (remove_nth i pending)) as (_ & _ & _ & D).
        pose proof (remove_nth_length pending i Hi). lia.
  Qed.
End Explore.

Lemma vle_none_inv v : vle v VNone = true -> v = VNone.
Proof. intros H. apply vle_antisym; auto. apply vle_none. Qed.

Section Gen.
  Variable required : node -> option (list node).
  Variable upgrade : option (node -> option node).
  Variable pick : list node -> nat.

  Notation R := (greach required upgrade target).

  Lemma inv_init : inv required upgrade target [target] [target] (select [] target) false.
  Proof.
    assert (E : select [] target = [([], VRoot)]) by reflexivity. rewrite E.
    split; simpl; try tauto; try discriminate.
    - intros n [H|[]]. subst. constructor.
    - intros n [H|[]]. subst. reflexivity.
    - intros p. destruct p; simpl; auto.
    - repeat constructor. simpl. tauto.
    - intros p v [H|[]]. inversion H. discriminate.
    - repeat constructor. simpl. tauto.
  Qed.

  (** a selection that is the running maximum over the reachable nodes lists the MVS solution *)
  Lemma solution_of_final sel :
    NoDup (map fst sel) -> no_none sel ->
    (forall n, R n -> vle (snd n) (sel_get sel (fst n)) = true) ->
    (forall p, sel_get sel p = VNone \/ R (p, sel_get sel p)) ->
    exists l, graph_build_list target sel = target :: l /\ mvs_solution R (target :: l).
  Proof.
    intros ND NN UP AT.
    assert (ER : sel_get sel [] = VRoot).
    { apply vle_antisym; [apply vle_root|]. apply (UP target). constructor. }
    unfold graph_build_list. simpl fst. rewrite ER. simpl app.
    eexists. split; [reflexivity|].
    assert (EQ : forall p v, In (p, v) sel <-> (sel_get sel p = v /\ v <> VNone)).
    { intros p v. split.
      - intros H. split; [now apply sel_entry_get | eapply NN; eauto].
      - intros [H1 H2]. subst v. apply sel_get_entry.
        destruct (in_dec (list_eq_dec N.eq_dec) p (map fst sel)); auto.
        exfalso. apply H2. now apply sel_get_notin. }
    assert (MEM : forall x, In x (target :: sort_nodes (filter (fun e => negb (str_eqb (fst e) [])) sel)) <-> In x sel).
    { intros [p v]. simpl. rewrite sort_nodes_In, filter_In. split.
      - intros [H|[H _]]; auto. inversion H; subst. apply (proj2 (EQ _ _)). split; auto. discriminate.
      - intros H. destruct p as [|c p].
        + left. apply (proj1 (EQ _ _)) in H. destruct H as [H _]. unfold target. rewrite <- H, ER. reflexivity.
        + right. split; auto. }
    split; [|split].
    - constructor.
      + apply sort_nodes_sorted.
        assert (K : forall (l : smap), NoDup (map fst l) -> NoDup (map fst (filter (fun e => negb (str_eqb (fst e) [])) l))).
        { induction l as [|e l IHl]; simpl; intros X; [constructor|]. inversion X; subst.
          destruct (negb _); simpl; auto. constructor; auto. intros Y. apply H1.
          apply in_map_iff in Y. destruct Y as (y & Y1 & Y2). apply filter_In in Y2. rewrite <- Y1. apply in_map. tauto. }
        now apply K.
      + apply Forall_forall. intros [p v] H. apply sort_nodes_In, filter_In in H. destruct H as [_ H].
        unfold path_lt. simpl in *. apply str_ltb_nil. destruct p; simpl in H; [discriminate | intro; discriminate].
    - intros p v H. apply MEM in H. apply (proj1 (EQ _ _)) in H. destruct H as [H1 H2]. split; auto.
      subst v. destruct (AT p) as [X|X]; [congruence|auto].
    - intros p v H1 H2. exists (sel_get sel p). pose proof (UP _ H1) as X. simpl in X. split; auto.
      apply MEM. apply (proj2 (EQ _ _)). split; auto. intros Y. rewrite Y in X. apply vle_none_inv in X. congruence.
  Qed.

  Theorem build_list_gen_spec N fuel :
    (forall n, R n -> In n N) -> (length N < fuel)%nat ->
    (build_list_gen required upgrade pick fuel target = Err /\ exists m, R m /\ bad required upgrade m = true) \/
    (exists l, build_list_gen required upgrade pick fuel target = Ok (target :: l) /\ mvs_solution R (target :: l)
               /\ forall m, R m -> bad required upgrade m = false).
  Proof.
    intros HN Hf.
    assert (Hf' : (length N + length [target] < fuel + length [target])%nat) by (simpl; lia).
    destruct (explore_inv required upgrade pick target N HN fuel [target] [target] (select [] target) false inv_init Hf')
      as (seen' & sel' & err' & E & I).
    destruct (inv_final _ _ _ _ _ _ I) as (UP & AT & ER).
    unfold build_list_gen. rewrite E. destruct err'.
    - left. split; auto. now apply ER.
    - right.
      destruct (solution_of_final sel' (i_keys _ _ _ _ _ _ _ I) (i_nonone _ _ _ _ _ _ _ I) UP AT) as (l & L1 & L2).
      exists l. rewrite L1. split; [reflexivity|]. split; [exact L2|].
      intros m Hm. destruct (bad required upgrade m) eqn:B; auto.
      assert (false = true) by (apply ER; eauto). discriminate.
  Qed.

  (** the reachable set is a finite list *)
  Lemma greach_listable N : (forall n, R n -> In n N) ->
    exists Nl, NoDup Nl /\ forall n, In n Nl <-> R n.
  Proof.
    intros HN.
    assert (Hf' : (length N + length [target] < S (length N) + length [target])%nat) by (simpl; lia).
    destruct (explore_inv required upgrade pick target N HN (S (length N)) [target] [target] (select [] target) false inv_init Hf')
      as (seen' & sel' & err' & E & I).
    exists seen'. split; [apply (i_nodup _ _ _ _ _ _ _ I)|]. intros n. split; [apply (i_reach _ _ _ _ _ _ _ I)|].
    induction 1; [apply (i_root _ _ _ _ _ _ _ I)|]. eapply (i_closed _ _ _ _ _ _ _ I); eauto.
  Qed.
End Gen.

(** ** BuildList without an upgrade callback: reachability is the specification's *)
Section Plain.
  Variable required : node -> option (list node).

  Lemma succs_plain m n :
    In n (succs required None m) <-> (snd m <> VNone /\ exists l, required m = Some l /\ In n l).
  Proof.
    unfold succs, step_reqs. split.
    - intros H. destruct (snd m) eqn:E; simpl in H; try tauto;
        (split; [congruence|]); destruct (required m) as [l|]; simpl in H; try tauto; eauto.
    - intros (H1 & l & H2 & H3). rewrite H2. destruct (snd m); simpl; auto; congruence.
  Qed.

  Lemma bad_plain m : bad required None m = true <-> (snd m <> VNone /\ required m = None).
  Proof.
    unfold bad, step_reqs. split.
    - intros H. destruct (snd m) eqn:E; simpl in H; try discriminate;
        (split; [congruence|]); destruct (required m); simpl in H; auto; discriminate.
    - intros (H1 & H2). rewrite H2. destruct (snd m); simpl; auto; congruence.
  Qed.

  Lemma greach_reachable t n : greach required None t n <-> reachable required t n.
  Proof.
    split; induction 1; try constructor.
    - apply succs_plain in H0. destruct H0 as (H1 & l & H2 & H3). eapply r_dep; eauto.
    - eapply gr_step; eauto. apply succs_plain. eauto.
  Qed.
End Plain.

Lemma mvs_solution_ext (R1 R2 : node -> Prop) l :
  (forall n, R1 n <-> R2 n) -> mvs_solution R1 l -> mvs_solution R2 l.
Proof.
  intros H (S & M & C). split; [auto|split].
  - intros p v Hin. destruct (M p v Hin). split; auto. now apply H.
  - intros p v Hr Hv. apply C; auto. now apply H.
Qed.

Lemma sorted_key_unique l p v w : StronglySorted path_lt l -> In (p, v) l -> In (p, w) l -> v = w.
Proof.
  intros S H1 H2. pose proof (sorted_nodup_keys l S) as ND.
  clear S. induction l as [|[q x] l IH]; simpl in *; [tauto|]. inversion ND; subst.
  destruct H1 as [H1|H1], H2 as [H2|H2].
  - congruence.
  - inversion H1; subst. exfalso. apply H3. now apply (in_map fst _ (p, w)).
  - inversion H2; subst. exfalso. apply H3. now apply (in_map fst _ (p, v)).
  - auto.
Qed.

Lemma mvs_solution_unique R l1 l2 : mvs_solution R l1 -> mvs_solution R l2 -> l1 = l2.
Proof.
  assert (K : forall a b, mvs_solution R a -> mvs_solution R b -> forall x, In x a -> In x b).
  { intros a b (S1 & M1 & C1) (S2 & M2 & C2) [p v] H.
    destruct (M1 _ _ H) as [Hr Hv]. destruct (C2 _ _ Hr Hv) as (w & Hw & Le).
    destruct (M2 _ _ Hw) as [Hr2 Hv2]. destruct (C1 _ _ Hr2 Hv2) as (v2 & Hv2' & Le2).
    assert (v2 = v) by (exact (sorted_key_unique a p v2 v S1 Hv2' H)). subst v2.
    assert (v = w) by (apply vle_antisym; auto). now subst. }
  intros A B. apply sorted_unique; [apply A|apply B|]. intros x; split; eapply K; eauto.
Qed.

(** the member for a path is the highest reachable version of that path *)
Lemma mvs_solution_highest R l : mvs_solution R l ->
  forall p v, In (p, v) l <-> (R (p, v) /\ v <> VNone /\ forall v', R (p, v') -> vle v' v = true).
Proof.
  intros (S & M & C) p v. split.
  - intros H. destruct (M _ _ H) as [Hr Hv]. repeat split; auto. intros v' Hr'.
    destruct (version_eqb_spec v' VNone) as [E|E]; [subst; apply vle_none|].
    destruct (C _ _ Hr' E) as (w & Hw & Le). assert (w = v) by (exact (sorted_key_unique l p w v S Hw H)). now subst.
  - intros (Hr & Hv & Hm). destruct (C _ _ Hr Hv) as (w & Hw & Le). destruct (M _ _ Hw) as [Hr2 _].
    assert (v = w) by (apply vle_antisym; auto). now subst.
Qed.

(** ** the universe: every reachable node is listed in [u_nodes] *)
Lemma find_sum_In sums k r sm : find_sum sums k r = Some sm -> exists e, In e sums /\ snd e = sm.
Proof.
  induction sums as [|[[k' r'] s'] sums IH]; simpl; [discriminate|].
  destruct (str_eqb k' k && (r' =? r)).
  - intros H; inversion H; subst. eexists; split; [left; reflexivity|reflexivity].
  - intros H. destruct (IH H) as (e & E1 & E2). exists e; auto.
Qed.

Lemma u_required_in U rr m l n : u_required U rr m = Some l -> In n l -> In n (rr ++ all_reqs U).
Proof.
  unfold u_required. intros H Hn. apply in_app_iff. destruct (fst m) as [|c0 p0].
  - inversion H; subst; auto.
  - destruct (resolve_project U m) as [sm|] eqn:E; [|discriminate]. inversion H; subst.
    right. unfold resolve_project in E. destruct (negb _); [discriminate|].
    destruct (match pseudo_seg_of (snd m) with Some seg => _ | None => _ end); [|discriminate].
    apply find_sum_In in E. destruct E as (e & E1 & E2). unfold all_reqs. apply in_flat_map.
    exists e. subst sm. auto.
Qed.

Lemma reachable_in_nodes U rr n : reachable_from U rr n -> In n (u_nodes U rr).
Proof.
  unfold reachable_from, u_nodes. induction 1; [now left|]. right. eapply u_required_in; eauto.
Qed.

Lemma reachable_same_set U rr1 rr2 n :
  same_set rr1 rr2 -> reachable_from U rr1 n -> reachable_from U rr2 n.
Proof.
  intros SS. unfold reachable_from. induction 1; [constructor|].
  unfold u_required in H1. destruct (fst m) as [|c0 p0] eqn:E.
  - inversion H1; subst. eapply (r_dep _ _ m n rr2); eauto.
    + unfold u_required. now rewrite E.
    + now apply SS.
  - eapply r_dep; eauto. unfold u_required. now rewrite E.
Qed.

Lemma unresolvable_same_set U rr1 rr2 :
  same_set rr1 rr2 -> unresolvable (u_required U rr1) target -> unresolvable (u_required U rr2) target.
Proof.
  intros SS (m & M1 & M2 & M3). exists m. repeat split; auto.
  - eapply reachable_same_set; eauto.
  - unfold u_required in *. destruct (fst m) as [|c0 p0]; auto. discriminate.
Qed.

Lemma same_set_sym a b : same_set a b -> same_set b a.
Proof. intros H x. symmetry. apply H. Qed.

(** ** C10 *)
Theorem build_list_decides pick U (root : config) fuel :
  (u_fuel U (map snd root) <= fuel)%nat ->
  (dawn_build_list pick fuel U root = Err /\ unresolvable (u_required U (map snd root)) target) \/
  (exists l, dawn_build_list pick fuel U root = Ok l /\ mvs_solution (reachable_from U (map snd root)) l
             /\ ~ unresolvable (u_required U (map snd root)) target).
Proof.
  intros Hf. set (rr := map snd root) in *.
  assert (HN : forall n, greach (u_required U rr) None target n -> In n (u_nodes U rr)).
  { intros n H. apply reachable_in_nodes. now apply greach_reachable. }
  assert (Hf' : (length (u_nodes U rr) < fuel)%nat) by (unfold u_fuel in Hf; lia).
  destruct (build_list_gen_spec (u_required U rr) None pick (u_nodes U rr) fuel HN Hf')
    as [[E (m & M1 & M2)]|(l & E & S & B)].
  - left. unfold dawn_build_list, build_list. fold rr. rewrite E. split; auto.
    apply bad_plain in M2. destruct M2. exists m. repeat split; auto. now apply greach_reachable.
  - right. exists (target :: l). unfold dawn_build_list, build_list. fold rr. rewrite E.
    assert (S' : mvs_solution (reachable_from U rr) (target :: l)).
    { eapply mvs_solution_ext; [|exact S]. intros n. apply greach_reachable. }
    split; [|split; [exact S'|]].
    + f_equal. apply to_map_sorted. apply S'.
    + intros (m & M1 & M2 & M3). apply greach_reachable in M1.
      assert (bad (u_required U rr) None m = true) by (apply bad_plain; auto).
      rewrite (B m M1) in H. discriminate.
Qed.

Theorem build_list_spec pick U (root : config) fuel :
  (u_fuel U (map snd root) <= fuel)%nat ->
  (unresolvable (u_required U (map snd root)) target -> dawn_build_list pick fuel U root = Err) /\
  (~ unresolvable (u_required U (map snd root)) target ->
   exists l, dawn_build_list pick fuel U root = Ok l /\ mvs_solution (reachable_from U (map snd root)) l).
Proof.
  intros Hf. destruct (build_list_decides pick U root fuel Hf) as [[E H]|(l & E & S & H)]; split; intros X.
  - auto.
  - tauto.
  - tauto.
  - eauto.
Qed.

Theorem build_list_order_independent pick1 pick2 U (root1 root2 : config) fuel1 fuel2 :
  same_set (map snd root1) (map snd root2) ->
  (u_fuel U (map snd root1) <= fuel1)%nat -> (u_fuel U (map snd root2) <= fuel2)%nat ->
  dawn_build_list pick1 fuel1 U root1 = dawn_build_list pick2 fuel2 U root2.
Proof.
  intros SS F1 F2.
  destruct (build_list_decides pick1 U root1 fuel1 F1) as [[E1 H1]|(l1 & E1 & S1 & H1)];
    destruct (build_list_decides pick2 U root2 fuel2 F2) as [[E2 H2]|(l2 & E2 & S2 & H2)].
  - congruence.
  - exfalso. apply H2. eapply unresolvable_same_set; eauto.
  - exfalso. apply H1. eapply unresolvable_same_set; eauto. now apply same_set_sym.
  - rewrite E1, E2. f_equal. apply (mvs_solution_unique (reachable_from U (map snd root2))); auto.
    eapply mvs_solution_ext; [|exact S1]. intros n; split; apply reachable_same_set; auto. now apply same_set_sym.
Qed.

(** the result is never the library's panic and never a hang *)
Theorem build_list_no_panic_no_hang pick U (root : config) fuel :
  (u_fuel U (map snd root) <= fuel)%nat ->
  dawn_build_list pick fuel U root <> Panic /\ dawn_build_list pick fuel U root <> OutOfFuel.
Proof.
  intros Hf. destruct (build_list_decides pick U root fuel Hf) as [[E H]|(l & E & _)]; rewrite E; split; discriminate.
Qed.
