(** Versions and module paths of dawn's minimal-version-selection layer (internal/mvs, internal/project/version.go).

    A version string of the implementation is one of
      ""       the root project (module.Version{}); [cmpVersion] makes it the greatest version,
      "none"   the library's "no version" (least),
      a canonical semantic version vMAJOR.MINOR.PATCH[-id.id...] (project.LoadConfigBytes rejects
      requirement versions that are not canonical, so build metadata never occurs in a requirement).
    Canonical versions are records, so that equality of records is equality of the strings.
    NO proofs in this file. *)
From Dawn Require Export Base.Bytes.

Inductive preid := PNum (n : N) | PStr (s : str).

Record semver := mkSV { sv_major : N; sv_minor : N; sv_patch : N; sv_pre : list preid }.

Inductive version := VNone | VSem (s : semver) | VRoot.

(** lexicographic comparison, a proper prefix is smaller *)
Fixpoint lex_cmp {A} (c : A -> A -> comparison) (a b : list A) : comparison :=
  match a, b with
  | [], [] => Eq
  | [], _ :: _ => Lt
  | _ :: _, [] => Gt
  | x :: a', y :: b' => match c x y with Eq => lex_cmp c a' b' | r => r end
  end.

(** Go string comparison (bytewise lexicographic). *)
Definition str_cmp (a b : str) : comparison := lex_cmp N.compare a b.

Definition str_ltb (a b : str) : bool := match str_cmp a b with Lt => true | _ => false end.

(** semver.comparePrerelease, identifier by identifier: numeric < alphanumeric, fewer identifiers < more. *)
Definition preid_cmp (a b : preid) : comparison :=
  match a, b with
  | PNum x, PNum y => N.compare x y
  | PNum _, PStr _ => Lt
  | PStr _, PNum _ => Gt
  | PStr x, PStr y => str_cmp x y
  end.

Definition ids_cmp (a b : list preid) : comparison := lex_cmp preid_cmp a b.

(** no prerelease is greater than any prerelease *)
Definition pre_cmp (a b : list preid) : comparison :=
  match a, b with
  | [], [] => Eq
  | [], _ :: _ => Gt
  | _ :: _, [] => Lt
  | _, _ => ids_cmp a b
  end.

Definition sv_cmp (a b : semver) : comparison :=
  match N.compare (sv_major a) (sv_major b) with
  | Eq => match N.compare (sv_minor a) (sv_minor b) with
          | Eq => match N.compare (sv_patch a) (sv_patch b) with
                  | Eq => pre_cmp (sv_pre a) (sv_pre b)
                  | c => c
                  end
          | c => c
          end
  | c => c
  end.

(** semver.Compare on the strings: an invalid string ("" and "none" are invalid) is below every valid one
    and equal to every other invalid one. *)
Definition sem_cmp (a b : version) : comparison :=
  match a, b with
  | VSem x, VSem y => sv_cmp x y
  | VSem _, _ => Gt
  | _, VSem _ => Lt
  | _, _ => Eq
  end.

(** reqs.go cmpVersion *)
Definition cmp_version (v1 v2 : version) : comparison :=
  match v2 with
  | VRoot => match v1 with VRoot => Eq | _ => Lt end
  | _ => match v1 with VRoot => Gt | _ => sem_cmp v1 v2 end
  end.

Definition is_lt (c : comparison) : bool := match c with Lt => true | _ => false end.
Definition is_gt (c : comparison) : bool := match c with Gt => true | _ => false end.
Definition is_eq (c : comparison) : bool := match c with Eq => true | _ => false end.

Definition vlt (a b : version) : bool := is_lt (cmp_version a b).
Definition vle (a b : version) : bool := negb (is_gt (cmp_version a b)).

(** Reqs.Max *)
Definition vmax (v1 v2 : version) : version := if vlt v1 v2 then v2 else v1.

(** structural equality = equality of the version strings *)
Definition preid_eqb (a b : preid) : bool :=
  match a, b with
  | PNum x, PNum y => x =? y
  | PStr x, PStr y => str_eqb x y
  | _, _ => false
  end.

Fixpoint ids_eqb (a b : list preid) : bool :=
  match a, b with
  | [], [] => true
  | x :: a', y :: b' => preid_eqb x y && ids_eqb a' b'
  | _, _ => false
  end.

Definition sv_eqb (a b : semver) : bool :=
  (sv_major a =? sv_major b) && (sv_minor a =? sv_minor b) && (sv_patch a =? sv_patch b)
  && ids_eqb (sv_pre a) (sv_pre b).

Definition version_eqb (a b : version) : bool :=
  match a, b with
  | VNone, VNone => true
  | VRoot, VRoot => true
  | VSem x, VSem y => sv_eqb x y
  | _, _ => false
  end.

(** semver.Major / semver.MajorMinor ("" for an invalid version = [None]) *)
Definition major_of (v : version) : option N :=
  match v with VSem s => Some (sv_major s) | _ => None end.

Definition major_minor_of (v : version) : option (N * N) :=
  match v with VSem s => Some (sv_major s, sv_minor s) | _ => None end.

Definition optN_eqb (a b : option N) : bool :=
  match a, b with
  | None, None => true
  | Some x, Some y => x =? y
  | _, _ => false
  end.

Definition optNN_eqb (a b : option (N * N)) : bool :=
  match a, b with
  | None, None => true
  | Some (x, x'), Some (y, y') => (x =? y) && (x' =? y')
  | _, _ => false
  end.

Definition has_prerelease (v : version) : bool :=
  match v with VSem s => match sv_pre s with [] => false | _ => true end | _ => false end.

(** decimal rendering (fmt %v of an int) *)
Fixpoint dec_aux (fuel : nat) (n : N) (acc : str) : str :=
  match fuel with
  | O => acc
  | S f => let d := 48 + n mod 10 in
           if n <? 10 then d :: acc else dec_aux f (n / 10) (d :: acc)
  end.
Definition dec (n : N) : str := dec_aux 40 n [].

Definition c_v : N := 118.
Definition c_dash : N := 45.

(** "vN" *)
Definition major_str (n : N) : str := c_v :: dec n.

(** ** Paths (internal/project/version.go).  A module path carries its major version as a suffix "@vN"
    in the last path element. *)

(** SplitPathVersion: scan the last path element from the right for '@'. *)
Fixpoint spv_rev (r : str) (acc : str) : option (str * str) :=
  match r with
  | [] => None
  | c :: r' => if c =? c_slash then None
               else if c =? c_at then Some (rev r', acc)
               else spv_rev r' (c :: acc)
  end.

Definition split_path_version (p : str) : str * str :=
  match spv_rev (rev p) [] with
  | Some (a, b) => (a, b)
  | None => (p, [])
  end.

Definition trim_path_version (p : str) : str := fst (split_path_version p).

Definition s_v0 : str := [118; 48].
Definition s_v1 : str := [118; 49].

(** JoinPathVersion *)
Definition join_path_version (p major : str) : str :=
  match major with
  | [] => p
  | _ => if str_eqb major s_v0 || str_eqb major s_v1 then p else p ++ c_at :: major
  end.

(** path.Base of a clean, non-empty path without trailing slash *)
Definition path_base (p : str) : str :=
  match split_last c_slash p with
  | (_, Some b) => b
  | (a, None) => a
  end.

(** majorVersionMatch(major, ver): [major] is the path's suffix string *)
Definition major_version_match (major : str) (ver : version) : bool :=
  match major_of ver with
  | Some n => str_eqb major (major_str n) || (match major with [] => (n =? 0) || (n =? 1) | _ => false end)
  | None => match major with [] => true | _ => false end
  end.

(** ** Pseudo-versions (golang.org/x/mod/module.PseudoVersion / PseudoVersionRev) *)

(** [seg] = "yyyymmddhhmmss-rev".  [base] = the tagged version the pseudo-version is derived from;
    [None] when there is none and the path has no major suffix, [Some vN.0.0] when the path has suffix vN. *)
Definition pseudo_version (base : option semver) (seg : str) : version :=
  match base with
  | None => VSem (mkSV 0 0 0 [PStr seg])
  | Some b => match sv_pre b with
              | [] => VSem (mkSV (sv_major b) (sv_minor b) (sv_patch b + 1) [PNum 0; PStr seg])
              | pre => VSem (mkSV (sv_major b) (sv_minor b) (sv_patch b) (pre ++ [PNum 0; PStr seg]))
              end
  end.

Definition is_digit (c : N) : bool := (48 <=? c) && (c <=? 57).
Definition is_alnum (c : N) : bool :=
  is_digit c || ((65 <=? c) && (c <=? 90)) || ((97 <=? c) && (c <=? 122)).

(** \d{14}-[A-Za-z0-9]+ *)
Definition is_pseudo_seg (s : str) : bool :=
  let ts := firstn 14 s in
  let rest := skipn 14 s in
  (length ts =? 14)%nat && forallb is_digit ts &&
  match rest with
  | c :: id => (c =? c_dash) && negb (match id with [] => true | _ => false end) && forallb is_alnum id
  | [] => false
  end.

(** the segment of a pseudo-version: vX.0.0-seg  or  vX.Y.Z-(ids.)0.seg *)
Definition pseudo_seg_of (v : version) : option str :=
  match v with
  | VSem s =>
      match rev (sv_pre s) with
      | [PStr seg] => if (sv_minor s =? 0) && (sv_patch s =? 0) && is_pseudo_seg seg then Some seg else None
      | PStr seg :: PNum 0 :: _ => if is_pseudo_seg seg then Some seg else None
      | _ => None
      end
  | _ => None
  end.
