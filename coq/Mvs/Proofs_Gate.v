(** Proofs about the gate on requirement versions and the version order on strings (Mvs/Gate.v), and about the
    precedence of the two configuration files (Mvs/Cache.v load_config). *)
From Coq Require Import Lia.
From Dawn Require Import Mvs.Gate Mvs.Cache.

Lemma span_digits_app s : s = fst (span_digits s) ++ snd (span_digits s).
Proof.
  induction s as [|c s IH]; simpl; auto.
  destruct (is_digit c); simpl; auto. now rewrite <- IH.
Qed.

Lemma parse_int_app s d r : parse_int s = Some (d, r) -> s = d ++ r.
Proof.
  unfold parse_int. pose proof (span_digits_app s) as H.
  destruct (span_digits s) as [[|c d'] r']; try discriminate. simpl in H.
  destruct ((c =? c_zero) && negb (is_nil d')); try discriminate.
  intros E; injection E as <- <-. exact H.
Qed.

Lemma pre_scan_app s : forall cur a r, pre_scan s cur = Some (a, r) -> s = a ++ r.
Proof.
  induction s as [|c s IH]; simpl; intros cur a r.
  - destruct (pre_ident_ok cur); try discriminate. intros E; injection E as <- <-. reflexivity.
  - destruct (c =? c_plus).
    { destruct (pre_ident_ok cur); try discriminate. intros E; injection E as <- <-. reflexivity. }
    destruct (c =? c_dot).
    { destruct (pre_ident_ok cur); try discriminate.
      destruct (pre_scan s []) as [[a' r']|] eqn:E'; try discriminate.
      intros E; injection E as <- <-. simpl. f_equal. eapply IH; eauto. }
    destruct (is_ident_char c); try discriminate.
    destruct (pre_scan s (cur ++ [c])) as [[a' r']|] eqn:E'; try discriminate.
    intros E; injection E as <- <-. simpl. f_equal. eapply IH; eauto.
Qed.

Lemma parse_prerelease_app s a r : parse_prerelease s = Some (a, r) -> s = a ++ r.
Proof.
  destruct s as [|c s]; simpl; try discriminate.
  destruct (c =? c_dash); try discriminate.
  destruct (pre_scan s []) as [[a' r']|] eqn:E'; try discriminate.
  intros E; injection E as <- <-. simpl. f_equal. eapply pre_scan_app; eauto.
Qed.

Lemma parse_tail_app v pre build : parse_tail v = Some (pre, build) -> v = pre ++ build.
Proof.
  unfold parse_tail.
  assert (K : forall pre' v5, v = pre' ++ v5 ->
            match v5 with
            | [] => Some (pre', [])
            | c :: _ => if (c =? c_plus) && parse_build v5 then Some (pre', v5) else None
            end = Some (pre, build) -> v = pre ++ build).
  { intros pre' v5 Hv. destruct v5 as [|c v5'].
    - intros E; injection E as <- <-. exact Hv.
    - destruct ((c =? c_plus) && parse_build (c :: v5')); try discriminate.
      intros E; injection E as <- <-. exact Hv. }
  destruct v as [|c v'].
  - apply (K [] []). reflexivity.
  - destruct (c =? c_dash).
    + destruct (parse_prerelease (c :: v')) as [[a r]|] eqn:E; try discriminate.
      apply K. now apply parse_prerelease_app.
    + apply (K [] (c :: v')). reflexivity.
Qed.

(** a parse without short form spells the string *)
Lemma parse_spell v p : parse v = Some p -> p_short p = [] -> v = spell p ++ p_build p.
Proof.
  unfold parse, spell. destruct v as [|c v1]; try discriminate.
  destruct (N.eqb_spec c c_v) as [->|]; simpl; try discriminate.
  destruct (parse_int v1) as [[major v2]|] eqn:E1; try discriminate. apply parse_int_app in E1.
  destruct v2 as [|c2 v2']. { intros E; injection E as <-. simpl. discriminate. }
  destruct (N.eqb_spec c2 c_dot) as [->|]; simpl; try discriminate.
  destruct (parse_int v2') as [[minor v3]|] eqn:E2; try discriminate. apply parse_int_app in E2.
  destruct v3 as [|c3 v3']. { intros E; injection E as <-. simpl. discriminate. }
  destruct (N.eqb_spec c3 c_dot) as [->|]; simpl; try discriminate.
  destruct (parse_int v3') as [[patch v4]|] eqn:E3; try discriminate. apply parse_int_app in E3.
  destruct (parse_tail v4) as [[pre build]|] eqn:E4; try discriminate. apply parse_tail_app in E4.
  intros E; injection E as <-. simpl. intros _. subst.
  repeat (rewrite <- ?app_assoc; simpl). reflexivity.
Qed.

Lemma parse_nonempty v p : parse v = Some p -> v <> [].
Proof. destruct v; simpl; congruence. Qed.

(** what the gate admits: a valid version without build metadata and not in a short form, spelled
    'v' major '.' minor '.' patch prerelease *)
Lemma gate_spec v : gate v = true ->
  exists p, parse v = Some p /\ p_short p = [] /\ p_build p = [] /\ v = spell p.
Proof.
  unfold gate, is_valid, canonical. destruct (parse v) as [p|] eqn:E; simpl; try discriminate.
  intros H. exists p. split; auto.
  destruct (p_build p) as [|cb build] eqn:Eb; simpl in H.
  - destruct (p_short p) as [|cs short] eqn:Es; simpl in H.
    + repeat split; auto. pose proof (parse_spell v p E Es) as S. now rewrite Eb, app_nil_r in S.
    + destruct (str_eqb_spec (v ++ cs :: short) v) as [A|]; try discriminate.
      rewrite <- (app_nil_r v) in A at 2. apply app_inv_head in A. discriminate.
  - destruct (str_eqb_spec (firstn (length v - S (length build)) v) v) as [A|]; try discriminate.
    apply (f_equal (@length N)) in A. rewrite firstn_length in A.
    apply parse_nonempty in E. destruct v; [congruence|]. simpl in A. lia.
Qed.

Lemma compare_int_eq x y : compare_int x y = Eq -> x = y.
Proof.
  unfold compare_int. destruct (str_eqb_spec x y); auto.
  destruct (length x <? length y)%nat; try discriminate.
  destruct (length y <? length x)%nat; try discriminate.
  destruct (str_ltb x y); discriminate.
Qed.

Lemma cmp_pre_loop_neq f : forall x y, cmp_pre_loop f x y <> Eq.
Proof.
  induction f as [|f IH]; simpl; intros x y; try discriminate.
  destruct (negb (str_eqb (fst (next_ident (tl x))) (fst (next_ident (tl y))))).
  - destruct (negb _). { destruct (is_num _); discriminate. }
    destruct (_ && _); try discriminate. destruct (_ && _); try discriminate.
    destruct (str_ltb _ _); discriminate.
  - destruct (snd (next_ident (tl x))); try discriminate.
    destruct (snd (next_ident (tl y))); try discriminate. apply IH.
Qed.

Lemma compare_prerelease_eq x y : compare_prerelease x y = Eq -> x = y.
Proof.
  unfold compare_prerelease. destruct (str_eqb_spec x y); auto.
  destruct x; [discriminate|]. destruct y; [discriminate|].
  intros H. now apply cmp_pre_loop_neq in H.
Qed.

Lemma sem_compare_eq v w p q : parse v = Some p -> parse w = Some q -> sem_compare v w = Eq ->
  p_major p = p_major q /\ p_minor p = p_minor q /\ p_patch p = p_patch q /\ p_pre p = p_pre q.
Proof.
  unfold sem_compare. intros -> ->.
  destruct (compare_int (p_major p) (p_major q)) eqn:E1; try discriminate.
  destruct (compare_int (p_minor p) (p_minor q)) eqn:E2; try discriminate.
  destruct (compare_int (p_patch p) (p_patch q)) eqn:E3; try discriminate.
  intros E4. apply compare_int_eq in E1, E2, E3. apply compare_prerelease_eq in E4. auto.
Qed.

(** among the versions the gate admits no two different strings are of equal precedence: "the highest version
    demanded" is one string, whichever requirement Reqs.Max meets first *)
Theorem admitted_versions_never_tie a b :
  gate a = true -> gate b = true -> cmp_version_str a b = Eq -> a = b.
Proof.
  intros Ga Gb. destruct (gate_spec a Ga) as (p & Pa & _ & _ & Sa). destruct (gate_spec b Gb) as (q & Pb & _ & _ & Sb).
  unfold cmp_version_str. destruct b as [|cb b']; [discriminate Pb|]. destruct a as [|ca a']; [discriminate Pa|].
  intros H. destruct (sem_compare_eq _ _ p q Pa Pb H) as (E1 & E2 & E3 & E4).
  rewrite Sa, Sb. unfold spell. now rewrite E1, E2, E3, E4.
Qed.

(** "v1.2.0+a" / "v1.2.0+b" and "v1.2.0" / "v1.2": valid, different, of equal precedence, and Reqs.Max answers with
    whichever comes first -- the gate is what excludes them *)
Theorem unadmitted_versions_tie :
  exists a b c d, is_valid a = true /\ is_valid b = true /\ a <> b /\ cmp_version_str a b = Eq /\ max_str a b <> max_str b a /\
                  gate c = true /\ is_valid d = true /\ c <> d /\ cmp_version_str c d = Eq /\ max_str c d <> max_str d c /\
                  gate a = false /\ gate b = false /\ gate d = false.
Proof.
  exists [118;49;46;50;46;48;43;97], [118;49;46;50;46;48;43;98], [118;49;46;50;46;48], [118;49;46;50].
  vm_compute. repeat split; congruence.
Qed.

(** a project that has a dawn.toml is configured by it, whatever else its tree holds (a left-over .dawnconfig
    included): two directories with the same dawn.toml load the same configuration *)
Theorem config_file_precedence (d d' : dir) :
  dir_get d s_dawn_toml <> None -> dir_get d' s_dawn_toml = dir_get d s_dawn_toml -> load_config d' = load_config d.
Proof.
  unfold load_config. intros H ->. destruct (dir_get d s_dawn_toml) as [[|r]|]; auto. congruence.
Qed.

(** ... and only a project without dawn.toml is configured by its .dawnconfig *)
Theorem config_file_fallback (d : dir) :
  dir_get d s_dawn_toml = None ->
  load_config d = match dir_get d s_dawnconfig with Some (Cfg r) => r | _ => None end.
Proof. unfold load_config. intros ->. reflexivity. Qed.
