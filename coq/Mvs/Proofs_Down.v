(** Downgrade: what is proved, and what is left (see Props_C11: downgrade_at_or_below_partial). *)
From Dawn Require Import Mvs.VersionProofs Mvs.Spec Mvs.Proofs_Base Mvs.Proofs_C10 Mvs.Proofs_ReqList Mvs.Proofs_Names
     Mvs.Proofs_C11.

(** ** Reqs.Previous returns the root itself, "none", or a strictly earlier tagged version of the same path
    (this is what was wrong before the repair of F13: it returned "", the greatest version) *)
Lemma fold_prev_inv (major : option N) (pv : version) vs : forall init,
  let r := fold_left (fun sel v => if optN_eqb (major_of v) major && is_lt (sem_cmp v pv) && is_gt (sem_cmp v sel)
                                   then v else sel) vs init in
  r = init \/ (In r vs /\ sem_cmp r pv = Lt).
Proof.
  induction vs as [|v vs IH]; intros init; simpl; auto.
  destruct (optN_eqb (major_of v) major && is_lt (sem_cmp v pv) && is_gt (sem_cmp v init)) eqn:E.
  - destruct (IH v) as [H|[H1 H2]]; [|right; auto].
    right. rewrite H. split; auto. apply andb_true_iff in E. destruct E as [E _]. apply andb_true_iff in E.
    destruct E as [_ E]. unfold is_lt in E. destruct (sem_cmp v pv); auto; discriminate.
  - destruct (IH init) as [H|[H1 H2]]; auto.
Qed.

Theorem previous_strictly_lower U p q :
  reqs_previous U p = Some q ->
  q = p \/ (fst q = fst p /\ (snd q = VNone \/ (In q (map fst (u_tags U)) /\ sem_cmp (snd q) (snd p) = Lt))).
Proof.
  unfold reqs_previous. destruct p as [pp pv]. cbn [fst snd]. destruct pp as [|c0 p0]; [intros H; inversion H; auto|].
  destruct (list_versions U (c0 :: p0)) as [vs|] eqn:E; [|discriminate]. intros H; inversion H; subst. right. split; auto.
  destruct (fold_prev_inv (major_of pv) pv vs VNone) as [X|[X1 X2]]; cbv zeta in *.
  - left. simpl. exact X.
  - right. simpl. split; auto. eapply list_versions_in; eauto.
Qed.

(** ** the two final BuildList phases of mvs.Downgrade *)
Section Final.
  Variable required : node -> option (list node).
  Variable pick : list node -> nat.
  Variable fuel : nat.
  Variable downgraded lst : list node.
  Variable d : node.
  Hypothesis Hd : fst d <> [].

  Notation R1 := (greach (override required target downgraded) None target).

  Variable N : list node.
  Hypothesis HN : forall n, R1 n -> In n N.
  Hypothesis Hf : (length N < fuel)%nat.

  (** THE MISSING LEMMA's conclusion, as a hypothesis: everything reachable from the list computed by the
      add/exclude phase respects the requested version *)
  Hypothesis bounded : forall n, R1 n -> fst n = fst d -> vle (snd n) (snd d) = true.

  Definition dg_of (actual : list node) : list node :=
    flat_map (fun m => match find_path (fst m) actual with Some v => [(fst m, v)] | None => [] end) lst.

  Theorem final_phases_bounded actual final :
    build_list_gen (override required target downgraded) None pick fuel target = Ok actual ->
    build_list_gen (override required target (dg_of actual)) None pick fuel target = Ok final ->
    forall v, In (fst d, v) final -> vle v (snd d) = true.
  Proof.
    intros E1 E2 v Hv.
    destruct (build_list_gen_spec (override required target downgraded) None pick N fuel HN Hf)
      as [[X _]|(l1 & X1 & S1 & _)]; [congruence|]. rewrite E1 in X1. inversion X1; subst actual. clear X1.
    assert (SUB : forall n, greach (override required target (dg_of (target :: l1))) None target n -> R1 n).
    { induction 1; [constructor|]. apply succs_plain in H0. destruct H0 as (Hn & l & El & Hl).
      unfold override in El. destruct (node_eqb_spec m target).
      - inversion El; subst l. unfold dg_of in Hl. apply in_flat_map in Hl. destruct Hl as (m' & _ & Hm').
        destruct (find_path (fst m') (target :: l1)) as [w|] eqn:Ef; [|destruct Hm'].
        destruct Hm' as [Hm'|[]]. subst n. apply find_path_In in Ef.
        destruct S1 as (_ & M & _). now apply M.
      - eapply gr_step; [exact IHgreach|]. apply succs_plain. split; auto. exists l. split; auto.
        unfold override. destruct (node_eqb_spec m target); [contradiction|auto]. }
    assert (HN2 : forall n, greach (override required target (dg_of (target :: l1))) None target n -> In n N) by auto.
    destruct (build_list_gen_spec (override required target (dg_of (target :: l1))) None pick N fuel HN2 Hf)
      as [[X _]|(l2 & X2 & S2 & _)]; [congruence|]. rewrite E2 in X2. inversion X2; subst final.
    destruct S2 as (_ & M2 & _). destruct (M2 _ _ Hv) as [Rv _]. apply (bounded (fst d, v)); auto.
  Qed.
End Final.

(** what remains to be proved about the add/exclude/previous phase ([down_list]) of mvs.Downgrade:
    the list it returns only reaches nodes of the finite set [N], all of them within the requested bound *)
Definition down_list_spec (required : node -> option (list node)) (previous : node -> option node)
           (pick : list node -> nat) (fuel lfuel : nat) (d : node) (N : list node) : Prop :=
  forall bl dgd,
    build_list_gen required None pick fuel target = Ok bl ->
    down_list required previous (down_max (tl bl) d) lfuel fuel fuel (tl bl) (mkD [] [] []) [target] = Ok dgd ->
    forall n, greach (override required target dgd) None target n ->
              In n N /\ (fst n = fst d -> vle (snd n) (snd d) = true).

Theorem downgrade_at_or_below_partial required previous pick fuel lfuel (d : node) N final :
  fst d <> [] -> (length N < fuel)%nat ->
  down_list_spec required previous pick fuel lfuel d N ->
  mvs_downgrade required previous pick fuel lfuel d = Ok final ->
  forall v, In (fst d, v) final -> vle v (snd d) = true.
Proof.
  intros Hd Hf SPEC H v Hv. unfold mvs_downgrade in H.
  destruct (build_list_gen required None pick fuel target) as [bl| | |] eqn:E0; simpl in H; try discriminate.
  destruct (down_list required previous (down_max (tl bl) d) lfuel fuel fuel (tl bl) (mkD [] [] []) [target])
    as [dgd| | |] eqn:E1; simpl in H; try discriminate.
  destruct (build_list_gen (override required target dgd) None pick fuel target) as [actual| | |] eqn:E2;
    simpl in H; try discriminate.
  eapply (final_phases_bounded required pick fuel dgd (tl bl) d N); eauto.
  - intros n Hn. apply (SPEC bl dgd E0 E1 n Hn).
  - intros n Hn. apply (SPEC bl dgd E0 E1 n Hn).
Qed.

(** the BuildList phases of Downgrade never exhaust the fuel: a hang can only come from [down_list] *)
Theorem downgrade_terminates_partial required previous pick fuel lfuel (d : node) N :
  (length N < fuel)%nat ->
  (forall n, greach required None target n -> In n N) ->
  (forall dgd n, greach (override required target dgd) None target n -> In n N) ->
  mvs_downgrade required previous pick fuel lfuel d = OutOfFuel ->
  exists bl, build_list_gen required None pick fuel target = Ok bl /\
             down_list required previous (down_max (tl bl) d) lfuel fuel fuel (tl bl) (mkD [] [] []) [target] = OutOfFuel.
Proof.
  intros Hf H0 H1 H. unfold mvs_downgrade in H.
  destruct (build_list_gen_spec required None pick N fuel H0 Hf) as [[E _]|(l & E & _)]; rewrite E in H; simpl in H;
    [discriminate|].
  exists (target :: l). split; auto. simpl tl.
  destruct (down_list required previous (down_max l d) lfuel fuel fuel l (mkD [] [] []) [target])
    as [dgd| | |] eqn:E1; simpl in H; try discriminate; auto.
  exfalso.
  destruct (build_list_gen_spec (override required target dgd) None pick N fuel (H1 dgd) Hf) as [[E2 _]|(l2 & E2 & _)];
    rewrite E2 in H; simpl in H; [discriminate|].
  match type of H with build_list_gen (override required target ?dg) None pick fuel target = _ =>
    destruct (build_list_gen_spec (override required target dg) None pick N fuel (H1 dg) Hf) as [[E3 _]|(l3 & E3 & _)];
      rewrite E3 in H; discriminate end.
Qed.
