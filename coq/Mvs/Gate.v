(** The gate that keeps the version order of the build list a total order ON STRINGS, and that order itself, both
    on the version strings as they are written (before the rendering into the records of Mvs/Version.v):
      golang.org/x/mod/semver   parse, parseInt, parsePrerelease, parseBuild, IsValid, Canonical, Compare,
                                compareInt, comparePrerelease (the functions reqs.go and config.go call)
      dawn  internal/project/config.go LoadConfigBytes: a requirement version must satisfy
                                semver.IsValid(v) && semver.Canonical(v) == v, else the configuration does not load
      dawn  internal/mvs/reqs.go cmpVersion ("" greatest), Reqs.Max (the FIRST argument on a tie).
    semver.Compare orders by precedence: build metadata and the short forms vMAJOR / vMAJOR.MINOR are different
    strings of equal precedence, and all invalid strings are equal.  Every configuration -- the root's and every
    dependency's -- passes LoadConfigBytes, so only gated strings ever reach Reqs.Max.
    NO proofs in this file. *)
From Dawn Require Export Mvs.Version.

Definition c_plus : N := 43.
Definition c_zero : N := 48.

Definition is_ident_char (c : N) : bool := is_alnum c || (c =? c_dash).

Definition is_nil {A} (l : list A) : bool := match l with [] => true | _ => false end.

(** the leading digits and the rest *)
Fixpoint span_digits (s : str) : str * str :=
  match s with
  | [] => ([], [])
  | c :: s' => if is_digit c then (c :: fst (span_digits s'), snd (span_digits s')) else ([], s)
  end.

(** semver.parseInt: a non-empty run of digits without a leading zero (unless it is "0") *)
Definition parse_int (s : str) : option (str * str) :=
  match span_digits s with
  | ([], _) => None
  | (c :: d, r) => if (c =? c_zero) && negb (is_nil d) then None else Some (c :: d, r)
  end.

(** semver.isBadNum: all digits, more than one, leading zero *)
Definition is_bad_num (s : str) : bool :=
  forallb is_digit s && match s with c :: _ :: _ => c =? c_zero | _ => false end.

Definition pre_ident_ok (cur : str) : bool := negb (is_nil cur) && negb (is_bad_num cur).

(** the loop of semver.parsePrerelease after the leading '-': [cur] is the identifier being read; the result is
    (what was consumed, the rest), the rest being empty or starting with '+' *)
Fixpoint pre_scan (s cur : str) : option (str * str) :=
  match s with
  | [] => if pre_ident_ok cur then Some ([], []) else None
  | c :: s' =>
      if c =? c_plus then (if pre_ident_ok cur then Some ([], s) else None)
      else if c =? c_dot then
        (if pre_ident_ok cur then match pre_scan s' [] with Some (a, r) => Some (c :: a, r) | None => None end else None)
      else if is_ident_char c then
        match pre_scan s' (cur ++ [c]) with Some (a, r) => Some (c :: a, r) | None => None end
      else None
  end.

Definition parse_prerelease (s : str) : option (str * str) :=
  match s with
  | c :: s' => if c =? c_dash then match pre_scan s' [] with Some (a, r) => Some (c :: a, r) | None => None end
               else None
  | [] => None
  end.

(** the loop of semver.parseBuild after the leading '+' ([have]: the current identifier is not empty); it runs to the
    end of the string *)
Fixpoint build_scan (s : str) (have : bool) : bool :=
  match s with
  | [] => have
  | c :: s' => if c =? c_dot then have && build_scan s' false
               else if is_ident_char c then build_scan s' true
               else false
  end.

Definition parse_build (s : str) : bool :=
  match s with
  | c :: s' => (c =? c_plus) && build_scan s' false
  | [] => false
  end.

(** semver.parsed; the numbers stay the digit strings they are (compareInt works on those) *)
Record parsed := mkP { p_major : str; p_minor : str; p_patch : str; p_short : str; p_pre : str; p_build : str }.

Definition s_0 : str := [48].
Definition s_dot0 : str := [46; 48].
Definition s_dot0dot0 : str := [46; 48; 46; 48].

(** prerelease and build of what follows the patch number *)
Definition parse_tail (v4 : str) : option (str * str) :=
  let pr := match v4 with
            | c :: _ => if c =? c_dash then match parse_prerelease v4 with Some (a, r) => Some (a, r) | None => None end
                        else Some ([], v4)
            | [] => Some ([], v4)
            end in
  match pr with
  | None => None
  | Some (pre, v5) =>
      match v5 with
      | [] => Some (pre, [])
      | c :: _ => if (c =? c_plus) && parse_build v5 then Some (pre, v5) else None
      end
  end.

(** semver.parse *)
Definition parse (v : str) : option parsed :=
  match v with
  | [] => None
  | c :: v1 =>
    if negb (c =? c_v) then None else
    match parse_int v1 with
    | None => None
    | Some (major, v2) =>
      match v2 with
      | [] => Some (mkP major s_0 s_0 s_dot0dot0 [] [])
      | c2 :: v2' =>
        if negb (c2 =? c_dot) then None else
        match parse_int v2' with
        | None => None
        | Some (minor, v3) =>
          match v3 with
          | [] => Some (mkP major minor s_0 s_dot0 [] [])
          | c3 :: v3' =>
            if negb (c3 =? c_dot) then None else
            match parse_int v3' with
            | None => None
            | Some (patch, v4) =>
              match parse_tail v4 with
              | None => None
              | Some (pre, build) => Some (mkP major minor patch [] pre build)
              end
            end
          end
        end
      end
    end
  end.

Definition is_valid (v : str) : bool := match parse v with Some _ => true | None => false end.

(** semver.Canonical *)
Definition canonical (v : str) : str :=
  match parse v with
  | None => []
  | Some p => if negb (is_nil (p_build p)) then firstn (length v - length (p_build p)) v
              else if negb (is_nil (p_short p)) then v ++ p_short p
              else v
  end.

(** the gate of LoadConfigBytes on one requirement version *)
Definition gate (v : str) : bool := is_valid v && str_eqb (canonical v) v.

(** semver.compareInt *)
Definition compare_int (x y : str) : comparison :=
  if str_eqb x y then Eq
  else if (length x <? length y)%nat then Lt
  else if (length y <? length x)%nat then Gt
  else if str_ltb x y then Lt else Gt.

(** semver.nextIdent: up to the next '.' *)
Fixpoint next_ident (s : str) : str * str :=
  match s with
  | [] => ([], [])
  | c :: s' => if c =? c_dot then ([], s) else (c :: fst (next_ident s'), snd (next_ident s'))
  end.

(** semver.isNum *)
Definition is_num (s : str) : bool := forallb is_digit s.

(** the loop of semver.comparePrerelease; both strings start with '-' or '.'; every round consumes at least one
    character of each, so [S (length x)] rounds suffice.  It never answers "equal". *)
Fixpoint cmp_pre_loop (fuel : nat) (x y : str) : comparison :=
  match fuel with
  | O => Lt
  | S f =>
      let dx := next_ident (tl x) in
      let dy := next_ident (tl y) in
      if negb (str_eqb (fst dx) (fst dy)) then
        let ix := is_num (fst dx) in
        let iy := is_num (fst dy) in
        if negb (Bool.eqb ix iy) then (if ix then Lt else Gt)
        else if ix && (length (fst dx) <? length (fst dy))%nat then Lt
        else if ix && (length (fst dy) <? length (fst dx))%nat then Gt
        else if str_ltb (fst dx) (fst dy) then Lt else Gt
      else
        match snd dx, snd dy with
        | _ :: _, _ :: _ => cmp_pre_loop f (snd dx) (snd dy)
        | [], _ => Lt
        | _, _ => Gt
        end
  end.

(** semver.comparePrerelease *)
Definition compare_prerelease (x y : str) : comparison :=
  if str_eqb x y then Eq
  else match x, y with
       | [], _ => Gt
       | _, [] => Lt
       | _, _ => cmp_pre_loop (S (length x)) x y
       end.

(** semver.Compare *)
Definition sem_compare (v w : str) : comparison :=
  match parse v, parse w with
  | None, None => Eq
  | None, Some _ => Lt
  | Some _, None => Gt
  | Some p, Some q =>
      match compare_int (p_major p) (p_major q) with
      | Eq => match compare_int (p_minor p) (p_minor q) with
              | Eq => match compare_int (p_patch p) (p_patch q) with
                      | Eq => compare_prerelease (p_pre p) (p_pre q)
                      | c => c
                      end
              | c => c
              end
      | c => c
      end
  end.

(** reqs.go cmpVersion on the strings *)
Definition cmp_version_str (v1 v2 : str) : comparison :=
  match v2 with
  | [] => match v1 with [] => Eq | _ => Lt end
  | _ => match v1 with [] => Gt | _ => sem_compare v1 v2 end
  end.

(** Reqs.Max *)
Definition max_str (v1 v2 : str) : str := if is_lt (cmp_version_str v1 v2) then v2 else v1.

(** the spelling of a gated version: 'v' major '.' minor '.' patch prerelease *)
Definition spell (p : parsed) : str :=
  c_v :: p_major p ++ c_dot :: p_minor p ++ c_dot :: p_patch p ++ p_pre p.
