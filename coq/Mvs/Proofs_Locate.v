(** The repository lookup does not depend on what the resolver looked up before. *)
From Dawn Require Import Mvs.Proofs_Base.
From Dawn Require Import Mvs.Locate.

Lemma memo_sound dial M : memo_reach dial M -> forall key x, memo_get M key = Some x -> locate dial key = Some x.
Proof.
  induction 1 as [|M p HM IH]; intros key x; simpl; [discriminate|].
  unfold find_project_repository.
  destruct (memo_get M (trim_path_version p)) as [y|] eqn:E; simpl; [apply IH|].
  destruct (locate dial (trim_path_version p)) as [y|] eqn:L; simpl; [|apply IH].
  destruct (str_eqb_spec (trim_path_version p) key) as [<-|_]; [|apply IH].
  intros X. injection X as <-. exact L.
Qed.

Theorem find_repository_order_independent dial M p :
  memo_reach dial M ->
  fst (find_project_repository dial M p) = locate dial (trim_path_version p).
Proof.
  intros HM. unfold find_project_repository.
  destruct (memo_get M (trim_path_version p)) as [y|] eqn:E; simpl.
  - symmetry. eapply memo_sound; eauto.
  - destruct (locate dial (trim_path_version p)); reflexivity.
Qed.

(** two resolvers with different histories agree *)
Corollary find_repository_same dial M1 M2 p :
  memo_reach dial M1 -> memo_reach dial M2 ->
  fst (find_project_repository dial M1 p) = fst (find_project_repository dial M2 p).
Proof. intros H1 H2. now rewrite !find_repository_order_independent. Qed.

(** ** the answer names the project: address and project path inside the repository join to the looked-up path *)
Definition rejoin (x : str * str) : str := match snd x with [] => fst x | r => fst x ++ c_slash :: r end.

Lemma split_on_nonempty s : split_on c_slash s <> [].
Proof. destruct s as [|x s]; simpl; [discriminate|]. destruct (split_on c_slash s); [discriminate|]. destruct (x =? c_slash)%N; discriminate. Qed.

Lemma join_split s : join_with c_slash (split_on c_slash s) = s.
Proof.
  induction s as [|x s IH]; simpl; auto.
  destruct (split_on c_slash s) as [|h t] eqn:E.
  - exfalso. eapply split_on_nonempty; eauto.
  - destruct (x =? c_slash)%N eqn:Ex.
    + apply N.eqb_eq in Ex. subst x. simpl. simpl in IH. now rewrite IH.
    + simpl. simpl in IH. destruct t; simpl in *; now rewrite <- IH.
Qed.

Lemma join_app l1 l2 : l1 <> [] -> l2 <> [] ->
  join_with c_slash (l1 ++ l2) = join_with c_slash l1 ++ c_slash :: join_with c_slash l2.
Proof.
  induction l1 as [|a l1 IH]; intros H1 H2; [congruence|].
  destruct l1 as [|b l1].
  - simpl. destruct l2; [congruence|reflexivity].
  - change ((a :: b :: l1) ++ l2) with (a :: (b :: l1) ++ l2).
    change (join_with c_slash (a :: (b :: l1) ++ l2)) with (a ++ c_slash :: join_with c_slash ((b :: l1) ++ l2)).
    rewrite IH by (auto; discriminate). change (join_with c_slash (a :: b :: l1)) with (a ++ c_slash :: join_with c_slash (b :: l1)).
    now rewrite <- app_assoc.
Qed.

(** clean path: no empty component *)
Definition clean_key (key : str) : Prop := ~ In [] (split_on c_slash key).

Lemma join_nil_inv l : ~ In [] l -> join_with c_slash l = [] -> l = [].
Proof.
  destruct l as [|a l]; auto. intros H E. exfalso. destruct l.
  - simpl in E. subst. apply H. simpl. auto.
  - simpl in E. destruct a; [apply H; simpl; auto|discriminate].
Qed.

Lemma rejoin_parts l1 l2 : l1 <> [] -> ~ In [] l2 ->
  rejoin (join_with c_slash l1, join_with c_slash l2) = join_with c_slash (l1 ++ l2).
Proof.
  intros H1 H2. unfold rejoin. simpl. destruct (join_with c_slash l2) eqn:E.
  - apply join_nil_inv in E; auto. subst. now rewrite app_nil_r.
  - rewrite join_app; auto; [now rewrite E|]. intros ->. discriminate.
Qed.

Lemma walk_up_sound dial pre_rev : forall rel x, ~ In [] pre_rev -> ~ In [] rel ->
  walk_up dial pre_rev rel = Some x -> rejoin x = join_with c_slash (rev pre_rev ++ rel) /\ dial (fst x) = true.
Proof.
  induction pre_rev as [|c pre IH]; intros rel x Hp Hr; cbn [walk_up]; cbv zeta; [discriminate|].
  match goal with |- context [dial ?t] => destruct (dial t) eqn:D end.
  - intros X. injection X as <-. split; auto. unfold join_path. apply rejoin_parts; auto.
    simpl. destruct (rev pre); discriminate.
  - intros X. destruct (IH (c :: rel) x) as [A B]; auto.
    + intros H. apply Hp. simpl. auto.
    + intros [H|H]; auto. apply Hp. simpl. auto.
    + split; auto. rewrite A. simpl. now rewrite <- app_assoc.
Qed.

Lemma walk_branch dial key x : clean_key key ->
  walk_up dial (rev (split_on c_slash key)) [] = Some x -> rejoin x = key /\ dial (fst x) = true.
Proof.
  intros HC X. apply walk_up_sound in X.
  - rewrite app_nil_r, rev_involutive, join_split in X. exact X.
  - rewrite <- in_rev. exact HC.
  - simpl. tauto.
Qed.

(** a found repository answers the dial, and its address joined with the project path inside it is the path that
    was looked up: the lookup cannot hand out another project's directory *)
Theorem locate_sound dial key x :
  clean_key key -> locate dial key = Some x -> rejoin x = key /\ dial (fst x) = true.
Proof.
  intros HC. pose proof (walk_branch dial key x HC) as WB. pose proof (join_split key) as J.
  unfold clean_key in HC. unfold locate, is_well_known.
  destruct (split_on c_slash key) as [|h [|o [|r rest]]] eqn:E;
    try (destruct key; [discriminate|exact WB]).
  destruct (str_eqb h s_github); [|destruct key; [discriminate|exact WB]].
  destruct (dial (join_path [h; o; r])) eqn:D; [|discriminate]. intros X. injection X as <-. split; auto.
  unfold join_path. rewrite rejoin_parts; [exact J|discriminate|]. intros H. apply HC. simpl. auto.
Qed.

Theorem find_repository_sound dial M p x :
  memo_reach dial M -> clean_key (trim_path_version p) ->
  fst (find_project_repository dial M p) = Some x -> rejoin x = trim_path_version p /\ dial (fst x) = true.
Proof. intros HM HC. rewrite find_repository_order_independent by auto. now apply locate_sound. Qed.
