(** Basic lemmas about the containers of Mvs/Model.v (nodes, the selection map, sorting). *)
From Dawn Require Import Mvs.VersionProofs Mvs.Spec.

Ltac splits := repeat match goal with |- _ /\ _ => split end.

Lemma node_eqb_spec a b : reflect (a = b) (node_eqb a b).
Proof.
  destruct a as [p v], b as [q w]. unfold node_eqb; simpl.
  destruct (str_eqb_spec p q); simpl; [|constructor; congruence].
  destruct (version_eqb_spec v w); constructor; congruence.
Qed.

Lemma node_eqb_refl a : node_eqb a a = true.
Proof. destruct (node_eqb_spec a a); congruence. Qed.

Lemma mem_In n l : mem n l = true <-> In n l.
Proof.
  unfold mem. rewrite existsb_exists. split.
  - intros [x [H1 H2]]. destruct (node_eqb_spec n x); subst; auto; discriminate.
  - intros H. exists n. split; auto. apply node_eqb_refl.
Qed.

Lemma mem_false n l : mem n l = false <-> ~ In n l.
Proof. rewrite <- mem_In. destruct (mem n l); split; congruence. Qed.

Lemma str_eqb_sym a b : str_eqb a b = str_eqb b a.
Proof. destruct (str_eqb_spec a b), (str_eqb_spec b a); congruence. Qed.

(** ** selection map *)
Lemma sel_get_set s p v q : sel_get (sel_set s p v) q = if str_eqb p q then v else sel_get s q.
Proof.
  induction s as [|[k w] s IH]; simpl.
  - destruct (str_eqb p q); auto.
  - destruct (str_eqb_spec k p); simpl.
    + subst. destruct (str_eqb p q); auto.
    + rewrite IH. destruct (str_eqb_spec k q), (str_eqb_spec p q); subst; congruence.
Qed.

Lemma sel_get_select s n q :
  sel_get (select s n) q = if str_eqb (fst n) q then vmax (sel_get s q) (snd n) else sel_get s q.
Proof.
  unfold select, vmax. destruct (str_eqb_spec (fst n) q).
  - subst. destruct (vlt (sel_get s (fst n)) (snd n)); auto. now rewrite sel_get_set, str_eqb_refl.
  - destruct (vlt _ _); auto. rewrite sel_get_set. destruct (str_eqb_spec (fst n) q); congruence.
Qed.

Lemma sel_keys_set s p v : map fst (sel_set s p v) = map fst s \/ map fst (sel_set s p v) = map fst s ++ [p].
Proof.
  induction s as [|[k w] s IH]; simpl; auto.
  destruct (str_eqb k p); simpl; auto. destruct IH as [H|H]; rewrite H; auto.
Qed.

Lemma sel_get_notin s p : ~ In p (map fst s) -> sel_get s p = VNone.
Proof.
  induction s as [|[k w] s IH]; simpl; auto. intros H.
  destruct (str_eqb_spec k p); [tauto|]. apply IH; tauto.
Qed.

Lemma sel_set_in_keys s p v : In p (map fst s) -> map fst (sel_set s p v) = map fst s.
Proof.
  induction s as [|[k w] s IH]; simpl; [tauto|]. intros H.
  destruct (str_eqb_spec k p); simpl; auto. f_equal. apply IH. destruct H; congruence.
Qed.

Lemma sel_set_notin_keys s p v : ~ In p (map fst s) -> map fst (sel_set s p v) = map fst s ++ [p].
Proof.
  induction s as [|[k w] s IH]; simpl; auto. intros H.
  destruct (str_eqb_spec k p); simpl; [tauto|]. f_equal. apply IH. tauto.
Qed.

Lemma NoDup_snoc {A} (l : list A) x : NoDup l -> ~ In x l -> NoDup (l ++ [x]).
Proof.
  induction l as [|y l IH]; simpl; intros H1 H2.
  - constructor; auto.
  - inversion H1; subst. constructor.
    + rewrite in_app_iff; simpl. intuition.
    + apply IH; tauto.
Qed.

Lemma sel_set_nodup s p v : NoDup (map fst s) -> NoDup (map fst (sel_set s p v)).
Proof.
  intros H. destruct (in_dec (list_eq_dec N.eq_dec) p (map fst s)).
  - now rewrite sel_set_in_keys.
  - rewrite sel_set_notin_keys by auto. now apply NoDup_snoc.
Qed.

Lemma select_nodup s n : NoDup (map fst s) -> NoDup (map fst (select s n)).
Proof. unfold select. destruct (vlt _ _); auto. apply sel_set_nodup. Qed.

Lemma fold_select_nodup l s : NoDup (map fst s) -> NoDup (map fst (fold_left select l s)).
Proof. revert s; induction l; simpl; auto. intros. apply IHl. now apply select_nodup. Qed.

(** entries of a selection are never "none" when they were put there by [select] *)
Definition no_none (s : smap) : Prop := forall p v, In (p, v) s -> v <> VNone.

Lemma vlt_none_r a : vlt a VNone = false.
Proof. now destruct a. Qed.

Lemma sel_set_entries s p v q w : In (q, w) (sel_set s p v) -> In (q, w) s \/ (q, w) = (p, v) \/ (str_eqb q p = true /\ w = v).
Proof.
  induction s as [|[k x] s IH]; simpl.
  - intros [H|[]]. right; left; congruence.
  - destruct (str_eqb_spec k p); simpl.
    + intros [H|H]; auto. inversion H; subst. right; right. split; auto. apply str_eqb_refl.
    + intros [H|H]; auto. destruct (IH H) as [H'|H']; auto.
Qed.

Lemma select_no_none s n : no_none s -> no_none (select s n).
Proof.
  unfold select. destruct (vlt _ _) eqn:E; auto. intros H q w Hin.
  assert (snd n <> VNone) by (intro X; rewrite X, vlt_none_r in E; discriminate).
  destruct (sel_set_entries _ _ _ _ _ Hin) as [H1|[H1|[_ H1]]]; [eapply H; eauto| inversion H1; subst; auto | subst; auto].
Qed.

Lemma fold_select_no_none l s : no_none s -> no_none (fold_left select l s).
Proof. revert s; induction l; simpl; auto. intros. apply IHl. now apply select_no_none. Qed.

(** with unique keys, the entries are exactly the graph of [sel_get] *)
Lemma sel_entry_get s p v : NoDup (map fst s) -> In (p, v) s -> sel_get s p = v.
Proof.
  induction s as [|[k w] s IH]; simpl; [tauto|]. intros ND [H|H].
  - inversion H; subst. now rewrite str_eqb_refl.
  - inversion ND; subst. destruct (str_eqb_spec k p); auto. subst. exfalso. apply H2. now apply (in_map fst _ (p, v)).
Qed.

Lemma sel_get_entry s p : In p (map fst s) -> In (p, sel_get s p) s.
Proof.
  induction s as [|[k w] s IH]; simpl; [tauto|]. intros H.
  destruct (str_eqb_spec k p); subst; auto. right. apply IH. destruct H; congruence.
Qed.

(** ** the running maximum *)
Lemma fold_select_mono l s p : vle (sel_get s p) (sel_get (fold_left select l s) p) = true.
Proof.
  revert s; induction l as [|n l IH]; simpl; intros; [apply vle_refl|].
  eapply vle_trans; [|apply IH]. rewrite sel_get_select. destruct (str_eqb _ _); [apply vmax_l | apply vle_refl].
Qed.

Lemma fold_select_covers l s n : In n l -> vle (snd n) (sel_get (fold_left select l s) (fst n)) = true.
Proof.
  revert s; induction l as [|m l IH]; simpl; [tauto|]. intros s [H|H]; auto. subst m.
  eapply vle_trans; [|apply fold_select_mono]. rewrite sel_get_select, str_eqb_refl. apply vmax_r.
Qed.

Lemma fold_select_from l s p :
  sel_get (fold_left select l s) p = sel_get s p \/ In (p, sel_get (fold_left select l s) p) l.
Proof.
  revert s; induction l as [|m l IH]; simpl; auto. intros s.
  destruct (IH (select s m)) as [H|H]; auto. rewrite H, sel_get_select.
  destruct (str_eqb_spec (fst m) p); auto. unfold vmax. destruct (vlt _ _); auto.
  right. left. destruct m; simpl in *; congruence.
Qed.

(** ** path order and sorting *)
Lemma str_ltb_irrefl a : str_ltb a a = false.
Proof. unfold str_ltb. now rewrite (good_refl _ good_str). Qed.

Lemma str_ltb_trans a b c : str_ltb a b = true -> str_ltb b c = true -> str_ltb a c = true.
Proof.
  unfold str_ltb. intros H1 H2.
  destruct (str_cmp a b) eqn:E1; try discriminate. destruct (str_cmp b c) eqn:E2; try discriminate.
  now rewrite (g_trans _ good_str _ _ _ E1 E2).
Qed.

Lemma str_ltb_total a b : str_ltb a b = false -> str_ltb b a = false -> a = b.
Proof.
  unfold str_ltb. rewrite (g_anti _ good_str a b). intros H1 H2.
  apply (g_eq _ good_str). destruct (str_cmp a b); simpl in *; congruence.
Qed.

Lemma str_ltb_asym a b : str_ltb a b = true -> str_ltb b a = false.
Proof.
  intros H. destruct (str_ltb b a) eqn:E; auto. pose proof (str_ltb_trans _ _ _ H E). now rewrite str_ltb_irrefl in H0.
Qed.

Lemma str_ltb_nil a : a <> [] -> str_ltb [] a = true.
Proof. destruct a; [congruence | reflexivity]. Qed.

Lemma path_lt_trans a b c : path_lt a b -> path_lt b c -> path_lt a c.
Proof. unfold path_lt. apply str_ltb_trans. Qed.

Lemma insert_node_In n l x : In x (insert_node n l) <-> x = n \/ In x l.
Proof.
  induction l as [|m l IH]; simpl; [intuition|].
  destruct (str_ltb (fst m) (fst n)); simpl; rewrite ?IH; intuition.
Qed.

Lemma insert_node_sorted n l :
  StronglySorted path_lt l -> ~ In (fst n) (map fst l) -> StronglySorted path_lt (insert_node n l).
Proof.
  induction l as [|m l IH]; simpl; intros S Hn.
  - constructor; constructor.
  - apply StronglySorted_inv in S. destruct S as [S F]. destruct (str_ltb (fst m) (fst n)) eqn:E.
    + constructor; [apply IH; tauto|]. apply Forall_forall. intros x Hx. apply insert_node_In in Hx.
      destruct Hx as [Hx|Hx]; [subst; exact E|]. rewrite Forall_forall in F. auto.
    + assert (L : path_lt n m).
      { unfold path_lt. destruct (str_ltb (fst n) (fst m)) eqn:E2; auto.
        exfalso. apply Hn. left. now apply str_ltb_total. }
      constructor; [constructor; auto|]. constructor; auto. rewrite Forall_forall in *. intros x Hx. eapply path_lt_trans; eauto.
Qed.

Lemma sort_nodes_In l x : In x (sort_nodes l) <-> In x l.
Proof.
  induction l as [|n l IH]; simpl; [tauto|]. rewrite insert_node_In, IH. intuition.
Qed.

Lemma sort_nodes_sorted l : NoDup (map fst l) -> StronglySorted path_lt (sort_nodes l).
Proof.
  induction l as [|n l IH]; simpl; intros ND; [constructor|]. inversion ND; subst.
  apply insert_node_sorted; auto. intros H. apply H1.
  apply in_map_iff in H. destruct H as (x & Hx1 & Hx2). apply (proj1 (sort_nodes_In l x)) in Hx2.
  rewrite <- Hx1. now apply in_map.
Qed.

Lemma sorted_unique (l1 l2 : list node) :
  StronglySorted path_lt l1 -> StronglySorted path_lt l2 -> (forall x, In x l1 <-> In x l2) -> l1 = l2.
Proof.
  revert l2; induction l1 as [|a l1 IH]; intros l2 S1 S2 H.
  - destruct l2 as [|b l2]; auto. exfalso. apply (H b). now left.
  - destruct l2 as [|b l2]; [exfalso; apply (H a); now left|].
    apply StronglySorted_inv in S1. destruct S1 as [S1 F1].
    apply StronglySorted_inv in S2. destruct S2 as [S2 F2].
    rewrite Forall_forall in F1, F2.
    assert (a = b).
    { destruct (proj1 (H a) (or_introl eq_refl)) as [E|E]; auto.
      destruct (proj2 (H b) (or_introl eq_refl)) as [E'|E']; auto.
      exfalso. pose proof (F2 _ E) as X. pose proof (F1 _ E') as Y. unfold path_lt in *.
      rewrite (str_ltb_asym _ _ X) in Y. discriminate. }
    subst b. f_equal. apply IH; auto. intros x. split; intros Hx.
    + destruct (proj1 (H x) (or_intror Hx)) as [E|E]; auto. subst x.
      exfalso. pose proof (F1 _ Hx) as X. unfold path_lt in X. now rewrite str_ltb_irrefl in X.
    + destruct (proj2 (H x) (or_intror Hx)) as [E|E]; auto. subst x.
      exfalso. pose proof (F2 _ Hx) as X. unfold path_lt in X. now rewrite str_ltb_irrefl in X.
Qed.

Lemma sorted_nodup_keys l : StronglySorted path_lt l -> NoDup (map fst l).
Proof.
  induction l as [|a l IH]; simpl; intros S; [constructor|].
  apply StronglySorted_inv in S. destruct S as [S F]. constructor; auto.
  intros Hin. apply in_map_iff in Hin. destruct Hin as (x & E & Hx).
  rewrite Forall_forall in F. pose proof (F _ Hx) as X. unfold path_lt in X. rewrite E in X.
  now rewrite str_ltb_irrefl in X.
Qed.

(** dawn's list -> map conversion is the identity on a strictly sorted list *)
Lemma map_set_snoc m p v : (forall e, In e m -> str_ltb (fst e) p = true) -> map_set m p v = m ++ [(p, v)].
Proof.
  induction m as [|[q w] m IH]; simpl; auto. intros H.
  assert (L : str_ltb q p = true) by (apply (H (q, w)); auto).
  destruct (str_eqb_spec q p); [subst; now rewrite str_ltb_irrefl in L|].
  rewrite L. f_equal. apply IH. intros; apply H; auto.
Qed.

Lemma to_map_sorted_gen l : forall acc,
  StronglySorted path_lt (acc ++ l) ->
  fold_left (fun m n => map_set m (fst n) (snd n)) l acc = acc ++ l.
Proof.
  induction l as [|n l IH]; intros acc S; simpl; [now rewrite app_nil_r|].
  rewrite map_set_snoc.
  - destruct n as [p v]; simpl. rewrite IH; rewrite <- app_assoc; simpl; auto.
  - intros e He. clear IH. induction acc as [|a acc IHa]; simpl in *; [tauto|].
    apply StronglySorted_inv in S. destruct S as [S F]. destruct He as [He|He]; auto. subst a.
    rewrite Forall_forall in F. apply (F n). rewrite in_app_iff; simpl; auto.
Qed.

Lemma to_map_sorted l : StronglySorted path_lt l -> to_map l = l.
Proof. intros S. unfold to_map. exact (to_map_sorted_gen l [] S). Qed.
